(* C05 - the CBOR parser reads every item of the supported subset with its RFC 7049 value.
   Statements only; proofs are in Cbor/ConformanceProofs.v. *)
From SF Require Import Base.Prelude Core.Events Cbor.Spec Cbor.Parse Cbor.ConformanceProofs Cbor.ComposeProofs.

(* Whenever the reference decoder (Cbor/Spec.v, written from RFC 7049 sections 2.1-2.3 for
   the supported subset: every argument width minimal or not, negative integers down to
   -2^63, single and double floats, false/true/null/undefined, definite text and byte
   strings, definite and indefinite arrays, maps with text keys, any nesting) accepts the
   whole input as one item with value v, the parser model accepts it and its events are a
   well-formed stream whose value is exactly v.  (Inputs are shorter than 2^63 bytes.) *)
Theorem C05_accept : forall b v, all_bytes b = true -> (zlen b <=? MaxInt64) = true ->
  cbor_decode b = RValue v [] ->
  exists evs t, run_parse None b = Ok (evs, nilE) /\ stream_tree evs = Some t /\
                wf_tree t = true /\ cv (value_of t) = v.
Proof. exact ConformanceProofs.C05_accept. Qed.
Print Assumptions C05_accept.

(* Items outside the subset (negative integers below -2^63, tags, half floats and other
   simple values, indefinite-length strings, non-text keys) are refused with an error and
   never reported as some other value; so is everything that is not well-formed CBOR. *)
Theorem C05_refuse : forall b, all_bytes b = true -> (zlen b <=? MaxInt64) = true ->
  cbor_decode b = RUnsupported -> exists evs e, run_parse None b = Ok (evs, e) /\ e <> nilE.
Proof. exact ConformanceProofs.C05_refuse. Qed.
Print Assumptions C05_refuse.

Theorem C05_malformed : forall b, all_bytes b = true -> (zlen b <=? MaxInt64) = true ->
  cbor_decode b = RMalformed -> exists evs e, run_parse None b = Ok (evs, e) /\ e <> nilE.
Proof. exact ConformanceProofs.C05_malformed. Qed.
Print Assumptions C05_malformed.

(* Exactly the reference-valid inputs are accepted. *)
Theorem C05_accept_iff : forall b, all_bytes b = true -> (zlen b <=? MaxInt64) = true ->
  ((exists evs, run_parse None b = Ok (evs, nilE)) <-> (exists vs, cbor_decode_all (S (length b)) b = Some vs)).
Proof. exact C05_cbor_accept_iff. Qed.
Print Assumptions C05_accept_iff.

Example C05_nonvacuous :   (* -200 in a two-byte argument, inside an indefinite array *)
  cbor_decode [159; 56; 199; 255] = RValue (CArr [CNum (CInt (-200))]) [].
Proof. vm_compute. reflexivity. Qed.
