(* C03 - parsers survive arbitrary bytes: no panic, no hang, bounded memory.
   Statements only; proofs are in Cbor/ParseSafety.v. *)
From SF Require Import Base.Prelude Core.Events Cbor.Parse Cbor.ParseSafety.

(* CBOR parser model: for every byte string, every chunking and every visitor-failure
   index the run returns events and a verdict - it is never [Panic] (no Go index or slice
   expression of the transcribed code can fail) and never [OutOfFuel] (the loops terminate
   within the linear fuel 8*len+16 per write). *)
Theorem C03_cbor_chunks_total : forall vfail chunks, forallb all_bytes chunks = true ->
  exists evs e, run_chunks vfail chunks = Ok (evs, e).
Proof. exact ParseSafety.C03_cbor_chunks_total. Qed.
Print Assumptions C03_cbor_chunks_total.

Theorem C03_cbor_parse_total : forall vfail b, all_bytes b = true ->
  exists evs e, run_parse vfail b = Ok (evs, e).
Proof. exact ParseSafety.C03_cbor_parse_total. Qed.
Print Assumptions C03_cbor_parse_total.

(* Memory: what the parser retains (pending-token buffer, state stack, length stack) is
   bounded by the bytes actually received - never by a length field of the input. *)
Theorem C03_cbor_space : forall vfail chunks p s e, forallb all_bytes chunks = true ->
  p_writes cparser0 (sink0 vfail) chunks = Ok (p, s, e) ->
  (length (p_buf p) <= length (concat chunks))%nat /\
  (length (p_stack p) <= 3 * length (concat chunks))%nat /\
  (length (p_lstack p) <= length (concat chunks))%nat.
Proof. exact ParseSafety.C03_cbor_space. Qed.
Print Assumptions C03_cbor_space.
