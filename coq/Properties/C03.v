(* C03 - parsers survive arbitrary bytes: no panic, no hang, bounded memory.
   Statements only; proofs are in Cbor/ParseSafety.v, Cbor/ConformanceProofs.v, Json/ParseSafety.v. *)
From SF Require Import Base.Prelude Core.Events Cbor.Spec Cbor.Parse Cbor.ParseSafety Cbor.ConformanceProofs Json.Parse Json.ParseSafety Ubjson.Parse.
From SF Require Ubjson.ParseSafety.

(* CBOR parser model: for every byte string, every chunking and every visitor-failure
   index the run returns events and a verdict - it is never [Panic] (no Go index or slice
   expression of the transcribed code can fail) and never [OutOfFuel] (the loops terminate
   within the linear fuel 8*len+16 per write). *)
Theorem C03_cbor_chunks_total : forall vfail chunks, forallb all_bytes chunks = true ->
  exists evs e, run_chunks vfail chunks = Ok (evs, e).
Proof. exact ParseSafety.C03_cbor_chunks_total. Qed.
Print Assumptions C03_cbor_chunks_total.

Theorem C03_cbor_parse_total : forall vfail b, all_bytes b = true ->
  exists evs e, run_parse vfail b = Ok (evs, e).
Proof. exact ParseSafety.C03_cbor_parse_total. Qed.
Print Assumptions C03_cbor_parse_total.

(* Memory: what the parser retains (pending-token buffer, state stack, length stack) is
   bounded by the bytes actually received - never by a length field of the input. *)
Theorem C03_cbor_space : forall vfail chunks p s e, forallb all_bytes chunks = true ->
  p_writes cparser0 (sink0 vfail) chunks = Ok (p, s, e) ->
  (length (p_buf p) <= length (concat chunks))%nat /\
  (length (p_stack p) <= 3 * length (concat chunks))%nat /\
  (length (p_lstack p) <= length (concat chunks))%nat.
Proof. exact ParseSafety.C03_cbor_space. Qed.
Print Assumptions C03_cbor_space.

(* Input that ends in the middle of a value is reported as an error by the one-shot
   Parse (every non-empty input the RFC reference decoder classifies as truncated). *)
Theorem C03_cbor_truncated_is_error : forall b, all_bytes b = true -> (zlen b <=? MaxInt64) = true -> b <> [] ->
  cbor_decode b = RTruncated -> exists evs e, run_parse None b = Ok (evs, e) /\ e <> nilE.
Proof. exact C03_cbor_trunc. Qed.
Print Assumptions C03_cbor_truncated_is_error.

(* JSON parser model, for every float-parsing oracle [pf]: never Panic (in particular the
   string unescaper never indexes beyond its input: short \u escapes, lone surrogates,
   an escape at the very end), never OutOfFuel; retained state is bounded by the input. *)
Theorem C03_json_chunks_total : forall (pf : bytes -> option Z) vfail chunks,
  exists evs e p, jrun_chunks pf vfail chunks = Ok (evs, e, p).
Proof. exact C03_json_chunks_total_any. Qed.
Print Assumptions C03_json_chunks_total.

Theorem C03_json_parse_total : forall (pf : bytes -> option Z) vfail b,
  exists evs e p, jrun_parse pf vfail b = Ok (evs, e, p).
Proof. exact C03_json_parse_total_any. Qed.
Print Assumptions C03_json_parse_total.

Theorem C03_json_unquote_safe : forall s, unquote s <> UQCrash.
Proof. exact unquote_safe_any. Qed.
Print Assumptions C03_json_unquote_safe.

Theorem C03_json_space : forall (pf : bytes -> option Z) vfail chunks evs e p,
  jrun_chunks pf vfail chunks = Ok (evs, e, p) ->
  (length (jp_lit p) <= length (concat chunks))%nat /\
  (length (jp_states p) <= length (concat chunks))%nat.
Proof. exact ParseSafety.C03_json_space. Qed.
Print Assumptions C03_json_space.

(* A sign without digits is no number: "-", "+", "[-]" and "[+]" are refused, for every float
   oracle and every visitor behaviour (before the repair of reportNumber the lone sign was
   delivered as the integer 0). *)
From SF Require Json.AcceptedProofs.
Theorem C03_json_lone_sign_rejected : forall (pf : bytes -> option Z) vfail b,
  b = [45] \/ b = [43] \/ b = [91; 45; 93] \/ b = [91; 43; 93] ->
  exists evs e p, jrun_parse pf vfail b = Ok (evs, e, p) /\ e <> jpnil.
Proof. exact SF.Json.AcceptedProofs.C03_json_lone_sign_rejected. Qed.
Print Assumptions C03_json_lone_sign_rejected.

(* UBJSON parser model: never Panic, for every input, chunking and visitor-failure index
   (unconditional); never OutOfFuel unless the input contains a "$Z", "$T" or "$F" byte pair -
   the recorded finding F2, which is real: C03_ubj_zero_typed_refuted; retained state linear
   in the bytes received. *)
Theorem C03_ubj_no_panic : forall vfail chunks, forallb all_bytes chunks = true ->
  match urun_chunks vfail chunks with Panic _ => False | _ => True end.
Proof. exact SF.Ubjson.ParseSafety.C03_ubj_no_panic. Qed.
Print Assumptions C03_ubj_no_panic.

Theorem C03_ubj_chunks_total : forall vfail chunks, forallb all_bytes chunks = true ->
  SF.Ubjson.ParseSafety.no_zero_typed (concat chunks) = true -> exists evs e p, urun_chunks vfail chunks = Ok (evs, e, p).
Proof. exact SF.Ubjson.ParseSafety.C03_ubj_chunks_total. Qed.
Print Assumptions C03_ubj_chunks_total.

Theorem C03_ubj_zero_typed_refuted : exists b, all_bytes b = true /\ urun_parse None b = OutOfFuel.
Proof. exact SF.Ubjson.ParseSafety.C03_ubj_zero_typed_refuted. Qed.
Print Assumptions C03_ubj_zero_typed_refuted.

Theorem C03_ubj_space : forall vfail chunks p s err, forallb all_bytes chunks = true ->
  up_writes uparser0 (sink0 vfail) chunks = Ok (p, s, err) -> u_t (up_cur p) <> tFail ->
  (length (up_buf p) + length (up_stack p) + length (up_vstack p) + length (up_lstack p)
     <= 3 * length (concat chunks))%nat.
Proof. exact SF.Ubjson.ParseSafety.C03_ubj_space. Qed.
Print Assumptions C03_ubj_space.

(* Pull decoders (the statements are those of Properties/C18.v; repeated here because C03
   speaks about the decoders too): over ANY reader script - any read sizes, empty reads, any
   error code at any read - and for any visitor behaviour, Next returns: it never crashes and
   never runs out of fuel.  JSON: from any parser state satisfying the invariant of the safety
   proof; UBJSON: no crash unconditionally, termination under the guard that excludes finding
   F2; CBOR: see C18_cbor_next_total. *)
From SF Require Json.Parse Json.ParseSafety Json.ParseVisitorProofs Ubjson.Parse Ubjson.ParseVisitorProofs.
Theorem C03_json_decoder_total : forall (pf : bytes -> option Z) fuel d s,
  SF.Json.ParseSafety.inv (SF.Json.Parse.jd_p d) -> (SF.Json.ParseVisitorProofs.jmeasure d < fuel)%nat ->
  exists d' s' e, SF.Json.Parse.jdec_next fuel pf d s = Ok (d', s', e) /\
    (e = SF.Json.Parse.jpnil -> SF.Json.ParseSafety.inv (SF.Json.Parse.jd_p d')) /\
    (SF.Json.ParseVisitorProofs.jmeasure d' <= SF.Json.ParseVisitorProofs.jmeasure d)%nat.
Proof. exact SF.Json.ParseVisitorProofs.C18_json_next_total. Qed.
Print Assumptions C03_json_decoder_total.

Theorem C03_ubj_decoder_no_panic : forall fuel sc s w,
  SF.Ubjson.Parse.udec_next fuel (SF.Ubjson.ParseVisitorProofs.ureader_dec sc) s <> Panic w.
Proof. exact SF.Ubjson.ParseVisitorProofs.C18_ubj_reader_no_panic. Qed.
Print Assumptions C03_ubj_decoder_no_panic.
