(* C01 - encode-then-decode preserves every value in JSON, UBJSON and CBOR.
   Statements only; proofs are in Cbor/ComposeProofs.v (CBOR: composition of the encoder
   round trip C07, the parser conformance C05 and chunk independence C02). *)
From SF Require Import Base.Prelude Core.Events Cbor.Spec Cbor.Enc Cbor.Parse Cbor.ConformanceProofs Cbor.ComposeProofs.
From SF Require Cbor.RoundtripProofs.

(* CBOR.  For every well-formed tree (any nesting and shape, every scalar kind, announced
   and unknown lengths, extended events, by-reference strings) the encoder model produces
   bytes which the parser model - fed in ANY chunking - accepts, reporting a well-formed
   stream with the same value: identical nesting, keys in order, strings byte for byte,
   integers exact, floats bit-exact (cv forgets only integer width, known/unknown length
   and extended-vs-expanded form - the representation changes the property allows).
   (The output must be shorter than 2^63 bytes, as every Go slice is.) *)
Theorem C01_cbor : forall t, wf_tree t = true -> SF.Cbor.RoundtripProofs.tree_small t = true ->
  exists bs, cbor_encode (flatten t) = Some bs /\ all_bytes bs = true /\
    ((zlen bs <=? MaxInt64) = true ->
     forall cs, concat cs = bs ->
       exists evs t', run_chunks None cs = Ok (evs, nilE) /\ stream_tree evs = Some t' /\
                      wf_tree t' = true /\ cv (value_of t') = cv (value_of t)).
Proof. exact SF.Cbor.ComposeProofs.C01_cbor. Qed.
Print Assumptions C01_cbor.

(* Streams of several documents through one encoder and one parser. *)
Theorem C01_cbor_stream : forall ts, forallb wf_tree ts = true -> forallb SF.Cbor.RoundtripProofs.tree_small ts = true ->
  exists bs, cbor_encode (flat_map flatten ts) = Some bs /\ all_bytes bs = true /\
    ((zlen bs <=? MaxInt64) = true -> forall cs, concat cs = bs ->
       exists ts', run_chunks None cs = Ok (flat_map flatten ts', nilE) /\ forallb wf_tree ts' = true /\
                   map (fun t => cv (value_of t)) ts' = map (fun t => cv (value_of t)) ts).
Proof. exact SF.Cbor.ComposeProofs.C01_cbor_stream. Qed.
Print Assumptions C01_cbor_stream.

(* UBJSON.  For every well-formed tree the encoder model's output is accepted by the parser
   model - Parse, and every chunking that returns - with a well-formed stream whose value is
   [ubj_img t]: the stream's value with the representation change the property allows
   (integers above MaxInt64 as decimal strings; Ubjson/Img.v also carries the recorded
   finding F1 for typed unsigned containers).  Side conditions on the OUTPUT: shorter than
   2^63 bytes, and the resource guard of C06/C03 (finding F2); the guard is not derivable from
   the tree because it also scans string payloads (SF.Core.ComposeProofs.guard_not_derivable). *)
From SF Require Ubjson.Spec Ubjson.Enc Ubjson.Img Ubjson.Parse Ubjson.RoundtripProofs Ubjson.ConformanceProofs Core.ComposeProofs.
Theorem C01_ubj : forall t, wf_tree t = true -> SF.Ubjson.RoundtripProofs.tree_small t = true ->
  exists bs, SF.Ubjson.Enc.ubj_encode (flatten t) = Some bs /\ all_bytes bs = true /\
    ((zlen bs <=? MaxInt64) = true -> SF.Ubjson.ConformanceProofs.no_huge_zero_typed bs = true ->
     exists evs t' p, SF.Ubjson.Parse.urun_parse None bs = Ok (evs, SF.Ubjson.Parse.unilE, p) /\ stream_tree evs = Some t' /\
       wf_tree t' = true /\ cv (value_of t') = SF.Ubjson.Img.ubj_img t /\
       forall cs r, concat cs = bs -> SF.Ubjson.Parse.urun_chunks None cs = Ok r -> fst r = (evs, SF.Ubjson.Parse.unilE)).
Proof. exact SF.Core.ComposeProofs.C01_ubj. Qed.
Print Assumptions C01_ubj.

(* JSON.  For every well-formed tree with finite floats (or ignoreInvalidFloat), under every
   option setting, the encoder model's text is accepted by the parser model - Parse and EVERY
   chunking - with a well-formed stream whose value is [json_img cfg t] (strings sanitized to
   valid UTF-8, integers exact, non-finite floats null, finite floats as strconv round-trips
   them).  The hypotheses speak about strconv only (the same as C07_json and C04_accept). *)
From SF Require Json.Spec Json.Enc Json.Parse Json.EncProofs Json.RoundtripProofs.
Section C01Json.
  Import SF.Json.Spec SF.Json.Enc SF.Json.Parse.
  Variable ffmt : Z -> Z -> bytes.
  Variable pf : bytes -> option Z.
  Variable fimg : Z -> Z -> cnum.
  Variable fbits_r : Z -> Z -> Z.
  Hypothesis ffmt_number : forall w bits, w = 32 \/ w = 64 -> in_u w bits = true -> nonfinite w bits = false ->
     exists isint, json_number (ffmt w bits) = NumOk (ffmt w bits) isint [] /\
                   json_num_value pf (ffmt w bits) isint = Some (fimg w bits).
  Hypothesis ffmt_chars : forall w bits, w = 32 \/ w = 64 -> in_u w bits = true -> nonfinite w bits = false ->
     Forall (fun c => In c SF.Json.EncProofs.fchars) (ffmt w bits).
  Hypothesis pf_radix : forall w bits, w = 32 \/ w = 64 -> in_u w bits = true -> nonfinite w bits = false ->
     snd (radix_scan (ffmt w bits) 0) = true ->
     pf (SF.Json.RoundtripProofs.radix_patch (ffmt w bits)) = Some (fbits_r w bits).
  Hypothesis pf_ok : forall l z, pf l = Some z -> in_u 64 z = true.

  Theorem C01_json : forall cfg t, wf_tree t = true ->
    (ignore_invalid cfg = true \/ SF.Json.EncProofs.tree_finite t = true) ->
    exists e' evs t' p,
      json_run cfg ffmt (jenc0 None) (flatten t) 0 = JRun e' None /\
      all_bytes (w_bytes (je_w e')) = true /\
      jrun_parse pf None (w_bytes (je_w e')) = Ok (evs, jpnil, p) /\
      stream_tree evs = Some t' /\ wf_tree t' = true /\
      cv (value_of t') = SF.Json.RoundtripProofs.json_img ffmt fimg (fun w bits => CF64 (fbits_r w bits)) cfg t /\
      forall cs, concat cs = w_bytes (je_w e') -> exists p', jrun_chunks pf None cs = Ok (evs, jpnil, p').
  Proof. exact (SF.Core.ComposeProofs.C01_json ffmt pf fimg fbits_r ffmt_number ffmt_chars pf_radix pf_ok). Qed.
End C01Json.
Print Assumptions C01_json.

(* non-vacuity: the four strconv hypotheses are satisfiable together (toy oracles), and a
   pipeline UBJSON -> CBOR -> JSON -> UBJSON with chunked parsing computes as stated *)
Theorem C01_json_hypotheses_satisfiable : forall cfg t, wf_tree t = true ->
  (SF.Json.Enc.ignore_invalid cfg = true \/ SF.Json.EncProofs.tree_finite t = true) ->
  exists e', SF.Json.Enc.json_run cfg SF.Core.ComposeProofs.ComposeExamples.toy_ffmt (SF.Json.Enc.jenc0 None) (flatten t) 0 = SF.Json.Enc.JRun e' None.
Proof.
  intros cfg t H1 H2. destruct (SF.Core.ComposeProofs.ComposeExamples.C01_json_toy cfg t H1 H2) as (e' & _ & _ & _ & H & _).
  exists e'. exact H.
Qed.
Print Assumptions C01_json_hypotheses_satisfiable.
