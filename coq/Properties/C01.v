(* C01 - encode-then-decode preserves every value in JSON, UBJSON and CBOR.
   Statements only; proofs are in Cbor/ComposeProofs.v (CBOR: composition of the encoder
   round trip C07, the parser conformance C05 and chunk independence C02). *)
From SF Require Import Base.Prelude Core.Events Cbor.Spec Cbor.Enc Cbor.Parse Cbor.ConformanceProofs Cbor.ComposeProofs.
From SF Require Cbor.RoundtripProofs.

(* CBOR.  For every well-formed tree (any nesting and shape, every scalar kind, announced
   and unknown lengths, extended events, by-reference strings) the encoder model produces
   bytes which the parser model - fed in ANY chunking - accepts, reporting a well-formed
   stream with the same value: identical nesting, keys in order, strings byte for byte,
   integers exact, floats bit-exact (cv forgets only integer width, known/unknown length
   and extended-vs-expanded form - the representation changes the property allows).
   (The output must be shorter than 2^63 bytes, as every Go slice is.) *)
Theorem C01_cbor : forall t, wf_tree t = true -> SF.Cbor.RoundtripProofs.tree_small t = true ->
  exists bs, cbor_encode (flatten t) = Some bs /\ all_bytes bs = true /\
    ((zlen bs <=? MaxInt64) = true ->
     forall cs, concat cs = bs ->
       exists evs t', run_chunks None cs = Ok (evs, nilE) /\ stream_tree evs = Some t' /\
                      wf_tree t' = true /\ cv (value_of t') = cv (value_of t)).
Proof. exact ComposeProofs.C01_cbor. Qed.
Print Assumptions C01_cbor.

(* Streams of several documents through one encoder and one parser. *)
Theorem C01_cbor_stream : forall ts, forallb wf_tree ts = true -> forallb SF.Cbor.RoundtripProofs.tree_small ts = true ->
  exists bs, cbor_encode (flat_map flatten ts) = Some bs /\ all_bytes bs = true /\
    ((zlen bs <=? MaxInt64) = true -> forall cs, concat cs = bs ->
       exists ts', run_chunks None cs = Ok (flat_map flatten ts', nilE) /\ forallb wf_tree ts' = true /\
                   map (fun t => cv (value_of t)) ts' = map (fun t => cv (value_of t)) ts).
Proof. exact ComposeProofs.C01_cbor_stream. Qed.
Print Assumptions C01_cbor_stream.
