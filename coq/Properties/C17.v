(* C17 - a reused parser, encoder, iterator or unfolder behaves like a fresh one.
   Statements only; proofs are in Cbor/RoundtripProofs.v. *)
From SF Require Import Base.Prelude Core.Events Cbor.Enc Cbor.RoundtripProofs.

(* CBOR encoder: completing any well-formed document returns the length stack (the
   encoder's only nesting state) to exactly what it was before, from any state. *)
Theorem C17_cbor_enc_idle : forall t e i, wf_tree t = true -> tree_small t = true ->
  w_fail (ce_w e) = None ->
  exists e', cbor_run e (flatten t) i = (e', None) /\ ce_len e' = ce_len e.
Proof. exact RoundtripProofs.C17_cbor_enc_idle. Qed.
Print Assumptions C17_cbor_enc_idle.
