(* C17 - a reused parser, encoder, iterator or unfolder behaves like a fresh one.
   Statements only; proofs are in Cbor/RoundtripProofs.v. *)
From SF Require Import Base.Prelude Core.Events Cbor.Enc Cbor.RoundtripProofs Json.Enc Json.EncProofs Ubjson.Enc Ubjson.EncProofs Cbor.Parse Cbor.ConformanceProofs Cbor.ComposeProofs.

(* CBOR encoder: completing any well-formed document returns the length stack (the
   encoder's only nesting state) to exactly what it was before, from any state. *)
Theorem C17_cbor_enc_idle : forall t e i, wf_tree t = true -> tree_small t = true ->
  w_fail (ce_w e) = None ->
  exists e', cbor_run e (flatten t) i = (e', None) /\ ce_len e' = ce_len e.
Proof. exact RoundtripProofs.C17_cbor_enc_idle. Qed.
Print Assumptions C17_cbor_enc_idle.

(* JSON encoder: after any well-formed document the two flag stacks (first element /
   inside array) are idle again; from ANY state they are restored up to the enclosing
   array's first-flag, which is cleared as for any value. *)
Theorem C17_json_enc_idle : forall (ffmt : Z -> Z -> bytes) cfg t, wf_tree t = true ->
  (ignore_invalid cfg = true \/ tree_finite t = true) ->
  exists e', json_run cfg ffmt (jenc0 None) (flatten t) 0 = JRun e' None /\ je_first e' = bs0 /\ je_inarr e' = bs0.
Proof. exact EncProofs.C17_json_enc_idle. Qed.
Print Assumptions C17_json_enc_idle.

Theorem C17_json_enc_any_state : forall (ffmt : Z -> Z -> bytes) cfg t,
  (ignore_invalid cfg = true \/ tree_finite t = true) ->
  forall e i, w_fail (je_w e) = None ->
  exists e', json_run cfg ffmt e (flatten t) i = JRun e' None /\
     je_first e' = after_val e /\ je_inarr e' = je_inarr e /\ w_fail (je_w e') = None.
Proof. intros ffmt cfg t H. exact (json_enc_tree_exact ffmt cfg t H). Qed.
Print Assumptions C17_json_enc_any_state.

(* UBJSON encoder: the length stack is restored by every complete value, from any state
   (no well-formedness needed). *)
Theorem C17_ubj_enc_idle : forall t e i, w_fail (ue_w e) = None ->
  exists e', ubj_run e (flatten t) i = (e', None) /\ ue_len e' = ue_len e.
Proof. exact C17_ubj_enc_idle_any. Qed.
Print Assumptions C17_ubj_enc_idle.

(* CBOR parser: after any accepted input (any number of documents, any chunking) the parser
   is exactly the initial parser again - every field - so the next document is parsed as
   by a fresh instance. *)
Theorem C17_cbor_parser_idle : forall cs s p' s', all_bytes (concat cs) = true -> (zlen (concat cs) <=? MaxInt64) = true ->
  s_fail s = None -> p_writes cparser0 s cs = Ok (p', s', nilE) -> p' = cparser0.
Proof. intros cs s p' s' H1 H2 H3 H4. exact (proj1 (C17_cbor_parser_idle_chunks cs s p' s' H1 H2 H3 H4)). Qed.
Print Assumptions C17_cbor_parser_idle.

(* Unfolder: a completed document is consumed exactly - for every target type, previous
   content and following events - its result does not depend on what follows, and two
   documents in sequence are processed as the first alone followed by the second. *)
From SF Require Gotype.Types Gotype.Unfold Gotype.UnfoldProofs.
Theorem C17_unfold_exact : forall tr fuel t old rest v r,
  SF.Gotype.Unfold.uf fuel t old (flatten (SF.Core.AdapterProofs.expand_tree tr) ++ rest) = SF.Gotype.Unfold.UOk v r -> r = rest.
Proof. exact SF.Gotype.UnfoldProofs.C17_exact. Qed.
Print Assumptions C17_unfold_exact.

Theorem C17_unfold_rest_independent : forall tr fuel t old rest1 v r,
  SF.Gotype.Unfold.uf fuel t old (flatten (SF.Core.AdapterProofs.expand_tree tr) ++ rest1) = SF.Gotype.Unfold.UOk v r ->
  forall fuel2 rest2, (fuel <= fuel2)%nat ->
    SF.Gotype.Unfold.uf fuel2 t old (flatten (SF.Core.AdapterProofs.expand_tree tr) ++ rest2) = SF.Gotype.Unfold.UOk v rest2.
Proof. exact SF.Gotype.UnfoldProofs.C17_rest_independent. Qed.
Print Assumptions C17_unfold_rest_independent.

Theorem C17_unfold_sequence : forall tr t old v,
  SF.Gotype.Unfold.unfold_value t old (flatten tr) = SF.Gotype.Unfold.UDone v ->
  forall evs2 fuel2, (S (S (2 * length (flat_map expand (flatten tr)))) + SF.Gotype.Unfold.ftsize t <= fuel2)%nat ->
    SF.Gotype.Unfold.uf fuel2 t old (flat_map expand (flatten tr ++ evs2)) = SF.Gotype.Unfold.UOk v (flat_map expand evs2).
Proof. exact SF.Gotype.UnfoldProofs.C17_sequence. Qed.
Print Assumptions C17_unfold_sequence.

(* UBJSON parser.  After ANY accepted input (Parse, or Write ... Write then end; any visitor
   behaviour) the state stack is empty, the parser is in its start state, nothing is buffered,
   no length marker is pending and no error is latched ([top]).  For inputs without zero-sized
   typed containers the valueState stack is empty too; for every document the reference
   decoder accepts, ALL fields are those of the initial parser except the element-type field
   [up_vtype], which is written before it is read.
   PARTIAL: emptiness of the length stack for parser-accepted inputs the reference decoder does
   not accept, and the behavioural form (reused = fresh on the next document) are decided by
   the run-time part (kind histubj). *)
From SF Require Ubjson.Spec Ubjson.Parse Ubjson.ParseVisitorProofs Ubjson.ConformanceProofs.
Module UP := SF.Ubjson.Parse.
Module UV := SF.Ubjson.ParseVisitorProofs.
Theorem C17_ubj_parser_top : forall vfail b evs p,
  UP.urun_parse vfail b = Ok (evs, UP.unilE, p) -> UV.top p.
Proof. exact UV.C17_ubj_run_parse_top. Qed.
Print Assumptions C17_ubj_parser_top.

Theorem C17_ubj_parser_top_chunks : forall vfail chunks evs p,
  UP.urun_chunks vfail chunks = Ok (evs, UP.unilE, p) -> UV.top p.
Proof. exact UV.C17_ubj_run_chunks_top. Qed.
Print Assumptions C17_ubj_parser_top_chunks.

(* from any parser satisfying the invariant (hence after any history of accepted documents) *)
Theorem C17_ubj_parser_history : forall p s b p' s',
  SF.Ubjson.ChunkProofs.Inv p -> UP.up_parse p s b = Ok (p', s', UP.unilE) -> UV.top p' /\ SF.Ubjson.ChunkProofs.Inv p'.
Proof. exact UV.C17_ubj_parse_top. Qed.
Print Assumptions C17_ubj_parser_history.

Theorem C17_ubj_parser_reset : forall b v, all_bytes b = true ->
  SF.Ubjson.ConformanceProofs.no_huge_zero_typed b = true ->
  SF.Ubjson.Spec.ubj_decode b = RValue v [] ->
  exists evs vt, UP.urun_parse None b = Ok (evs, UP.unilE, SF.Ubjson.ConformanceProofs.uset_vtype UP.uparser0 vt).
Proof. exact UV.C17_ubj_accept_reset. Qed.
Print Assumptions C17_ubj_parser_reset.

(* JSON parser (after the repair of finalize, DESIGN.md section 9).  [fresh_like p]: start state, empty
   state stack, not inside an escape, EMPTY literal buffer, no latched error.  After any
   accepted Parse or Write ... end - any visitor behaviour - the parser is fresh_like; and on
   a fresh_like parser EVERY further use (Parse b, or Write c1 .. Write cn, end) returns, with
   exactly the events and verdict a new parser gives, and leaves the parser fresh_like again
   when accepted: by induction, a parser reused for any sequence of accepted documents through
   either entry point behaves as a new one on the next document.  No side conditions. *)
From SF Require Json.Parse Json.ParseVisitorProofs.
Module JP := SF.Json.Parse.
Module JV := SF.Json.ParseVisitorProofs.
Theorem C17_json_parser_fresh_after_parse : forall (pf : bytes -> option Z) vfail b evs p,
  JP.jrun_parse pf vfail b = Ok (evs, JP.jpnil, p) -> JV.fresh_like p.
Proof. exact JV.C17_json_run_parse_fresh. Qed.
Print Assumptions C17_json_parser_fresh_after_parse.

Theorem C17_json_parser_fresh_after_writes : forall (pf : bytes -> option Z) vfail chunks evs p,
  JP.jrun_chunks pf vfail chunks = Ok (evs, JP.jpnil, p) -> JV.fresh_like p.
Proof. exact JV.C17_json_run_chunks_fresh. Qed.
Print Assumptions C17_json_parser_fresh_after_writes.

Theorem C17_json_parser_session_step : forall (pf : bytes -> option Z) p s op, JV.fresh_like p ->
  exists p1 p2 s' e', JV.jop_run pf p s op = Ok (p1, s', e') /\ JV.jop_run pf JP.jparser0 s op = Ok (p2, s', e') /\
                      (e' = JP.jpnil -> JV.fresh_like p1).
Proof. exact JV.C17_json_session_step. Qed.
Print Assumptions C17_json_parser_session_step.

(* the history that failed before the repair: Parse of a number, then Write of an object *)
Theorem C17_json_parser_write_after_parse : forall (pf : bytes -> option Z) vfail b evs p s chunks,
  JP.jrun_parse pf vfail b = Ok (evs, JP.jpnil, p) ->
  exists p1 p2 s' e', JP.jp_writes pf p s chunks = Ok (p1, s', e') /\
                      JP.jp_writes pf JP.jparser0 s chunks = Ok (p2, s', e').
Proof. exact JV.C17_json_write_reusable. Qed.
Print Assumptions C17_json_parser_write_after_parse.

(* UBJSON parser, behavioural form, NO side condition: [fresh_like p] = every field of the
   initial parser except the element-type register [up_vtype], which is proved dead (written
   before it is read).  After ANY accepted input the parser is fresh_like; and on a fresh_like
   parser every operation (Parse b, or Write c1 .. cn then end) and hence every sequence of
   operations gives the same events and verdict, for every visitor behaviour, as on a new
   parser, and leaves it fresh_like again when accepted. *)
From SF Require Ubjson.ReuseProofs.
Module UR := SF.Ubjson.ReuseProofs.
Theorem C17_ubj_parser_fresh_after : forall vfail b evs p,
  UP.urun_parse vfail b = Ok (evs, UP.unilE, p) -> UR.fresh_like p.
Proof. exact UR.C17_ubj_run_parse_fresh_noguard. Qed.
Print Assumptions C17_ubj_parser_fresh_after.

Theorem C17_ubj_parser_fresh_after_chunks : forall vfail chunks evs p,
  UP.urun_chunks vfail chunks = Ok (evs, UP.unilE, p) -> UR.fresh_like p.
Proof. exact UR.C17_ubj_run_chunks_fresh_noguard. Qed.
Print Assumptions C17_ubj_parser_fresh_after_chunks.

Theorem C17_ubj_parser_session_step : forall p s op, UR.fresh_like p ->
  UR.out_rel (UR.uop_run UP.uparser0 s op) (UR.uop_run p s op) /\
  (forall p' s', UR.uop_run p s op = Ok (p', s', UP.unilE) -> UR.fresh_like p').
Proof. exact UR.C17_ubj_session_step_noguard. Qed.
Print Assumptions C17_ubj_parser_session_step.

Theorem C17_ubj_parser_session : forall ops p s, UR.fresh_like p ->
  UR.out_rel (UR.usession_new s ops) (UR.usession p s ops).
Proof. exact UR.C17_ubj_session_noguard. Qed.
Print Assumptions C17_ubj_parser_session.
