(* C17 - a reused parser, encoder, iterator or unfolder behaves like a fresh one.
   Statements only; proofs are in Cbor/RoundtripProofs.v. *)
From SF Require Import Base.Prelude Core.Events Cbor.Enc Cbor.RoundtripProofs Json.Enc Json.EncProofs Ubjson.Enc Ubjson.EncProofs Cbor.Parse Cbor.ConformanceProofs Cbor.ComposeProofs.

(* CBOR encoder: completing any well-formed document returns the length stack (the
   encoder's only nesting state) to exactly what it was before, from any state. *)
Theorem C17_cbor_enc_idle : forall t e i, wf_tree t = true -> tree_small t = true ->
  w_fail (ce_w e) = None ->
  exists e', cbor_run e (flatten t) i = (e', None) /\ ce_len e' = ce_len e.
Proof. exact RoundtripProofs.C17_cbor_enc_idle. Qed.
Print Assumptions C17_cbor_enc_idle.

(* JSON encoder: after any well-formed document the two flag stacks (first element /
   inside array) are idle again; from ANY state they are restored up to the enclosing
   array's first-flag, which is cleared as for any value. *)
Theorem C17_json_enc_idle : forall (ffmt : Z -> Z -> bytes) cfg t, wf_tree t = true ->
  (ignore_invalid cfg = true \/ tree_finite t = true) ->
  exists e', json_run cfg ffmt (jenc0 None) (flatten t) 0 = JRun e' None /\ je_first e' = bs0 /\ je_inarr e' = bs0.
Proof. exact EncProofs.C17_json_enc_idle. Qed.
Print Assumptions C17_json_enc_idle.

Theorem C17_json_enc_any_state : forall (ffmt : Z -> Z -> bytes) cfg t,
  (ignore_invalid cfg = true \/ tree_finite t = true) ->
  forall e i, w_fail (je_w e) = None ->
  exists e', json_run cfg ffmt e (flatten t) i = JRun e' None /\
     je_first e' = after_val e /\ je_inarr e' = je_inarr e /\ w_fail (je_w e') = None.
Proof. intros ffmt cfg t H. exact (json_enc_tree_exact ffmt cfg t H). Qed.
Print Assumptions C17_json_enc_any_state.

(* UBJSON encoder: the length stack is restored by every complete value, from any state
   (no well-formedness needed). *)
Theorem C17_ubj_enc_idle : forall t e i, w_fail (ue_w e) = None ->
  exists e', ubj_run e (flatten t) i = (e', None) /\ ue_len e' = ue_len e.
Proof. exact C17_ubj_enc_idle_any. Qed.
Print Assumptions C17_ubj_enc_idle.

(* CBOR parser: after any accepted input (any number of documents, any chunking) the parser
   is exactly the initial parser again - every field - so the next document is parsed as
   by a fresh instance. *)
Theorem C17_cbor_parser_idle : forall cs s p' s', all_bytes (concat cs) = true -> (zlen (concat cs) <=? MaxInt64) = true ->
  s_fail s = None -> p_writes cparser0 s cs = Ok (p', s', nilE) -> p' = cparser0.
Proof. intros cs s p' s' H1 H2 H3 H4. exact (proj1 (C17_cbor_parser_idle_chunks cs s p' s' H1 H2 H3 H4)). Qed.
Print Assumptions C17_cbor_parser_idle.
