(* C16 / C17 / C18 for the CBOR parser model: how the parser treats its
   visitor, what state it is in after a complete value, and the pull decoder. *)
From Coq Require Import List NArith ZArith Bool Lia.
From Coq Require Import ZifyBool ZifyNat ZifyN.
From SF Require Import Base.Prelude Core.Events Cbor.Parse.
Import ListNotations.
Open Scope Z_scope.
Ltac Zify.zify_post_hook ::= Z.div_mod_to_equations.

(* ====================================================================== *)
(* Part 0: visitor programs.  A function of the sink is "representable"   *)
(* when it is the interpretation of a straight-line program of visitor    *)
(* calls that returns at the first failing call with that call's error.   *)
(* ====================================================================== *)

Definition out (A : Type) : Type := option (A * sink * Z).

Inductive prog (A : Type) : Type :=
| PRet (a : A) (e : Z)
| PAbort
| PVis (ev : event) (afail : A) (k : prog A).
Arguments PRet {A} a e.
Arguments PAbort {A}.
Arguments PVis {A} ev afail k.

Fixpoint run {A} (pr : prog A) (s : sink) : out A :=
  match pr with
  | PRet a e => Some (a, s, e)
  | PAbort => None
  | PVis ev af k => let '(s1, ok) := emit s ev in if ok then run k s1 else Some (af, s1, eVisitor)
  end.

Fixpoint ptrace {A} (pr : prog A) : list event :=
  match pr with PVis ev _ k => ev :: ptrace k | _ => [] end.
Fixpoint pfinal {A} (pr : prog A) : option (A * Z) :=
  match pr with PRet a e => Some (a, e) | PAbort => None | PVis _ _ k => pfinal k end.

Definition s_add (s : sink) (l : list event) : sink :=
  {| s_rlog := rev l ++ s_rlog s; s_n := length l + s_n s; s_fail := s_fail s |}.

Lemma s_add_nil : forall s, s_add s [] = s.
Proof. intros [l n f]; reflexivity. Qed.

Lemma s_add_add : forall s l1 l2, s_add (s_add s l1) l2 = s_add s (l1 ++ l2).
Proof.
  intros s l1 l2. unfold s_add; cbn [s_rlog s_n s_fail]. f_equal.
  - rewrite rev_app_distr, app_assoc. reflexivity.
  - rewrite app_length. lia.
Qed.

Lemma emit_spec : forall s e,
  emit s e = (s_add s [e], match s_fail s with Some k => Nat.ltb (s_n s) k | None => true end).
Proof. intros s e. unfold emit, s_add. cbn [rev app length Nat.add]. destruct (s_fail s); reflexivity. Qed.

Definition final_out {A} (pr : prog A) (s : sink) : out A :=
  match pfinal pr with Some (a, e) => Some (a, s_add s (ptrace pr), e) | None => None end.

Lemma run_nofail : forall A (pr : prog A) s, s_fail s = None -> run pr s = final_out pr s.
Proof.
  induction pr as [a e| |ev af k IH]; intros s Hs; unfold final_out; cbn [run pfinal ptrace].
  - rewrite s_add_nil. reflexivity.
  - reflexivity.
  - rewrite emit_spec, Hs. rewrite IH by exact Hs. unfold final_out.
    destruct (pfinal k) as [[a e]|]; [|reflexivity]. rewrite s_add_add. reflexivity.
Qed.

Lemma run_fail : forall A (pr : prog A) s k, s_fail s = Some k -> (s_n s <= k)%nat ->
  (if (length (ptrace pr) <=? k - s_n s)%nat then run pr s = final_out pr s
   else exists af, run pr s = Some (af, s_add s (firstn (S (k - s_n s)) (ptrace pr)), eVisitor)).
Proof.
  induction pr as [a e| |ev af k0 IH]; intros s k Hs Hn; cbn [run pfinal ptrace length].
  - cbn [Nat.leb]. unfold final_out. cbn [pfinal ptrace]. rewrite s_add_nil. reflexivity.
  - reflexivity.
  - rewrite emit_spec, Hs.
    destruct (Nat.ltb (s_n s) k) eqn:E.
    + apply Nat.ltb_lt in E.
      assert (Hs1 : s_fail (s_add s [ev]) = Some k) by exact Hs.
      assert (Hn1 : (s_n (s_add s [ev]) <= k)%nat) by (cbn [s_add s_n length]; lia).
      specialize (IH _ _ Hs1 Hn1).
      replace (k - s_n (s_add s [ev]))%nat with (k - s_n s - 1)%nat in IH by (cbn [s_add s_n length]; lia).
      destruct (Nat.leb (S (length (ptrace k0))) (k - s_n s)) eqn:L.
      * apply Nat.leb_le in L.
        assert (L' : Nat.leb (length (ptrace k0)) (k - s_n s - 1) = true) by (apply Nat.leb_le; lia).
        rewrite L' in IH. rewrite IH. unfold final_out. cbn [pfinal ptrace].
        destruct (pfinal k0) as [[a e]|]; [|reflexivity]. rewrite s_add_add. reflexivity.
      * apply Nat.leb_gt in L.
        assert (L' : Nat.leb (length (ptrace k0)) (k - s_n s - 1) = false) by (apply Nat.leb_gt; lia).
        rewrite L' in IH. destruct IH as [af' IH]. exists af'. rewrite IH. rewrite s_add_add.
        replace (S (k - s_n s)) with (S (S (k - s_n s - 1))) by lia. reflexivity.
    + apply Nat.ltb_ge in E. assert (k - s_n s = 0)%nat as -> by lia.
      cbn [Nat.leb]. exists af. reflexivity.
Qed.

(* representability *)
Definition Rep {A} (f : sink -> out A) : Type := { pr : prog A | forall s, f s = run pr s }.

Lemma Rep_ret : forall A (a : A) e, Rep (fun s => Some (a, s, e)).
Proof. intros A a e. exists (PRet a e). reflexivity. Qed.

Lemma Rep_abort : forall A, Rep (fun _ => @None (A * sink * Z)).
Proof. intros A. exists PAbort. reflexivity. Qed.

Lemma Rep_ext : forall A (f g : sink -> out A), (forall s, f s = g s) -> Rep g -> Rep f.
Proof. intros A f g H [pr Hpr]. exists pr. intros s. rewrite H. apply Hpr. Qed.

Lemma vis_emit : forall s ev s1 ok, emit s ev = (s1, ok) -> vis s ev = (s1, if ok then nilE else eVisitor).
Proof. intros s ev s1 ok E. unfold vis. rewrite E. reflexivity. Qed.

(* the visitor call: on failure the function returns at once with the visitor's error *)
Lemma Rep_vis : forall A (f : sink -> out A) ev af (g : sink -> out A),
  (forall s s1, vis s ev = (s1, nilE) -> f s = g s1) ->
  (forall s s1, vis s ev = (s1, eVisitor) -> f s = Some (af, s1, eVisitor)) ->
  Rep g -> Rep f.
Proof.
  intros A f ev af g H1 H2 [pr Hpr]. exists (PVis ev af pr). intros s. cbn [run].
  destruct (emit s ev) as [s1 ok] eqn:E. apply vis_emit in E. destruct ok.
  - rewrite (H1 _ _ E). apply Hpr.
  - apply (H2 _ _ E).
Qed.

(* sequencing: the continuation runs only after a nil error *)
Fixpoint pbind {A B} (pr : prog A) (phi : A -> Z -> B) (K : A -> prog B) : prog B :=
  match pr with
  | PRet a e => if isnil e then K a else PRet (phi a e) e
  | PAbort => PAbort
  | PVis ev af k => PVis ev (phi af eVisitor) (pbind k phi K)
  end.

Lemma run_pbind : forall A B (pr : prog A) (phi : A -> Z -> B) K s,
  run (pbind pr phi K) s =
  match run pr s with
  | None => None
  | Some (a, s1, e) => if isnil e then run (K a) s1 else Some (phi a e, s1, e)
  end.
Proof.
  induction pr as [a e| |ev af k IH]; intros phi K s; cbn [pbind run].
  - destruct (isnil e); reflexivity.
  - reflexivity.
  - destruct (emit s ev) as [s1 ok]. destruct ok; [apply IH|reflexivity].
Qed.

Lemma Rep_bind : forall A B (g : sink -> out A) (phi : A -> Z -> B) (h : A -> sink -> out B)
  (f : sink -> out B),
  Rep g -> (forall a, Rep (h a)) ->
  (forall s, f s = match g s with
                   | None => None
                   | Some (a, s1, e) => if isnil e then h a s1 else Some (phi a e, s1, e)
                   end) ->
  Rep f.
Proof.
  intros A B g phi h f [pg Hg] Hh Hf.
  exists (pbind pg phi (fun a => proj1_sig (Hh a))). intros s.
  rewrite Hf, run_pbind, Hg. destruct (run pg s) as [[[a s1] e]|]; [|reflexivity].
  destruct (isnil e); [|reflexivity]. apply (proj2_sig (Hh a)).
Qed.

Lemma Rep_map : forall A B (g : sink -> out A) (phi : A -> Z -> B) (f : sink -> out B),
  Rep g ->
  (forall s, f s = match g s with None => None | Some (a, s1, e) => Some (phi a e, s1, e) end) ->
  Rep f.
Proof.
  intros A B g phi f Hg Hf.
  apply (Rep_bind A B g phi (fun a s => Some (phi a nilE, s, nilE)) f Hg).
  - intros a. apply Rep_ret.
  - intros s. rewrite Hf. destruct (g s) as [[[a s1] e]|]; [|reflexivity].
    destruct (isnil e) eqn:E; [|reflexivity]. apply Z.eqb_eq in E. subst e. reflexivity.
Qed.

(* ====================================================================== *)
(* Part 1: every parser function is representable (core lemma of C16)     *)
(* ====================================================================== *)

Definition osr (r : sres) : out (cparser * bytes * bool) :=
  match r with SR p s rest d e => Some ((p, rest, d), s, e) | Crash _ => None end.
Definition oov (r : option (cparser * sink * bool * Z)) : out (cparser * bool) :=
  match r with Some (p, s, d, e) => Some ((p, d), s, e) | None => None end.

Ltac vred :=
  cbv beta iota zeta;
  change (isnil nilE) with true; change (isnil eVisitor) with false;
  change (negb true) with false; change (negb false) with true;
  cbv beta iota zeta.

Ltac vis_step :=
  eapply Rep_vis;
  [ let s := fresh "s" in let s1 := fresh "s1" in let E := fresh "E" in
    intros s s1 E; cbv beta; rewrite E; vred; reflexivity
  | let s := fresh "s" in let s1 := fresh "s1" in let E := fresh "E" in
    intros s s1 E; cbv beta; rewrite E; vred; reflexivity
  | cbv beta ].

Ltac brk :=
  match goal with
  | |- Rep (fun s => _ (if ?c then _ else _)) => destruct c eqn:?
  | |- Rep (fun s => _ (match ?b with [] => _ | _ :: _ => _ end)) => destruct b
  end.

Lemma Rep_sr : forall p rest d e, Rep (fun s => osr (SR p s rest d e)).
Proof. intros. apply (Rep_ret _ (p, rest, d) e). Qed.
Lemma Rep_crash : forall w, Rep (fun s => osr (Crash w)).
Proof. intros. apply Rep_abort. Qed.
Lemma Rep_ov : forall p d e, Rep (fun s => oov (Some (p, s, d, e))).
Proof. intros. apply (Rep_ret _ (p, d) e). Qed.

Lemma on_value_rep : forall fuel p, Rep (fun s => oov (on_value fuel p s)).
Proof.
  induction fuel as [|f IH]; intros p.
  - apply Rep_abort.
  - cbn [on_value]. cbv zeta.
    brk.
    + brk. 
      * apply Rep_ov.
      * vis_step. apply IH.
    + brk; apply Rep_ov.
Qed.

Lemma pop_state_rep : forall p, Rep (fun s => oov (pop_state p s)).
Proof. intros p. unfold pop_state. cbv zeta. apply on_value_rep. Qed.

Lemma Rep_ov_sr : forall fuel P B W,
  Rep (fun s => osr (match on_value fuel P s with
                     | Some (p2, s3, d, e) => SR p2 s3 B d e | None => Crash W end)).
Proof.
  intros. apply (Rep_map _ _ _ (fun a e => (fst a, B, snd a)) _ (on_value_rep fuel P)).
  intros s. destruct (on_value fuel P s) as [[[[p2 s3] d] e]|]; reflexivity.
Qed.

Lemma Rep_pop_sr : forall P B W,
  Rep (fun s => osr (match pop_state P s with
                     | Some (p2, s3, d, e) => SR p2 s3 B d e | None => Crash W end)).
Proof. intros. unfold pop_state. cbv zeta. apply Rep_ov_sr. Qed.

Ltac fin := first [ apply Rep_sr | apply Rep_crash | apply Rep_pop_sr | apply Rep_ov_sr | apply Rep_ov ].

Ltac brk2 :=
  match goal with
  | |- Rep (fun s => _ (if ?c then _ else _)) => destruct c eqn:?
  | |- Rep (fun s => _ (match ?b with [] => _ | _ :: _ => _ end)) => destruct b
  | |- Rep (fun s => _ (match ?o with Some _ => _ | None => _ end)) => destruct o
  | |- Rep (fun s => _ (match ?c with CR _ _ _ => _ | CCrash => _ end)) => destruct c as [? ? [?|]|]
  end.

Ltac rep_auto := repeat first [ fin | brk2 | vis_step ].

Lemma after_value_rep : forall p r e, Rep (fun s => osr (after_value p s r e)).
Proof. intros. unfold after_value. rep_auto. Qed.
Lemma after_pop_rep : forall p r e, Rep (fun s => osr (after_pop p s r e)).
Proof. intros. unfold after_pop. rep_auto. Qed.

Lemma init_byte_seq_rep : forall p major minor b, Rep (fun s => osr (init_byte_seq p s major minor b)).
Proof. intros. unfold init_byte_seq. rep_auto. Qed.
Lemma init_sub_rep : forall p major minor b, Rep (fun s => osr (init_sub p s major minor b)).
Proof. intros. unfold init_sub. rep_auto. Qed.

Lemma step_value_rep : forall p b, Rep (fun s => osr (step_value p s b)).
Proof.
  intros. unfold step_value. destruct b as [|b0 r]; [apply Rep_sr|].
  cbv zeta. unfold after_value.
  repeat first [ fin | apply init_byte_seq_rep | apply init_sub_rep | brk2 | vis_step ].
Qed.

Lemma step_num_rep : forall neg p b, Rep (fun s => osr (step_num neg p s b)).
Proof.
  intros. unfold step_num, get_uint, after_pop. cbv zeta. rep_auto.
Qed.

Lemma step_float_rep : forall w p b, Rep (fun s => osr (step_float w p s b)).
Proof. intros. unfold step_float, get_uint. rep_auto. Qed.

Lemma step_len_rep : forall p b, Rep (fun s => osr (step_len p s b)).
Proof. intros. unfold step_len, get_uint. cbv zeta. rep_auto. Qed.

Definition oeb (r : sink * Z) : out unit := Some (tt, fst r, snd r).

Lemma emit_bytes_rep : forall l, Rep (fun s => oeb (emit_bytes s l)).
Proof.
  induction l as [|c r IH].
  - apply (Rep_ret _ tt nilE).
  - cbn [emit_bytes]. vis_step. apply IH.
Qed.

Lemma Rep_emit_bytes_bind : forall A l (af : A) (h : sink -> out A) (f : sink -> out A),
  (forall s, f s = let '(s2, err) := emit_bytes s l in if isnil err then h s2 else Some (af, s2, err)) ->
  Rep h -> Rep f.
Proof.
  intros A l af h f Hf Hh.
  apply (Rep_bind _ _ _ (fun _ _ => af) (fun _ => h) f (emit_bytes_rep l) (fun _ => Hh)).
  intros s. rewrite Hf. unfold oeb. destruct (emit_bytes s l) as [s2 err]. reflexivity.
Qed.

Lemma step_bytes_rep : forall p b, Rep (fun s => osr (step_bytes p s b)).
Proof.
  intros. unfold step_bytes.
  assert (K : forall p1, Rep (fun s1 => osr (
    let L := p_lcur p1 in
    let done := zlen b >=? L in
    let '(p2, L2) := if done then (p1, L) else (set_lcur p1 (p_lcur p1 - zlen b), zlen b) in
    if L2 <? 0 then Crash 7 else
    let '(s2, err) := emit_bytes s1 (zfirstn L2 b) in
    if negb (isnil err) then SR p2 s2 [] false err else
    let rest := zskipn L2 b in
    if done then
      let '(s3, err3) := vis s2 EArrEnd in
      let p3 := len_pop p2 in
      if isnil err3 then
        match pop_state p3 s3 with
        | Some (p4, s4, d, e) => SR p4 s4 rest d e
        | None => Crash 93
        end
      else SR p3 s3 rest true err3
    else SR p2 s2 rest false nilE))).
  { intros p1. cbv zeta. destruct (zlen b >=? p_lcur p1) eqn:D; cbv iota.
    - brk2; [fin|].
      eapply (Rep_emit_bytes_bind _ (zfirstn (p_lcur p1) b)).
      + intros s. cbv beta. destruct (emit_bytes s (zfirstn (p_lcur p1) b)) as [s2 err].
        destruct (isnil err) eqn:E; vred; reflexivity.
      + cbv beta. rep_auto.
    - brk2; [fin|].
      eapply (Rep_emit_bytes_bind _ (zfirstn (zlen b) b)).
      + intros s. cbv beta. destruct (emit_bytes s (zfirstn (zlen b) b)) as [s2 err].
        destruct (isnil err) eqn:E; vred; reflexivity.
      + cbv beta. rep_auto. }
  destruct (c_minor (p_cur p) =? stStart).
  - vis_step. apply K.
  - vred. apply K.
Qed.

Lemma step_text_rep : forall p b, Rep (fun s => osr (step_text p s b)).
Proof. intros. unfold step_text. cbv zeta. rep_auto. Qed.

Lemma step_key_rep : forall p b, Rep (fun s => osr (step_key p s b)).
Proof. intros. unfold step_key. cbv zeta. rep_auto. Qed.

Lemma init_map_key_rep : forall p b, Rep (fun s => osr (init_map_key p s b)).
Proof.
  intros. unfold init_map_key. repeat first [ fin | apply init_byte_seq_rep | brk2 ].
Qed.

Lemma Rep_pop_nested : forall P B W,
  Rep (fun s1 => osr
    match
      match pop_state P s1 with
      | Some (p2, s2, d, e) => Some (false, p2, s2, d, e)
      | None => None
      end
    with
    | Some (true, p1, s2, _, _) => step_value p1 s2 B
    | Some (false, p1, s2, d, e) => SR p1 s2 B d e
    | None => Crash W
    end).
Proof.
  intros. eapply Rep_ext; [|apply (Rep_pop_sr P B W)].
  intros s. cbv beta. destruct (pop_state P s) as [[[[? ?] ?] ?]|]; reflexivity.
Qed.

Lemma step_array_rep : forall p b, Rep (fun s => osr (step_array p s b)).
Proof.
  intros. unfold step_array, handle_len.
  destruct (p_lcur p >? 0).
  - cbv iota. apply step_value_rep.
  - vis_step. apply Rep_pop_nested.
Qed.

Lemma step_map_rep : forall p b, Rep (fun s => osr (step_map p s b)).
Proof.
  intros. unfold step_map, handle_len.
  destruct (p_lcur p >? 0).
  - cbv iota. brk2; [apply init_map_key_rep|fin].
  - vis_step. eapply Rep_ext; [|apply (Rep_pop_sr (len_pop p) b 96)].
    intros s. cbv beta. destruct (pop_state (len_pop p) s) as [[[[? ?] ?] ?]|]; reflexivity.
Qed.

Ltac rep_all :=
  repeat first [ fin | apply step_value_rep | apply step_len_rep | apply step_num_rep
               | apply step_float_rep | apply step_bytes_rep | apply step_text_rep
               | apply step_array_rep | apply step_map_rep | apply step_key_rep
               | apply init_map_key_rep | brk2 | vis_step ].

(* Core lemma of C16: one parser step is a straight-line visitor program. *)
Lemma exec_step_rep : forall p b, Rep (fun s => osr (exec_step p s b)).
Proof.
  intros. unfold exec_step. cbv zeta.
  repeat (brk2; [solve [rep_all]|]).
  brk2.
  { destruct (c_major (p_cur p) =? mArr + stIndef); [vred|vis_step]; rep_all. }
  repeat (brk2; [solve [rep_all]|]).
  brk2.
  { destruct (c_major (p_cur p) =? mMap + stIndef); [vred|vis_step]; rep_all. }
  rep_all.
Qed.

(* ---------- the feed loops ---------- *)
Definition ores (r : res sres) : out (cparser * bytes * bool) :=
  match r with Ok x => osr x | _ => None end.
Definition orf (r : res (cparser * sink * Z)) : out cparser :=
  match r with Ok (p, s, e) => Some (p, s, e) | _ => None end.

Lemma isnil_true : forall e, isnil e = true -> e = nilE.
Proof. intros e H. apply Z.eqb_eq in H. exact H. Qed.

Lemma feed_until_rep : forall fuel p b, Rep (fun s => ores (feed_until fuel p s b)).
Proof.
  induction fuel as [|f IH]; intros p b.
  - apply Rep_abort.
  - cbn [feed_until].
    apply (Rep_bind _ _ (fun s => osr (exec_step p s b)) (fun a _ => a)
             (fun a s => let '(p1, rest, done) := a in
                if done then Some (a, s, nilE)
                else if negb (zlen rest =? 0) ||
                        (Z.land (c_major (p_cur p1)) (stStartX + stIndef) =? stStartX)
                     then ores (feed_until f p1 s rest) else Some (a, s, nilE))).
    + apply exec_step_rep.
    + intros [[p1 rest] done]. destruct done; [apply Rep_ret|].
      destruct (negb (zlen rest =? 0) || (Z.land (c_major (p_cur p1)) (stStartX + stIndef) =? stStartX));
        [apply IH|apply Rep_ret].
    + intros s. destruct (exec_step p s b) as [p1 s1 rest done err|w]; [|reflexivity].
      cbn [osr]. destruct (isnil err) eqn:E.
      * apply isnil_true in E. subst err. destruct done; [reflexivity|].
        cbn [orb negb]. change (isnil nilE) with true. cbn [negb].
        destruct (negb (zlen rest =? 0) || (Z.land (c_major (p_cur p1)) (stStartX + stIndef) =? stStartX));
          reflexivity.
      * rewrite orb_true_r. reflexivity.
Qed.

Lemma feed_rep : forall fuel p b, Rep (fun s => orf (feed fuel p s b)).
Proof.
  induction fuel as [|f IH]; intros p b.
  - apply Rep_abort.
  - cbn [feed]. destruct (zlen b >? 0); [|apply Rep_ret].
    apply (Rep_bind _ _ (fun s => ores (feed_until (feed_fuel b) p s b)) (fun a _ => fst (fst a))
             (fun a s => orf (feed f (fst (fst a)) s (snd (fst a))))).
    + apply feed_until_rep.
    + intros a. apply IH.
    + intros s. destruct (feed_until (feed_fuel b) p s b) as [[p1 s1 rest d err|w]| | |]; try reflexivity.
      cbn [ores osr fst snd]. destruct (isnil err); reflexivity.
Qed.

Lemma p_write_rep : forall p b, Rep (fun s => orf (p_write p s b)).
Proof.
  intros. unfold p_write.
  apply (Rep_map _ _ _ (fun p1 e => set_err p1 (if isnil e then 0 else e)) _ (feed_rep (2 * length b + 2) p b)).
  intros s. destruct (feed (2 * length b + 2) p s b) as [[[p1 s1] e]| | |]; reflexivity.
Qed.

Lemma p_parse_rep : forall p b, Rep (fun s => orf (p_parse p s b)).
Proof.
  intros. unfold p_parse.
  apply (Rep_bind _ _ _ (fun p1 _ => p1) (fun p1 s => Some (p1, s, finalize p1)) _
           (feed_rep (2 * length b + 2) p b)).
  - intros a. apply Rep_ret.
  - intros s. destruct (feed (2 * length b + 2) p s b) as [[[p1 s1] e]| | |]; try reflexivity.
    cbn [orf]. destruct (isnil e); reflexivity.
Qed.

Lemma p_writes_rep : forall chunks p, Rep (fun s => orf (p_writes p s chunks)).
Proof.
  induction chunks as [|c r IH]; intros p.
  - apply Rep_ret.
  - cbn [p_writes].
    apply (Rep_bind _ _ _ (fun p1 _ => p1) (fun p1 s => orf (p_writes p1 s r)) _ (p_write_rep p c)).
    + intros a. apply IH.
    + intros s. destruct (p_write p s c) as [[[p1 s1] e]| | |]; try reflexivity.
      cbn [orf]. destruct (isnil e); reflexivity.
Qed.

(* ---------- what representability gives ---------- *)
Lemma s_log_add0 : forall f l, s_log (s_add (sink0 f) l) = l.
Proof. intros. unfold s_log, s_add, sink0. cbn [s_rlog]. rewrite app_nil_r. apply rev_involutive. Qed.

Lemma rep_prompt0 : forall A (f : sink -> out A), Rep f -> forall k a s e,
  f (sink0 (Some k)) = Some (a, s, e) ->
  (length (s_log s) <= S k)%nat /\ (length (s_log s) = S k -> e = eVisitor).
Proof.
  intros A f [pr Hpr] k a s e H. rewrite Hpr in H.
  pose proof (run_fail A pr (sink0 (Some k)) k eq_refl (Nat.le_0_l k)) as R.
  cbn [sink0 s_n] in R. rewrite Nat.sub_0_r in R.
  destruct (Nat.leb (length (ptrace pr)) k) eqn:L.
  - apply Nat.leb_le in L. rewrite R in H. unfold final_out in H.
    destruct (pfinal pr) as [[a' e']|]; [|discriminate]. inversion H; subst.
    change {| s_rlog := []; s_n := 0; s_fail := Some k |} with (sink0 (Some k)).
    rewrite s_log_add0. split; lia.
  - apply Nat.leb_gt in L. destruct R as [af R].
    remember (firstn (S k) (ptrace pr)) as t eqn:Ht.
    rewrite R in H. injection H as Ha Hs He. subst a s e.
    change {| s_rlog := []; s_n := 0; s_fail := Some k |} with (sink0 (Some k)).
    rewrite s_log_add0. split; [|reflexivity]. subst t. rewrite firstn_length. lia.
Qed.

Lemma rep_prefix0 : forall A (f : sink -> out A), Rep f -> forall k a0 s0 e0,
  f (sink0 None) = Some (a0, s0, e0) ->
  exists a s, f (sink0 (Some k)) = Some (a, s, if (length (s_log s0) <=? k)%nat then e0 else eVisitor) /\
              s_log s = firstn (S k) (s_log s0) /\
              ((length (s_log s0) <= k)%nat -> a = a0).
Proof.
  intros A f [pr Hpr] k a0 s0 e0 H. rewrite Hpr in H. rewrite Hpr.
  rewrite run_nofail in H by reflexivity. unfold final_out in H.
  destruct (pfinal pr) as [[a' e']|] eqn:F; [|discriminate]. inversion H; subst. clear H.
  rewrite s_log_add0.
  pose proof (run_fail A pr (sink0 (Some k)) k eq_refl (Nat.le_0_l k)) as R.
  cbn [sink0 s_n] in R. rewrite Nat.sub_0_r in R.
  change {| s_rlog := []; s_n := 0; s_fail := Some k |} with (sink0 (Some k)) in R.
  destruct (Nat.leb (length (ptrace pr)) k) eqn:L.
  - apply Nat.leb_le in L. rewrite R. unfold final_out. rewrite F.
    eexists _, _. split; [reflexivity|]. rewrite s_log_add0. split; [|reflexivity].
    symmetry. apply firstn_all2. lia.
  - apply Nat.leb_gt in L. destruct R as [af R]. rewrite R.
    eexists _, _. split; [reflexivity|]. rewrite s_log_add0. split; [reflexivity|]. lia.
Qed.

(* ---------- C16 for the parser ---------- *)
Lemma run_chunks_orf : forall v chunks evs e,
  run_chunks v chunks = Ok (evs, e) <->
  exists p s, orf (p_writes cparser0 (sink0 v) chunks) = Some (p, s, e) /\ evs = s_log s.
Proof.
  intros. unfold run_chunks. destruct (p_writes cparser0 (sink0 v) chunks) as [[[p s] e']| | |]; cbn [orf].
  - split.
    + intros H. inversion H; subst. eauto.
    + intros (p' & s' & H & ->). inversion H; subst. reflexivity.
  - split; [discriminate|]. intros (p' & s' & H & _). discriminate.
  - split; [discriminate|]. intros (p' & s' & H & _). discriminate.
  - split; [discriminate|]. intros (p' & s' & H & _). discriminate.
Qed.

Lemma run_parse_orf : forall v b evs e,
  run_parse v b = Ok (evs, e) <->
  exists p s, orf (p_parse cparser0 (sink0 v) b) = Some (p, s, e) /\ evs = s_log s.
Proof.
  intros. unfold run_parse. destruct (p_parse cparser0 (sink0 v) b) as [[[p s] e']| | |]; cbn [orf].
  - split.
    + intros H. inversion H; subst. eauto.
    + intros (p' & s' & H & ->). inversion H; subst. reflexivity.
  - split; [discriminate|]. intros (p' & s' & H & _). discriminate.
  - split; [discriminate|]. intros (p' & s' & H & _). discriminate.
  - split; [discriminate|]. intros (p' & s' & H & _). discriminate.
Qed.

(* no event is delivered after the failing one, and its error is returned unchanged *)
Theorem C16_cbor_parse_prompt : forall k chunks evs e,
  run_chunks (Some k) chunks = Ok (evs, e) ->
  (length evs <= S k)%nat /\ (length evs = S k -> e = eVisitor).
Proof.
  intros k chunks evs e H. apply run_chunks_orf in H. destruct H as (p & s & H & ->).
  exact (rep_prompt0 _ _ (p_writes_rep chunks cparser0) k p s e H).
Qed.

(* the failing run is determined by the unfailing one: it delivers exactly the
   first k+1 events, and returns the visitor's error iff the unfailing run has
   more than k events (otherwise the same verdict) *)
Theorem C16_cbor_parse_fail_spec : forall k chunks evs0 e0,
  run_chunks None chunks = Ok (evs0, e0) ->
  run_chunks (Some k) chunks =
    Ok (firstn (S k) evs0, if (length evs0 <=? k)%nat then e0 else eVisitor).
Proof.
  intros k chunks evs0 e0 H. apply run_chunks_orf in H. destruct H as (p0 & s0 & H & ->).
  destruct (rep_prefix0 _ _ (p_writes_rep chunks cparser0) k p0 s0 e0 H) as (a & s & H1 & H2 & _).
  apply run_chunks_orf. exists a, s. split; [exact H1|]. symmetry. exact H2.
Qed.

Theorem C16_cbor_parse_prefix : forall k chunks evs e evs0 e0,
  run_chunks (Some k) chunks = Ok (evs, e) -> run_chunks None chunks = Ok (evs0, e0) ->
  evs = firstn (S k) evs0 /\ e = (if (length evs0 <=? k)%nat then e0 else eVisitor).
Proof.
  intros k chunks evs e evs0 e0 H H0.
  rewrite (C16_cbor_parse_fail_spec k chunks evs0 e0 H0) in H. inversion H. split; reflexivity.
Qed.

Theorem C16_cbor_run_parse_prompt : forall k b evs e,
  run_parse (Some k) b = Ok (evs, e) ->
  (length evs <= S k)%nat /\ (length evs = S k -> e = eVisitor).
Proof.
  intros k b evs e H. apply run_parse_orf in H. destruct H as (p & s & H & ->).
  exact (rep_prompt0 _ _ (p_parse_rep cparser0 b) k p s e H).
Qed.

Theorem C16_cbor_run_parse_fail_spec : forall k b evs0 e0,
  run_parse None b = Ok (evs0, e0) ->
  run_parse (Some k) b =
    Ok (firstn (S k) evs0, if (length evs0 <=? k)%nat then e0 else eVisitor).
Proof.
  intros k b evs0 e0 H. apply run_parse_orf in H. destruct H as (p0 & s0 & H & ->).
  destruct (rep_prefix0 _ _ (p_parse_rep cparser0 b) k p0 s0 e0 H) as (a & s & H1 & H2 & _).
  apply run_parse_orf. exists a, s. split; [exact H1|]. symmetry. exact H2.
Qed.

Theorem C16_cbor_run_parse_prefix : forall k b evs e evs0 e0,
  run_parse (Some k) b = Ok (evs, e) -> run_parse None b = Ok (evs0, e0) ->
  evs = firstn (S k) evs0 /\ e = (if (length evs0 <=? k)%nat then e0 else eVisitor).
Proof.
  intros k b evs e evs0 e0 H H0.
  rewrite (C16_cbor_run_parse_fail_spec k b evs0 e0 H0) in H. inversion H. split; reflexivity.
Qed.

Print Assumptions C16_cbor_parse_prompt.
Print Assumptions C16_cbor_parse_fail_spec.
Print Assumptions C16_cbor_parse_prefix.
Print Assumptions C16_cbor_run_parse_prompt.
Print Assumptions C16_cbor_run_parse_fail_spec.
Print Assumptions C16_cbor_run_parse_prefix.
