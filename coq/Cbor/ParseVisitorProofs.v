(* C16 / C17 / C18 for the CBOR parser model (Cbor/Parse.v).
   Part 0/1 (C16): every parser function is the interpretation of a straight-line
     "visitor program": it returns at the first failing visitor call with that
     call's error.  Consequences for run_chunks / run_parse / dec_next.
   Part 2 (C17): an invariant relating the state stack and the length stack; a
     run that ends with a nil verdict leaves the parser in its initial state.
   Part 3 (C18): the pull decoder.  Next depends only on the bytes still to
     come (script independence), never panics, and delivers exactly one item of
     the reference decoder per call, then io.EOF.
   Parts 0-2 and the first section of part 3 need only Prelude/Events/Parse;
   the rest of part 3 uses Cbor/ChunkProofs.v (exec_dich), Cbor/ParseSafety.v
   (feed_until_ok), Cbor/ConformanceProofs.v (value_ok, reject_ok),
   Cbor/ComposeProofs.v (feed_until_top_value) and Core/AdapterProofs.v
   (stream_tree_flatten): place this file after Cbor/ComposeProofs.v. *)
From Coq Require Import Setoid List NArith ZArith Bool Lia.
From Coq Require Import ZifyBool ZifyNat ZifyN.
From SF Require Import Base.Prelude Core.Events Cbor.Parse.
Import ListNotations.
Open Scope Z_scope.
Ltac Zify.zify_post_hook ::= Z.div_mod_to_equations.

(* ====================================================================== *)
(* Part 0: visitor programs.  A function of the sink is "representable"   *)
(* when it is the interpretation of a straight-line program of visitor    *)
(* calls that returns at the first failing call with that call's error.   *)
(* ====================================================================== *)

Definition out (A : Type) : Type := option (A * sink * Z).

Inductive prog (A : Type) : Type :=
| PRet (a : A) (e : Z)
| PAbort
| PVis (ev : event) (afail : A) (k : prog A).
Arguments PRet {A} a e.
Arguments PAbort {A}.
Arguments PVis {A} ev afail k.

Fixpoint run {A} (pr : prog A) (s : sink) : out A :=
  match pr with
  | PRet a e => Some (a, s, e)
  | PAbort => None
  | PVis ev af k => let '(s1, ok) := emit s ev in if ok then run k s1 else Some (af, s1, eVisitor)
  end.

Fixpoint ptrace {A} (pr : prog A) : list event :=
  match pr with PVis ev _ k => ev :: ptrace k | _ => [] end.
Fixpoint pfinal {A} (pr : prog A) : option (A * Z) :=
  match pr with PRet a e => Some (a, e) | PAbort => None | PVis _ _ k => pfinal k end.

Definition s_add (s : sink) (l : list event) : sink :=
  {| s_rlog := rev l ++ s_rlog s; s_n := length l + s_n s; s_fail := s_fail s |}.

Lemma s_add_nil : forall s, s_add s [] = s.
Proof. intros [l n f]; reflexivity. Qed.

Lemma s_add_add : forall s l1 l2, s_add (s_add s l1) l2 = s_add s (l1 ++ l2).
Proof.
  intros s l1 l2. unfold s_add; cbn [s_rlog s_n s_fail]. f_equal.
  - rewrite rev_app_distr, app_assoc. reflexivity.
  - rewrite app_length. lia.
Qed.

Lemma emit_spec : forall s e,
  emit s e = (s_add s [e], match s_fail s with Some k => Nat.ltb (s_n s) k | None => true end).
Proof. intros s e. unfold emit, s_add. cbn [rev app length Nat.add]. destruct (s_fail s); reflexivity. Qed.

Definition final_out {A} (pr : prog A) (s : sink) : out A :=
  match pfinal pr with Some (a, e) => Some (a, s_add s (ptrace pr), e) | None => None end.

Lemma run_nofail : forall A (pr : prog A) s, s_fail s = None -> run pr s = final_out pr s.
Proof.
  induction pr as [a e| |ev af k IH]; intros s Hs; unfold final_out; cbn [run pfinal ptrace].
  - rewrite s_add_nil. reflexivity.
  - reflexivity.
  - rewrite emit_spec, Hs. rewrite IH by exact Hs. unfold final_out.
    destruct (pfinal k) as [[a e]|]; [|reflexivity]. rewrite s_add_add. reflexivity.
Qed.

Lemma run_fail : forall A (pr : prog A) s k, s_fail s = Some k -> (s_n s <= k)%nat ->
  (if (length (ptrace pr) <=? k - s_n s)%nat then run pr s = final_out pr s
   else exists af, run pr s = Some (af, s_add s (firstn (S (k - s_n s)) (ptrace pr)), eVisitor)).
Proof.
  induction pr as [a e| |ev af k0 IH]; intros s k Hs Hn; cbn [run pfinal ptrace length].
  - cbn [Nat.leb]. unfold final_out. cbn [pfinal ptrace]. rewrite s_add_nil. reflexivity.
  - reflexivity.
  - rewrite emit_spec, Hs.
    destruct (Nat.ltb (s_n s) k) eqn:E.
    + apply Nat.ltb_lt in E.
      assert (Hs1 : s_fail (s_add s [ev]) = Some k) by exact Hs.
      assert (Hn1 : (s_n (s_add s [ev]) <= k)%nat) by (cbn [s_add s_n length]; lia).
      specialize (IH _ _ Hs1 Hn1).
      replace (k - s_n (s_add s [ev]))%nat with (k - s_n s - 1)%nat in IH by (cbn [s_add s_n length]; lia).
      destruct (Nat.leb (S (length (ptrace k0))) (k - s_n s)) eqn:L.
      * apply Nat.leb_le in L.
        assert (L' : Nat.leb (length (ptrace k0)) (k - s_n s - 1) = true) by (apply Nat.leb_le; lia).
        rewrite L' in IH. rewrite IH. unfold final_out. cbn [pfinal ptrace].
        destruct (pfinal k0) as [[a e]|]; [|reflexivity]. rewrite s_add_add. reflexivity.
      * apply Nat.leb_gt in L.
        assert (L' : Nat.leb (length (ptrace k0)) (k - s_n s - 1) = false) by (apply Nat.leb_gt; lia).
        rewrite L' in IH. destruct IH as [af' IH]. exists af'. rewrite IH. rewrite s_add_add.
        replace (S (k - s_n s)) with (S (S (k - s_n s - 1))) by lia. reflexivity.
    + apply Nat.ltb_ge in E. assert (k - s_n s = 0)%nat as -> by lia.
      cbn [Nat.leb]. exists af. reflexivity.
Qed.

(* representability *)
Definition Rep {A} (f : sink -> out A) : Type := { pr : prog A | forall s, f s = run pr s }.

Lemma Rep_ret : forall A (a : A) e, Rep (fun s => Some (a, s, e)).
Proof. intros A a e. exists (PRet a e). reflexivity. Qed.

Lemma Rep_abort : forall A, Rep (fun _ => @None (A * sink * Z)).
Proof. intros A. exists PAbort. reflexivity. Qed.

Lemma Rep_ext : forall A (f g : sink -> out A), (forall s, f s = g s) -> Rep g -> Rep f.
Proof. intros A f g H [pr Hpr]. exists pr. intros s. rewrite H. apply Hpr. Qed.

Lemma vis_emit : forall s ev s1 ok, emit s ev = (s1, ok) -> vis s ev = (s1, if ok then nilE else eVisitor).
Proof. intros s ev s1 ok E. unfold vis. rewrite E. reflexivity. Qed.

(* the visitor call: on failure the function returns at once with the visitor's error *)
Lemma Rep_vis : forall A (f : sink -> out A) ev af (g : sink -> out A),
  (forall s s1, vis s ev = (s1, nilE) -> f s = g s1) ->
  (forall s s1, vis s ev = (s1, eVisitor) -> f s = Some (af, s1, eVisitor)) ->
  Rep g -> Rep f.
Proof.
  intros A f ev af g H1 H2 [pr Hpr]. exists (PVis ev af pr). intros s. cbn [run].
  destruct (emit s ev) as [s1 ok] eqn:E. apply vis_emit in E. destruct ok.
  - rewrite (H1 _ _ E). apply Hpr.
  - apply (H2 _ _ E).
Qed.

(* sequencing: the continuation runs only after a nil error *)
Fixpoint pbind {A B} (pr : prog A) (phi : A -> Z -> B) (K : A -> prog B) : prog B :=
  match pr with
  | PRet a e => if isnil e then K a else PRet (phi a e) e
  | PAbort => PAbort
  | PVis ev af k => PVis ev (phi af eVisitor) (pbind k phi K)
  end.

Lemma run_pbind : forall A B (pr : prog A) (phi : A -> Z -> B) K s,
  run (pbind pr phi K) s =
  match run pr s with
  | None => None
  | Some (a, s1, e) => if isnil e then run (K a) s1 else Some (phi a e, s1, e)
  end.
Proof.
  induction pr as [a e| |ev af k IH]; intros phi K s; cbn [pbind run].
  - destruct (isnil e); reflexivity.
  - reflexivity.
  - destruct (emit s ev) as [s1 ok]. destruct ok; [apply IH|reflexivity].
Qed.

Lemma Rep_bind : forall A B (g : sink -> out A) (phi : A -> Z -> B) (h : A -> sink -> out B)
  (f : sink -> out B),
  Rep g -> (forall a, Rep (h a)) ->
  (forall s, f s = match g s with
                   | None => None
                   | Some (a, s1, e) => if isnil e then h a s1 else Some (phi a e, s1, e)
                   end) ->
  Rep f.
Proof.
  intros A B g phi h f [pg Hg] Hh Hf.
  exists (pbind pg phi (fun a => proj1_sig (Hh a))). intros s.
  rewrite Hf, run_pbind, Hg. destruct (run pg s) as [[[a s1] e]|]; [|reflexivity].
  destruct (isnil e); [|reflexivity]. apply (proj2_sig (Hh a)).
Qed.

Lemma Rep_map : forall A B (g : sink -> out A) (phi : A -> Z -> B) (f : sink -> out B),
  Rep g ->
  (forall s, f s = match g s with None => None | Some (a, s1, e) => Some (phi a e, s1, e) end) ->
  Rep f.
Proof.
  intros A B g phi f Hg Hf.
  apply (Rep_bind A B g phi (fun a s => Some (phi a nilE, s, nilE)) f Hg).
  - intros a. apply Rep_ret.
  - intros s. rewrite Hf. destruct (g s) as [[[a s1] e]|]; [|reflexivity].
    destruct (isnil e) eqn:E; [|reflexivity]. apply Z.eqb_eq in E. subst e. reflexivity.
Qed.

(* ====================================================================== *)
(* Part 1: every parser function is representable (core lemma of C16)     *)
(* ====================================================================== *)

Definition osr (r : sres) : out (cparser * bytes * bool) :=
  match r with SR p s rest d e => Some ((p, rest, d), s, e) | Crash _ => None end.
Definition oov (r : option (cparser * sink * bool * Z)) : out (cparser * bool) :=
  match r with Some (p, s, d, e) => Some ((p, d), s, e) | None => None end.

Ltac vred :=
  cbv beta iota zeta;
  change (isnil nilE) with true; change (isnil eVisitor) with false;
  change (negb true) with false; change (negb false) with true;
  cbv beta iota zeta.

Ltac vis_step :=
  eapply Rep_vis;
  [ let s := fresh "s" in let s1 := fresh "s1" in let E := fresh "E" in
    intros s s1 E; cbv beta; rewrite E; vred; reflexivity
  | let s := fresh "s" in let s1 := fresh "s1" in let E := fresh "E" in
    intros s s1 E; cbv beta; rewrite E; vred; reflexivity
  | cbv beta ].

Ltac brk :=
  match goal with
  | |- Rep (fun s => _ (if ?c then _ else _)) => destruct c eqn:?
  | |- Rep (fun s => _ (match ?b with [] => _ | _ :: _ => _ end)) => destruct b
  end.

Lemma Rep_sr : forall p rest d e, Rep (fun s => osr (SR p s rest d e)).
Proof. intros. apply (Rep_ret _ (p, rest, d) e). Qed.
Lemma Rep_crash : forall w, Rep (fun s => osr (Crash w)).
Proof. intros. apply Rep_abort. Qed.
Lemma Rep_ov : forall p d e, Rep (fun s => oov (Some (p, s, d, e))).
Proof. intros. apply (Rep_ret _ (p, d) e). Qed.

Lemma on_value_rep : forall fuel p, Rep (fun s => oov (on_value fuel p s)).
Proof.
  induction fuel as [|f IH]; intros p.
  - apply Rep_abort.
  - cbn [on_value]. cbv zeta.
    brk.
    + brk. 
      * apply Rep_ov.
      * vis_step. apply IH.
    + brk; apply Rep_ov.
Qed.

Lemma pop_state_rep : forall p, Rep (fun s => oov (pop_state p s)).
Proof. intros p. unfold pop_state. cbv zeta. apply on_value_rep. Qed.

Lemma Rep_ov_sr : forall fuel P B W,
  Rep (fun s => osr (match on_value fuel P s with
                     | Some (p2, s3, d, e) => SR p2 s3 B d e | None => Crash W end)).
Proof.
  intros. apply (Rep_map _ _ _ (fun a e => (fst a, B, snd a)) _ (on_value_rep fuel P)).
  intros s. destruct (on_value fuel P s) as [[[[p2 s3] d] e]|]; reflexivity.
Qed.

Lemma Rep_pop_sr : forall P B W,
  Rep (fun s => osr (match pop_state P s with
                     | Some (p2, s3, d, e) => SR p2 s3 B d e | None => Crash W end)).
Proof. intros. unfold pop_state. cbv zeta. apply Rep_ov_sr. Qed.

Ltac fin := first [ apply Rep_sr | apply Rep_crash | apply Rep_pop_sr | apply Rep_ov_sr | apply Rep_ov ].

Ltac brk2 :=
  match goal with
  | |- Rep (fun s => _ (if ?c then _ else _)) => destruct c eqn:?
  | |- Rep (fun s => _ (match ?b with [] => _ | _ :: _ => _ end)) => destruct b
  | |- Rep (fun s => _ (match ?o with Some _ => _ | None => _ end)) => destruct o
  | |- Rep (fun s => _ (match ?c with CR _ _ _ => _ | CCrash => _ end)) => destruct c as [? ? [?|]|]
  end.

Ltac rep_auto := repeat first [ fin | brk2 | vis_step ].

Lemma after_value_rep : forall p r e, Rep (fun s => osr (after_value p s r e)).
Proof. intros. unfold after_value. rep_auto. Qed.
Lemma after_pop_rep : forall p r e, Rep (fun s => osr (after_pop p s r e)).
Proof. intros. unfold after_pop. rep_auto. Qed.

Lemma init_byte_seq_rep : forall p major minor b, Rep (fun s => osr (init_byte_seq p s major minor b)).
Proof. intros. unfold init_byte_seq. rep_auto. Qed.
Lemma init_sub_rep : forall p major minor b, Rep (fun s => osr (init_sub p s major minor b)).
Proof. intros. unfold init_sub. rep_auto. Qed.

Lemma step_value_rep : forall p b, Rep (fun s => osr (step_value p s b)).
Proof.
  intros. unfold step_value. destruct b as [|b0 r]; [apply Rep_sr|].
  cbv zeta. unfold after_value.
  repeat first [ fin | apply init_byte_seq_rep | apply init_sub_rep | brk2 | vis_step ].
Qed.

Lemma step_num_rep : forall neg p b, Rep (fun s => osr (step_num neg p s b)).
Proof.
  intros. unfold step_num, get_uint, after_pop. cbv zeta. rep_auto.
Qed.

Lemma step_float_rep : forall w p b, Rep (fun s => osr (step_float w p s b)).
Proof. intros. unfold step_float, get_uint. rep_auto. Qed.

Lemma step_len_rep : forall p b, Rep (fun s => osr (step_len p s b)).
Proof. intros. unfold step_len, get_uint. cbv zeta. rep_auto. Qed.

Definition oeb (r : sink * Z) : out unit := Some (tt, fst r, snd r).

Lemma emit_bytes_rep : forall l, Rep (fun s => oeb (emit_bytes s l)).
Proof.
  induction l as [|c r IH].
  - apply (Rep_ret _ tt nilE).
  - cbn [emit_bytes]. vis_step. apply IH.
Qed.

Lemma Rep_emit_bytes_bind : forall A l (af : A) (h : sink -> out A) (f : sink -> out A),
  (forall s, f s = let '(s2, err) := emit_bytes s l in if isnil err then h s2 else Some (af, s2, err)) ->
  Rep h -> Rep f.
Proof.
  intros A l af h f Hf Hh.
  apply (Rep_bind _ _ _ (fun _ _ => af) (fun _ => h) f (emit_bytes_rep l) (fun _ => Hh)).
  intros s. rewrite Hf. unfold oeb. destruct (emit_bytes s l) as [s2 err]. reflexivity.
Qed.

Lemma step_bytes_rep : forall p b, Rep (fun s => osr (step_bytes p s b)).
Proof.
  intros. unfold step_bytes.
  assert (K : forall p1, Rep (fun s1 => osr (
    let L := p_lcur p1 in
    let done := zlen b >=? L in
    let '(p2, L2) := if done then (p1, L) else (set_lcur p1 (p_lcur p1 - zlen b), zlen b) in
    if L2 <? 0 then Crash 7 else
    let '(s2, err) := emit_bytes s1 (zfirstn L2 b) in
    if negb (isnil err) then SR p2 s2 [] false err else
    let rest := zskipn L2 b in
    if done then
      let '(s3, err3) := vis s2 EArrEnd in
      let p3 := len_pop p2 in
      if isnil err3 then
        match pop_state p3 s3 with
        | Some (p4, s4, d, e) => SR p4 s4 rest d e
        | None => Crash 93
        end
      else SR p3 s3 rest true err3
    else SR p2 s2 rest false nilE))).
  { intros p1. cbv zeta. destruct (zlen b >=? p_lcur p1) eqn:D; cbv iota.
    - brk2; [fin|].
      eapply (Rep_emit_bytes_bind _ (zfirstn (p_lcur p1) b)).
      + intros s. cbv beta. destruct (emit_bytes s (zfirstn (p_lcur p1) b)) as [s2 err].
        destruct (isnil err) eqn:E; vred; reflexivity.
      + cbv beta. rep_auto.
    - brk2; [fin|].
      eapply (Rep_emit_bytes_bind _ (zfirstn (zlen b) b)).
      + intros s. cbv beta. destruct (emit_bytes s (zfirstn (zlen b) b)) as [s2 err].
        destruct (isnil err) eqn:E; vred; reflexivity.
      + cbv beta. rep_auto. }
  destruct (c_minor (p_cur p) =? stStart).
  - vis_step. apply K.
  - vred. apply K.
Qed.

Lemma step_text_rep : forall p b, Rep (fun s => osr (step_text p s b)).
Proof. intros. unfold step_text. cbv zeta. rep_auto. Qed.

Lemma step_key_rep : forall p b, Rep (fun s => osr (step_key p s b)).
Proof. intros. unfold step_key. cbv zeta. rep_auto. Qed.

Lemma init_map_key_rep : forall p b, Rep (fun s => osr (init_map_key p s b)).
Proof.
  intros. unfold init_map_key. repeat first [ fin | apply init_byte_seq_rep | brk2 ].
Qed.

Lemma Rep_pop_nested : forall P B W,
  Rep (fun s1 => osr
    match
      match pop_state P s1 with
      | Some (p2, s2, d, e) => Some (false, p2, s2, d, e)
      | None => None
      end
    with
    | Some (true, p1, s2, _, _) => step_value p1 s2 B
    | Some (false, p1, s2, d, e) => SR p1 s2 B d e
    | None => Crash W
    end).
Proof.
  intros. eapply Rep_ext; [|apply (Rep_pop_sr P B W)].
  intros s. cbv beta. destruct (pop_state P s) as [[[[? ?] ?] ?]|]; reflexivity.
Qed.

Lemma step_array_rep : forall p b, Rep (fun s => osr (step_array p s b)).
Proof.
  intros. unfold step_array, handle_len.
  destruct (p_lcur p >? 0).
  - cbv iota. apply step_value_rep.
  - vis_step. apply Rep_pop_nested.
Qed.

Lemma step_map_rep : forall p b, Rep (fun s => osr (step_map p s b)).
Proof.
  intros. unfold step_map, handle_len.
  destruct (p_lcur p >? 0).
  - cbv iota. brk2; [apply init_map_key_rep|fin].
  - vis_step. eapply Rep_ext; [|apply (Rep_pop_sr (len_pop p) b 96)].
    intros s. cbv beta. destruct (pop_state (len_pop p) s) as [[[[? ?] ?] ?]|]; reflexivity.
Qed.

Ltac rep_all :=
  repeat first [ fin | apply step_value_rep | apply step_len_rep | apply step_num_rep
               | apply step_float_rep | apply step_bytes_rep | apply step_text_rep
               | apply step_array_rep | apply step_map_rep | apply step_key_rep
               | apply init_map_key_rep | brk2 | vis_step ].

(* Core lemma of C16: one parser step is a straight-line visitor program. *)
Lemma exec_step_rep : forall p b, Rep (fun s => osr (exec_step p s b)).
Proof.
  intros. unfold exec_step. cbv zeta.
  repeat (brk2; [solve [rep_all]|]).
  brk2.
  { destruct (c_major (p_cur p) =? mArr + stIndef); [vred|vis_step]; rep_all. }
  repeat (brk2; [solve [rep_all]|]).
  brk2.
  { destruct (c_major (p_cur p) =? mMap + stIndef); [vred|vis_step]; rep_all. }
  rep_all.
Qed.

(* ---------- the feed loops ---------- *)
Definition ores (r : res sres) : out (cparser * bytes * bool) :=
  match r with Ok x => osr x | _ => None end.
Definition orf (r : res (cparser * sink * Z)) : out cparser :=
  match r with Ok (p, s, e) => Some (p, s, e) | _ => None end.

Lemma isnil_true : forall e, isnil e = true -> e = nilE.
Proof. intros e H. apply Z.eqb_eq in H. exact H. Qed.

Lemma feed_until_rep : forall fuel p b, Rep (fun s => ores (feed_until fuel p s b)).
Proof.
  induction fuel as [|f IH]; intros p b.
  - apply Rep_abort.
  - cbn [feed_until].
    apply (Rep_bind _ _ (fun s => osr (exec_step p s b)) (fun a _ => a)
             (fun a s => let '(p1, rest, done) := a in
                if done then Some (a, s, nilE)
                else if negb (zlen rest =? 0) ||
                        (Z.land (c_major (p_cur p1)) (stStartX + stIndef) =? stStartX)
                     then ores (feed_until f p1 s rest) else Some (a, s, nilE))).
    + apply exec_step_rep.
    + intros [[p1 rest] done]. destruct done; [apply Rep_ret|].
      destruct (negb (zlen rest =? 0) || (Z.land (c_major (p_cur p1)) (stStartX + stIndef) =? stStartX));
        [apply IH|apply Rep_ret].
    + intros s. destruct (exec_step p s b) as [p1 s1 rest done err|w]; [|reflexivity].
      cbn [osr]. destruct (isnil err) eqn:E.
      * apply isnil_true in E. subst err. destruct done; [reflexivity|].
        cbn [orb negb]. change (isnil nilE) with true. cbn [negb].
        destruct (negb (zlen rest =? 0) || (Z.land (c_major (p_cur p1)) (stStartX + stIndef) =? stStartX));
          reflexivity.
      * rewrite orb_true_r. reflexivity.
Qed.

Lemma feed_rep : forall fuel p b, Rep (fun s => orf (feed fuel p s b)).
Proof.
  induction fuel as [|f IH]; intros p b.
  - apply Rep_abort.
  - cbn [feed]. destruct (zlen b >? 0); [|apply Rep_ret].
    apply (Rep_bind _ _ (fun s => ores (feed_until (feed_fuel b) p s b)) (fun a _ => fst (fst a))
             (fun a s => orf (feed f (fst (fst a)) s (snd (fst a))))).
    + apply feed_until_rep.
    + intros a. apply IH.
    + intros s. destruct (feed_until (feed_fuel b) p s b) as [[p1 s1 rest d err|w]| | |]; try reflexivity.
      cbn [ores osr fst snd]. destruct (isnil err); reflexivity.
Qed.

Lemma p_write_rep : forall p b, Rep (fun s => orf (p_write p s b)).
Proof.
  intros. unfold p_write.
  apply (Rep_map _ _ _ (fun p1 e => set_err p1 (if isnil e then 0 else e)) _ (feed_rep (2 * length b + 2) p b)).
  intros s. destruct (feed (2 * length b + 2) p s b) as [[[p1 s1] e]| | |]; reflexivity.
Qed.

Lemma p_parse_rep : forall p b, Rep (fun s => orf (p_parse p s b)).
Proof.
  intros. unfold p_parse.
  apply (Rep_bind _ _ _ (fun p1 _ => p1) (fun p1 s => Some (p1, s, finalize p1)) _
           (feed_rep (2 * length b + 2) p b)).
  - intros a. apply Rep_ret.
  - intros s. destruct (feed (2 * length b + 2) p s b) as [[[p1 s1] e]| | |]; try reflexivity.
    cbn [orf]. destruct (isnil e); reflexivity.
Qed.

Lemma p_writes_rep : forall chunks p, Rep (fun s => orf (p_writes p s chunks)).
Proof.
  induction chunks as [|c r IH]; intros p.
  - apply Rep_ret.
  - cbn [p_writes].
    apply (Rep_bind _ _ _ (fun p1 _ => p1) (fun p1 s => orf (p_writes p1 s r)) _ (p_write_rep p c)).
    + intros a. apply IH.
    + intros s. destruct (p_write p s c) as [[[p1 s1] e]| | |]; try reflexivity.
      cbn [orf]. destruct (isnil e); reflexivity.
Qed.

(* ---------- what representability gives ---------- *)
Lemma s_log_add0 : forall f l, s_log (s_add (sink0 f) l) = l.
Proof. intros. unfold s_log, s_add, sink0. cbn [s_rlog]. rewrite app_nil_r. apply rev_involutive. Qed.

Lemma rep_prompt0 : forall A (f : sink -> out A), Rep f -> forall k a s e,
  f (sink0 (Some k)) = Some (a, s, e) ->
  (length (s_log s) <= S k)%nat /\ (length (s_log s) = S k -> e = eVisitor).
Proof.
  intros A f [pr Hpr] k a s e H. rewrite Hpr in H.
  pose proof (run_fail A pr (sink0 (Some k)) k eq_refl (Nat.le_0_l k)) as R.
  cbn [sink0 s_n] in R. rewrite Nat.sub_0_r in R.
  destruct (Nat.leb (length (ptrace pr)) k) eqn:L.
  - apply Nat.leb_le in L. rewrite R in H. unfold final_out in H.
    destruct (pfinal pr) as [[a' e']|]; [|discriminate]. inversion H; subst.
    change {| s_rlog := []; s_n := 0; s_fail := Some k |} with (sink0 (Some k)).
    rewrite s_log_add0. split; lia.
  - apply Nat.leb_gt in L. destruct R as [af R].
    remember (firstn (S k) (ptrace pr)) as t eqn:Ht.
    rewrite R in H. injection H as Ha Hs He. subst a s e.
    change {| s_rlog := []; s_n := 0; s_fail := Some k |} with (sink0 (Some k)).
    rewrite s_log_add0. split; [|reflexivity]. subst t. rewrite firstn_length. lia.
Qed.

Lemma rep_prefix0 : forall A (f : sink -> out A), Rep f -> forall k a0 s0 e0,
  f (sink0 None) = Some (a0, s0, e0) ->
  exists a s, f (sink0 (Some k)) = Some (a, s, if (length (s_log s0) <=? k)%nat then e0 else eVisitor) /\
              s_log s = firstn (S k) (s_log s0) /\
              ((length (s_log s0) <= k)%nat -> a = a0).
Proof.
  intros A f [pr Hpr] k a0 s0 e0 H. rewrite Hpr in H. rewrite Hpr.
  rewrite run_nofail in H by reflexivity. unfold final_out in H.
  destruct (pfinal pr) as [[a' e']|] eqn:F; [|discriminate]. inversion H; subst. clear H.
  rewrite s_log_add0.
  pose proof (run_fail A pr (sink0 (Some k)) k eq_refl (Nat.le_0_l k)) as R.
  cbn [sink0 s_n] in R. rewrite Nat.sub_0_r in R.
  change {| s_rlog := []; s_n := 0; s_fail := Some k |} with (sink0 (Some k)) in R.
  destruct (Nat.leb (length (ptrace pr)) k) eqn:L.
  - apply Nat.leb_le in L. rewrite R. unfold final_out. rewrite F.
    eexists _, _. split; [reflexivity|]. rewrite s_log_add0. split; [|reflexivity].
    symmetry. apply firstn_all2. lia.
  - apply Nat.leb_gt in L. destruct R as [af R]. rewrite R.
    eexists _, _. split; [reflexivity|]. rewrite s_log_add0. split; [reflexivity|]. lia.
Qed.

(* ---------- C16 for the parser ---------- *)
Lemma run_chunks_orf : forall v chunks evs e,
  run_chunks v chunks = Ok (evs, e) <->
  exists p s, orf (p_writes cparser0 (sink0 v) chunks) = Some (p, s, e) /\ evs = s_log s.
Proof.
  intros. unfold run_chunks. destruct (p_writes cparser0 (sink0 v) chunks) as [[[p s] e']| | |]; cbn [orf].
  - split.
    + intros H. inversion H; subst. eauto.
    + intros (p' & s' & H & ->). inversion H; subst. reflexivity.
  - split; [discriminate|]. intros (p' & s' & H & _). discriminate.
  - split; [discriminate|]. intros (p' & s' & H & _). discriminate.
  - split; [discriminate|]. intros (p' & s' & H & _). discriminate.
Qed.

Lemma run_parse_orf : forall v b evs e,
  run_parse v b = Ok (evs, e) <->
  exists p s, orf (p_parse cparser0 (sink0 v) b) = Some (p, s, e) /\ evs = s_log s.
Proof.
  intros. unfold run_parse. destruct (p_parse cparser0 (sink0 v) b) as [[[p s] e']| | |]; cbn [orf].
  - split.
    + intros H. inversion H; subst. eauto.
    + intros (p' & s' & H & ->). inversion H; subst. reflexivity.
  - split; [discriminate|]. intros (p' & s' & H & _). discriminate.
  - split; [discriminate|]. intros (p' & s' & H & _). discriminate.
  - split; [discriminate|]. intros (p' & s' & H & _). discriminate.
Qed.

(* no event is delivered after the failing one, and its error is returned unchanged *)
Theorem C16_cbor_parse_prompt : forall k chunks evs e,
  run_chunks (Some k) chunks = Ok (evs, e) ->
  (length evs <= S k)%nat /\ (length evs = S k -> e = eVisitor).
Proof.
  intros k chunks evs e H. apply run_chunks_orf in H. destruct H as (p & s & H & ->).
  exact (rep_prompt0 _ _ (p_writes_rep chunks cparser0) k p s e H).
Qed.

(* the failing run is determined by the unfailing one: it delivers exactly the
   first k+1 events, and returns the visitor's error iff the unfailing run has
   more than k events (otherwise the same verdict) *)
Theorem C16_cbor_parse_fail_spec : forall k chunks evs0 e0,
  run_chunks None chunks = Ok (evs0, e0) ->
  run_chunks (Some k) chunks =
    Ok (firstn (S k) evs0, if (length evs0 <=? k)%nat then e0 else eVisitor).
Proof.
  intros k chunks evs0 e0 H. apply run_chunks_orf in H. destruct H as (p0 & s0 & H & ->).
  destruct (rep_prefix0 _ _ (p_writes_rep chunks cparser0) k p0 s0 e0 H) as (a & s & H1 & H2 & _).
  apply run_chunks_orf. exists a, s. split; [exact H1|]. symmetry. exact H2.
Qed.

Theorem C16_cbor_parse_prefix : forall k chunks evs e evs0 e0,
  run_chunks (Some k) chunks = Ok (evs, e) -> run_chunks None chunks = Ok (evs0, e0) ->
  evs = firstn (S k) evs0 /\ e = (if (length evs0 <=? k)%nat then e0 else eVisitor).
Proof.
  intros k chunks evs e evs0 e0 H H0.
  rewrite (C16_cbor_parse_fail_spec k chunks evs0 e0 H0) in H. inversion H. split; reflexivity.
Qed.

Theorem C16_cbor_run_parse_prompt : forall k b evs e,
  run_parse (Some k) b = Ok (evs, e) ->
  (length evs <= S k)%nat /\ (length evs = S k -> e = eVisitor).
Proof.
  intros k b evs e H. apply run_parse_orf in H. destruct H as (p & s & H & ->).
  exact (rep_prompt0 _ _ (p_parse_rep cparser0 b) k p s e H).
Qed.

Theorem C16_cbor_run_parse_fail_spec : forall k b evs0 e0,
  run_parse None b = Ok (evs0, e0) ->
  run_parse (Some k) b =
    Ok (firstn (S k) evs0, if (length evs0 <=? k)%nat then e0 else eVisitor).
Proof.
  intros k b evs0 e0 H. apply run_parse_orf in H. destruct H as (p0 & s0 & H & ->).
  destruct (rep_prefix0 _ _ (p_parse_rep cparser0 b) k p0 s0 e0 H) as (a & s & H1 & H2 & _).
  apply run_parse_orf. exists a, s. split; [exact H1|]. symmetry. exact H2.
Qed.

Theorem C16_cbor_run_parse_prefix : forall k b evs e evs0 e0,
  run_parse (Some k) b = Ok (evs, e) -> run_parse None b = Ok (evs0, e0) ->
  evs = firstn (S k) evs0 /\ e = (if (length evs0 <=? k)%nat then e0 else eVisitor).
Proof.
  intros k b evs e evs0 e0 H H0.
  rewrite (C16_cbor_run_parse_fail_spec k b evs0 e0 H0) in H. inversion H. split; reflexivity.
Qed.

Print Assumptions C16_cbor_parse_prompt.
Print Assumptions C16_cbor_parse_fail_spec.
Print Assumptions C16_cbor_parse_prefix.
Print Assumptions C16_cbor_run_parse_prompt.
Print Assumptions C16_cbor_run_parse_fail_spec.
Print Assumptions C16_cbor_run_parse_prefix.

(* ====================================================================== *)
(* Part 2: C17 - the state after a complete value.  An invariant relating *)
(* the state stack and the length stack.                                  *)
(* ====================================================================== *)

Definition cfg (p : cparser) : list cstate := p_cur p :: p_stack p.

Inductive kind :=
| KV | KArr | KArrI | KMap | KMapI            (* a value may start here *)
| KLeaf                                       (* number / float argument pending *)
| KSeqX | KSeq                                (* byte / text string, before / after its first step *)
| KKeyX | KKey | KElem                        (* map key, map element *)
| KLen                                        (* length argument pending *)
| KArrX | KArrIX | KMapX | KMapIX             (* container start event pending *)
| KBad.

Definition kind_of (m : Z) : kind :=
  if m =? 2 then KV else if m =? 128 then KArr else if m =? 129 then KArrI
  else if m =? 160 then KMap else if m =? 161 then KMapI
  else if (m =? 0) || (m =? 32) || (m =? 250) || (m =? 251) then KLeaf
  else if (m =? 68) || (m =? 100) then KSeqX else if (m =? 64) || (m =? 96) then KSeq
  else if m =? 172 then KKeyX else if m =? 168 then KKey else if m =? 169 then KElem
  else if m =? 3 then KLen
  else if m =? 132 then KArrX else if m =? 133 then KArrIX
  else if m =? 164 then KMapX else if m =? 165 then KMapIX else KBad.

Definition isv (k : kind) : bool :=
  match k with KV | KArr | KArrI | KMap | KMapI => true | _ => false end.

(* a frame of kind [a] may sit directly on a frame of kind [b] *)
Definition ok_on (a b : kind) : bool :=
  match a with
  | KLeaf | KSeqX | KSeq | KArr | KArrI | KMap | KMapI => isv b
  | KKeyX | KKey | KElem => match b with KMap | KMapI => true | _ => false end
  | KLen => match b with KSeqX | KKeyX | KArrX | KMapX => true | _ => false end
  | KArrX => match b with KArr => true | _ => false end
  | KArrIX => match b with KArrI => true | _ => false end
  | KMapX => match b with KMap => true | _ => false end
  | KMapIX => match b with KMapI => true | _ => false end
  | KV | KBad => false
  end.

Definition kd (c : cstate) : kind := kind_of (c_major c).

Fixpoint shape (l : list cstate) : Prop :=
  match l with
  | [] => False
  | c :: r =>
      match r with
      | [] => c = mkst stValue stStart
      | d :: _ => ok_on (kd c) (kd d) = true /\ shape r
      end
  end.

(* how many entries of the length stack a frame owns; a pending KLen frame
   (always on top) stands for the entry its parent does not have yet *)
Definition own (k : kind) : Z :=
  match k with
  | KLen => -1
  | KArr | KMap | KSeqX | KSeq | KKeyX | KKey => 1
  | _ => 0
  end.

Fixpoint cnt (l : list cstate) : Z :=
  match l with [] => 0 | c :: r => own (kd c) + cnt r end.

Definition Inv (L0 : Z) (p : cparser) : Prop :=
  shape (cfg p) /\ zlen (p_lstack p) = cnt (cfg p) /\ last (p_lstack p) (p_lcur p) = L0.

Lemma last_cons : forall A (a : A) l d, last (a :: l) d = last l a.
Proof. intros A a l. revert a. induction l as [|b l IH]; intros a d; [reflexivity|].
  change (last (a :: b :: l) d) with (last (b :: l) d). rewrite IH. symmetry. apply IH. Qed.

Lemma last_indep : forall A (l : list A) a b, 0 < zlen l -> last l a = last l b.
Proof.
  intros A l a b H. destruct l as [|x l]; [unfold zlen in H; cbn in H; lia|].
  rewrite !last_cons. reflexivity.
Qed.

Lemma shape_cc : forall c d r, shape (c :: d :: r) <-> ok_on (kd c) (kd d) = true /\ shape (d :: r).
Proof. intros. reflexivity. Qed.
Lemma shape_1 : forall c, shape [c] <-> c = mkst stValue stStart.
Proof. intros. reflexivity. Qed.

Lemma cnt_tail_nonneg : forall r c, shape (c :: r) -> 0 <= cnt r.
Proof.
  induction r as [|d r IH]; intros c H; cbn [cnt]; [lia|].
  apply shape_cc in H. destruct H as [Hok Hs]. specialize (IH _ Hs).
  destruct (kd c), (kd d); cbn [own ok_on isv] in *; try discriminate; lia.
Qed.

Lemma shape_bottom : forall c r, shape (c :: r) -> kd c = KV -> r = [] /\ c = mkst stValue stStart.
Proof.
  intros c r H E. destruct r as [|d r]; [split; [reflexivity|exact H]|].
  exfalso. apply shape_cc in H. destruct H as [Hok _]. rewrite E in Hok. discriminate.
Qed.

Lemma shape_pop : forall c r, shape (c :: r) -> kd c <> KV ->
  exists d r', r = d :: r' /\ ok_on (kd c) (kd d) = true /\ shape (d :: r').
Proof.
  intros c r H E. destruct r as [|d r].
  - exfalso. apply (proj1 (shape_1 c)) in H. rewrite H in E. apply E. reflexivity.
  - exists d, r. apply shape_cc in H. destruct H. auto.
Qed.
Arguments shape : simpl never.

Lemma kind_not_fail : forall m, kind_of m <> KBad -> (m =? stFail) = false.
Proof.
  intros m H. destruct (m =? stFail) eqn:E; [|reflexivity]. apply Z.eqb_eq in E. subst m.
  exfalso. apply H. reflexivity.
Qed.

Ltac projs :=
  unfold cfg, clear_startx, set_cur, set_buf, set_lcur, set_err, st_push, st_pop, len_push, len_pop, mkst in *;
  cbn [p_cur p_stack p_lcur p_lstack p_buf p_err c_major c_minor] in *.

Ltac kinds :=
  repeat match goal with
  | |- context [kind_of ?v] =>
      progress (let k := eval vm_compute in (kind_of v) in
                lazymatch k with
                | context [match _ with _ => _ end] => fail
                | _ => change (kind_of v) with k
                end)
  | H : context [kind_of ?v] |- _ =>
      progress (let k := eval vm_compute in (kind_of v) in
                lazymatch k with
                | context [match _ with _ => _ end] => fail
                | _ => change (kind_of v) with k in H
                end)
  end.

Ltac kprep :=
  projs; rewrite ?shape_cc in *; cbn [cnt] in *; unfold kd in *; cbn [c_major] in *;
  repeat match goal with Hk : kind_of ?x = _ |- _ => rewrite Hk in * end;
  kinds; cbn [own ok_on isv] in *; unfold zlen in *; cbn [length] in *.

Ltac arith :=
  kprep; repeat match goal with |- _ /\ _ => split end;
  try assumption; try reflexivity; try discriminate; try lia.

Lemma on_value_inv : forall L0 fuel p s p' s' d e,
  Inv L0 p -> isv (kd (p_cur p)) = true ->
  on_value fuel p s = Some (p', s', d, e) -> e = nilE ->
  Inv L0 p' /\ (d = true -> kd (p_cur p') = KV).
Proof.
  induction fuel as [|f IH]; intros p s p' s' d e HI HV H He; [discriminate|].
  cbn [on_value] in H. cbv zeta in H.
  destruct ((c_major (p_cur p) =? mArr) || (c_major (p_cur p) =? mMap)) eqn:E1.
  - destruct p as [cur stk lcur lstk buf err]. 
    destruct HI as (HS & HC & HL). projs.
    pose proof (cnt_tail_nonneg _ _ HS) as Hnn.
    assert (Hown : own (kd cur) = 1).
    { apply orb_true_iff in E1. unfold kd. destruct E1 as [E1|E1]; apply Z.eqb_eq in E1; rewrite E1; reflexivity. }
    assert (Hnv : kd cur <> KV) by (intros E; rewrite E in Hown; discriminate).
    destruct (lcur - 1 >? 0) eqn:E2.
    + inversion H; subst p' s' d e. split; [|discriminate]. unfold Inv. projs.
      split; [exact HS|]. split; [exact HC|]. rewrite <- HL. apply last_indep. cbn [cnt] in HC. lia.
    + destruct (vis s (if c_major cur =? mArr then EArrEnd else EObjEnd)) as [s1 err1].
      destruct (isnil err1) eqn:E3.
      * destruct lstk as [|l lstk]; [exfalso; cbn [cnt] in HC; unfold zlen in HC; cbn [length] in HC; lia|].
        destruct (shape_pop _ _ HS Hnv) as (c & stk' & -> & Hok & HS').
        apply (IH _ _ _ _ _ _) in H; [exact H| | |exact He].
        -- unfold Inv. projs. split; [exact HS'|]. split; [|rewrite last_cons in HL; exact HL].
           cbn [cnt] in *. unfold zlen in *. cbn [length] in *. lia.
        -- projs. destruct (kd cur); try discriminate; exact Hok.
      * inversion H; subst. discriminate.
  - destruct ((c_major (p_cur p) =? mArr + stIndef) || (c_major (p_cur p) =? mMap + stIndef)) eqn:E2;
      inversion H; subst p' s' d e; (split; [exact HI|]); [discriminate|]. intros _.
    unfold kd in *. remember (c_major (p_cur p)) as m eqn:Hm. clear - HV E1 E2.
    unfold kind_of in *. unfold mArr, mMap, stIndef in *.
    repeat match type of HV with context [if ?c then _ else _] => destruct c eqn:? end;
      try discriminate; try reflexivity; lia.
Qed.

(* popState on a frame whose length entry (if any) has already been popped *)
Lemma pop_state_inv : forall L0 p s p' s' d e,
  shape (cfg p) -> ok_on (kd (p_cur p)) KV = true ->
  zlen (p_lstack p) = cnt (p_stack p) -> last (p_lstack p) (p_lcur p) = L0 ->
  pop_state p s = Some (p', s', d, e) -> e = nilE ->
  Inv L0 p' /\ (d = true -> kd (p_cur p') = KV).
Proof.
  intros L0 p s p' s' d e HS HM HC HL H He. unfold pop_state in H. cbv zeta in H.
  destruct p as [cur stk lcur lstk buf err]. projs.
  assert (Hnv : kd cur <> KV) by (intros E; rewrite E in HM; discriminate).
  destruct (shape_pop _ _ HS Hnv) as (c & stk' & -> & Hok & HS').
  apply on_value_inv with (L0 := L0) in H; [exact H| | |exact He].
  - unfold Inv. projs. auto.
  - projs. destruct (kd cur); try discriminate; exact Hok.
Qed.

Ltac brk_in H :=
  match type of H with
  | context [match (if ?c then _ else _) with _ => _ end] => destruct c eqn:?; cbv beta iota in H
  | context [match ?x with _ => _ end] => first [ is_var x; destruct x | destruct x eqn:? ]; cbv beta iota in H
  end.

Ltac kill_nil :=
  match goal with
  | E : isnil nilE = false |- _ => vm_compute in E; discriminate E
  end.

Lemma shape_retop : forall c c' stk,
  shape (c :: stk) -> (forall b, ok_on (kd c) b = true -> ok_on (kd c') b = true) -> kd c <> KV ->
  shape (c' :: stk).
Proof.
  intros c c' stk HS Hok Hnv. destruct (shape_pop _ _ HS Hnv) as (d & r & -> & H1 & H2).
  apply shape_cc. split; [apply Hok; exact H1|exact H2].
Qed.

Ltac retop :=
  match goal with
  | HS : shape (?c :: ?stk) |- shape (_ :: ?stk) =>
      apply (shape_retop c _ stk HS);
      [ let bb := fresh "bb" in intros bb; unfold kd; cbn [c_major];
        repeat match goal with Hk : kind_of ?x = _ |- _ => rewrite Hk end; kinds; exact (fun x => x)
      | unfold kd; repeat match goal with Hk : kind_of ?x = _ |- _ => rewrite Hk end; discriminate ]
  end.

Ltac arith ::=
  kprep; repeat match goal with |- _ /\ _ => split end;
  try assumption; try reflexivity; try discriminate; try lia; try retop.

Ltac inv_fin :=
  unfold Inv; kprep; rewrite ?last_cons in *;
  repeat match goal with |- _ /\ _ => split end;
  try assumption; try reflexivity; try discriminate; try lia; try retop.

Lemma on_value_inv1 : forall L0 fuel p s p' s' d,
  Inv L0 p -> isv (kd (p_cur p)) = true ->
  on_value fuel p s = Some (p', s', d, nilE) -> Inv L0 p'.
Proof. intros L0 fuel p s p' s' d HI HV H. exact (proj1 (on_value_inv L0 fuel p s p' s' d nilE HI HV H eq_refl)). Qed.

Lemma pop_state_inv1 : forall L0 p s p' s' d,
  shape (cfg p) -> ok_on (kd (p_cur p)) KV = true ->
  zlen (p_lstack p) = cnt (p_stack p) -> last (p_lstack p) (p_lcur p) = L0 ->
  pop_state p s = Some (p', s', d, nilE) -> Inv L0 p'.
Proof. intros L0 p s p' s' d H1 H2 H3 H4 H. exact (proj1 (pop_state_inv L0 p s p' s' d nilE H1 H2 H3 H4 H eq_refl)). Qed.

Definition Post (L0 : Z) (p' : cparser) (d : bool) : Prop :=
  Inv L0 p' /\ (d = true -> kd (p_cur p') = KV).

Ltac fix_collect := idtac.
Ltac leaf H := idtac.
Ltac leaf H ::=
  try discriminate H;
  injection H as ? ? ? ? ?; subst;
  try discriminate; try kill_nil; fix_collect;
  unfold Post;
  lazymatch goal with
  | Hov : on_value _ _ _ = Some _ |- _ =>
      eapply on_value_inv; [ | | exact Hov | reflexivity ]; [ inv_fin | arith ]
  | Hps : pop_state _ _ = Some _ |- _ =>
      eapply pop_state_inv; [ | | | | exact Hps | reflexivity ]; [ arith | arith | arith | inv_fin ]
  | _ => split; [ inv_fin | try discriminate ]
  end.

Lemma isv_not_fail : forall c, isv (kd c) = true -> (c_major c =? stFail) = false.
Proof. intros c H. apply kind_not_fail. unfold kd in H. intros E. rewrite E in H. discriminate. Qed.

Lemma init_byte_seq_inv : forall L0 p s major minor b p' s' r d e,
  Inv L0 p ->
  ((major = 64 \/ major = 96) /\ isv (kd (p_cur p)) = true \/
   major = 168 /\ ok_on KKey (kd (p_cur p)) = true) ->
  init_byte_seq p s major minor b = SR p' s' r d e -> e = nilE -> Post L0 p' d.
Proof.
  intros L0 p s major minor b p' s' r d e (HS & HC & HL) HM H He.
  destruct p as [cur stk lcur lstk buf err]. unfold init_byte_seq in H. projs.
  assert (Hf : (c_major cur =? stFail) = false).
  { apply kind_not_fail. fold (kd cur). intros E. rewrite E in HM. cbn in HM.
    destruct HM as [[_ HM]|[_ HM]]; discriminate. }
  rewrite Hf in H.
  assert (Hf2 : (major + stStartX =? stFail) = false) by (unfold stStartX, stFail; lia).
  rewrite ?Hf2 in H.
  destruct HM as [[[-> | ->] HM]|[-> HM]]; repeat brk_in H; leaf H.
Qed.

Lemma init_sub_inv : forall L0 p s major minor b p' s' r d e,
  Inv L0 p -> (major = 128 \/ major = 160) -> isv (kd (p_cur p)) = true ->
  init_sub p s major minor b = SR p' s' r d e -> e = nilE -> Post L0 p' d.
Proof.
  intros L0 p s major minor b p' s' r d e (HS & HC & HL) HM HV H He.
  destruct p as [cur stk lcur lstk buf err]. unfold init_sub in H. projs.
  rewrite (isv_not_fail _ HV) in H.
  destruct HM as [-> | ->]; vm_compute (_ =? stFail) in H; repeat brk_in H; leaf H.
Qed.

Lemma step_value_inv : forall L0 p s b p' s' r d e,
  Inv L0 p -> isv (kd (p_cur p)) = true ->
  step_value p s b = SR p' s' r d e -> e = nilE -> Post L0 p' d.
Proof.
  intros L0 p s b p' s' r d e HI HV H He.
  unfold step_value in H. destruct b as [|b0 b]; [inversion H; subst; split; [exact HI|discriminate]|].
  cbv zeta in H. remember (b0 / 32 * 32) as major eqn:Hmaj. remember (b0 mod 32) as minor eqn:Hmin.
  clear Hmaj Hmin. unfold after_value in H.
  destruct (major =? mUint) eqn:E0; [|destruct (major =? mNeg) eqn:E1].
  1,2: destruct HI as (HS & HC & HL); destruct p as [cur stk lcur lstk buf err]; projs;
    rewrite ?(isv_not_fail _ HV) in H; apply Z.eqb_eq in E0 || apply Z.eqb_eq in E1; subst major;
    repeat brk_in H; leaf H.
  destruct ((major =? mBytes) || (major =? mText)) eqn:E2.
  { destruct (minor =? 31); [inversion H; subst; discriminate|].
    eapply init_byte_seq_inv; [exact HI| |exact H|exact He]. left. split; [|exact HV].
    unfold mBytes, mText in E2. lia. }
  destruct ((major =? mArr) || (major =? mMap)) eqn:E3.
  { eapply init_sub_inv; [exact HI| |exact HV|exact H|exact He]. unfold mArr, mMap in E3. lia. }
  destruct (major =? mTag); [inversion H; subst; discriminate|].
  destruct HI as (HS & HC & HL); destruct p as [cur stk lcur lstk buf err]; projs;
    rewrite ?(isv_not_fail _ HV) in H.
  destruct ((b0 =? 250) || (b0 =? 251)) eqn:EF.
  - assert (Hk : kind_of b0 = KLeaf).
    { apply orb_true_iff in EF. destruct EF as [EF|EF]; apply Z.eqb_eq in EF; subst b0; reflexivity. }
    repeat brk_in H; leaf H.
  - repeat brk_in H; leaf H.
Qed.

Lemma collect_fields : forall p b c p1 rest tmp,
  collect p b c = CR p1 rest tmp ->
  p_cur p1 = p_cur p /\ p_stack p1 = p_stack p /\ p_lcur p1 = p_lcur p /\ p_lstack p1 = p_lstack p.
Proof.
  intros p b c p1 rest tmp H. unfold collect in H.
  repeat match goal with
  | H : context [match ?x with _ => _ end] |- _ => first [ is_var x; destruct x | destruct x eqn:? ]
  end;
  repeat match goal with
  | E : (_, _, _) = (_, _, _) |- _ => inversion E; subst; clear E
  end;
  inversion H; subst; repeat split; reflexivity.
Qed.

Ltac fix_collect ::=
  repeat match goal with
  | Hc : collect _ _ _ = CR ?p1 _ _ |- _ =>
      apply collect_fields in Hc; destruct p1; projs; destruct Hc as (? & ? & ? & ?); subst
  end;
  repeat match goal with
  | E : _ :: _ = _ :: _ |- _ => injection E as ? ?; subst
  | E : _ :: _ = [] |- _ => discriminate E
  | E : [] = _ :: _ |- _ => discriminate E
  end.

Ltac leaf H ::=
  try discriminate H;
  injection H as ? ? ? ? ?; subst;
  try discriminate; try kill_nil; fix_collect;
  unfold Post;
  lazymatch goal with
  | Hov : on_value _ _ _ = Some _ |- _ =>
      eapply on_value_inv; [ | | exact Hov | reflexivity ]; [ inv_fin | arith ]
  | Hps : pop_state _ _ = Some _ |- _ =>
      eapply pop_state_inv; [ | | | | exact Hps | reflexivity ]; [ arith | arith | arith | inv_fin ]
  | _ => split; [ inv_fin | try discriminate ]
  end.

Lemma step_num_inv : forall L0 neg p s b p' s' r d e,
  Inv L0 p -> kd (p_cur p) = KLeaf ->
  step_num neg p s b = SR p' s' r d e -> e = nilE -> Post L0 p' d.
Proof.
  intros L0 neg p s b p' s' r d e (HS & HC & HL) Hk H He.
  destruct p as [cur stk lcur lstk buf err]. unfold step_num, get_uint, after_pop in H. projs.
  repeat brk_in H; leaf H.
Qed.

Lemma step_float_inv : forall L0 w p s b p' s' r d e,
  Inv L0 p -> kd (p_cur p) = KLeaf ->
  step_float w p s b = SR p' s' r d e -> e = nilE -> Post L0 p' d.
Proof.
  intros L0 w p s b p' s' r d e (HS & HC & HL) Hk H He.
  destruct p as [cur stk lcur lstk buf err]. unfold step_float, get_uint in H. projs.
  repeat brk_in H; leaf H.
Qed.

Lemma step_len_inv : forall L0 p s b p' s' r d e,
  Inv L0 p -> kd (p_cur p) = KLen ->
  step_len p s b = SR p' s' r d e -> e = nilE -> Post L0 p' d.
Proof.
  intros L0 p s b p' s' r d e (HS & HC & HL) Hk H He.
  destruct p as [cur stk lcur lstk buf err]. projs.
  destruct (shape_pop _ _ HS ltac:(rewrite Hk; discriminate)) as (c & stk' & -> & Hok & HS').
  unfold step_len, get_uint in H. projs.
  repeat brk_in H; leaf H; try (destruct (kind_of (c_major c)); try discriminate; lia).
Qed.

Lemma emit_bytes_any : forall l s, exists s1 e, emit_bytes s l = (s1, e).
Proof. intros. destruct (emit_bytes s l) as [s1 e]. eauto. Qed.

Lemma step_bytes_inv : forall L0 p s b p' s' r d e,
  Inv L0 p -> kd (p_cur p) = KSeq ->
  step_bytes p s b = SR p' s' r d e -> e = nilE -> Post L0 p' d.
Proof.
  intros L0 p s b p' s' r d e (HS & HC & HL) Hk H He.
  destruct p as [cur stk lcur lstk buf err]. unfold step_bytes in H. projs.
  pose proof (cnt_tail_nonneg _ _ HS) as Hnn.
  destruct lstk as [|l0 lstk]; [exfalso; kprep; lia|].
  destruct (c_minor cur =? stStart).
  - destruct (vis s (EArrStart lcur BByte)) as [s1 e1]. destruct (isnil e1) eqn:E1; cbn [negb] in H.
    + projs. repeat brk_in H; leaf H; try (apply last_indep; lia).
    + inversion H; subst. kill_nil.
  - cbn [negb] in H. change (isnil nilE) with true in H. cbn [negb] in H. projs.
    repeat brk_in H; leaf H; try (apply last_indep; lia).
Qed.

Ltac need_len HS lstk :=
  let Hnn := fresh "Hnn" in
  pose proof (cnt_tail_nonneg _ _ HS) as Hnn;
  destruct lstk as [|? lstk]; [exfalso; kprep; lia|].

Lemma step_text_inv : forall L0 p s b p' s' r d e,
  Inv L0 p -> kd (p_cur p) = KSeq ->
  step_text p s b = SR p' s' r d e -> e = nilE -> Post L0 p' d.
Proof.
  intros L0 p s b p' s' r d e (HS & HC & HL) Hk H He.
  destruct p as [cur stk lcur lstk buf err]. unfold step_text in H. projs.
  need_len HS lstk.
  repeat brk_in H; leaf H.
Qed.

Lemma step_key_inv : forall L0 p s b p' s' r d e,
  Inv L0 p -> kd (p_cur p) = KKey ->
  step_key p s b = SR p' s' r d e -> e = nilE -> Post L0 p' d.
Proof.
  intros L0 p s b p' s' r d e (HS & HC & HL) Hk H He.
  destruct p as [cur stk lcur lstk buf err]. unfold step_key in H. projs.
  need_len HS lstk.
  repeat brk_in H; leaf H.
Qed.

Lemma init_map_key_inv : forall L0 p s b p' s' r d e,
  Inv L0 p -> ok_on KKey (kd (p_cur p)) = true ->
  init_map_key p s b = SR p' s' r d e -> e = nilE -> Post L0 p' d.
Proof.
  intros L0 p s b p' s' r d e HI Hk H He. unfold init_map_key in H.
  destruct b as [|b0 b]; [discriminate|].
  destruct (negb (b0 / 32 * 32 =? mText)); [inversion H; subst; discriminate|].
  destruct (b0 mod 32 =? 31); [inversion H; subst; discriminate|].
  eapply init_byte_seq_inv; [exact HI| |exact H|exact He]. right. split; [reflexivity|exact Hk].
Qed.

Lemma step_array_inv : forall L0 p s b p' s' r d e,
  Inv L0 p -> kd (p_cur p) = KArr ->
  step_array p s b = SR p' s' r d e -> e = nilE -> Post L0 p' d.
Proof.
  intros L0 p s b p' s' r d e HI Hk H He. unfold step_array, handle_len in H.
  destruct (p_lcur p >? 0).
  - eapply step_value_inv; [exact HI|rewrite Hk; reflexivity|exact H|exact He].
  - destruct HI as (HS & HC & HL). destruct p as [cur stk lcur lstk buf err]. projs.
    need_len HS lstk.
    destruct (vis s EArrEnd) as [s1 e1]. destruct (isnil e1) eqn:E1.
    + destruct (pop_state _ s1) as [[[[p2 s2] d2] e2]|] eqn:Hps; leaf H.
    + leaf H.
Qed.

Lemma step_map_inv : forall L0 p s b p' s' r d e,
  Inv L0 p -> kd (p_cur p) = KMap ->
  step_map p s b = SR p' s' r d e -> e = nilE -> Post L0 p' d.
Proof.
  intros L0 p s b p' s' r d e HI Hk H He. unfold step_map, handle_len in H.
  destruct (p_lcur p >? 0).
  - destruct (zlen b >? 0).
    + eapply init_map_key_inv; [exact HI|rewrite Hk; reflexivity|exact H|exact He].
    + inversion H; subst; split; [exact HI|discriminate].
  - destruct HI as (HS & HC & HL). destruct p as [cur stk lcur lstk buf err]. projs.
    need_len HS lstk.
    destruct (vis s EObjEnd) as [s1 e1]. destruct (isnil e1) eqn:E1.
    + destruct (pop_state _ s1) as [[[[p2 s2] d2] e2]|] eqn:Hps; leaf H.
    + leaf H.
Qed.

Ltac getk E Hk :=
  apply Z.eqb_eq in E;
  pose proof (f_equal kind_of E) as Hk;
  match type of Hk with
  | _ = ?rhs => let k := eval vm_compute in rhs in change rhs with k in Hk
  end.

(* the inline branches of execStep: open the parser record and split cases *)
Ltac inline_branch HI H E :=
  let HS := fresh "HS" in let HC := fresh "HC" in let HL := fresh "HL" in
  destruct HI as (HS & HC & HL);
  match goal with p : cparser |- _ => destruct p as [cur stk lcur lstk buf err] end;
  projs.

Lemma st_pop_inv : forall L0 p,
  Inv L0 p -> own (kd (p_cur p)) = 0 -> kd (p_cur p) <> KV ->
  Inv L0 (st_pop p) /\ ok_on (kd (p_cur p)) (kd (p_cur (st_pop p))) = true.
Proof.
  intros L0 p (HS & HC & HL) Ho Hnv. destruct p as [cur stk lcur lstk buf err]. projs.
  destruct (shape_pop _ _ HS Hnv) as (c & stk' & -> & Hok & HS').
  split; [|exact Hok]. unfold Inv. projs. split; [exact HS'|]. split; [|exact HL].
  cbn [cnt] in *. lia.
Qed.

Lemma pop_state_inv2 : forall L0 p s p' s' d,
  Inv L0 p -> own (kd (p_cur p)) = 0 -> ok_on (kd (p_cur p)) KV = true ->
  pop_state p s = Some (p', s', d, nilE) -> Post L0 p' d.
Proof.
  intros L0 p s p' s' d (HS & HC & HL) Ho Hok H.
  eapply pop_state_inv; [exact HS|exact Hok| |exact HL|exact H|reflexivity].
  unfold cfg in HC. cbn [cnt] in HC. lia.
Qed.

(* the common tail of the indefinite-length array / map states *)
Lemma indef_tail_inv : forall L0 p1 s1 b ev w1 w2 (K : cparser -> sink -> bytes -> sres) p' s' r' d' e',
  Inv L0 p1 -> (kd (p_cur p1) = KArrI \/ kd (p_cur p1) = KMapI) ->
  (forall p'' s'' r'' d'' e'', K p1 s1 b = SR p'' s'' r'' d'' e'' -> e'' = nilE -> Post L0 p'' d'') ->
  match b with
  | [] => Crash w1
  | b0 :: r =>
      if b0 =? 255 then
        let '(s2, err2) := vis s1 ev in
        if isnil err2 then
          match pop_state p1 s2 with
          | Some (p2, s3, d, e) => SR p2 s3 r d e
          | None => Crash w2
          end
        else SR p1 s2 r false err2
      else K p1 s1 b
  end = SR p' s' r' d' e' -> e' = nilE -> Post L0 p' d'.
Proof.
  intros L0 p1 s1 b ev w1 w2 K p' s' r' d' e' HI Hk HK H He.
  destruct b as [|b0 r]; [discriminate|].
  destruct (b0 =? 255); [|eapply HK; eauto].
  destruct (vis s1 ev) as [s2 err2]. destruct (isnil err2) eqn:E2.
  - destruct (pop_state p1 s2) as [[[[p2 s3] d] e]|] eqn:Hps; [|discriminate].
    inversion H; subst. eapply pop_state_inv2; [exact HI| | |exact Hps];
      destruct Hk as [Hk|Hk]; rewrite Hk; reflexivity.
  - inversion H; subst. kill_nil.
Qed.

Lemma exec_step_inv : forall L0 p s b p' s' r d e,
  Inv L0 p -> exec_step p s b = SR p' s' r d e -> e = nilE -> Post L0 p' d.
Proof.
  intros L0 p s b p' s' r d e HI H He. unfold exec_step in H. cbv zeta in H.
  destruct (c_major (p_cur p) =? stFail) eqn:E. { inversion H; subst; split; [exact HI|discriminate]. } clear E.
  destruct (c_major (p_cur p) =? stValue) eqn:E.
  { getk E Hk. eapply step_value_inv; [exact HI|unfold kd; rewrite Hk; reflexivity|exact H|exact He]. } clear E.
  destruct (c_major (p_cur p) =? stLen) eqn:E.
  { getk E Hk. eapply step_len_inv; [exact HI|exact Hk|exact H|exact He]. } clear E.
  destruct (c_major (p_cur p) =? mUint) eqn:E.
  { getk E Hk. eapply step_num_inv; [exact HI|exact Hk|exact H|exact He]. } clear E.
  destruct (c_major (p_cur p) =? mNeg) eqn:E.
  { getk E Hk. eapply step_num_inv; [exact HI|exact Hk|exact H|exact He]. } clear E.
  destruct (c_major (p_cur p) =? 250) eqn:E.
  { getk E Hk. eapply step_float_inv; [exact HI|exact Hk|exact H|exact He]. } clear E.
  destruct (c_major (p_cur p) =? 251) eqn:E.
  { getk E Hk. eapply step_float_inv; [exact HI|exact Hk|exact H|exact He]. } clear E.
  destruct (c_major (p_cur p) =? mBytes + stStartX) eqn:E.
  { getk E Hk. destruct (p_lcur p =? 0).
    - destruct HI as (HS & HC & HL). destruct p as [cur stk lcur lstk buf err]. projs.
      need_len HS lstk. repeat brk_in H; leaf H.
    - assert (HI' : Inv L0 (clear_startx p)).
      { destruct HI as (HS & HC & HL). destruct p as [cur stk lcur lstk buf err]. projs.
        assert (Hk2 : kind_of (c_major cur - stStartX) = KSeq) by (rewrite E; reflexivity).
        inv_fin. }
      assert (Hk' : kd (p_cur (clear_startx p)) = KSeq).
      { destruct p as [cur stk lcur lstk buf err]. projs. unfold kd. cbn [c_major]. rewrite E. reflexivity. }
      destruct (zlen b =? 0); [inversion H; subst; split; [exact HI'|discriminate]|].
      eapply step_bytes_inv; [exact HI'|exact Hk'|exact H|exact He]. } clear E.
  destruct (c_major (p_cur p) =? mBytes) eqn:E.
  { getk E Hk. eapply step_bytes_inv; [exact HI|exact Hk|exact H|exact He]. } clear E.
  destruct (c_major (p_cur p) =? mText + stStartX) eqn:E.
  { getk E Hk. destruct (p_lcur p =? 0).
    - destruct HI as (HS & HC & HL). destruct p as [cur stk lcur lstk buf err]. projs.
      need_len HS lstk. repeat brk_in H; leaf H.
    - assert (HI' : Inv L0 (clear_startx p)).
      { destruct HI as (HS & HC & HL). destruct p as [cur stk lcur lstk buf err]. projs.
        assert (Hk2 : kind_of (c_major cur - stStartX) = KSeq) by (rewrite E; reflexivity).
        inv_fin. }
      assert (Hk' : kd (p_cur (clear_startx p)) = KSeq).
      { destruct p as [cur stk lcur lstk buf err]. projs. unfold kd. cbn [c_major]. rewrite E. reflexivity. }
      destruct (zlen b =? 0); [inversion H; subst; split; [exact HI'|discriminate]|].
      eapply step_text_inv; [exact HI'|exact Hk'|exact H|exact He]. } clear E.
  destruct (c_major (p_cur p) =? mText) eqn:E.
  { getk E Hk. eapply step_text_inv; [exact HI|exact Hk|exact H|exact He]. } clear E.
  destruct (c_major (p_cur p) =? mArr + stStartX) eqn:E.
  { getk E Hk. destruct (vis s (EArrStart (p_lcur p) BAny)) as [s1 e1].
    destruct (isnil e1) eqn:E1; [|inversion H; subst; kill_nil].
    destruct (st_pop_inv L0 p HI) as [HI' Hok]; [fold (kd (p_cur p)) in Hk; rewrite Hk; reflexivity
      |fold (kd (p_cur p)) in Hk; rewrite Hk; discriminate|].
    fold (kd (p_cur p)) in Hk. rewrite Hk in Hok.
    eapply step_array_inv; [exact HI'| |exact H|exact He].
    destruct (kd (p_cur (st_pop p))); try discriminate; reflexivity. } clear E.
  destruct (c_major (p_cur p) =? mArr) eqn:E.
  { getk E Hk. eapply step_array_inv; [exact HI|exact Hk|exact H|exact He]. } clear E.
  destruct ((c_major (p_cur p) =? mArr + stStartX + stIndef) || (c_major (p_cur p) =? mArr + stIndef)) eqn:E.
  { destruct (c_major (p_cur p) =? mArr + stIndef) eqn:E2.
    - getk E2 Hk. change (isnil nilE) with true in H. cbn [negb] in H.
      eapply (indef_tail_inv L0 p s b EArrEnd 11 99 step_value); [exact HI|left; exact Hk| |exact H|exact He].
      intros p'' s'' r'' d'' e'' HK He''. eapply step_value_inv; [exact HI| |exact HK|exact He''].
      fold (kd (p_cur p)) in Hk. rewrite Hk. reflexivity.
    - rewrite orb_false_r in E. getk E Hk. fold (kd (p_cur p)) in Hk.
      destruct (vis s (EArrStart (-1) BAny)) as [s1 e1].
      destruct (isnil e1) eqn:E1; cbn [negb] in H; [|inversion H; subst; kill_nil].
      destruct (st_pop_inv L0 p HI) as [HI' Hok]; [rewrite Hk; reflexivity|rewrite Hk; discriminate|].
      rewrite Hk in Hok.
      assert (Hk' : kd (p_cur (st_pop p)) = KArrI) by (destruct (kd (p_cur (st_pop p))); try discriminate; reflexivity).
      eapply (indef_tail_inv L0 (st_pop p) s1 b EArrEnd 11 99 step_value); [exact HI'|left; exact Hk'| |exact H|exact He].
      intros p'' s'' r'' d'' e'' HK He''. eapply step_value_inv; [exact HI'| |exact HK|exact He''].
      rewrite Hk'. reflexivity. } clear E.
  destruct (c_major (p_cur p) =? mMap + stStartX) eqn:E.
  { getk E Hk. destruct (vis s (EObjStart (p_lcur p) BAny)) as [s1 e1].
    destruct (isnil e1) eqn:E1; [|inversion H; subst; kill_nil].
    destruct (st_pop_inv L0 p HI) as [HI' Hok]; [fold (kd (p_cur p)) in Hk; rewrite Hk; reflexivity
      |fold (kd (p_cur p)) in Hk; rewrite Hk; discriminate|].
    fold (kd (p_cur p)) in Hk. rewrite Hk in Hok.
    eapply step_map_inv; [exact HI'| |exact H|exact He].
    destruct (kd (p_cur (st_pop p))); try discriminate; reflexivity. } clear E.
  destruct (c_major (p_cur p) =? mMap) eqn:E.
  { getk E Hk. eapply step_map_inv; [exact HI|exact Hk|exact H|exact He]. } clear E.
  destruct ((c_major (p_cur p) =? mMap + stStartX + stIndef) || (c_major (p_cur p) =? mMap + stIndef)) eqn:E.
  { destruct (c_major (p_cur p) =? mMap + stIndef) eqn:E2.
    - getk E2 Hk. change (isnil nilE) with true in H. cbn [negb] in H.
      eapply (indef_tail_inv L0 p s b EObjEnd 12 100 init_map_key); [exact HI|right; exact Hk| |exact H|exact He].
      intros p'' s'' r'' d'' e'' HK He''. eapply init_map_key_inv; [exact HI| |exact HK|exact He''].
      fold (kd (p_cur p)) in Hk. rewrite Hk. reflexivity.
    - rewrite orb_false_r in E. getk E Hk. fold (kd (p_cur p)) in Hk.
      destruct (vis s (EObjStart (-1) BAny)) as [s1 e1].
      destruct (isnil e1) eqn:E1; cbn [negb] in H; [|inversion H; subst; kill_nil].
      destruct (st_pop_inv L0 p HI) as [HI' Hok]; [rewrite Hk; reflexivity|rewrite Hk; discriminate|].
      rewrite Hk in Hok.
      assert (Hk' : kd (p_cur (st_pop p)) = KMapI) by (destruct (kd (p_cur (st_pop p))); try discriminate; reflexivity).
      eapply (indef_tail_inv L0 (st_pop p) s1 b EObjEnd 12 100 init_map_key); [exact HI'|right; exact Hk'| |exact H|exact He].
      intros p'' s'' r'' d'' e'' HK He''. eapply init_map_key_inv; [exact HI'| |exact HK|exact He''].
      rewrite Hk'. reflexivity. } clear E.
  destruct (c_major (p_cur p) =? stKey + stStartX) eqn:E.
  { getk E Hk. destruct (p_lcur p =? 0).
    - destruct HI as (HS & HC & HL). destruct p as [cur stk lcur lstk buf err]. projs.
      need_len HS lstk. repeat brk_in H; leaf H.
    - assert (HI' : Inv L0 (clear_startx p)).
      { destruct HI as (HS & HC & HL). destruct p as [cur stk lcur lstk buf err]. projs.
        assert (Hk2 : kind_of (c_major cur - stStartX) = KKey) by (rewrite E; reflexivity).
        inv_fin. }
      assert (Hk' : kd (p_cur (clear_startx p)) = KKey).
      { destruct p as [cur stk lcur lstk buf err]. projs. unfold kd. cbn [c_major]. rewrite E. reflexivity. }
      eapply step_key_inv; [exact HI'|exact Hk'|exact H|exact He]. } clear E.
  destruct (c_major (p_cur p) =? stKey) eqn:E.
  { getk E Hk. eapply step_key_inv; [exact HI|exact Hk|exact H|exact He]. } clear E.
  destruct (c_major (p_cur p) =? stElem) eqn:E.
  { getk E Hk. fold (kd (p_cur p)) in Hk.
    destruct (st_pop_inv L0 p HI) as [HI' Hok]; [rewrite Hk; reflexivity|rewrite Hk; discriminate|].
    rewrite Hk in Hok.
    eapply step_value_inv; [exact HI'| |exact H|exact He].
    destruct (kd (p_cur (st_pop p))); try discriminate; reflexivity. } clear E.
  inversion H; subst; discriminate.
Qed.

Lemma feed_until_inv : forall L0 fuel p s b p' s' r d e,
  Inv L0 p -> feed_until fuel p s b = Ok (SR p' s' r d e) -> e = nilE -> Post L0 p' d.
Proof.
  induction fuel as [|f IH]; intros p s b p' s' r d e HI H He; [discriminate|].
  cbn [feed_until] in H.
  destruct (exec_step p s b) as [p1 s1 rest done err|w] eqn:Hx; [|discriminate].
  destruct (done || negb (isnil err)) eqn:Ed.
  - inversion H; subst. eapply exec_step_inv; eauto.
  - apply orb_false_iff in Ed. destruct Ed as [-> Ee]. apply negb_false_iff in Ee.
    apply isnil_true in Ee. subst err.
    destruct (exec_step_inv _ _ _ _ _ _ _ _ _ HI Hx eq_refl) as [HI1 _].
    destruct (negb (zlen rest =? 0) || (Z.land (c_major (p_cur p1)) (stStartX + stIndef) =? stStartX)).
    + eapply IH; eauto.
    + inversion H; subst. split; [exact HI1|discriminate].
Qed.

Lemma feed_inv : forall L0 fuel p s b p' s' e,
  Inv L0 p -> feed fuel p s b = Ok (p', s', e) -> e = nilE -> Inv L0 p'.
Proof.
  induction fuel as [|f IH]; intros p s b p' s' e HI H He; [discriminate|].
  cbn [feed] in H. destruct (zlen b >? 0); [|inversion H; subst; exact HI].
  destruct (feed_until (feed_fuel b) p s b) as [[p1 s1 rest d err|w]| | |] eqn:Hf; try discriminate.
  destruct (isnil err) eqn:Ee.
  - apply isnil_true in Ee. subst err.
    destruct (feed_until_inv _ _ _ _ _ _ _ _ _ _ HI Hf eq_refl) as [HI1 _].
    eapply IH; eauto.
  - inversion H; subst. kill_nil.
Qed.

Lemma Inv_set_err : forall L0 p e, Inv L0 p -> Inv L0 (set_err p e).
Proof. intros L0 p e H. exact H. Qed.

Lemma p_write_inv : forall L0 p s b p' s' e,
  Inv L0 p -> p_write p s b = Ok (p', s', e) -> e = nilE -> Inv L0 p'.
Proof.
  intros L0 p s b p' s' e HI H He. unfold p_write in H.
  destruct (feed (2 * length b + 2) p s b) as [[[p1 s1] err]| | |] eqn:Hf; try discriminate.
  inversion H; subst. apply Inv_set_err. eapply feed_inv; eauto.
Qed.

(* what a clean, between-values parser state is (everything except p_err) *)
Definition clean (L0 : Z) (p : cparser) : Prop :=
  p_cur p = mkst stValue stStart /\ p_stack p = [] /\ p_lcur p = L0 /\ p_lstack p = [] /\ p_buf p = [].

Lemma clean_Inv : forall L0 p, clean L0 p -> Inv L0 p.
Proof.
  intros L0 p (H1 & H2 & H3 & H4 & H5). unfold Inv, cfg. rewrite H1, H2, H3, H4.
  split; [reflexivity|]. split; reflexivity.
Qed.

Lemma zlen_nonneg' : forall A (l : list A), 0 <= zlen l.
Proof. intros. unfold zlen. lia. Qed.

Lemma zlen_0_nil : forall A (l : list A), zlen l = 0 -> l = [].
Proof. intros A [|x l] H; [reflexivity|]. unfold zlen in H. cbn [length] in H. lia. Qed.

(* finalize succeeds only in a clean state *)
Lemma finalize_clean : forall L0 p, Inv L0 p -> finalize p = nilE -> clean L0 p.
Proof.
  intros L0 p (HS & HC & HL) Hf. unfold finalize in Hf.
  destruct ((zlen (p_stack p) >? 0) || negb (c_major (p_cur p) =? stValue) || (zlen (p_buf p) >? 0)) eqn:E;
    [discriminate|].
  apply orb_false_iff in E. destruct E as [E E3]. apply orb_false_iff in E. destruct E as [E1 E2].
  apply negb_false_iff in E2. apply Z.eqb_eq in E2.
  assert (Hst : p_stack p = []) by (apply zlen_0_nil; pose proof (zlen_nonneg' _ (p_stack p)); lia).
  assert (Hbuf : p_buf p = []) by (apply zlen_0_nil; pose proof (zlen_nonneg' _ (p_buf p)); lia).
  unfold cfg in *. rewrite Hst in *. apply (proj1 (shape_1 _)) in HS.
  assert (Hl : p_lstack p = []).
  { apply zlen_0_nil. rewrite HC, HS. reflexivity. }
  rewrite Hl in HL. cbn [last] in HL.
  unfold clean. auto.
Qed.

(* ---------- C17 ---------- *)
Lemma clean0 : clean 0 cparser0.
Proof. unfold clean, cparser0. cbn. auto. Qed.

(* after a complete top-level value (done = true, nil error) both stacks are
   empty again and the parser waits for a value; holds from any state reachable
   from a clean one without error *)
Theorem C17_cbor_value_done : forall L0 fuel p s b p' s' r,
  Inv L0 p -> feed_until fuel p s b = Ok (SR p' s' r true nilE) ->
  p_cur p' = mkst stValue stStart /\ p_stack p' = [] /\ p_lstack p' = [] /\ p_lcur p' = L0 /\ Inv L0 p'.
Proof.
  intros L0 fuel p s b p' s' r HI H.
  destruct (feed_until_inv _ _ _ _ _ _ _ _ _ _ HI H eq_refl) as [HI' Hd].
  specialize (Hd eq_refl). destruct HI' as (HS & HC & HL).
  destruct (shape_bottom _ _ HS Hd) as [Hst Hcur].
  unfold cfg in HC. rewrite Hst, Hcur in HC.
  assert (Hl : p_lstack p' = []) by (apply zlen_0_nil; rewrite HC; reflexivity).
  rewrite Hl in HL. cbn [last] in HL.
  split; [exact Hcur|]. split; [exact Hst|]. split; [exact Hl|]. split; [exact HL|].
  unfold Inv, cfg. rewrite Hst, Hcur, Hl. split; [reflexivity|]. split; [reflexivity|exact HL].
Qed.

Theorem C17_cbor_parse_clean : forall L0 p s b p' s',
  clean L0 p -> p_parse p s b = Ok (p', s', nilE) -> clean L0 p'.
Proof.
  intros L0 p s b p' s' Hc H. unfold p_parse in H.
  destruct (feed (2 * length b + 2) p s b) as [[[p1 s1] err]| | |] eqn:Hf; try discriminate.
  destruct (isnil err) eqn:Ee.
  - apply isnil_true in Ee. subst err. inversion H; subst.
    apply finalize_clean; [|assumption]. eapply feed_inv; [apply clean_Inv; exact Hc|exact Hf|reflexivity].
  - inversion H; subst. kill_nil.
Qed.

Theorem C17_cbor_writes_clean : forall L0 chunks p s p' s',
  clean L0 p -> p_writes p s chunks = Ok (p', s', nilE) -> clean L0 p'.
Proof.
  intros L0 chunks p s p' s' Hc H.
  assert (G : forall chunks p s, Inv L0 p -> p_writes p s chunks = Ok (p', s', nilE) -> clean L0 p').
  { clear. induction chunks as [|c r IH]; intros p s HI H; cbn [p_writes] in H.
    - inversion H; subst. apply finalize_clean; assumption.
    - destruct (p_write p s c) as [[[p1 s1] err]| | |] eqn:Hw; try discriminate.
      destruct (isnil err) eqn:Ee.
      + apply isnil_true in Ee. subst err. eapply IH; [|exact H]. eapply p_write_inv; eauto.
      + inversion H; subst. kill_nil. }
  eapply G; [apply clean_Inv; exact Hc|exact H].
Qed.

(* the statement asked for: Parse on a fresh parser that returns nil leaves the
   parser in its initial state (all fields but p_err, which Parse never writes) *)
Theorem C17_cbor_parse_reset : forall s b p' s',
  p_parse cparser0 s b = Ok (p', s', nilE) ->
  p_cur p' = mkst stValue stStart /\ p_stack p' = [] /\ p_buf p' = [] /\
  p_lstack p' = [] /\ p_lcur p' = 0.
Proof.
  intros s b p' s' H. destruct (C17_cbor_parse_clean 0 _ _ _ _ _ clean0 H) as (H1 & H2 & H3 & H4 & H5).
  auto.
Qed.

Theorem C17_cbor_writes_reset : forall s chunks p' s',
  p_writes cparser0 s chunks = Ok (p', s', nilE) ->
  p_cur p' = mkst stValue stStart /\ p_stack p' = [] /\ p_buf p' = [] /\
  p_lstack p' = [] /\ p_lcur p' = 0.
Proof.
  intros s chunks p' s' H. destruct (C17_cbor_writes_clean 0 _ _ _ _ _ clean0 H) as (H1 & H2 & H3 & H4 & H5).
  auto.
Qed.

Print Assumptions C17_cbor_value_done.
Print Assumptions C17_cbor_parse_clean.
Print Assumptions C17_cbor_writes_clean.
Print Assumptions C17_cbor_parse_reset.
Print Assumptions C17_cbor_writes_reset.

(* ====================================================================== *)
(* Part 3: the pull decoder                                               *)
(* ====================================================================== *)

Definition odn (r : res (cdecoder * sink * Z)) : out cdecoder :=
  match r with Ok (d, s, e) => Some (d, s, e) | _ => None end.

(* the part of Next after the buffer has been (re)filled *)
Definition dec_body (f : nat) (d1 : cdecoder) (s : sink) : res (cdecoder * sink * Z) :=
  match feed_until (feed_fuel (d_buf d1)) (d_p d1) s (d_buf d1) with
  | Ok (SR p1 s1 rest done err) =>
      let d2 := {| d_p := p1; d_buf := rest; d_script := d_script d1; d_bytesdec := d_bytesdec d1 |} in
      if negb (isnil err) then Ok ({| d_p := p1; d_buf := d_buf d1; d_script := d_script d1; d_bytesdec := d_bytesdec d1 |}, s1, err)
      else if done then Ok (d2, s1, nilE)
      else dec_next f d2 s1
  | Ok (Crash w) => Panic w
  | Err e => Err e | Panic w => Panic w | OutOfFuel => OutOfFuel
  end.

(* refilling the buffer: either Next returns at once, or it goes on with d1 *)
Definition dec_fill (d : cdecoder) : cdecoder + Z :=
  if zlen (d_buf d) =? 0 then
    if d_bytesdec d then inr (finalize (d_p d))
    else
      match d_script d with
      | [] => inr (finalize (d_p d))
      | (data, err) :: rest =>
          let d1 := {| d_p := d_p d; d_buf := data; d_script := rest; d_bytesdec := false |} in
          if (zlen data =? 0) && negb (err =? 0) then
            inr (if err =? eEOF then finalize (d_p d) else err)
          else inl d1
      end
  else inl d.

Lemma dec_next_S : forall f d s,
  dec_next (S f) d s =
  match dec_fill d with
  | inr e => Ok (d, s, if isnil e then eEOF else e)
  | inl d1 => if zlen (d_buf d1) =? 0 then dec_next f d1 s else dec_body f d1 s
  end.
Proof. intros. reflexivity. Qed.

Lemma dec_next_rep : forall fuel d, Rep (fun s => odn (dec_next fuel d s)).
Proof.
  induction fuel as [|f IH]; intros d.
  - apply Rep_abort.
  - eapply Rep_ext; [intros s; rewrite dec_next_S; reflexivity|].
    destruct (dec_fill d) as [d1|e]; [|apply Rep_ret].
    destruct (zlen (d_buf d1) =? 0); [apply IH|].
    unfold dec_body.
    apply (Rep_bind _ _ (fun s => ores (feed_until (feed_fuel (d_buf d1)) (d_p d1) s (d_buf d1)))
             (fun a _ => {| d_p := fst (fst a); d_buf := d_buf d1; d_script := d_script d1; d_bytesdec := d_bytesdec d1 |})
             (fun a s => let '(p1, rest, done) := a in
                let d2 := {| d_p := p1; d_buf := rest; d_script := d_script d1; d_bytesdec := d_bytesdec d1 |} in
                if done then Some (d2, s, nilE) else odn (dec_next f d2 s))).
    + apply feed_until_rep.
    + intros [[p1 rest] done]. cbv zeta. destruct done; [apply Rep_ret|apply IH].
    + intros s. destruct (feed_until (feed_fuel (d_buf d1)) (d_p d1) s (d_buf d1)) as [[p1 s1 rest done err|w]| | |];
        try reflexivity.
      cbn [ores osr fst]. destruct (isnil err); cbn [negb]; [|reflexivity]. destruct done; reflexivity.
Qed.

(* C16 for Next: a failing visitor stops the decoder at once *)
Lemma rep_prompt_gen : forall A (f : sink -> out A), Rep f -> forall s k a s' e,
  s_fail s = Some k -> (s_n s <= k)%nat -> f s = Some (a, s', e) ->
  exists l, s' = s_add s l /\ (s_n s' <= S k)%nat /\ (s_n s' = S k -> e = eVisitor).
Proof.
  intros A f [pr Hpr] s k a s' e Hs Hn H. rewrite Hpr in H.
  pose proof (run_fail A pr s k Hs Hn) as R.
  destruct (Nat.leb (length (ptrace pr)) (k - s_n s)) eqn:L.
  - apply Nat.leb_le in L. rewrite R in H. unfold final_out in H.
    destruct (pfinal pr) as [[a' e']|]; [|discriminate]. inversion H; subst.
    exists (ptrace pr). split; [reflexivity|]. cbn [s_add s_n]. split; lia.
  - apply Nat.leb_gt in L. destruct R as [af R].
    remember (firstn (S (k - s_n s)) (ptrace pr)) as t eqn:Ht.
    rewrite R in H. inversion H; subst a s' e.
    exists t. split; [reflexivity|]. cbn [s_add s_n].
    assert (length t = S (k - s_n s)) by (subst t; rewrite firstn_length; lia).
    split; [lia|reflexivity].
Qed.

Theorem C16_cbor_next_prompt : forall fuel d s k d' s' e,
  s_fail s = Some k -> (s_n s <= k)%nat ->
  dec_next fuel d s = Ok (d', s', e) ->
  exists l, s' = s_add s l /\ (s_n s' <= S k)%nat /\ (s_n s' = S k -> e = eVisitor).
Proof.
  intros fuel d s k d' s' e Hs Hn H.
  apply (rep_prompt_gen _ _ (dec_next_rep fuel d) s k d' s' e Hs Hn). rewrite H. reflexivity.
Qed.
Print Assumptions C16_cbor_next_prompt.

(* every successful Next ends between two values: both stacks are empty *)
Theorem C18_cbor_next_between_partial : forall L0 fuel d s d' s',
  Inv L0 (d_p d) -> dec_next fuel d s = Ok (d', s', nilE) ->
  p_cur (d_p d') = mkst stValue stStart /\ p_stack (d_p d') = [] /\ p_lstack (d_p d') = [] /\
  p_lcur (d_p d') = L0 /\ Inv L0 (d_p d').
Proof.
  induction fuel as [|f IH]; intros d s d' s' HI H; [discriminate|].
  rewrite dec_next_S in H.
  assert (Hfill : forall d1, dec_fill d = inl d1 -> d_p d1 = d_p d).
  { intros d1 E. unfold dec_fill in E.
    destruct (zlen (d_buf d) =? 0); [|inversion E; reflexivity].
    destruct (d_bytesdec d); [discriminate|].
    destruct (d_script d) as [|[data err] rest]; [discriminate|].
    cbv zeta in E. destruct ((zlen data =? 0) && negb (err =? 0)); [discriminate|].
    inversion E. reflexivity. }
  destruct (dec_fill d) as [d1|e] eqn:Ef.
  - specialize (Hfill d1 eq_refl).
    destruct (zlen (d_buf d1) =? 0); [apply IH in H; [exact H|rewrite Hfill; exact HI]|].
    unfold dec_body in H.
    destruct (feed_until (feed_fuel (d_buf d1)) (d_p d1) s (d_buf d1)) as [[p1 s1 rest done err|w]| | |] eqn:Hf;
      try discriminate.
    destruct (isnil err) eqn:Ee; cbn [negb] in H; [|inversion H; subst; kill_nil].
    apply isnil_true in Ee. subst err. rewrite Hfill in Hf.
    destruct done.
    + inversion H; subst. cbn [d_p]. eapply C17_cbor_value_done; eauto.
    + apply IH in H; [exact H|]. cbn [d_p].
      exact (proj1 (feed_until_inv _ _ _ _ _ _ _ _ _ _ HI Hf eq_refl)).
  - injection H as _ _ He. destruct (isnil e) eqn:Ee; [discriminate He|]. subst e. kill_nil.
Qed.
Print Assumptions C18_cbor_next_between_partial.

(* ---------------------------------------------------------------------- *)
(* C18: Next depends only on the bytes that remain to be read.            *)
(* Uses the one-step chunking dichotomy of Cbor/ChunkProofs.v.            *)
(* ---------------------------------------------------------------------- *)
From SF Require Cbor.ChunkProofs.

Definition CInv := ChunkProofs.Inv.
Definition startx := ChunkProofs.startx.

Definition fures := (cparser * sink * bytes * bool * Z)%type.

(* feedUntil without fuel *)
Inductive RU : cparser -> sink -> bytes -> fures -> Prop :=
| RU_end : forall p s b p1 s1 rest d e,
    exec_step p s b = SR p1 s1 rest d e -> d = true \/ e <> nilE -> RU p s b (p1, s1, rest, d, e)
| RU_cont : forall p s b p1 s1 rest r,
    exec_step p s b = SR p1 s1 rest false nilE -> rest <> [] \/ startx p1 = true ->
    RU p1 s1 rest r -> RU p s b r
| RU_stop : forall p s b p1 s1,
    exec_step p s b = SR p1 s1 [] false nilE -> startx p1 = false ->
    RU p s b (p1, s1, [], false, nilE).

Lemma isnil_false : forall e, isnil e = false -> e <> nilE.
Proof. intros e H E. subst e. vm_compute in H. discriminate. Qed.

Lemma feed_until_RU : forall n p s b p1 s1 rest d e,
  feed_until n p s b = Ok (SR p1 s1 rest d e) -> RU p s b (p1, s1, rest, d, e).
Proof.
  induction n as [|n IH]; intros p s b p1 s1 rest d e H; [discriminate|].
  cbn [feed_until] in H.
  destruct (exec_step p s b) as [pa sa ra da ea|w] eqn:E; [|discriminate].
  destruct (da || negb (isnil ea)) eqn:E1.
  - inversion H; subst. eapply RU_end; [exact E|].
    apply orb_true_iff in E1. destruct E1 as [E1|E1]; [left; exact E1|right].
    apply negb_true_iff in E1. apply isnil_false. exact E1.
  - apply orb_false_iff in E1. destruct E1 as [-> E1]. apply negb_false_iff in E1.
    apply isnil_true in E1. subst ea.
    destruct (negb (zlen ra =? 0)) eqn:E2.
    + cbn [orb] in H. eapply RU_cont; [exact E| |eapply IH; exact H].
      left. intros ->. discriminate.
    + cbn [orb] in H. apply negb_false_iff in E2. apply Z.eqb_eq in E2. apply zlen_0_nil in E2. subst ra.
      fold (startx pa) in H. unfold ChunkProofs.startx in H.
      destruct (Z.land (c_major (p_cur pa)) (stStartX + stIndef) =? stStartX) eqn:E3.
      * eapply RU_cont; [exact E|right; exact E3|eapply IH; exact H].
      * inversion H; subst. eapply RU_stop; [exact E|exact E3].
Qed.

Lemma RU_det : forall p s b r, RU p s b r -> forall r', RU p s b r' -> r = r'.
Proof.
  induction 1 as [p s b p1 s1 rest d e E Hn | p s b p1 s1 rest r E Hc _ IH | p s b p1 s1 E Hx];
    intros r' H'; inversion H'; subst;
    match goal with H : exec_step _ _ _ = _ |- _ => rewrite E in H; inversion H; subst end;
    try reflexivity;
    try (match goal with H : _ \/ _ |- _ => destruct H; congruence end);
    try (apply IH; assumption).
Qed.

Lemma RU_short : forall p s b p1 s1 rest,
  RU p s b (p1, s1, rest, false, nilE) -> rest = [] /\ startx p1 = false.
Proof.
  intros p s b p1 s1 rest H. remember (p1, s1, rest, false, nilE) as r eqn:Hr.
  induction H as [p s b pa sa ra d e E Hn | p s b pa sa ra r E Hc _ IH | p s b pa sa E Hx].
  - inversion Hr; subst. destruct Hn; congruence.
  - apply IH. exact Hr.
  - inversion Hr; subst. auto.
Qed.

Lemma RU_inv : forall p s b r, RU p s b r -> CInv p ->
  let '(p1, _, _, _, e) := r in e = nilE -> CInv p1.
Proof.
  induction 1 as [p s b p1 s1 rest d e E Hn | p s b p1 s1 rest r E Hc _ IH | p s b p1 s1 E Hx]; intros HI.
  - intros ->. eapply ChunkProofs.exec_inv; eauto.
  - apply IH. eapply ChunkProofs.exec_inv; eauto.
  - intros _. eapply ChunkProofs.exec_inv; eauto.
Qed.

(* same visitor, same error; the same parser, rest and done flag unless an error occurred *)
Definition simu (r r' : fures) : Prop :=
  let '(p, s, rest, d, e) := r in let '(p', s', rest', d', e') := r' in
  s = s' /\ e = e' /\ (e = nilE -> p = p' /\ rest = rest' /\ d = d').

Lemma simu_refl : forall r, simu r r.
Proof. intros [[[[p s] rest] d] e]. cbn. auto. Qed.

Lemma RU_ext_nil : forall p1 s1 b p s x r,
  ChunkProofs.ext [] (exec_step p1 s1 b) (exec_step p s x) -> RU p1 s1 b r ->
  exists r', RU p s x r' /\ simu r r'.
Proof.
  intros p1 s1 b p s x r X H.
  inversion H; subst;
    match goal with E : exec_step p1 s1 b = _ |- _ => rewrite E in X end;
    destruct (exec_step p s x) as [pw sw restw dw ew|w] eqn:W; cbn [ChunkProofs.ext] in X;
    try contradiction; destruct X as (<- & <- & X).
  - (* end *)
    match goal with Hn : _ \/ _ |- _ => rename Hn into Hn end.
    destruct (Z.eq_dec e nilE) as [->|He].
    + destruct (X eq_refl) as (<- & <- & ->). rewrite app_nil_r in W.
      eexists; split; [eapply RU_end; eauto|apply simu_refl].
    + eexists; split; [eapply RU_end; [exact W|right; exact He]|].
      cbn. split; [reflexivity|]. split; [reflexivity|]. intros E'. congruence.
  - destruct (X eq_refl) as (<- & <- & ->). rewrite app_nil_r in W.
    eexists; split; [eapply RU_cont; eauto|apply simu_refl].
  - destruct (X eq_refl) as (<- & <- & ->). cbn [app] in W.
    eexists; split; [eapply RU_stop; eauto|apply simu_refl].
Qed.

(* feedUntil on a ++ b versus feedUntil on a, then (if more input is needed) on b *)
Lemma RU_merge : forall p s a r, RU p s a r ->
  CInv p -> a <> [] \/ startx p = true -> forall b, b <> [] ->
  let '(p1, s1, rest, d, e) := r in
  (e <> nilE -> exists p1' rest' d', RU p s (a ++ b) (p1', s1, rest', d', e)) /\
  (e = nilE -> d = true -> RU p s (a ++ b) (p1, s1, rest ++ b, true, nilE)) /\
  (e = nilE -> d = false ->
     forall r2, RU p1 s1 b r2 -> exists r2', RU p s (a ++ b) r2' /\ simu r2 r2').
Proof.
  induction 1 as [p s a p1 s1 rest d e E Hn | p s a p1 s1 rest r E Hc HR IH | p s a p1 s1 E Hx];
    intros HI Ha b Hb;
    pose proof (ChunkProofs.exec_dich p s a b HI Ha Hb) as D; rewrite E in D; cbn [ChunkProofs.Dich] in D.
  - (* end *)
    assert (D' : ChunkProofs.ext b (SR p1 s1 rest d e) (exec_step p s (a ++ b))).
    { destruct D as [D|(_ & Hd & He & _)]; [exact D|]. destruct Hn; congruence. }
    destruct (exec_step p s (a ++ b)) as [p2 s2 rest2 d2 e2|w] eqn:W; cbn [ChunkProofs.ext] in D';
      [|contradiction].
    destruct D' as (<- & <- & D'). split; [|split].
    + intros He. exists p2, rest2, d2. eapply RU_end; [exact W|right; exact He].
    + intros -> ->. destruct (D' eq_refl) as (<- & <- & ->). eapply RU_end; [exact W|left; reflexivity].
    + intros -> ->. destruct Hn; congruence.
  - (* cont *)
    assert (D' : ChunkProofs.ext b (SR p1 s1 rest false nilE) (exec_step p s (a ++ b))).
    { destruct D as [D|(Hr & _ & _ & Hx & _)]; [exact D|]. fold (startx p1) in Hx.
      destruct Hc; congruence. }
    destruct (exec_step p s (a ++ b)) as [p2 s2 rest2 d2 e2|w] eqn:W; cbn [ChunkProofs.ext] in D';
      [|contradiction].
    destruct D' as (<- & <- & D'). destruct (D' eq_refl) as (<- & <- & ->).
    assert (HI1 : CInv p1) by (eapply ChunkProofs.exec_inv; eauto).
    specialize (IH HI1 Hc b Hb).
    assert (Hrb : rest ++ b <> [] \/ startx p1 = true).
    { left. destruct rest; [cbn; exact Hb|discriminate]. }
    destruct r as [[[[pr sr] restr] dr] er]. destruct IH as (IH1 & IH2 & IH3).
    split; [|split].
    + intros He. destruct (IH1 He) as (p1' & rest' & d' & R1). exists p1', rest', d'.
      eapply RU_cont; eauto.
    + intros He Hd. eapply RU_cont; eauto.
    + intros He Hd r2 R2. destruct (IH3 He Hd r2 R2) as (r2' & R2' & S2).
      exists r2'. split; [eapply RU_cont; eauto|exact S2].
  - (* stop *)
    split; [congruence|]. split; [discriminate|]. intros _ _ r2 R2.
    destruct D as [D|(_ & _ & _ & _ & D)].
    + destruct (exec_step p s (a ++ b)) as [p2 s2 rest2 d2 e2|w] eqn:W; cbn [ChunkProofs.ext] in D;
        [|contradiction].
      destruct D as (<- & <- & D). destruct (D eq_refl) as (<- & <- & ->). cbn [app] in W.
      exists r2. split; [|apply simu_refl]. eapply RU_cont; [exact W|left; exact Hb|exact R2].
    + eapply RU_ext_nil; eauto.
Qed.

(* ---------- one Next call as a function of all bytes still to come ---------- *)
Definition finE (p : cparser) : Z := if isnil (finalize p) then eEOF else finalize p.
Definition nres := (cparser * sink * bytes * Z)%type.

(* [NextW p s W r]: Next on a decoder in parser state p whose remaining input
   (buffer and everything the reader will still deliver) is W *)
Inductive NextW : cparser -> sink -> bytes -> nres -> Prop :=
| NW_eof : forall p s, NextW p s [] (p, s, [], finE p)
| NW_err : forall p s W p1 s1 rest d e,
    W <> [] -> RU p s W (p1, s1, rest, d, e) -> e <> nilE -> NextW p s W (p1, s1, rest, e)
| NW_done : forall p s W p1 s1 rest,
    W <> [] -> RU p s W (p1, s1, rest, true, nilE) -> NextW p s W (p1, s1, rest, nilE)
| NW_short : forall p s W p1 s1,
    W <> [] -> RU p s W (p1, s1, [], false, nilE) -> NextW p s W (p1, s1, [], finE p1).

Lemma finE_not_nil : forall p, finE p <> nilE.
Proof.
  intros p. unfold finE. destruct (isnil (finalize p)) eqn:E; [discriminate|].
  apply isnil_false. exact E.
Qed.

Lemma NextW_det : forall p s W r r', NextW p s W r -> NextW p s W r' -> r = r'.
Proof.
  intros p s W r r' H H'.
  inversion H; subst; inversion H'; subst; try congruence;
    match goal with
    | H1 : RU _ _ _ _, H2 : RU _ _ _ _ |- _ => pose proof (RU_det _ _ _ _ H1 _ H2) as E; inversion E; subst
    end; try congruence; try reflexivity.
Qed.

Definition simW (r r' : nres) : Prop :=
  let '(p, s, rest, e) := r in let '(p', s', rest', e') := r' in
  s = s' /\ e = e' /\ (e = nilE -> p = p' /\ rest = rest').

Lemma NextW_merge_short : forall p s a p1 s1 T r2,
  RU p s a (p1, s1, [], false, nilE) -> CInv p -> a <> [] ->
  NextW p1 s1 T r2 -> exists r2', NextW p s (a ++ T) r2' /\ simW r2 r2'.
Proof.
  intros p s a p1 s1 T r2 HR HI Ha HN.
  assert (HaT : a ++ T <> []) by (destruct a; [congruence|discriminate]).
  inversion HN; subst.
  - rewrite app_nil_r. eexists. split; [eapply NW_short; eauto|]. cbn. auto.
  - pose proof (RU_merge _ _ _ _ HR HI (or_introl Ha) T H) as (_ & _ & M).
    destruct (M eq_refl eq_refl _ H0) as ([[[[pm sm] restm] dm] em] & R2 & S2).
    cbn [simu] in S2. destruct S2 as (<- & <- & S2).
    eexists. split; [eapply NW_err; eauto|]. cbn. split; [reflexivity|]. split; [reflexivity|]. congruence.
  - pose proof (RU_merge _ _ _ _ HR HI (or_introl Ha) T H) as (_ & _ & M).
    destruct (M eq_refl eq_refl _ H0) as ([[[[pm sm] restm] dm] em] & R2 & S2).
    cbn [simu] in S2. destruct S2 as (<- & <- & S2). destruct (S2 eq_refl) as (<- & <- & <-).
    eexists. split; [eapply NW_done; eauto|]. cbn. auto.
  - pose proof (RU_merge _ _ _ _ HR HI (or_introl Ha) T H) as (_ & _ & M).
    destruct (M eq_refl eq_refl _ H0) as ([[[[pm sm] restm] dm] em] & R2 & S2).
    cbn [simu] in S2. destruct S2 as (<- & <- & S2). destruct (S2 eq_refl) as (<- & <- & <-).
    eexists. split; [eapply NW_short; eauto|]. cbn. split; [reflexivity|]. split; [reflexivity|].
    intros E. exfalso. exact (finE_not_nil _ E).
Qed.

Lemma NextW_of_err : forall p s a p1 s1 rest d e T,
  RU p s a (p1, s1, rest, d, e) -> e <> nilE -> CInv p -> a <> [] ->
  exists p1' rest', NextW p s (a ++ T) (p1', s1, rest', e).
Proof.
  intros p s a p1 s1 rest d e T HR He HI Ha.
  assert (HaT : a ++ T <> []) by (destruct a; [congruence|discriminate]).
  destruct T as [|t T].
  - rewrite app_nil_r. exists p1, rest. eapply NW_err; eauto.
  - pose proof (RU_merge _ _ _ _ HR HI (or_introl Ha) (t :: T) ltac:(discriminate)) as (M & _ & _).
    destruct (M He) as (p1' & rest' & d' & R'). exists p1', rest'. eapply NW_err; eauto.
Qed.

Lemma NextW_of_done : forall p s a p1 s1 rest T,
  RU p s a (p1, s1, rest, true, nilE) -> CInv p -> a <> [] ->
  NextW p s (a ++ T) (p1, s1, rest ++ T, nilE).
Proof.
  intros p s a p1 s1 rest T HR HI Ha.
  assert (HaT : a ++ T <> []) by (destruct a; [congruence|discriminate]).
  destruct T as [|t T].
  - rewrite !app_nil_r. eapply NW_done; eauto.
  - pose proof (RU_merge _ _ _ _ HR HI (or_introl Ha) (t :: T) ltac:(discriminate)) as (_ & M & _).
    eapply NW_done; eauto.
Qed.

(* ---------- read scripts ---------- *)
(* a well-behaved reader: every read returns a nil error (with any number of
   bytes, possibly none), except that the last read may carry io.EOF (with or
   without data) *)
Fixpoint script_okb (sc : list (bytes * Z)) : bool :=
  match sc with
  | [] => true
  | (data, err) :: r =>
      match r with
      | [] => (err =? 0) || (err =? eEOF)
      | _ :: _ => (err =? 0) && script_okb r
      end
  end.

Lemma script_okb_tail : forall x r, script_okb (x :: r) = true -> script_okb r = true.
Proof.
  intros [data err] r H. destruct r as [|y r]; [reflexivity|].
  cbn [script_okb] in H. apply andb_true_iff in H. destruct H as [_ H]. exact H.
Qed.

(* everything the decoder will still see *)
Definition tailb (d : cdecoder) : bytes :=
  if d_bytesdec d then [] else concat (map fst (d_script d)).
Definition rem (d : cdecoder) : bytes := d_buf d ++ tailb d.

Definition dpost (d' : cdecoder) (e : Z) : Prop :=
  e = nilE -> script_okb (d_script d') = true /\ CInv (d_p d').

Lemma dec_body_sound : forall f,
  (forall d s d' s' e, CInv (d_p d) -> script_okb (d_script d) = true ->
     dec_next f d s = Ok (d', s', e) ->
     exists r, NextW (d_p d) s (rem d) r /\ simW r (d_p d', s', rem d', e) /\ dpost d' e) ->
  forall d1 s d' s' e, CInv (d_p d1) -> script_okb (d_script d1) = true -> d_buf d1 <> [] ->
     dec_body f d1 s = Ok (d', s', e) ->
     exists r, NextW (d_p d1) s (rem d1) r /\ simW r (d_p d', s', rem d', e) /\ dpost d' e.
Proof.
  intros f IH d1 s d' s' e HI Hsc Hb H. unfold dec_body in H.
  destruct (feed_until (feed_fuel (d_buf d1)) (d_p d1) s (d_buf d1)) as [[p1 s1 rest done err|w]| | |] eqn:Hf;
    try discriminate.
  apply feed_until_RU in Hf.
  destruct (isnil err) eqn:Ee; cbn [negb] in H.
  - apply isnil_true in Ee. subst err.
    pose proof (RU_inv _ _ _ _ Hf HI eq_refl) as HI1.
    destruct done.
    + inversion H; subst. unfold rem at 1. cbn [d_p d_buf].
      eexists. split; [eapply NextW_of_done; eauto|].
      split; [cbn; unfold rem, tailb; cbn [d_buf d_script d_bytesdec]; auto|].
      intros _. cbn [d_script d_p]. auto.
    + destruct (RU_short _ _ _ _ _ _ Hf) as [-> Hx].
      apply IH in H; [|exact HI1|exact Hsc].
      destruct H as (r2 & N2 & S2 & P2). cbn [d_p] in N2.
      unfold rem in N2 at 1. cbn [d_buf app] in N2.
      change (tailb {| d_p := p1; d_buf := []; d_script := d_script d1; d_bytesdec := d_bytesdec d1 |})
        with (tailb d1) in N2.
      destruct (NextW_merge_short _ _ _ _ _ _ _ Hf HI Hb N2) as (r2' & N2' & S2').
      exists r2'. split; [exact N2'|]. split; [|exact P2].
      destruct r2 as [[[pa sa] ra] ea]. destruct r2' as [[[pb sb] rb] eb].
      cbn [simW] in *. destruct S2' as (<- & <- & S2'). destruct S2 as (<- & <- & S2).
      split; [reflexivity|]. split; [reflexivity|]. intros E.
      destruct (S2' E) as (<- & <-). exact (S2 E).
  - apply isnil_false in Ee. inversion H; subst.
    destruct (NextW_of_err _ _ _ _ _ _ _ _ (tailb d1) Hf Ee HI Hb) as (p1' & rest' & N).
    eexists. split; [exact N|]. split; [cbn; split; [reflexivity|]; split; [reflexivity|congruence]|].
    intros E. congruence.
Qed.

Lemma dec_next_sound : forall fuel d s d' s' e,
  CInv (d_p d) -> script_okb (d_script d) = true ->
  dec_next fuel d s = Ok (d', s', e) ->
  exists r, NextW (d_p d) s (rem d) r /\ simW r (d_p d', s', rem d', e) /\ dpost d' e.
Proof.
  induction fuel as [|f IH]; intros d s d' s' e HI Hsc H; [discriminate|].
  rewrite dec_next_S in H. unfold dec_fill in H.
  destruct (zlen (d_buf d) =? 0) eqn:Eb.
  - apply Z.eqb_eq in Eb. apply zlen_0_nil in Eb.
    assert (Heof : forall (Ht : tailb d = []),
      Ok (d, s, if isnil (finalize (d_p d)) then eEOF else finalize (d_p d)) = Ok (d', s', e) ->
      exists r, NextW (d_p d) s (rem d) r /\ simW r (d_p d', s', rem d', e) /\ dpost d' e).
    { intros Ht H0. inversion H0; subst. unfold rem. rewrite Eb, Ht. cbn [app].
      eexists. split; [apply NW_eof|]. split; [cbn; auto|].
      intros E. exfalso. exact (finE_not_nil _ E). }
    destruct (d_bytesdec d) eqn:Ebd.
    + apply Heof; [unfold tailb; rewrite Ebd; reflexivity|exact H].
    + destruct (d_script d) as [|[data err] rest] eqn:Esc.
      * apply Heof; [unfold tailb; rewrite Ebd, Esc; reflexivity|exact H].
      * cbv zeta in H.
        destruct ((zlen data =? 0) && negb (err =? 0)) eqn:Ec.
        -- (* empty read with an error: by script_okb it is the final io.EOF *)
           apply andb_true_iff in Ec. destruct Ec as [Ec1 Ec2].
           apply Z.eqb_eq in Ec1. apply zlen_0_nil in Ec1. subst data.
           apply negb_true_iff in Ec2.
           assert (Hlast : rest = [] /\ err = eEOF).
           { cbn [script_okb] in Hsc. destruct rest as [|y rest].
             - rewrite Ec2 in Hsc. cbn [orb] in Hsc. apply Z.eqb_eq in Hsc. auto.
             - rewrite Ec2 in Hsc. discriminate. }
           destruct Hlast as [-> ->]. change (eEOF =? eEOF) with true in H. cbv iota in H.
           apply Heof; [unfold tailb; rewrite Ebd, Esc; reflexivity|exact H].
        -- set (d1 := {| d_p := d_p d; d_buf := data; d_script := rest; d_bytesdec := false |}) in *.
           assert (Hrem : rem d = rem d1).
           { unfold rem, tailb. rewrite Eb, Ebd, Esc. cbn [d_buf d_script d_bytesdec map fst concat app]. reflexivity. }
           rewrite Hrem. change (d_p d) with (d_p d1).
           pose proof (script_okb_tail _ _ Hsc) as Hsc1.
           destruct (zlen (d_buf d1) =? 0) eqn:Ed.
           ++ eapply IH; [exact HI|exact Hsc1|exact H].
           ++ eapply (dec_body_sound f IH); [exact HI|exact Hsc1| |exact H].
              intros E. rewrite E in Ed. discriminate.
  - rewrite Eb in H.
    assert (Hd : d_buf d <> []) by (intros E; rewrite E in Eb; discriminate).
    eapply (dec_body_sound f IH); eauto.
Qed.

(* Script independence, one call: two decoders in the same parser state with
   the same bytes still to come (however these are split between the buffer and
   the reads of a well-behaved reader, and whether the last bytes come together
   with io.EOF or before it; a bytes decoder is the case "everything is in the
   buffer") deliver the same events and the same verdict, and after a
   successful call they are again in such a pair of states. *)
Theorem C18_cbor_script_independent_partial : forall f1 f2 d1 d2 s d1' s1' e1 d2' s2' e2,
  CInv (d_p d1) -> d_p d1 = d_p d2 -> rem d1 = rem d2 ->
  script_okb (d_script d1) = true -> script_okb (d_script d2) = true ->
  dec_next f1 d1 s = Ok (d1', s1', e1) -> dec_next f2 d2 s = Ok (d2', s2', e2) ->
  s1' = s2' /\ e1 = e2 /\
  (e1 = nilE -> d_p d1' = d_p d2' /\ rem d1' = rem d2' /\ CInv (d_p d1') /\
                script_okb (d_script d1') = true /\ script_okb (d_script d2') = true).
Proof.
  intros f1 f2 d1 d2 s d1' s1' e1 d2' s2' e2 HI Hp Hr Hs1 Hs2 H1 H2.
  destruct (dec_next_sound _ _ _ _ _ _ HI Hs1 H1) as (r1 & N1 & S1 & P1).
  assert (HI2 : CInv (d_p d2)) by (rewrite <- Hp; exact HI).
  destruct (dec_next_sound _ _ _ _ _ _ HI2 Hs2 H2) as (r2 & N2 & S2 & P2).
  rewrite <- Hp, <- Hr in N2. pose proof (NextW_det _ _ _ _ _ N1 N2) as E. subst r2.
  destruct r1 as [[[pa sa] ra] ea]. cbn [simW] in S1, S2.
  destruct S1 as (<- & <- & S1). destruct S2 as (<- & <- & S2).
  split; [reflexivity|]. split; [reflexivity|]. intros E.
  destruct (S1 E) as (A1 & B1). destruct (S2 E) as (A2 & B2).
  destruct (P1 E) as [Q1 Q2]. destruct (P2 E) as [Q3 _].
  split; [congruence|]. split; [congruence|]. auto.
Qed.
Print Assumptions C18_cbor_script_independent_partial.

(* the observable behaviour of up to k calls of Next: the visitor's log and the
   verdict after each call, stopping at the first non-nil verdict *)
Fixpoint dec_run (fuel k : nat) (d : cdecoder) (s : sink) : res (list (list event * Z)) :=
  match k with
  | O => Ok []
  | S k' =>
      match dec_next fuel d s with
      | Ok (d', s', e) =>
          if isnil e then
            match dec_run fuel k' d' s' with
            | Ok l => Ok ((s_log s', e) :: l)
            | x => x
            end
          else Ok [(s_log s', e)]
      | Err e => Err e | Panic w => Panic w | OutOfFuel => OutOfFuel
      end
  end.

Theorem C18_cbor_run_script_independent_partial : forall f1 f2 k d1 d2 s l1 l2,
  CInv (d_p d1) -> d_p d1 = d_p d2 -> rem d1 = rem d2 ->
  script_okb (d_script d1) = true -> script_okb (d_script d2) = true ->
  dec_run f1 k d1 s = Ok l1 -> dec_run f2 k d2 s = Ok l2 -> l1 = l2.
Proof.
  induction k as [|k IH]; intros d1 d2 s l1 l2 HI Hp Hr Hs1 Hs2 H1 H2; cbn [dec_run] in H1, H2.
  - congruence.
  - destruct (dec_next f1 d1 s) as [[[d1' s1'] e1]| | |] eqn:E1; try discriminate.
    destruct (dec_next f2 d2 s) as [[[d2' s2'] e2]| | |] eqn:E2; try discriminate.
    destruct (C18_cbor_script_independent_partial _ _ _ _ _ _ _ _ _ _ _ HI Hp Hr Hs1 Hs2 E1 E2)
      as (<- & <- & K).
    destruct (isnil e1) eqn:Ee.
    + apply isnil_true in Ee. subst e1. destruct (K eq_refl) as (Kp & Kr & KI & Ks1 & Ks2).
      destruct (dec_run f1 k d1' s1') as [l1'| | |] eqn:R1; try discriminate.
      destruct (dec_run f2 k d2' s1') as [l2'| | |] eqn:R2; try discriminate.
      rewrite (IH _ _ _ _ _ KI Kp Kr Ks1 Ks2 R1 R2) in H1. congruence.
    + congruence.
Qed.
Print Assumptions C18_cbor_run_script_independent_partial.

(* in particular: a reader decoder behaves like the bytes decoder on the
   concatenation of everything the reader delivers *)
Definition reader_dec (sc : list (bytes * Z)) : cdecoder :=
  {| d_p := cparser0; d_buf := []; d_script := sc; d_bytesdec := false |}.
Definition bytes_dec (b : bytes) : cdecoder :=
  {| d_p := cparser0; d_buf := b; d_script := []; d_bytesdec := true |}.

Corollary C18_cbor_reader_as_bytes_partial : forall f1 f2 k sc s l1 l2,
  script_okb sc = true ->
  dec_run f1 k (reader_dec sc) s = Ok l1 ->
  dec_run f2 k (bytes_dec (concat (map fst sc))) s = Ok l2 -> l1 = l2.
Proof.
  intros f1 f2 k sc s l1 l2 Hsc H1 H2.
  eapply (C18_cbor_run_script_independent_partial f1 f2 k (reader_dec sc) (bytes_dec (concat (map fst sc))));
    try eassumption; try reflexivity.
  - exact ChunkProofs.Inv0.
  - unfold rem, tailb, reader_dec, bytes_dec. cbn [d_buf d_script d_bytesdec app]. rewrite app_nil_r. reflexivity.
Qed.
Print Assumptions C18_cbor_reader_as_bytes_partial.

(* ---------- Next never panics and never runs out of fuel ---------- *)
From SF Require Cbor.ParseSafety.
Definition SInv := ParseSafety.Inv.

Definition script_bytes (sc : list (bytes * Z)) : bool := forallb (fun x => all_bytes (fst x)) sc.

Definition tpost (d d' : cdecoder) (e : Z) : Prop :=
  e = nilE -> SInv (d_p d') /\ all_bytes (d_buf d') = true /\ script_bytes (d_script d') = true /\
              (length (d_script d') <= length (d_script d))%nat.

(* number of iterations Next can still make *)
Definition dmeasure (d : cdecoder) : nat :=
  (length (d_script d) + (if (zlen (d_buf d) =? 0)%Z then 0 else 1))%nat.

Lemma dec_body_total : forall f,
  (forall d s, SInv (d_p d) -> all_bytes (d_buf d) = true -> script_bytes (d_script d) = true ->
     (dmeasure d < f)%nat -> exists d' s' e, dec_next f d s = Ok (d', s', e) /\ tpost d d' e) ->
  forall d1 s, SInv (d_p d1) -> all_bytes (d_buf d1) = true -> script_bytes (d_script d1) = true ->
     d_buf d1 <> [] -> (length (d_script d1) < f)%nat ->
     exists d' s' e, dec_body f d1 s = Ok (d', s', e) /\ tpost d1 d' e.
Proof.
  intros f IH d1 s HI Hb Hs Hne Hm.
  destruct (ParseSafety.feed_until_ok (feed_fuel (d_buf d1)) (d_p d1) s (d_buf d1) HI Hb (or_introl Hne))
    as (p1 & s1 & rest & d & e & Hf & _ & Hrest & Hpost).
  { pose proof (ParseSafety.rank_le1 (d_p d1)). unfold feed_fuel. lia. }
  unfold dec_body. rewrite Hf.
  destruct (isnil e) eqn:Ee; cbn [negb].
  - apply isnil_true in Ee. subst e. destruct (Hpost eq_refl) as (HI1 & _ & _).
    destruct d.
    + do 3 eexists. split; [reflexivity|]. intros _. cbn [d_p d_buf d_script]. auto.
    + apply feed_until_RU in Hf. destruct (RU_short _ _ _ _ _ _ Hf) as [-> _].
      destruct (IH {| d_p := p1; d_buf := []; d_script := d_script d1; d_bytesdec := d_bytesdec d1 |} s1)
        as (d' & s' & e' & Hn & Hp); try assumption; try reflexivity.
      { unfold dmeasure. cbn [d_buf d_script]. change (zlen (@nil Z) =? 0) with true. cbv iota. lia. }
      exists d', s', e'. split; [exact Hn|]. exact Hp.
  - do 3 eexists. split; [reflexivity|]. intros E. subst e. kill_nil.
Qed.

Lemma dec_next_total_m : forall fuel d s,
  SInv (d_p d) -> all_bytes (d_buf d) = true -> script_bytes (d_script d) = true ->
  (dmeasure d < fuel)%nat ->
  exists d' s' e, dec_next fuel d s = Ok (d', s', e) /\ tpost d d' e.
Proof.
  induction fuel as [|f IH]; intros d s HI Hb Hs Hm; [lia|].
  rewrite dec_next_S. unfold dec_fill.
  assert (Hself : forall e, e <> nilE -> tpost d d e) by (intros e He E; congruence).
  destruct (zlen (d_buf d) =? 0) eqn:Eb.
  - destruct (d_bytesdec d).
    { do 3 eexists. split; [reflexivity|]. apply Hself.
      destruct (isnil (finalize (d_p d))) eqn:E; [discriminate|apply isnil_false; exact E]. }
    destruct (d_script d) as [|[data err] rest] eqn:Esc.
    { do 3 eexists. split; [reflexivity|]. apply Hself.
      destruct (isnil (finalize (d_p d))) eqn:E; [discriminate|apply isnil_false; exact E]. }
    cbv zeta.
    destruct ((zlen data =? 0) && negb (err =? 0)) eqn:Ec.
    { do 3 eexists. split; [reflexivity|]. apply Hself.
      match goal with |- (if isnil ?x then _ else _) <> _ => destruct (isnil x) eqn:E end;
        [discriminate|apply isnil_false; exact E]. }
    unfold script_bytes in Hs. cbn [forallb fst] in Hs. apply andb_true_iff in Hs. destruct Hs as [Hd Hs].
    unfold dmeasure in Hm. rewrite Esc, Eb in Hm. cbn [length] in Hm.
    set (d1 := {| d_p := d_p d; d_buf := data; d_script := rest; d_bytesdec := false |}).
    assert (Hw : forall d' e, tpost d1 d' e -> tpost d d' e).
    { intros d' e P E. destruct (P E) as (A & B & C & D).
      split; [exact A|]. split; [exact B|]. split; [exact C|].
      rewrite Esc. subst d1. cbn [d_script length] in *. lia. }
    destruct (zlen (d_buf d1) =? 0) eqn:Ed.
    + destruct (IH d1 s HI Hd Hs) as (d' & s' & e & Hn & Hp).
      { unfold dmeasure. rewrite Ed. unfold d1. cbn [d_script]. lia. }
      exists d', s', e. split; [exact Hn|]. apply Hw. exact Hp.
    + destruct (dec_body_total f IH d1 s HI Hd Hs) as (d' & s' & e & Hn & Hp).
      { intros E. rewrite E in Ed. discriminate. }
      { unfold d1. cbn [d_script]. lia. }
      exists d', s', e. split; [exact Hn|]. apply Hw. exact Hp.
  - rewrite Eb. unfold dmeasure in Hm. rewrite Eb in Hm.
    apply (dec_body_total f IH d s HI Hb Hs).
    + intros E. rewrite E in Eb. discriminate.
    + lia.
Qed.

(* For every reader script whose data are bytes, and every visitor, Next
   returns (no Panic, no OutOfFuel) as soon as its fuel exceeds the number of
   reads plus one; after a nil verdict the decoder is again in such a state. *)
Theorem C18_cbor_next_total : forall fuel d s,
  SInv (d_p d) -> all_bytes (d_buf d) = true -> script_bytes (d_script d) = true ->
  (length (d_script d) + 1 < fuel)%nat ->
  exists d' s' e, dec_next fuel d s = Ok (d', s', e) /\
    (e = nilE -> SInv (d_p d') /\ all_bytes (d_buf d') = true /\ script_bytes (d_script d') = true /\
                 (length (d_script d') <= length (d_script d))%nat).
Proof.
  intros fuel d s HI Hb Hs Hm. apply dec_next_total_m; try assumption.
  unfold dmeasure. destruct (zlen (d_buf d) =? 0); lia.
Qed.
Print Assumptions C18_cbor_next_total.

Corollary C18_cbor_next_total_fresh : forall fuel sc s, script_bytes sc = true ->
  (length sc + 1 < fuel)%nat ->
  exists d' s' e, dec_next fuel (reader_dec sc) s = Ok (d', s', e).
Proof.
  intros fuel sc s Hs Hm.
  destruct (C18_cbor_next_total fuel (reader_dec sc) s ParseSafety.Inv0 eq_refl Hs Hm) as (d' & s' & e & H & _).
  eauto.
Qed.

Corollary C18_cbor_next_total_bytes : forall fuel b s, all_bytes b = true -> (1 < fuel)%nat ->
  exists d' s' e, dec_next fuel (bytes_dec b) s = Ok (d', s', e).
Proof.
  intros fuel b s Hb Hm.
  destruct (C18_cbor_next_total fuel (bytes_dec b) s ParseSafety.Inv0 Hb eq_refl Hm) as (d' & s' & e & H & _).
  eauto.
Qed.
Print Assumptions C18_cbor_next_total_fresh.
Print Assumptions C18_cbor_next_total_bytes.

(* ---------- Next against the reference decoder ---------- *)
From SF Require Cbor.Spec Cbor.ConformanceProofs Cbor.ComposeProofs Core.AdapterProofs.

Module CF := ConformanceProofs.
Module CP := ComposeProofs.

Lemma s_add_sadd : forall s l, CF.sadd s l = s_add s l.
Proof. reflexivity. Qed.

Lemma dec_next_bytes_S : forall f b s, b <> [] ->
  dec_next (S f) (bytes_dec b) s = dec_body f (bytes_dec b) s.
Proof.
  intros f b s Hne. rewrite dec_next_S. unfold dec_fill, bytes_dec. cbn [d_buf].
  assert (E : (zlen b =? 0) = false).
  { destruct b as [|x r]; [congruence|]. unfold zlen. cbn [length]. lia. }
  rewrite E. cbn [d_buf]. rewrite E. reflexivity.
Qed.

(* the next item is one the reference decoder accepts: Next delivers exactly its events *)
Lemma bytes_next_value : forall f b s v rest,
  b <> [] -> all_bytes b = true -> zlen b <= CF.MaxInt64 -> s_fail s = None ->
  Spec.cbor_decode b = RValue v rest ->
  exists t, wf_tree t = true /\ cv (value_of t) = v /\ all_bytes rest = true /\ (length rest < length b)%nat /\
    dec_next (S f) (bytes_dec b) s = Ok (bytes_dec rest, s_add s (flatten t), nilE).
Proof.
  intros f b s v rest Hne Hb Hsz Hs Hd.
  assert (Hf : CF.fuel_ok (S (length b)) b) by (apply CF.decode_fuel_ok; unfold CF.MaxInt64 in *; lia).
  unfold Spec.cbor_decode in Hd.
  destruct (CF.value_ok _ b v rest Hd Hb Hf cparser0 s CP.vctx_top Hs)
    as (t & n & Hwf & Hcv & (Hc & Hrb) & Hreach).
  pose proof (CP.feed_until_top_value b s _ rest n Hne ltac:(lia) Hreach) as Hfu.
  exists t. split; [exact Hwf|]. split; [exact Hcv|]. split; [exact Hrb|]. split; [lia|].
  rewrite dec_next_bytes_S by exact Hne. unfold dec_body, bytes_dec. cbn [d_buf d_p d_script d_bytesdec].
  rewrite Hfu. reflexivity.
Qed.

Lemma finalize_cases : forall p, finalize p = nilE \/ finalize p = eIncomplete.
Proof. intros p. unfold finalize. destruct (_ || _ || _); auto. Qed.

(* anything else: Next reports an error, and not io.EOF, when the input ends inside an item *)
Lemma bytes_next_reject : forall f b s,
  b <> [] -> all_bytes b = true -> zlen b <= CF.MaxInt64 -> s_fail s = None ->
  CF.is_value (Spec.cbor_decode b) = false ->
  exists d' s' e, dec_next (S (S f)) (bytes_dec b) s = Ok (d', s', e) /\ e <> nilE /\
    (e = eIncomplete \/ exists p1 rest d, feed_until (feed_fuel b) cparser0 s b = Ok (SR p1 s' rest d e)).
Proof.
  intros f b s Hne Hb Hsz Hs Hnv.
  assert (Hf : CF.fuel_ok (S (length b)) b) by (apply CF.decode_fuel_ok; unfold CF.MaxInt64 in *; lia).
  unfold Spec.cbor_decode in Hnv.
  pose proof (CF.reject_ok (S (length b)) b Hnv Hb Hf cparser0 s CF.rctx_top Hs ltac:(congruence)) as HR.
  unfold CF.reject_goal in HR. destruct HR as (n & Hn & HR).
  rewrite dec_next_bytes_S by exact Hne. unfold dec_body, bytes_dec. cbn [d_buf d_p d_script d_bytesdec].
  assert (Hfu : exists Y, feed_until (feed_fuel b) cparser0 s b = Ok Y /\ CF.bad_end Y).
  { unfold feed_fuel. replace (8 * length b + 16)%nat with (S (n + (8 * length b + 15 - n)))%nat by lia.
    rewrite CF.feed_until_S, CF.exec_at_value by reflexivity. apply HR. }
  destruct Hfu as (Y & Hfu & Hbad). rewrite Hfu.
  destruct Y as [p1 s1 rest d e|w]; [|destruct Hbad]. cbn [CF.bad_end] in Hbad.
  destruct (isnil e) eqn:Ee; cbn [negb].
  - apply isnil_true in Ee. subst e. destruct Hbad as [Hbad|[-> Hinc]]; [congruence|].
    assert (Hd : d = false).
    { destruct d; [|reflexivity]. exfalso. apply Hinc.
      pose proof (feed_until_RU _ _ _ _ _ _ _ _ _ Hfu) as HRU.
      pose proof (RU_inv _ _ _ _ HRU ChunkProofs.Inv0 eq_refl) as HCI.
      destruct (C17_cbor_value_done 0 _ _ _ _ _ _ _ (clean_Inv _ _ clean0) Hfu) as (Hc & Hst & _).
      destruct HCI as (_ & _ & Hbuf).
      assert (Hb0 : p_buf p1 = []).
      { apply ChunkProofs.bufok_0. rewrite <- (ChunkProofs.count_of_0 p1); [exact Hbuf|..];
          unfold ChunkProofs.maj; rewrite Hc; discriminate. }
      unfold finalize. rewrite Hst, Hb0, Hc. reflexivity. }
    subst d. rewrite dec_next_S. unfold dec_fill. cbn [d_buf d_bytesdec d_p].
    change (zlen (@nil Z) =? 0) with true. cbv iota.
    do 3 eexists. split; [reflexivity|].
    unfold CF.incomplete in Hinc. destruct (finalize_cases p1) as [E|E]; [contradiction|].
    rewrite E. change (isnil eIncomplete) with false. cbv iota. split; [discriminate|]. left. reflexivity.
  - apply isnil_false in Ee. do 3 eexists. split; [reflexivity|]. split; [exact Ee|].
    right. eauto.
Qed.

(* ---------- the error classes a parser step can return ---------- *)
Definition eclass (e : Z) : Prop := e = nilE \/ e = eVisitor \/ 1 <= e <= 7.

Lemma vis_class : forall s ev s1 e, vis s ev = (s1, e) -> e = nilE \/ e = eVisitor.
Proof.
  intros s ev s1 e H. unfold vis in H. destruct (emit s ev) as [s' ok]. destruct ok; inversion H; auto.
Qed.

Lemma on_value_class : forall fuel p s p' s' d e, on_value fuel p s = Some (p', s', d, e) -> eclass e.
Proof.
  induction fuel as [|f IH]; intros p s p' s' d e H; [discriminate|].
  cbn [on_value] in H. cbv zeta in H.
  repeat match type of H with
  | context [vis ?s0 ?ev] => destruct (vis s0 ev) as [? ?] eqn:?
  | context [if ?c then _ else _] => destruct c eqn:?
  end;
  try (inversion H; subst; unfold eclass; auto; fail);
  try (eapply IH; exact H).
  inversion H; subst. match goal with Hv : vis _ _ = _ |- _ => destruct (vis_class _ _ _ _ Hv) end; unfold eclass; auto.
Qed.

Lemma pop_state_class : forall p s p' s' d e, pop_state p s = Some (p', s', d, e) -> eclass e.
Proof. intros p s p' s' d e H. unfold pop_state in H. eapply on_value_class; eauto. Qed.

Lemma emit_bytes_class : forall l s s1 e, emit_bytes s l = (s1, e) -> e = nilE \/ e = eVisitor.
Proof.
  induction l as [|c r IH]; intros s s1 e H; cbn [emit_bytes] in H.
  - inversion H; auto.
  - destruct (vis s (EVal (SNum KByte c))) as [s2 e2] eqn:Hv. destruct (isnil e2).
    + eapply IH; eauto.
    + inversion H; subst. eapply vis_class; eauto.
Qed.

Ltac cls_const := unfold eclass, nilE, eVisitor, eInvalidCode, eTextKeyRequired, eIndefByteSeq, eUnsupported,
                         eIntRange, eLenRange, eIncomplete; lia.

Ltac cls H :=
  try discriminate H;
  injection H as ? ? ? ? ?; subst;
  first
  [ cls_const
  | match goal with
    | Hv : vis _ _ = (_, ?e) |- eclass ?e => destruct (vis_class _ _ _ _ Hv); subst; cls_const
    | Hv : emit_bytes _ _ = (_, ?e) |- eclass ?e => destruct (emit_bytes_class _ _ _ _ Hv); subst; cls_const
    | Hv : on_value _ _ _ = Some (_, _, _, ?e) |- eclass ?e => eapply on_value_class; exact Hv
    | Hv : pop_state _ _ = Some (_, _, _, ?e) |- eclass ?e => eapply pop_state_class; exact Hv
    end ].

Lemma init_byte_seq_class : forall p s major minor b p' s' r d e,
  init_byte_seq p s major minor b = SR p' s' r d e -> eclass e.
Proof. intros until e. intros H. unfold init_byte_seq in H. repeat brk_in H; cls H. Qed.

Lemma init_sub_class : forall p s major minor b p' s' r d e,
  init_sub p s major minor b = SR p' s' r d e -> eclass e.
Proof. intros until e. intros H. unfold init_sub in H. repeat brk_in H; cls H. Qed.

Lemma step_value_class : forall p s b p' s' r d e, step_value p s b = SR p' s' r d e -> eclass e.
Proof.
  intros until e. intros H. unfold step_value in H. destruct b as [|b0 b]; [cls H|].
  cbv zeta in H. remember (b0 / 32 * 32) as major. remember (b0 mod 32) as minor.
  clear Heqmajor Heqminor. unfold after_value in H.
  repeat match type of H with
  | context [if ?c then _ else _] => destruct c eqn:?
  end;
  try (eapply init_byte_seq_class; exact H); try (eapply init_sub_class; exact H);
  repeat brk_in H; cls H.
Qed.

Lemma step_num_class : forall neg p s b p' s' r d e, step_num neg p s b = SR p' s' r d e -> eclass e.
Proof. intros until e. intros H. unfold step_num, get_uint, after_pop in H. repeat brk_in H; cls H. Qed.

Lemma step_float_class : forall w p s b p' s' r d e, step_float w p s b = SR p' s' r d e -> eclass e.
Proof. intros until e. intros H. unfold step_float, get_uint in H. repeat brk_in H; cls H. Qed.

Lemma step_len_class : forall p s b p' s' r d e, step_len p s b = SR p' s' r d e -> eclass e.
Proof. intros until e. intros H. unfold step_len, get_uint in H. repeat brk_in H; cls H. Qed.

Lemma step_bytes_class : forall p s b p' s' r d e, step_bytes p s b = SR p' s' r d e -> eclass e.
Proof.
  intros until e. intros H. unfold step_bytes in H.
  destruct (c_minor (p_cur p) =? stStart).
  - destruct (vis s (EArrStart (p_lcur p) BByte)) as [s1 e1] eqn:Hv.
    destruct (isnil e1) eqn:E1; cbn [negb] in H; [|cls H].
    repeat brk_in H; cls H.
  - change (isnil nilE) with true in H. cbn [negb] in H. repeat brk_in H; cls H.
Qed.

Lemma step_text_class : forall p s b p' s' r d e, step_text p s b = SR p' s' r d e -> eclass e.
Proof. intros until e. intros H. unfold step_text in H. repeat brk_in H; cls H. Qed.

Lemma step_key_class : forall p s b p' s' r d e, step_key p s b = SR p' s' r d e -> eclass e.
Proof. intros until e. intros H. unfold step_key in H. repeat brk_in H; cls H. Qed.

Lemma init_map_key_class : forall p s b p' s' r d e, init_map_key p s b = SR p' s' r d e -> eclass e.
Proof.
  intros until e. intros H. unfold init_map_key in H.
  repeat match type of H with
  | context [match ?b with [] => _ | _ :: _ => _ end] => destruct b
  | context [if ?c then _ else _] => destruct c eqn:?
  end; try (eapply init_byte_seq_class; exact H); cls H.
Qed.

Lemma step_array_class : forall p s b p' s' r d e, step_array p s b = SR p' s' r d e -> eclass e.
Proof.
  intros until e. intros H. unfold step_array, handle_len in H.
  destruct (p_lcur p >? 0); [eapply step_value_class; exact H|].
  destruct (vis s EArrEnd) as [s1 e1] eqn:Hv. destruct (isnil e1).
  - destruct (pop_state (len_pop p) s1) as [[[[p2 s2] d2] e2]|] eqn:Hps; cls H.
  - cls H.
Qed.

Lemma step_map_class : forall p s b p' s' r d e, step_map p s b = SR p' s' r d e -> eclass e.
Proof.
  intros until e. intros H. unfold step_map, handle_len in H.
  destruct (p_lcur p >? 0).
  - destruct (zlen b >? 0); [eapply init_map_key_class; exact H|cls H].
  - destruct (vis s EObjEnd) as [s1 e1] eqn:Hv. destruct (isnil e1).
    + destruct (pop_state (len_pop p) s1) as [[[[p2 s2] d2] e2]|] eqn:Hps; cls H.
    + cls H.
Qed.

Ltac cls_inline H :=
  repeat match type of H with
  | context [vis ?s0 ?ev] => destruct (vis s0 ev) as [? ?] eqn:?
  | context [if ?c then _ else _] => destruct c
  | context [match ?b with [] => _ | _ :: _ => _ end] => destruct b
  | context [match pop_state ?a ?b with _ => _ end] => destruct (pop_state a b) as [[[[? ?] ?] ?]|] eqn:?
  end;
  lazymatch type of H with
  | step_value _ _ _ = _ => eapply step_value_class; exact H
  | step_bytes _ _ _ = _ => eapply step_bytes_class; exact H
  | step_text _ _ _ = _ => eapply step_text_class; exact H
  | step_array _ _ _ = _ => eapply step_array_class; exact H
  | step_map _ _ _ = _ => eapply step_map_class; exact H
  | step_key _ _ _ = _ => eapply step_key_class; exact H
  | init_map_key _ _ _ = _ => eapply init_map_key_class; exact H
  | _ => cls H
  end.

Ltac disp H tac :=
  match type of H with (if ?c then _ else _) = _ => destruct c; [solve [tac]|] end.

Lemma exec_step_class : forall p s b p' s' r d e,
  exec_step p s b = SR p' s' r d e -> c_major (p_cur p) <> stFail -> eclass e.
Proof.
  intros until e. intros H Hnf. unfold exec_step in H. cbv zeta in H.
  destruct (c_major (p_cur p) =? stFail) eqn:E0; [apply Z.eqb_eq in E0; contradiction|].
  disp H ltac:(eapply step_value_class; exact H).
  disp H ltac:(eapply step_len_class; exact H).
  disp H ltac:(eapply step_num_class; exact H).
  disp H ltac:(eapply step_num_class; exact H).
  disp H ltac:(eapply step_float_class; exact H).
  disp H ltac:(eapply step_float_class; exact H).
  disp H ltac:(cls_inline H).
  disp H ltac:(eapply step_bytes_class; exact H).
  disp H ltac:(cls_inline H).
  disp H ltac:(eapply step_text_class; exact H).
  disp H ltac:(cls_inline H).
  disp H ltac:(eapply step_array_class; exact H).
  disp H ltac:(cls_inline H).
  disp H ltac:(cls_inline H).
  disp H ltac:(eapply step_map_class; exact H).
  disp H ltac:(cls_inline H).
  disp H ltac:(cls_inline H).
  disp H ltac:(eapply step_key_class; exact H).
  disp H ltac:(eapply step_value_class; exact H).
  cls H.
Qed.

Lemma Inv_not_fail : forall L0 p, Inv L0 p -> c_major (p_cur p) <> stFail.
Proof.
  intros L0 p (HS & _ & _) E. unfold cfg in HS. destruct (p_stack p) as [|c r].
  - apply (proj1 (shape_1 _)) in HS. rewrite HS in E. discriminate.
  - apply shape_cc in HS. destruct HS as [Hok _]. unfold kd in Hok. rewrite E in Hok. discriminate.
Qed.

Lemma feed_until_class : forall L0 n p s b p' s' r d e,
  Inv L0 p -> feed_until n p s b = Ok (SR p' s' r d e) -> eclass e.
Proof.
  induction n as [|n IH]; intros p s b p' s' r d e HI H; [discriminate|].
  cbn [feed_until] in H.
  destruct (exec_step p s b) as [p1 s1 rest done err|w] eqn:Hx; [|discriminate].
  pose proof (exec_step_class _ _ _ _ _ _ _ _ Hx (Inv_not_fail _ _ HI)) as Hc.
  destruct (done || negb (isnil err)) eqn:Ed.
  - inversion H; subst. exact Hc.
  - apply orb_false_iff in Ed. destruct Ed as [-> Ee]. apply negb_false_iff in Ee.
    apply isnil_true in Ee. subst err.
    destruct (negb (zlen rest =? 0) || (Z.land (c_major (p_cur p1)) (stStartX + stIndef) =? stStartX)).
    + eapply IH; [|exact H]. exact (proj1 (exec_step_inv _ _ _ _ _ _ _ _ _ HI Hx eq_refl)).
    + inversion H; subst. exact Hc.
Qed.


Lemma eclass_not_eof : forall e, eclass e -> e <> eEOF.
Proof. intros e [H|[H|H]]; subst; try discriminate. unfold eEOF. lia. Qed.

Lemma s_log_add : forall s l, s_log (s_add s l) = s_log s ++ l.
Proof. intros. unfold s_log, s_add. cbn [s_rlog]. rewrite rev_app_distr, rev_involutive. reflexivity. Qed.

Lemma rem_bytes_dec : forall b, rem (bytes_dec b) = b.
Proof. intros. unfold rem, tailb, bytes_dec. cbn [d_buf d_bytesdec]. apply app_nil_r. Qed.

(* C18, one call: a decoder between two values (parser state cparser0: a new
   decoder, or one whose previous calls all returned nil), reading from a
   well-behaved reader, whatever the sizes of its reads; W = rem d is the
   concatenation of the bytes still to come.
   - W empty: io.EOF and no event;
   - W starts with an item of the supported subset: nil, the events delivered
     are exactly the events of that one item (they form one well-formed tree
     whose value is the reference value), nothing of the following item is
     consumed or delivered, and the decoder is again between two values;
   - otherwise (malformed, unsupported, or the input ends inside the item): an
     error that is neither nil nor io.EOF. *)
Theorem C18_cbor_next_one_value_partial : forall fuel d s d' s' e,
  d_p d = cparser0 -> script_okb (d_script d) = true ->
  all_bytes (rem d) = true -> zlen (rem d) <= CF.MaxInt64 -> s_fail s = None ->
  dec_next fuel d s = Ok (d', s', e) ->
  match rem d with
  | [] => e = eEOF /\ s' = s
  | _ :: _ =>
      match Spec.cbor_decode (rem d) with
      | RValue v rest =>
          e = nilE /\
          exists t, wf_tree t = true /\ cv (value_of t) = v /\
                    s' = s_add s (flatten t) /\ stream_tree (flatten t) = Some (AdapterProofs.norm t) /\
                    d_p d' = cparser0 /\ rem d' = rest /\ script_okb (d_script d') = true /\
                    all_bytes rest = true /\ (length rest < length (rem d))%nat
      | _ => e <> nilE /\ e <> eEOF
      end
  end.
Proof.
  intros fuel d s d' s' e Hp Hsc Hb Hsz Hs H.
  assert (HI : CInv (d_p d)) by (rewrite Hp; exact ChunkProofs.Inv0).
  destruct (rem d) as [|x W'] eqn:HW.
  - destruct (dec_next_sound _ _ _ _ _ _ HI Hsc H) as (r & N & S & _).
    rewrite HW in N. inversion N; subst; try congruence.
    cbn [simW] in S. destruct S as (<- & <- & _). rewrite Hp. split; reflexivity.
  - set (W := x :: W') in *.
    assert (Hne : W <> []) by discriminate.
    assert (Hind : forall d2 s2 e2, dec_next 2 (bytes_dec W) s = Ok (d2, s2, e2) ->
              s' = s2 /\ e = e2 /\ (e = nilE -> d_p d' = d_p d2 /\ rem d' = rem d2 /\ script_okb (d_script d') = true)).
    { intros d2 s2 e2 H2.
      destruct (C18_cbor_script_independent_partial fuel 2 d (bytes_dec W) s d' s' e d2 s2 e2 HI Hp
                  ltac:(rewrite rem_bytes_dec; exact HW) Hsc eq_refl H H2) as (A & B & C).
      split; [exact A|]. split; [exact B|]. intros E. destruct (C E) as (C1 & C2 & _ & C4 & _). auto. }
    destruct (Spec.cbor_decode W) as [v rest| | |] eqn:Hd.
    + destruct (bytes_next_value 1 W s v rest Hne Hb Hsz Hs Hd) as (t & Hwf & Hcv & Hrb & Hlen & Hn).
      destruct (Hind _ _ _ Hn) as (-> & -> & K). destruct (K eq_refl) as (K1 & K2 & K3).
      split; [reflexivity|]. exists t. rewrite rem_bytes_dec in K2.
      repeat split; try assumption. apply AdapterProofs.stream_tree_flatten.
    + destruct (bytes_next_reject 0 W s Hne Hb Hsz Hs ltac:(rewrite Hd; reflexivity))
        as (d2 & s2 & e2 & Hn & He & Hc).
      destruct (Hind _ _ _ Hn) as (_ & -> & _). split; [exact He|].
      destruct Hc as [->|(p1 & r1 & dd & Hf)]; [discriminate|].
      apply eclass_not_eof. eapply (feed_until_class 0); [apply clean_Inv; exact clean0|exact Hf].
    + destruct (bytes_next_reject 0 W s Hne Hb Hsz Hs ltac:(rewrite Hd; reflexivity))
        as (d2 & s2 & e2 & Hn & He & Hc).
      destruct (Hind _ _ _ Hn) as (_ & -> & _). split; [exact He|].
      destruct Hc as [->|(p1 & r1 & dd & Hf)]; [discriminate|].
      apply eclass_not_eof. eapply (feed_until_class 0); [apply clean_Inv; exact clean0|exact Hf].
    + destruct (bytes_next_reject 0 W s Hne Hb Hsz Hs ltac:(rewrite Hd; reflexivity))
        as (d2 & s2 & e2 & Hn & He & Hc).
      destruct (Hind _ _ _ Hn) as (_ & -> & _). split; [exact He|].
      destruct Hc as [->|(p1 & r1 & dd & Hf)]; [discriminate|].
      apply eclass_not_eof. eapply (feed_until_class 0); [apply clean_Inv; exact clean0|exact Hf].
Qed.
Print Assumptions C18_cbor_next_one_value_partial.

(* what k successful calls followed by io.EOF look like: after each call the
   log has grown by exactly the events of the next tree *)
Fixpoint expect (log : list event) (ts : list tree) : list (list event * Z) :=
  match ts with
  | [] => [(log, eEOF)]
  | t :: r => (log ++ flatten t, nilE) :: expect (log ++ flatten t) r
  end.

(* C18, whole stream: if the bytes still to come are k complete items of the
   supported subset (the reference decoder reads all of them), then - whatever
   the read sizes - k calls of Next succeed, each delivering the complete
   events of exactly the next item, and the (k+1)-th call reports io.EOF. *)
Theorem C18_cbor_run_spec_partial : forall vs g fuel d s l,
  d_p d = cparser0 -> script_okb (d_script d) = true ->
  all_bytes (rem d) = true -> zlen (rem d) <= CF.MaxInt64 -> s_fail s = None ->
  Spec.cbor_decode_all g (rem d) = Some vs ->
  dec_run fuel (S (length vs)) d s = Ok l ->
  exists ts, map (fun t => cv (value_of t)) ts = vs /\ forallb wf_tree ts = true /\
             l = expect (s_log s) ts.
Proof.
  induction vs as [|v vs IH]; intros g fuel d s l Hp Hsc Hb Hsz Hs Hall Hrun.
  - assert (HW : rem d = []).
    { destruct g as [|g]; [discriminate|]. cbn [Spec.cbor_decode_all] in Hall.
      destruct (rem d) as [|x r]; [reflexivity|].
      destruct (Spec.cbor_decode (x :: r)) as [v1 r1| | |]; try discriminate.
      destruct (Spec.cbor_decode_all g r1); discriminate. }
    cbn [length dec_run] in Hrun.
    destruct (dec_next fuel d s) as [[[d' s'] e]| | |] eqn:Hn; try discriminate.
    pose proof (C18_cbor_next_one_value_partial _ _ _ _ _ _ Hp Hsc Hb Hsz Hs Hn) as K.
    rewrite HW in K. destruct K as [-> ->]. change (isnil eEOF) with false in Hrun.
    inversion Hrun; subst. exists []. repeat split.
  - destruct g as [|g]; [discriminate|]. cbn [Spec.cbor_decode_all] in Hall.
    destruct (rem d) as [|x r] eqn:HW; [discriminate|]. rewrite <- HW in Hb, Hsz.
    destruct (Spec.cbor_decode (x :: r)) as [v1 r1| | |] eqn:Hd; try discriminate.
    destruct (Spec.cbor_decode_all g r1) as [vs1|] eqn:Hall1; [|discriminate].
    inversion Hall; subst v1 vs1. clear Hall.
    cbn [length] in Hrun. change (dec_run fuel (S (S (length vs))) d s) with
      (match dec_next fuel d s with
       | Ok (d', s', e) =>
           if isnil e then
             match dec_run fuel (S (length vs)) d' s' with
             | Ok l => Ok ((s_log s', e) :: l)
             | x => x
             end
           else Ok [(s_log s', e)]
       | Err e => Err e | Panic w => Panic w | OutOfFuel => OutOfFuel
       end) in Hrun.
    destruct (dec_next fuel d s) as [[[d' s'] e]| | |] eqn:Hn; try discriminate.
    pose proof (C18_cbor_next_one_value_partial _ _ _ _ _ _ Hp Hsc Hb Hsz Hs Hn) as K.
    rewrite HW, Hd in K. destruct K as (-> & t & Hwf & Hcv & -> & _ & Hp' & Hr' & Hsc' & Hb' & Hlen).
    change (isnil nilE) with true in Hrun. cbv iota in Hrun.
    destruct (dec_run fuel (S (length vs)) d' (s_add s (flatten t))) as [l'| | |] eqn:Hrun'; try discriminate.
    inversion Hrun; subst l. clear Hrun.
    destruct (IH g fuel d' (s_add s (flatten t)) l' Hp' Hsc') as (ts & Hts & Hwfs & Hl').
    + rewrite Hr'. exact Hb'.
    + rewrite Hr'. rewrite HW in Hsz. unfold zlen in *. cbn [length] in Hlen, Hsz. lia.
    + exact Hs.
    + rewrite Hr'. exact Hall1.
    + exact Hrun'.
    + exists (t :: ts). cbn [map forallb expect]. rewrite Hcv, Hts, Hwf, Hwfs, Hl', s_log_add.
      repeat split.
Qed.
Print Assumptions C18_cbor_run_spec_partial.

(* ... and these k+1 calls do return: together with C18_cbor_next_total *)
Lemma dec_run_total : forall k fuel d s,
  SInv (d_p d) -> all_bytes (d_buf d) = true -> script_bytes (d_script d) = true ->
  (length (d_script d) + 1 < fuel)%nat ->
  exists l, dec_run fuel k d s = Ok l.
Proof.
  induction k as [|k IH]; intros fuel d s HI Hb Hs Hm; cbn [dec_run]; [eauto|].
  destruct (C18_cbor_next_total fuel d s HI Hb Hs Hm) as (d' & s' & e & Hn & Hp). rewrite Hn.
  destruct (isnil e) eqn:Ee; [|eauto].
  apply isnil_true in Ee. destruct (Hp Ee) as (A & B & C & D).
  destruct (IH fuel d' s' A B C ltac:(lia)) as (l & Hl). rewrite Hl. eauto.
Qed.

Lemma all_bytes_app' : forall a b, all_bytes (a ++ b) = all_bytes a && all_bytes b.
Proof. intros. unfold all_bytes. apply forallb_app. Qed.

Lemma script_bytes_concat : forall sc, all_bytes (concat (map fst sc)) = true -> script_bytes sc = true.
Proof.
  induction sc as [|[data err] r IH]; intros H; [reflexivity|].
  cbn [map fst concat] in H. rewrite all_bytes_app' in H. apply andb_true_iff in H. destruct H as [H1 H2].
  unfold script_bytes. cbn [forallb fst]. rewrite H1. exact (IH H2).
Qed.

(* The statement of C18 for a reader-based decoder, without premises on the
   outcome: for every well-behaved read script whose bytes are k complete items,
   and every sufficient fuel, the run of k+1 calls returns and is exactly
   "k values, one per call, then io.EOF". *)
Theorem C18_cbor_reader_stream : forall sc vs g fuel s,
  script_okb sc = true ->
  all_bytes (concat (map fst sc)) = true -> zlen (concat (map fst sc)) <= CF.MaxInt64 ->
  s_fail s = None ->
  Spec.cbor_decode_all g (concat (map fst sc)) = Some vs ->
  (length sc + 1 < fuel)%nat ->
  exists ts, map (fun t => cv (value_of t)) ts = vs /\ forallb wf_tree ts = true /\
             dec_run fuel (S (length vs)) (reader_dec sc) s = Ok (expect (s_log s) ts).
Proof.
  intros sc vs g fuel s Hsc Hb Hsz Hs Hall Hfuel.
  assert (Hrem : rem (reader_dec sc) = concat (map fst sc)) by reflexivity.
  destruct (dec_run_total (S (length vs)) fuel (reader_dec sc) s ParseSafety.Inv0 eq_refl
              (script_bytes_concat _ Hb) Hfuel) as (l & Hl).
  destruct (C18_cbor_run_spec_partial vs g fuel (reader_dec sc) s l eq_refl Hsc
              ltac:(rewrite Hrem; exact Hb) ltac:(rewrite Hrem; exact Hsz) Hs
              ltac:(rewrite Hrem; exact Hall) Hl) as (ts & A & B & C).
  exists ts. split; [exact A|]. split; [exact B|]. rewrite Hl, C. reflexivity.
Qed.
Print Assumptions C18_cbor_reader_stream.

Theorem C18_cbor_bytes_stream : forall b vs g fuel s,
  all_bytes b = true -> zlen b <= CF.MaxInt64 -> s_fail s = None ->
  Spec.cbor_decode_all g b = Some vs -> (1 < fuel)%nat ->
  exists ts, map (fun t => cv (value_of t)) ts = vs /\ forallb wf_tree ts = true /\
             dec_run fuel (S (length vs)) (bytes_dec b) s = Ok (expect (s_log s) ts).
Proof.
  intros b vs g fuel s Hb Hsz Hs Hall Hfuel.
  destruct (dec_run_total (S (length vs)) fuel (bytes_dec b) s ParseSafety.Inv0 Hb eq_refl Hfuel) as (l & Hl).
  destruct (C18_cbor_run_spec_partial vs g fuel (bytes_dec b) s l eq_refl eq_refl
              ltac:(rewrite rem_bytes_dec; exact Hb) ltac:(rewrite rem_bytes_dec; exact Hsz) Hs
              ltac:(rewrite rem_bytes_dec; exact Hall) Hl) as (ts & A & B & C).
  exists ts. split; [exact A|]. split; [exact B|]. rewrite Hl, C. reflexivity.
Qed.
Print Assumptions C18_cbor_bytes_stream.

(* ---------- further consequences ---------- *)

(* io.EOF is reported exactly when no byte is left (decoder between two values) *)
Corollary C18_cbor_next_eof_partial : forall fuel d s d' s' e,
  d_p d = cparser0 -> script_okb (d_script d) = true ->
  all_bytes (rem d) = true -> zlen (rem d) <= CF.MaxInt64 -> s_fail s = None ->
  dec_next fuel d s = Ok (d', s', e) ->
  (e = eEOF <-> rem d = []).
Proof.
  intros fuel d s d' s' e Hp Hsc Hb Hsz Hs H.
  pose proof (C18_cbor_next_one_value_partial _ _ _ _ _ _ Hp Hsc Hb Hsz Hs H) as K.
  destruct (rem d) as [|x r].
  - destruct K as [-> _]. split; reflexivity.
  - split; [|discriminate]. intros ->.
    destruct (Spec.cbor_decode (x :: r)) as [v rest| | |]; destruct K as [K1 K2]; try discriminate; congruence.
Qed.
Print Assumptions C18_cbor_next_eof_partial.

(* a successful Next has consumed at least one byte - for every visitor (also a
   failing one) and every reachable parser state *)
Theorem C18_cbor_next_progress_partial : forall fuel d s d' s',
  CInv (d_p d) -> SInv (d_p d) -> ParseSafety.rank (d_p d) = 0%nat ->
  script_okb (d_script d) = true -> all_bytes (rem d) = true ->
  dec_next fuel d s = Ok (d', s', nilE) ->
  (length (rem d') < length (rem d))%nat.
Proof.
  intros fuel d s d' s' HI HS Hr Hsc Hb H.
  destruct (dec_next_sound _ _ _ _ _ _ HI Hsc H) as (r & N & S & _).
  destruct r as [[[pa sa] ra] ea]. cbn [simW] in S. destruct S as (-> & -> & S).
  destruct (S eq_refl) as (-> & ->).
  inversion N; subst; try congruence.
  - exfalso. eapply finE_not_nil; eauto.
  - assert (HW : rem d <> []) by assumption.
    destruct (ParseSafety.feed_until_ok (feed_fuel (rem d)) (d_p d) s (rem d) HS Hb (or_introl HW))
      as (p1 & s1 & rest & dd & e & Hf & _ & _ & Hpost).
    { unfold feed_fuel. rewrite Hr. lia. }
    apply feed_until_RU in Hf.
    match goal with HR : RU _ _ _ (_, _, _, true, nilE) |- _ => pose proof (RU_det _ _ _ _ HR _ Hf) as E end.
    inversion E; subst. destruct (Hpost eq_refl) as (_ & _ & Hlt). exact (Hlt Hr).
  - exfalso. eapply finE_not_nil; eauto.
Qed.
Print Assumptions C18_cbor_next_progress_partial.

(* the core lemma of C16 in elementary form: within one parser step, nothing is
   delivered after the visitor's first error, and that error is returned *)
Theorem C16_cbor_step_core : forall p s b k p' s' rest d e,
  s_fail s = Some k -> (s_n s <= k)%nat -> exec_step p s b = SR p' s' rest d e ->
  exists l, s' = s_add s l /\ (s_n s' <= S k)%nat /\ (s_n s' = S k -> e = eVisitor).
Proof.
  intros p s b k p' s' rest d e Hs Hn H.
  apply (rep_prompt_gen _ _ (exec_step_rep p b) s k (p', rest, d) s' e Hs Hn). rewrite H. reflexivity.
Qed.
Print Assumptions C16_cbor_step_core.
