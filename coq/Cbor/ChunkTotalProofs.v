(* C02 for the CBOR parser model in unconditional form: ChunkProofs (the runs
   agree whenever they return) composed with ParseSafety (they always return on
   byte inputs). *)
From SF Require Import Base.Prelude Core.Events Cbor.Parse Cbor.ParseSafety Cbor.ChunkProofs.
Open Scope Z_scope.

(* identical events and identical verdict (error class), for every visitor
   failure schedule, also when the input is rejected *)
Theorem C02_cbor_chunks_strongest : forall vfail cs1 cs2,
  forallb all_bytes cs1 = true -> forallb all_bytes cs2 = true ->
  concat cs1 = concat cs2 ->
  same_obs_strong (run_chunks vfail cs1) (run_chunks vfail cs2).
Proof. exact (C02_cbor_chunks_total_strong C03_cbor_chunks_total). Qed.
Print Assumptions C02_cbor_chunks_strongest.

Theorem C02_cbor_entry_strongest : forall vfail cs,
  forallb all_bytes cs = true ->
  same_obs_strong (run_parse vfail (concat cs)) (run_chunks vfail cs).
Proof. exact (C02_cbor_entry_total_strong C03_cbor_chunks_total C03_cbor_parse_total). Qed.
Print Assumptions C02_cbor_entry_strongest.

(* the statements of the task *)
Theorem C02_cbor_chunks : forall cs1 cs2,
  forallb all_bytes cs1 = true -> forallb all_bytes cs2 = true ->
  concat cs1 = concat cs2 -> same_obs (run_chunks None cs1) (run_chunks None cs2).
Proof. exact (C02_cbor_chunks_total C03_cbor_chunks_total). Qed.
Print Assumptions C02_cbor_chunks.

Theorem C02_cbor_entry : forall cs, forallb all_bytes cs = true ->
  same_obs (run_parse None (concat cs)) (run_chunks None cs).
Proof. exact (C02_cbor_entry_total C03_cbor_chunks_total C03_cbor_parse_total). Qed.
Print Assumptions C02_cbor_entry.
