(* L0: reference decoder for the supported CBOR subset, written from
   RFC 7049 sections 2.1-2.3, not from cborl/parse.go. *)
From SF Require Import Base.Prelude Core.Events.
Open Scope Z_scope.

Inductive arg := ArgVal (n : Z) (rest : bytes) | ArgIndef (rest : bytes) | ArgTrunc | ArgBad.

(* additional information -> argument (RFC 7049 2.1) *)
Definition read_arg (minor : Z) (r : bytes) : arg :=
  if minor <? 24 then ArgVal minor r
  else if minor <=? 27 then
    let k := 2 ^ (minor - 24) in
    match take k r with
    | Some (a, r') => ArgVal (be_dec a) r'
    | None => ArgTrunc
    end
  else if minor =? 31 then ArgIndef r
  else ArgBad.

Fixpoint cbor_ref (fuel : nat) (b : bytes) : ref_result :=
  match fuel with
  | O => RTruncated
  | S f =>
      match b with
      | [] => RTruncated
      | ib :: r =>
          let major := ib / 32 in
          let minor := ib mod 32 in
          if major =? 7 then
            if minor =? 20 then RValue (CBool false) r
            else if minor =? 21 then RValue (CBool true) r
            else if minor =? 22 then RValue CNil r
            else if minor =? 23 then RValue CNil r          (* undefined, reported as nil *)
            else if minor =? 26 then
              match take 4 r with Some (a, r') => RValue (CNum (CF32 (be_dec a))) r' | None => RTruncated end
            else if minor =? 27 then
              match take 8 r with Some (a, r') => RValue (CNum (CF64 (be_dec a))) r' | None => RTruncated end
            else if minor =? 31 then RMalformed              (* break outside an indefinite container *)
            else if (28 <=? minor) && (minor <=? 30) then RMalformed
            else RUnsupported                                (* other simple values, half floats *)
          else if major =? 6 then RUnsupported               (* tags *)
          else
            match read_arg minor r with
            | ArgBad => RMalformed
            | ArgTrunc => RTruncated
            | ArgIndef r1 =>
                if (major =? 0) || (major =? 1) then RMalformed
                else if (major =? 2) || (major =? 3) then RUnsupported
                else if major =? 4 then
                  (fix items (g : nat) (b : bytes) (acc : list cvalue) : ref_result :=
                     match g with
                     | O => RTruncated
                     | S g' =>
                         match b with
                         | [] => RTruncated
                         | 255 :: r' => RValue (CArr (rev acc)) r'
                         | _ => match cbor_ref f b with
                                | RValue v r' => items g' r' (v :: acc)
                                | e => e
                                end
                         end
                     end) f r1 []
                else
                  (fix pairs (g : nat) (b : bytes) (acc : list (bytes * cvalue)) : ref_result :=
                     match g with
                     | O => RTruncated
                     | S g' =>
                         match b with
                         | [] => RTruncated
                         | 255 :: r' => RValue (CObj (rev acc)) r'
                         | kb :: _ =>
                             if negb (kb / 32 =? 3) then
                               (if (kb / 32 =? 7) && negb (kb mod 32 <? 28) then RMalformed else RUnsupported)
                             else
                             match cbor_ref f b with
                             | RValue (CStr k) r' =>
                                 match cbor_ref f r' with
                                 | RValue v r'' => pairs g' r'' ((k, v) :: acc)
                                 | e => e
                                 end
                             | RValue _ _ => RUnsupported
                             | e => e
                             end
                         end
                     end) f r1 []
            | ArgVal n r1 =>
                if major =? 0 then RValue (CNum (CInt n)) r1
                else if major =? 1 then
                  if n <? 2 ^ 63 then RValue (CNum (CInt (-1 - n))) r1 else RUnsupported
                else if major =? 2 then
                  match take n r1 with
                  | Some (a, r') => RValue (CArr (map (fun x => CNum (CInt x)) a)) r'
                  | None => RTruncated
                  end
                else if major =? 3 then
                  match take n r1 with
                  | Some (a, r') => RValue (CStr a) r'
                  | None => RTruncated
                  end
                else if major =? 4 then
                  (fix items (g : nat) (n : Z) (b : bytes) (acc : list cvalue) : ref_result :=
                     if n <=? 0 then RValue (CArr (rev acc)) b else
                     match g with
                     | O => RTruncated
                     | S g' =>
                         match cbor_ref f b with
                         | RValue v r' => items g' (n - 1) r' (v :: acc)
                         | e => e
                         end
                     end) f n r1 []
                else
                  (fix pairs (g : nat) (n : Z) (b : bytes) (acc : list (bytes * cvalue)) : ref_result :=
                     if n <=? 0 then RValue (CObj (rev acc)) b else
                     match g with
                     | O => RTruncated
                     | S g' =>
                         match b with
                         | [] => RTruncated
                         | kb :: _ =>
                             if negb (kb / 32 =? 3) then
                               (if (kb / 32 =? 7) && negb (kb mod 32 <? 28) then RMalformed else RUnsupported)
                             else
                             match cbor_ref f b with
                             | RValue (CStr k) r' =>
                                 match cbor_ref f r' with
                                 | RValue v r'' => pairs g' (n - 1) r'' ((k, v) :: acc)
                                 | e => e
                                 end
                             | RValue _ _ => RUnsupported
                             | e => e
                             end
                         end
                     end) f n r1 []
            end
      end
  end.

Definition cbor_decode (b : bytes) : ref_result := cbor_ref (S (length b)) b.

(* a sequence of items *)
Fixpoint cbor_decode_all (fuel : nat) (b : bytes) : option (list cvalue) :=
  match fuel with
  | O => None
  | S f =>
      match b with
      | [] => Some []
      | _ => match cbor_decode b with
             | RValue v r => match cbor_decode_all f r with Some vs => Some (v :: vs) | None => None end
             | _ => None
             end
      end
  end.
