(* C03: the CBOR parser model (Cbor/Parse.v) survives arbitrary bytes in
   arbitrary chunkings: no Panic (no Go index/slice panic), no OutOfFuel (no
   hang), and what it retains is linear in the bytes received. *)
From SF Require Import Base.Prelude Base.PreludeProofs Core.Events Cbor.Parse.
From Coq Require Import ZifyBool ZifyNat ZifyN.
Open Scope Z_scope.
Ltac Zify.zify_post_hook ::= Z.div_mod_to_equations.

Ltac consts :=
  unfold stFail, stValue, stLen, stStartX, stIndef, mUint, mNeg, mBytes, mText, mArr,
    mMap, mTag, stKey, stElem, stStart, stCont, nilE, eVisitor, eInvalidCode,
    eTextKeyRequired, eIndefByteSeq, eUnsupported, eIntRange, eLenRange in *.

Ltac psimpl :=
  cbn [p_cur p_stack p_lcur p_lstack p_buf p_err set_cur set_buf set_lcur set_err
       st_pop len_push len_pop c_major c_minor mkst clear_startx length] in *.

(* ---------- small list facts ---------- *)
Ltac fin := repeat split; intros; auto; try discriminate; try lia.

Lemma zlen_nil {A} : zlen (@nil A) = 0.
Proof. reflexivity. Qed.
Lemma zlen_cons {A} (x : A) l : zlen (x :: l) = 1 + zlen l.
Proof. unfold zlen. cbn [length]. lia. Qed.
Lemma zlen_app {A} (a b : list A) : zlen (a ++ b) = zlen a + zlen b.
Proof. unfold zlen. rewrite app_length. lia. Qed.
Lemma zlen_nonneg {A} (l : list A) : 0 <= zlen l.
Proof. unfold zlen. lia. Qed.
Lemma zlen_zfirstn n b : 0 <= n <= zlen b -> zlen (zfirstn n b) = n.
Proof. unfold zlen, zfirstn. intros H. rewrite firstn_length. lia. Qed.
Lemma length_zskipn n b : length (zskipn n b) = (length b - Z.to_nat n)%nat.
Proof. unfold zskipn. apply skipn_length. Qed.
Lemma length_zfirstn_le n b : (length (zfirstn n b) <= length b)%nat.
Proof. unfold zfirstn. rewrite firstn_length. lia. Qed.

Lemma all_bytes_app a b : all_bytes (a ++ b) = all_bytes a && all_bytes b.
Proof. unfold all_bytes. apply forallb_app. Qed.
Lemma all_bytes_firstn n b : all_bytes b = true -> all_bytes (firstn n b) = true.
Proof.
  unfold all_bytes. revert n. induction b as [|x b IH]; intros [|n] H; cbn [firstn forallb] in *; try reflexivity.
  apply andb_true_iff in H as [H1 H2]. rewrite H1. cbn [andb]. auto.
Qed.
Lemma all_bytes_skipn n b : all_bytes b = true -> all_bytes (skipn n b) = true.
Proof.
  unfold all_bytes. revert n. induction b as [|x b IH]; intros [|n] H; cbn [skipn forallb] in *; try reflexivity; auto.
  apply andb_true_iff in H as [H1 H2]. auto.
Qed.
Lemma all_bytes_zfirstn n b : all_bytes b = true -> all_bytes (zfirstn n b) = true.
Proof. apply all_bytes_firstn. Qed.
Lemma all_bytes_zskipn n b : all_bytes b = true -> all_bytes (zskipn n b) = true.
Proof. apply all_bytes_skipn. Qed.
Lemma all_bytes_cons x b : all_bytes (x :: b) = true -> (0 <= x < 256) /\ all_bytes b = true.
Proof.
  unfold all_bytes, is_byte. cbn [forallb]. intros H. apply andb_true_iff in H as [H1 H2]. split; [lia|exact H2].
Qed.

Lemma isnil_true e : isnil e = true -> e = nilE.
Proof. unfold isnil. intros H. lia. Qed.
Lemma isnil_false e : isnil e = false -> e <> nilE.
Proof. unfold isnil. intros H. lia. Qed.
Lemma isnil_nilE : isnil nilE = true.
Proof. reflexivity. Qed.

(* ---------- the reachable-state invariant ---------- *)
(* the chain of "value expecting" states: the bottom is stValue, everything above
   is a definite or indefinite array/map *)
Fixpoint vch (M : Z) (st : list cstate) : Prop :=
  match st with
  | [] => M = 2
  | d :: r => (M = 128 \/ M = 160 \/ M = 129 \/ M = 161) /\ vch (c_major d) r
  end.

Definition popped (p p1 : cparser) : Prop :=
  (length (p_stack p1) <= length (p_stack p))%nat /\
  (length (p_lstack p1) <= length (p_lstack p))%nat /\ p_buf p1 = p_buf p.

Definition vstate (p : cparser) : Prop :=
  vch (c_major (p_cur p)) (p_stack p) /\
  ((c_major (p_cur p) = 128 \/ c_major (p_cur p) = 160) -> p_lcur p > 0).

Lemma vch_major M st : vch M st -> M = 2 \/ M = 128 \/ M = 160 \/ M = 129 \/ M = 161.
Proof. destruct st; cbn [vch]; intuition. Qed.

Lemma on_value_ok : forall fuel p s,
  vch (c_major (p_cur p)) (p_stack p) -> (length (p_stack p) < fuel)%nat ->
  exists p1 s1 d e, on_value fuel p s = Some (p1, s1, d, e) /\ popped p p1 /\
    (e = nilE -> vstate p1 /\ (d = true -> c_major (p_cur p1) = 2)).
Proof.
  induction fuel as [|f IH]; intros p s Hv Hf; [lia|].
  destruct p as [[M m] st l ls buf er]. psimpl.
  cbn [on_value]. psimpl. consts.
  destruct ((M =? 128) || (M =? 160)) eqn:E1.
  - destruct (l - 1 >? 0) eqn:E2.
    + do 4 eexists. split; [reflexivity|]. unfold popped, vstate. psimpl.
      fin.
    + destruct (vis s (if M =? 128 then EArrEnd else EObjEnd)) as [s1 err].
      destruct (isnil err) eqn:E3.
      * destruct st as [|d r]; [cbn [vch] in Hv; lia|].
        cbn [vch] in Hv. destruct Hv as [_ Hv].
        destruct ls as [|l' ls']; psimpl.
        -- destruct (IH {| p_cur := d; p_stack := r; p_lcur := -1; p_lstack := []; p_buf := buf; p_err := er |} s1)
             as (p1 & s2 & d1 & e1 & H1 & H2 & H3); psimpl; auto; try lia.
           exists p1, s2, d1, e1. split; [exact H1|]. split; [|exact H3].
           unfold popped in *. psimpl. intuition lia.
        -- destruct (IH {| p_cur := d; p_stack := r; p_lcur := l'; p_lstack := ls'; p_buf := buf; p_err := er |} s1)
             as (p1 & s2 & d1 & e1 & H1 & H2 & H3); psimpl; auto; try lia.
           exists p1, s2, d1, e1. split; [exact H1|]. split; [|exact H3].
           unfold popped in *. psimpl. intuition lia.
      * do 4 eexists. split; [reflexivity|]. unfold popped. psimpl.
        split; [fin|]. intros H. apply isnil_false in E3. unfold nilE in E3. contradiction.
  - destruct ((M =? 128 + 1) || (M =? 160 + 1)) eqn:E4.
    + do 4 eexists. split; [reflexivity|]. unfold popped, vstate. psimpl.
      fin.
    + do 4 eexists. split; [reflexivity|]. unfold popped, vstate. psimpl.
      apply vch_major in Hv as Hm. fin.
Qed.

Definition cont_ok (st : list cstate) : Prop :=
  match st with [] => False | d :: r => vch (c_major d) r end.

Lemma pop_state_ok p s : cont_ok (p_stack p) ->
  exists p1 s1 d e, pop_state p s = Some (p1, s1, d, e) /\ popped p p1 /\
    (e = nilE -> vstate p1 /\ (d = true -> c_major (p_cur p1) = 2)).
Proof.
  intros Hc. destruct p as [c st l ls buf er]. psimpl.
  destruct st as [|d r]; [destruct Hc|]. cbn [cont_ok] in Hc.
  unfold pop_state. psimpl.
  destruct (on_value_ok (depth_fuel {| p_cur := d; p_stack := r; p_lcur := l; p_lstack := ls; p_buf := buf; p_err := er |})
              {| p_cur := d; p_stack := r; p_lcur := l; p_lstack := ls; p_buf := buf; p_err := er |} s)
    as (p1 & s1 & d1 & e1 & H1 & H2 & H3); psimpl; auto.
  - unfold depth_fuel. psimpl. lia.
  - exists p1, s1, d1, e1. split; [exact H1|]. split; [|exact H3].
    unfold popped in *. psimpl. intuition lia.
Qed.

Definition numbuf (m : Z) (buf : bytes) : Prop :=
  (m = 24 /\ buf = []) \/ (25 <= m <= 27 /\ zlen buf < 2 ^ (m - 24)).

Definition sx_ok (MX : Z) (st : list cstate) : Prop :=
  match st with
  | [] => False
  | d :: r => ((MX = 68 \/ MX = 100 \/ MX = 172) /\ vch (c_major d) r) \/
              ((MX = 132 \/ MX = 164) /\ c_major d = MX - 4 /\ vch (c_major d) r)
  end.

(* shape major minor stack lcur buffer *)
Inductive shape : Z -> Z -> list cstate -> Z -> bytes -> Prop :=
| ShV M m st l : vch M st -> (M = 128 \/ M = 160 -> l > 0) -> shape M m st l []
| ShNum M m st l buf : M = 0 \/ M = 32 -> cont_ok st -> numbuf m buf -> shape M m st l buf
| ShFloat M m st l buf : (M = 250 /\ zlen buf < 4) \/ (M = 251 /\ zlen buf < 8) -> cont_ok st ->
    shape M m st l buf
| ShSX M m st l : M = 68 \/ M = 100 \/ M = 172 -> 0 <= l -> cont_ok st -> shape M m st l []
| ShBytes m st l : 0 < l -> cont_ok st -> shape 64 m st l []
| ShText M m st l buf : M = 96 \/ M = 168 -> zlen buf < l -> cont_ok st -> shape M m st l buf
| ShElem m st l : cont_ok st -> shape 169 m st l []
| ShCX M m d r l : M = 132 \/ M = 164 \/ M = 133 \/ M = 165 -> c_major d = M - 4 ->
    vch (c_major d) r -> shape M m (d :: r) l []
| ShLen m X st l buf : numbuf m buf -> sx_ok (c_major X) st -> shape 3 m (X :: st) l buf.

Definition Inv (p : cparser) : Prop :=
  shape (c_major (p_cur p)) (c_minor (p_cur p)) (p_stack p) (p_lcur p) (p_buf p) /\
  all_bytes (p_buf p) = true.

Definition rank (p : cparser) : nat := if Z.land (c_major (p_cur p)) 5 =? 4 then 1 else 0.

Lemma Inv_vstate p : vstate p -> p_buf p = [] -> Inv p.
Proof.
  intros [H1 H2] Hb. split; [|rewrite Hb; reflexivity]. rewrite Hb. apply ShV; auto.
Qed.

Lemma rank_vstate p : vstate p -> rank p = 0%nat.
Proof.
  intros [H1 _]. apply vch_major in H1. unfold rank.
  destruct H1 as [H|[H|[H|[H|H]]]]; rewrite H; reflexivity.
Qed.

Lemma Inv0 : Inv cparser0.
Proof. split; [|reflexivity]. cbn. apply ShV; cbn; auto. intros [H|H]; discriminate H. Qed.

(* space accounting *)
Definition sp (p : cparser) (nb : nat) (p1 : cparser) (nr : nat) : Prop :=
  (length (p_stack p1) + 3 * nr <= length (p_stack p) + 3 * nb)%nat /\
  (length (p_lstack p1) + nr <= length (p_lstack p) + nb)%nat /\
  (length (p_buf p1) + nr <= length (p_buf p) + nb)%nat /\ (nr <= nb)%nat.

Definition goodg (p : cparser) (nb : nat) (prog : cparser -> nat -> Prop) (r : sres) : Prop :=
  match r with
  | Crash _ => False
  | SR p1 s1 rest done err =>
      sp p nb p1 (length rest) /\ all_bytes rest = true /\
      (err = nilE -> Inv p1 /\ (done = true -> c_major (p_cur p1) = 2) /\ prog p1 (length rest))
  end.

(* collect *)
Lemma collect_ok p b count : 0 < count -> zlen (p_buf p) < count ->
  all_bytes (p_buf p) = true -> all_bytes b = true ->
  (collect p b count = CR (set_buf p (p_buf p ++ b)) [] None /\ zlen (p_buf p ++ b) < count) \/
  (exists rest t, collect p b count = CR (set_buf p []) rest (Some t) /\ all_bytes t = true /\
     all_bytes rest = true /\ (length rest < length b)%nat).
Proof.
  intros Hc Hl Hab Hb. destruct p as [c st l ls buf er]. psimpl. unfold collect. psimpl.
  destruct buf as [|x buf].
  - rewrite zlen_nil. change (0 >? 0) with false. cbv iota.
    replace (count <? 0) with false by lia.
    destruct (zlen b >=? count) eqn:E.
    + right. do 2 eexists. split; [reflexivity|].
      split; [apply all_bytes_zfirstn; auto|]. split; [apply all_bytes_zskipn; auto|].
      rewrite length_zskipn. unfold zlen in E. lia.
    + left. split; [reflexivity|]. cbn [app]. lia.
  - replace (zlen (x :: buf) >? 0) with true by (rewrite zlen_cons; pose proof (zlen_nonneg buf); lia).
    cbv iota.
    replace (count - zlen (x :: buf) >? 0) with true by lia.
    destruct (count - zlen (x :: buf) >? zlen b) eqn:E.
    + left. split; [reflexivity|]. rewrite zlen_app. lia.
    + right. psimpl.
      assert (Hz : zlen ((x :: buf) ++ zfirstn (count - zlen (x :: buf)) b) = count).
      { rewrite zlen_app, zlen_zfirstn; lia. }
      rewrite Hz. replace (count >=? count) with true by lia.
      replace (count <? 0) with false by lia. rewrite Z.eqb_refl.
      do 2 eexists. split; [reflexivity|].
      split; [|split].
      * apply all_bytes_zfirstn. rewrite all_bytes_app, Hab. apply all_bytes_zfirstn; auto.
      * apply all_bytes_zskipn; auto.
      * rewrite length_zskipn. unfold zlen in *. cbn [length] in *. lia.
Qed.

Lemma st_push_eq p next : c_major (p_cur p) <> 1 ->
  st_push p next = {| p_cur := next; p_stack := p_cur p :: p_stack p; p_lcur := p_lcur p;
                      p_lstack := p_lstack p; p_buf := p_buf p; p_err := p_err p |}.
Proof. intros H. unfold st_push. replace (c_major (p_cur p) =? stFail) with false; [reflexivity|]. consts. lia. Qed.

Lemma vch_not_fail M st : vch M st -> M <> 1.
Proof. intros H. apply vch_major in H. lia. Qed.

Lemma after_value_good p s rest err nb (prog : cparser -> nat -> Prop) :
  vch (c_major (p_cur p)) (p_stack p) -> p_buf p = [] -> all_bytes rest = true ->
  (length rest <= nb)%nat -> (forall p1, rank p1 = 0%nat -> prog p1 (length rest)) ->
  goodg p nb prog (after_value p s rest err).
Proof.
  intros Hv Hb Hr Hn Hp. unfold after_value. destruct (isnil err) eqn:E.
  - destruct (on_value_ok (depth_fuel p) p s) as (p1 & s1 & d1 & e1 & H1 & H2 & H3); auto.
    { unfold depth_fuel. lia. }
    rewrite H1. cbn [goodg]. unfold popped in H2. destruct H2 as (Ha & Hc & Hd).
    split; [unfold sp; rewrite Hd; lia|]. split; [exact Hr|].
    intros He. destruct (H3 He) as [Hvs Hdn].
    split; [apply Inv_vstate; auto; congruence|]. split; [exact Hdn|]. apply Hp. apply rank_vstate; auto.
  - cbn [goodg]. split; [unfold sp; lia|]. split; [exact Hr|].
    intros He. apply isnil_false in E. contradiction.
Qed.

(* the common ending "if err == nil { done, err = p.popState() }" *)
Lemma pop_good p0 nb (prog : cparser -> nat -> Prop) p p' s s' rest k (dflt : bool) err :
  cont_ok (p_stack p) -> p_buf p = [] -> all_bytes rest = true ->
  sp p0 nb p (length rest) -> sp p0 nb p' (length rest) ->
  (forall p1, rank p1 = 0%nat -> prog p1 (length rest)) ->
  goodg p0 nb prog
    (if isnil err then
         match pop_state p s with
         | Some (p1, s1, d, e) => SR p1 s1 rest d e
         | None => Crash k
         end
       else SR p' s' rest dflt err).
Proof.
  intros Hc Hb Hr Hsp Hsp' Hp. destruct (isnil err) eqn:E.
  - destruct (pop_state_ok p s Hc) as (p1 & s1 & d1 & e1 & H1 & H2 & H3).
    rewrite H1. cbn [goodg]. unfold popped in H2. destruct H2 as (Ha & Hc' & Hd).
    split; [unfold sp in *; rewrite Hd; lia|]. split; [exact Hr|].
    intros He. destruct (H3 He) as [Hvs Hdn].
    split; [apply Inv_vstate; auto; congruence|]. split; [exact Hdn|]. apply Hp. apply rank_vstate; auto.
  - cbn [goodg]. split; [exact Hsp'|]. split; [exact Hr|].
    intros He. apply isnil_false in E. contradiction.
Qed.

Lemma pow2_pos k : 0 <= k -> 0 < 2 ^ k.
Proof. intros H. apply Z.pow_pos_nonneg; lia. Qed.

Lemma numbuf_nil m : 24 <= m <= 27 -> numbuf m [].
Proof.
  intros H. unfold numbuf. destruct (Z.eq_dec m 24) as [->|Hn]; [left; auto|right].
  split; [lia|]. rewrite zlen_nil. apply pow2_pos. lia.
Qed.

Lemma init_byte_seq_good p s major minor r nb (prog : cparser -> nat -> Prop) :
  major = 64 \/ major = 96 \/ major = 168 -> 0 <= minor ->
  vch (c_major (p_cur p)) (p_stack p) -> p_buf p = [] -> all_bytes r = true ->
  (length r < nb)%nat -> (forall p1, prog p1 (length r)) ->
  goodg p nb prog (init_byte_seq p s major minor r).
Proof.
  intros Hm Hmin Hv Hb Hr Hn Hp. unfold init_byte_seq.
  pose proof (vch_not_fail _ _ Hv) as Hnf.
  destruct p as [c st l ls buf er]. psimpl. subst buf.
  destruct (minor <? 24) eqn:E1; [|destruct (minor >? 27) eqn:E2].
  - rewrite st_push_eq by (psimpl; auto). psimpl. cbn [goodg]. consts.
    split; [unfold sp; psimpl; lia|]. split; [exact Hr|]. intros _.
    split; [|split; [intros H; discriminate H|apply Hp]].
    split; [|reflexivity]. psimpl. apply ShSX; [lia|lia|exact Hv].
  - cbn [goodg]. split; [unfold sp; psimpl; lia|]. split; [reflexivity|]. consts. intros H; discriminate H.
  - rewrite (st_push_eq _ (mkst (major + stStartX) stStart)) by (psimpl; auto).
    rewrite st_push_eq by (psimpl; consts; lia). psimpl. cbn [goodg]. consts.
    split; [unfold sp; psimpl; lia|]. split; [exact Hr|]. intros _.
    split; [|split; [intros H; discriminate H|apply Hp]].
    split; [|reflexivity]. psimpl. apply ShLen; [apply numbuf_nil; lia|].
    cbn [sx_ok c_major mkst]. left. split; [lia|exact Hv].
Qed.

Lemma init_sub_good p s major minor r nb (prog : cparser -> nat -> Prop) :
  major = 128 \/ major = 160 -> 0 <= minor ->
  vch (c_major (p_cur p)) (p_stack p) -> p_buf p = [] -> all_bytes r = true ->
  (length r < nb)%nat -> (forall p1, prog p1 (length r)) ->
  goodg p nb prog (init_sub p s major minor r).
Proof.
  intros Hm Hmin Hv Hb Hr Hn Hp. unfold init_sub.
  pose proof (vch_not_fail _ _ Hv) as Hnf.
  destruct p as [c st l ls buf er]. psimpl. subst buf.
  destruct (minor =? 31) eqn:E0; [|destruct (minor <? 24) eqn:E1; [|destruct (minor >? 27) eqn:E2]].
  - rewrite (st_push_eq _ (mkst (major + stIndef) stStart)) by (psimpl; auto).
    rewrite st_push_eq by (psimpl; consts; lia). psimpl. cbn [goodg]. consts.
    split; [unfold sp; psimpl; lia|]. split; [exact Hr|]. intros _.
    split; [|split; [intros H; discriminate H|apply Hp]].
    split; [|reflexivity]. psimpl. apply ShCX; psimpl; [lia|lia|].
    cbn [vch]. split; [lia|exact Hv].
  - rewrite (st_push_eq _ (mkst major stStart)) by (psimpl; auto).
    rewrite st_push_eq by (psimpl; consts; lia). psimpl. cbn [goodg]. consts.
    split; [unfold sp; psimpl; lia|]. split; [exact Hr|]. intros _.
    split; [|split; [intros H; discriminate H|apply Hp]].
    split; [|reflexivity]. psimpl. apply ShCX; psimpl; [lia|lia|].
    cbn [vch]. split; [lia|exact Hv].
  - cbn [goodg]. split; [unfold sp; psimpl; lia|]. split; [reflexivity|]. consts. intros H; discriminate H.
  - rewrite (st_push_eq _ (mkst major stStart)) by (psimpl; auto).
    rewrite (st_push_eq _ (mkst (major + stStartX) stStart)) by (psimpl; consts; lia).
    rewrite st_push_eq by (psimpl; consts; lia). psimpl. cbn [goodg]. consts.
    split; [unfold sp; psimpl; lia|]. split; [exact Hr|]. intros _.
    split; [|split; [intros H; discriminate H|apply Hp]].
    split; [|reflexivity]. psimpl. apply ShLen; [apply numbuf_nil; lia|].
    cbn [sx_ok c_major mkst]. right. split; [lia|]. split; [lia|]. cbn [vch]. split; [lia|exact Hv].
Qed.

Definition progv (b : bytes) : cparser -> nat -> Prop :=
  fun p1 nr => (nr < length b)%nat \/ (b = [] /\ rank p1 = 0%nat).

Ltac err_case :=
  cbn [goodg]; split; [unfold sp; psimpl; lia|]; split; [auto|]; consts;
  let H := fresh in intros H; discriminate H.

Lemma step_value_good p s b :
  vch (c_major (p_cur p)) (p_stack p) -> p_buf p = [] -> all_bytes b = true ->
  (b = [] -> vstate p) ->
  goodg p (length b) (progv b) (step_value p s b).
Proof.
  intros Hv Hb Hab Hvs. destruct b as [|b0 r].
  - cbn [step_value goodg]. split; [unfold sp; lia|]. split; [reflexivity|]. intros _.
    split; [apply Inv_vstate; auto|]. split; [intros H; discriminate H|].
    right. split; auto. apply rank_vstate; auto.
  - clear Hvs. apply all_bytes_cons in Hab as [Hb0 Hr].
    assert (Hpg : forall p1 : cparser, progv (b0 :: r) p1 (length r)).
    { intros p1. left. cbn [length]. lia. }
    assert (Hpg0 : forall p1 : cparser, progv (b0 :: r) p1 (@length Z [])).
    { intros p1. left. cbn [length]. lia. }
    pose proof (vch_not_fail _ _ Hv) as Hnf.
    unfold step_value. cbv zeta.
    set (major := b0 / 32 * 32). set (minor := b0 mod 32).
    assert (Hd : b0 = major + minor /\ 0 <= minor < 32 /\ 0 <= b0 / 32 < 8 /\ major = b0 / 32 * 32)
      by (subst major minor; lia).
    clearbody major minor. destruct Hd as (Hd1 & Hd2 & Hd3 & Hd4).
    cbn [length]. consts.
    destruct (major =? 0) eqn:E1.
    { destruct (b0 <? 24) eqn:E2.
      - destruct (vis s (EVal (SNum KUint8 b0))) as [s1 err].
        apply after_value_good; auto; lia.
      - destruct (minor >? 27) eqn:E3; [err_case|].
        rewrite st_push_eq by auto. cbn [goodg].
        split; [unfold sp; psimpl; lia|]. split; [exact Hr|]. intros _.
        split; [|split; [intros H; discriminate H|apply Hpg]].
        split; psimpl; [|rewrite Hb; reflexivity]. rewrite Hb.
        apply ShNum; [lia|exact Hv|apply numbuf_nil; lia]. }
    destruct (major =? 32) eqn:E2.
    { destruct (minor <? 24) eqn:E3.
      - destruct (vis s (EVal (SNum KInt8 (-1 - minor)))) as [s1 err].
        apply after_value_good; auto; lia.
      - destruct (minor >? 27) eqn:E4; [err_case|].
        rewrite st_push_eq by auto. cbn [goodg].
        split; [unfold sp; psimpl; lia|]. split; [exact Hr|]. intros _.
        split; [|split; [intros H; discriminate H|apply Hpg]].
        split; psimpl; [|rewrite Hb; reflexivity]. rewrite Hb.
        apply ShNum; [lia|exact Hv|apply numbuf_nil; lia]. }
    destruct ((major =? 64) || (major =? 96)) eqn:E3.
    { destruct (minor =? 31) eqn:E4; [err_case|].
      apply init_byte_seq_good; auto; lia. }
    destruct ((major =? 128) || (major =? 160)) eqn:E4.
    { apply init_sub_good; auto; lia. }
    destruct (major =? 192) eqn:E5; [err_case|].
    destruct (b0 =? 244) eqn:E6.
    { destruct (vis s (EVal (SBool false))) as [s1 err]. apply after_value_good; auto; lia. }
    destruct (b0 =? 245) eqn:E7.
    { destruct (vis s (EVal (SBool true))) as [s1 err]. apply after_value_good; auto; lia. }
    destruct ((b0 =? 246) || (b0 =? 247)) eqn:E8.
    { destruct (vis s (EVal SNil)) as [s1 err]. apply after_value_good; auto; lia. }
    destruct (b0 =? 249) eqn:E9; [err_case|].
    destruct ((b0 =? 250) || (b0 =? 251)) eqn:E10; [|err_case].
    rewrite st_push_eq by auto. cbn [goodg].
    split; [unfold sp; psimpl; lia|]. split; [exact Hr|]. intros _.
    split; [|split; [intros H; discriminate H|apply Hpg]].
    split; psimpl; [|rewrite Hb; reflexivity]. rewrite Hb.
    apply ShFloat; [rewrite zlen_nil; lia|exact Hv].
Qed.

Definition progc (b : bytes) : cparser -> nat -> Prop := fun _ nr => (nr < length b)%nat.

Ltac pop_fin :=
  apply pop_good; psimpl; auto;
  try (let p1 := fresh in intros p1 _; unfold progc; cbn [length]; lia);
  try (unfold sp; psimpl; lia).


Lemma goodg_weaken p nb (prog prog' : cparser -> nat -> Prop) r :
  (forall p1 nr, prog p1 nr -> prog' p1 nr) -> goodg p nb prog r -> goodg p nb prog' r.
Proof.
  intros H. destruct r as [p1 s1 rest d e|w]; cbn [goodg]; auto.
  intros (H1 & H2 & H3). split; [exact H1|]. split; [exact H2|].
  intros He. destruct (H3 He) as (Ha & Hb & Hc). auto.
Qed.

Lemma goodg_base p p' nb prog r : sp p nb p' nb -> goodg p' nb prog r -> goodg p nb prog r.
Proof.
  intros H. destruct r as [p1 s1 rest d e|w]; cbn [goodg]; auto.
  intros (H1 & H2 & H3). split; [unfold sp in *; lia|]. split; [exact H2|exact H3].
Qed.

Lemma num_event_24 neg v : exists e, num_event neg 24 v = Some e.
Proof. unfold num_event. destruct neg; cbn [negb]; eexists; reflexivity. Qed.

Lemma step_num_good neg p s b :
  c_major (p_cur p) = 0 \/ c_major (p_cur p) = 32 -> cont_ok (p_stack p) ->
  numbuf (c_minor (p_cur p)) (p_buf p) -> all_bytes (p_buf p) = true ->
  all_bytes b = true -> b <> [] ->
  goodg p (length b) (progc b) (step_num neg p s b).
Proof.
  intros HM Hc Hnb Hab Hb Hne. destruct p as [[M m] st l ls buf er]. psimpl.
  unfold step_num. psimpl. destruct Hnb as [[-> ->]|[Hm Hl]].
  - change (24 =? 24) with true. cbv iota.
    destruct b as [|v r]; [contradiction|]. apply all_bytes_cons in Hb as [Hv Hr].
    destruct (num_event_24 neg v) as [e He]. rewrite He.
    destruct (vis s e) as [s1 err]. unfold after_pop.
    pop_fin.
  - replace (m =? 24) with false by lia.
    replace ((m =? 25) || (m =? 26) || (m =? 27)) with true by lia.
    unfold get_uint.
    assert (Hlen : (0 < length b)%nat) by (destruct b; [contradiction|cbn [length]; lia]).
    destruct (collect_ok {| p_cur := {| c_major := M; c_minor := m |}; p_stack := st; p_lcur := l;
                            p_lstack := ls; p_buf := buf; p_err := er |} b (2 ^ (m - 24)))
      as [[Hcol Hlt]|(rest & t & Hcol & Ht & Hrest & Hlr)]; psimpl; auto.
    { apply pow2_pos; lia. }
    + rewrite Hcol. cbn [goodg]. psimpl.
      split; [unfold sp; psimpl; rewrite app_length; lia|]. split; [reflexivity|]. intros _.
      split; [|split; [intros H; discriminate H|unfold progc; cbn [length]; lia]].
      split; psimpl; [|rewrite all_bytes_app, Hab, Hb; reflexivity].
      apply ShNum; auto. right. split; auto.
    + rewrite Hcol.
      destruct (num_event neg m (be_dec t)) as [e|].
      * destruct (vis s e) as [s1 err]. unfold after_pop.
        pop_fin.
      * unfold after_pop.
        pop_fin.
Qed.

Lemma step_float_good w p s b :
  (c_major (p_cur p) = 250 /\ w = 4) \/ (c_major (p_cur p) = 251 /\ w = 8) ->
  zlen (p_buf p) < w -> cont_ok (p_stack p) -> all_bytes (p_buf p) = true ->
  all_bytes b = true -> b <> [] ->
  goodg p (length b) (progc b) (step_float w p s b).
Proof.
  intros HM Hl Hc Hab Hb Hne. destruct p as [[M m] st l ls buf er]. psimpl.
  unfold step_float, get_uint.
  assert (Hlen : (0 < length b)%nat) by (destruct b; [contradiction|cbn [length]; lia]).
  destruct (collect_ok {| p_cur := {| c_major := M; c_minor := m |}; p_stack := st; p_lcur := l;
                          p_lstack := ls; p_buf := buf; p_err := er |} b w)
    as [[Hcol Hlt]|(rest & t & Hcol & Ht & Hrest & Hlr)]; psimpl; auto; try lia.
  - rewrite Hcol. cbn [goodg]. psimpl.
    split; [unfold sp; psimpl; rewrite app_length; lia|]. split; [reflexivity|]. intros _.
    split; [|split; [intros H; discriminate H|unfold progc; cbn [length]; lia]].
    split; psimpl; [|rewrite all_bytes_app, Hab, Hb; reflexivity].
    apply ShFloat; auto. lia.
  - rewrite Hcol.
    destruct (vis s (EVal (SNum (if w =? 4 then KFloat32 else KFloat64) (be_dec t)))) as [s1 err].
    pop_fin.
Qed.

Lemma sx_shape X st v : sx_ok (c_major X) st -> 0 <= v -> shape (c_major X) (c_minor X) st v [].
Proof.
  intros H Hv. destruct st as [|d r]; [destruct H|]. cbn [sx_ok] in H.
  destruct H as [[H1 H2]|[H1 [H2 H3]]].
  - apply ShSX; auto.
  - apply ShCX; auto. lia.
Qed.

Lemma step_len_good p s b X st :
  c_major (p_cur p) = 3 -> p_stack p = X :: st -> sx_ok (c_major X) st ->
  numbuf (c_minor (p_cur p)) (p_buf p) -> all_bytes (p_buf p) = true ->
  all_bytes b = true -> b <> [] ->
  goodg p (length b) (progc b) (step_len p s b).
Proof.
  intros HM Hst Hsx Hnb Hab Hb Hne. destruct p as [[M m] st0 l ls buf er]. psimpl. subst st0 M.
  unfold step_len. psimpl. destruct Hnb as [[-> ->]|[Hm Hl]].
  - change (24 =? 24) with true. cbv iota.
    destruct b as [|v r]; [contradiction|]. apply all_bytes_cons in Hb as [Hv Hr].
    cbn [goodg]. psimpl.
    split; [unfold sp; psimpl; lia|]. split; [exact Hr|]. intros _.
    split; [|split; [intros H; discriminate H|unfold progc; cbn [length]; lia]].
    split; psimpl; [|reflexivity]. apply sx_shape; auto. lia.
  - replace (m =? 24) with false by lia.
    replace ((m =? 25) || (m =? 26) || (m =? 27)) with true by lia.
    unfold get_uint.
    assert (Hlen : (0 < length b)%nat) by (destruct b; [contradiction|cbn [length]; lia]).
    destruct (collect_ok {| p_cur := {| c_major := 3; c_minor := m |}; p_stack := X :: st; p_lcur := l;
                            p_lstack := ls; p_buf := buf; p_err := er |} b (2 ^ (m - 24)))
      as [[Hcol Hlt]|(rest & t & Hcol & Ht & Hrest & Hlr)]; psimpl; auto.
    { apply pow2_pos; lia. }
    + rewrite Hcol. cbn [goodg]. psimpl.
      split; [unfold sp; psimpl; rewrite app_length; lia|]. split; [reflexivity|]. intros _.
      split; [|split; [intros H; discriminate H|unfold progc; cbn [length]; lia]].
      split; psimpl; [|rewrite all_bytes_app, Hab, Hb; reflexivity].
      apply ShLen; auto. right. split; auto.
    + rewrite Hcol. cbv zeta.
      destruct (be_dec t >? 9223372036854775807) eqn:E; [err_case|].
      cbn [goodg]. psimpl.
      split; [unfold sp; psimpl; lia|]. split; [exact Hrest|]. intros _.
      split; [|split; [intros H; discriminate H|unfold progc; lia]].
      split; psimpl; [|reflexivity]. apply sx_shape; auto.
      pose proof (be_dec_bound t Ht). lia.
Qed.

Lemma step_text_good p s b :
  c_major (p_cur p) = 96 -> zlen (p_buf p) < p_lcur p -> cont_ok (p_stack p) ->
  all_bytes (p_buf p) = true -> all_bytes b = true -> b <> [] ->
  goodg p (length b) (progc b) (step_text p s b).
Proof.
  intros HM Hl Hc Hab Hb Hne. destruct p as [[M m] st l ls buf er]. psimpl.
  unfold step_text. psimpl.
  assert (Hlen : (0 < length b)%nat) by (destruct b; [contradiction|cbn [length]; lia]).
  pose proof (zlen_nonneg buf) as Hbn.
  destruct (collect_ok {| p_cur := {| c_major := M; c_minor := m |}; p_stack := st; p_lcur := l;
                          p_lstack := ls; p_buf := buf; p_err := er |} b l)
    as [[Hcol Hlt]|(rest & t & Hcol & Ht & Hrest & Hlr)]; psimpl; auto; try lia.
  - rewrite Hcol. cbn [goodg]. psimpl.
    split; [unfold sp; psimpl; rewrite app_length; lia|]. split; [reflexivity|]. intros _.
    split; [|split; [intros H; discriminate H|unfold progc; cbn [length]; lia]].
    split; psimpl; [|rewrite all_bytes_app, Hab, Hb; reflexivity].
    apply ShText; auto.
  - rewrite Hcol. cbv zeta. destruct (vis s (EStrRef t)) as [s1 err].
    apply pop_good; auto.
    + destruct ls; psimpl; auto.
    + destruct ls; psimpl; auto.
    + unfold sp. destruct ls; psimpl; lia.
    + unfold sp. destruct ls; psimpl; lia.
Qed.

Lemma step_key_good p s b :
  c_major (p_cur p) = 168 -> zlen (p_buf p) < p_lcur p -> cont_ok (p_stack p) ->
  all_bytes (p_buf p) = true -> all_bytes b = true ->
  goodg p (length b) (fun p1 nr => (nr < length b)%nat \/ (b = [] /\ c_major (p_cur p1) = 168))
    (step_key p s b).
Proof.
  intros HM Hl Hc Hab Hb. destruct p as [[M m] st l ls buf er]. psimpl.
  unfold step_key. psimpl.
  pose proof (zlen_nonneg buf) as Hbn.
  destruct (collect_ok {| p_cur := {| c_major := M; c_minor := m |}; p_stack := st; p_lcur := l;
                          p_lstack := ls; p_buf := buf; p_err := er |} b l)
    as [[Hcol Hlt]|(rest & t & Hcol & Ht & Hrest & Hlr)]; psimpl; auto; try lia.
  - rewrite Hcol. cbn [goodg]. psimpl.
    split; [unfold sp; psimpl; rewrite app_length; lia|]. split; [reflexivity|]. intros _.
    split; [|split; [intros H; discriminate H|]].
    + split; psimpl; [|rewrite all_bytes_app, Hab, Hb; reflexivity].
      apply ShText; auto.
    + destruct b; [right; auto|left; cbn [length]; lia].
  - rewrite Hcol. destruct (vis s (EKeyRef t)) as [s1 err].
    destruct (isnil err) eqn:E.
    + cbn [goodg]. split; [unfold sp; destruct ls; psimpl; lia|]. split; [exact Hrest|]. intros _.
      split; [|split; [intros H; discriminate H|left; exact Hlr]].
      consts. destruct ls; psimpl; (split; psimpl; [|reflexivity]); apply ShElem; auto.
    + cbn [goodg]. split; [unfold sp; psimpl; lia|]. split; [exact Hrest|].
      intros He. apply isnil_false in E. contradiction.
Qed.

Lemma init_map_key_good p s b :
  vch (c_major (p_cur p)) (p_stack p) -> p_buf p = [] -> all_bytes b = true -> b <> [] ->
  goodg p (length b) (progc b) (init_map_key p s b).
Proof.
  intros Hv Hbuf Hb Hne. destruct b as [|b0 r]; [contradiction|].
  apply all_bytes_cons in Hb as [Hb0 Hr]. unfold init_map_key. consts.
  destruct (negb (b0 / 32 * 32 =? 96)) eqn:E1; [err_case|].
  destruct (b0 mod 32 =? 31) eqn:E2; [err_case|].
  apply init_byte_seq_good; auto; try lia; try (cbn [length]; lia).
  intros p1. unfold progc. cbn [length]. lia.
Qed.

Ltac bytes_tail Hl Hlen Hb :=
  let Ed := fresh "Ed" in let E2 := fresh "E2" in
  destruct (zlen _ >=? _) eqn:Ed; cbv iota beta;
  [ replace (_ <? 0) with false by lia; cbv iota;
    destruct (emit_bytes _ _) as [? ?err2]; destruct (isnil err2) eqn:E2; cbn [negb]; cbv iota;
    [ destruct (vis _ EArrEnd) as [? ?err3];
      apply pop_good; psimpl; auto;
      try (apply all_bytes_zskipn; exact Hb);
      try (unfold sp; psimpl; rewrite length_zskipn; unfold zlen in *; lia);
      try (intros ? _; unfold progc; rewrite length_zskipn; unfold zlen in *; lia)
    | cbn [goodg]; split; [unfold sp; psimpl; lia|]; split; [reflexivity|];
      let He := fresh in intros He; apply isnil_false in E2; contradiction ]
  | replace (zlen _ <? 0) with false by (unfold zlen; lia); cbv iota;
    destruct (emit_bytes _ _) as [? ?err2]; destruct (isnil err2) eqn:E2; cbn [negb]; cbv iota;
    [ cbn [goodg]; psimpl;
      split; [unfold sp; psimpl; rewrite length_zskipn; unfold zlen; lia|];
      split; [apply all_bytes_zskipn; exact Hb|]; intros _;
      split; [|split; [let H := fresh in intros H; discriminate H
                      |unfold progc; rewrite length_zskipn; unfold zlen; lia]];
      split; psimpl; [|reflexivity]; apply ShBytes; auto; lia
    | cbn [goodg]; split; [unfold sp; psimpl; lia|]; split; [reflexivity|];
      let He := fresh in intros He; apply isnil_false in E2; contradiction ] ].

Lemma step_bytes_good p s b :
  c_major (p_cur p) = 64 -> 0 < p_lcur p -> cont_ok (p_stack p) -> p_buf p = [] ->
  all_bytes b = true -> b <> [] ->
  goodg p (length b) (progc b) (step_bytes p s b).
Proof.
  intros HM Hl Hc Hbuf Hb Hne. destruct p as [[M m] st l ls buf er]. psimpl. subst M buf.
  assert (Hlen : (0 < length b)%nat) by (destruct b; [contradiction|cbn [length]; lia]).
  unfold step_bytes. psimpl.
  destruct ls as [|l0 ls0]; destruct (m =? stStart) eqn:Em.
  - destruct (vis s (EArrStart l BByte)) as [s1 err]. destruct (isnil err) eqn:E; cbn [negb]; cbv iota.
    2:{ cbn [goodg]. split; [unfold sp; psimpl; lia|]. split; [reflexivity|].
        intros He. apply isnil_false in E. contradiction. }
    psimpl. cbv zeta. psimpl.
    bytes_tail Hl Hlen Hb.
  - change (negb (isnil nilE)) with false. cbv iota. psimpl. cbv zeta. psimpl.
    bytes_tail Hl Hlen Hb.
  - destruct (vis s (EArrStart l BByte)) as [s1 err]. destruct (isnil err) eqn:E; cbn [negb]; cbv iota.
    2:{ cbn [goodg]. split; [unfold sp; psimpl; lia|]. split; [reflexivity|].
        intros He. apply isnil_false in E. contradiction. }
    psimpl. cbv zeta. psimpl.
    bytes_tail Hl Hlen Hb.
  - change (negb (isnil nilE)) with false. cbv iota. psimpl. cbv zeta. psimpl.
    bytes_tail Hl Hlen Hb.
Qed.

Lemma step_array_eq p s b :
  step_array p s b =
  if p_lcur p >? 0 then step_value p s b
  else let '(s1, err) := vis s EArrEnd in
       if isnil err then
         match pop_state (len_pop p) s1 with
         | Some (p2, s2, d, e) => SR p2 s2 b d e
         | None => Crash 95
         end
       else SR p s1 b false err.
Proof.
  unfold step_array, handle_len. destruct (p_lcur p >? 0); [reflexivity|].
  destruct (vis s EArrEnd) as [s1 err]. destruct (isnil err); [|reflexivity].
  destruct (pop_state (len_pop p) s1) as [[[[p2 s2] d] e]|]; reflexivity.
Qed.

Lemma step_map_eq p s b :
  step_map p s b =
  if p_lcur p >? 0 then (if zlen b >? 0 then init_map_key p s b else SR p s b false nilE)
  else let '(s1, err) := vis s EObjEnd in
       if isnil err then
         match pop_state (len_pop p) s1 with
         | Some (p2, s2, d, e) => SR p2 s2 b d e
         | None => Crash 96
         end
       else SR p s1 b false err.
Proof.
  unfold step_map, handle_len. destruct (p_lcur p >? 0); [reflexivity|].
  destruct (vis s EObjEnd) as [s1 err]. destruct (isnil err); [|reflexivity].
  destruct (pop_state (len_pop p) s1) as [[[[p2 s2] d] e]|]; reflexivity.
Qed.

Definition prog_am (p : cparser) (b : bytes) : cparser -> nat -> Prop :=
  fun p1 nr => (nr < length b)%nat \/ (rank p1 = 0%nat /\ (p_lcur p <= 0 \/ b = [])).

Lemma step_array_good p s b :
  c_major (p_cur p) = 128 -> vch 128 (p_stack p) -> p_buf p = [] -> all_bytes b = true ->
  goodg p (length b) (prog_am p b) (step_array p s b).
Proof.
  intros HM Hv Hbuf Hb. rewrite step_array_eq.
  destruct p as [[M m] st l ls buf er]. psimpl. subst M buf.
  destruct (l >? 0) eqn:El.
  - apply goodg_weaken with (prog := progv b).
    + unfold progv, prog_am. intros p1 nr [H|[H1 H2]]; [left; exact H|right; auto].
    + apply step_value_good; psimpl; auto. intros _. split; psimpl; auto. lia.
  - destruct (vis s EArrEnd) as [s1 err].
    destruct st as [|d r]; [cbn [vch] in Hv; discriminate Hv|]. cbn [vch] in Hv. destruct Hv as [_ Hv].
    apply pop_good; auto.
    + destruct ls; psimpl; auto.
    + destruct ls; psimpl; auto.
    + unfold sp. destruct ls; psimpl; lia.
    + unfold sp. psimpl; lia.
    + intros p1 Hr. right. psimpl. split; [exact Hr|lia].
Qed.

Lemma step_map_good p s b :
  c_major (p_cur p) = 160 -> vch 160 (p_stack p) -> p_buf p = [] -> all_bytes b = true ->
  goodg p (length b) (prog_am p b) (step_map p s b).
Proof.
  intros HM Hv Hbuf Hb. rewrite step_map_eq.
  destruct p as [[M m] st l ls buf er]. psimpl. subst M buf.
  destruct (l >? 0) eqn:El.
  - destruct (zlen b >? 0) eqn:Ez.
    + apply goodg_weaken with (prog := progc b).
      * unfold progc, prog_am. intros p1 nr H. left; exact H.
      * apply init_map_key_good; psimpl; auto. intros ->. discriminate Ez.
    + assert (b = []) as -> by (destruct b; [reflexivity|rewrite zlen_cons in Ez; pose proof (zlen_nonneg b); lia]).
      cbn [goodg]. split; [unfold sp; lia|]. split; [reflexivity|]. intros _.
      assert (Hvs : vstate {| p_cur := {| c_major := 160; c_minor := m |}; p_stack := st; p_lcur := l;
                              p_lstack := ls; p_buf := []; p_err := er |}).
      { split; psimpl; auto. lia. }
      split; [apply Inv_vstate; auto|]. split; [intros H; discriminate H|].
      right. split; [apply rank_vstate; exact Hvs|right; reflexivity].
  - destruct (vis s EObjEnd) as [s1 err].
    destruct st as [|d r]; [cbn [vch] in Hv; discriminate Hv|]. cbn [vch] in Hv. destruct Hv as [_ Hv].
    apply pop_good; auto.
    + destruct ls; psimpl; auto.
    + destruct ls; psimpl; auto.
    + unfold sp. destruct ls; psimpl; lia.
    + unfold sp. psimpl; lia.
    + intros p1 Hr. right. psimpl. split; [exact Hr|lia].
Qed.

(* ---------- one step ---------- *)
Definition prog_main (p : cparser) (b : bytes) : cparser -> nat -> Prop :=
  fun p1 nr => (nr < length b)%nat \/ (rank p1 < rank p)%nat.

Ltac decide_eqb :=
  repeat match goal with |- context [Z.eqb ?a ?b] =>
    let v := eval vm_compute in (Z.eqb a b) in
    match v with
    | true => change (Z.eqb a b) with true
    | false => change (Z.eqb a b) with false
    end end;
  cbn [orb andb negb]; cbv iota.

Ltac vis_err E :=
  cbn [goodg]; split; [unfold sp; psimpl; lia|]; split; [auto|];
  let He := fresh in intros He; apply isnil_false in E; contradiction.

Ltac start_step := unfold exec_step; psimpl; cbv zeta; decide_eqb.

Ltac nonempty Hne :=
  match type of Hne with
  | ?b <> [] \/ _ =>
      let H := fresh "Hb0" in
      assert (H : b <> []) by (destruct Hne as [Hne|Hne]; [exact Hne|vm_compute in Hne; discriminate Hne])
  end.

Lemma progc_main p b p1 nr : progc b p1 nr -> prog_main p b p1 nr.
Proof. unfold progc, prog_main. auto. Qed.

Lemma progv_main p b p1 nr : b <> [] -> progv b p1 nr -> prog_main p b p1 nr.
Proof. unfold progv, prog_main. intros Hb [H|[H _]]; [auto|contradiction]. Qed.

Lemma exec_step_good p s b :
  Inv p -> all_bytes b = true -> (b <> [] \/ rank p = 1%nat) ->
  goodg p (length b) (prog_main p b) (exec_step p s b).
Proof.
  intros [Hsh Hab] Hb Hne. destruct p as [[M m] st l ls buf er]. psimpl.
  inversion Hsh; subst; clear Hsh.
  - (* value-expecting states *)
    rename H into Hv. rename H0 into Hn.
    destruct (vch_major _ _ Hv) as [-> | [-> | [-> | [-> | ->]]]]; nonempty Hne; start_step.
    + eapply goodg_weaken; [intros p1 nr; apply progv_main; exact Hb0|].
      apply step_value_good; psimpl; auto. intros ->; contradiction.
    + eapply goodg_weaken; [|apply step_array_good; psimpl; auto].
      unfold prog_am, prog_main. psimpl. intros p1 nr [H|[_ [H|H]]]; [left; exact H|lia|contradiction].
    + eapply goodg_weaken; [|apply step_map_good; psimpl; auto].
      unfold prog_am, prog_main. psimpl. intros p1 nr [H|[_ [H|H]]]; [left; exact H|lia|contradiction].
    + change (isnil nilE) with true. cbv iota.
      destruct b as [|b0 r]; [contradiction|]. apply all_bytes_cons in Hb as Hb'. destruct Hb' as [Hb1 Hr].
      destruct (b0 =? 255) eqn:E255.
      * destruct (vis s EArrEnd) as [s2 err2].
        destruct st as [|d r']; [cbn [vch] in Hv; discriminate Hv|]. cbn [vch] in Hv. destruct Hv as [_ Hv].
        apply pop_good; psimpl; auto; try (unfold sp; psimpl; lia).
        intros p1 _. left. cbn [length]. lia.
      * eapply goodg_weaken; [intros p1 nr; apply progv_main; exact Hb0|].
        apply step_value_good; psimpl; auto. intros H; discriminate H.
    + change (isnil nilE) with true. cbv iota.
      destruct b as [|b0 r]; [contradiction|]. apply all_bytes_cons in Hb as Hb'. destruct Hb' as [Hb1 Hr].
      destruct (b0 =? 255) eqn:E255.
      * destruct (vis s EObjEnd) as [s2 err2].
        destruct st as [|d r']; [cbn [vch] in Hv; discriminate Hv|]. cbn [vch] in Hv. destruct Hv as [_ Hv].
        apply pop_good; psimpl; auto; try (unfold sp; psimpl; lia).
        intros p1 _. left. cbn [length]. lia.
      * eapply goodg_weaken; [intros p1 nr; apply progc_main|].
        apply init_map_key_good; psimpl; auto.
  - (* numbers *)
    destruct H as [-> | ->]; nonempty Hne; start_step.
    + eapply goodg_weaken; [intros p1 nr; apply progc_main|]. apply step_num_good; psimpl; auto.
    + eapply goodg_weaken; [intros p1 nr; apply progc_main|]. apply step_num_good; psimpl; auto.
  - (* floats *)
    destruct H as [[-> Hl] | [-> Hl]]; nonempty Hne; start_step.
    + eapply goodg_weaken; [intros p1 nr; apply progc_main|]. apply step_float_good; psimpl; auto.
    + eapply goodg_weaken; [intros p1 nr; apply progc_main|]. apply step_float_good; psimpl; auto.
  - (* StartX of byte strings, text strings, keys *)
    rename H0 into Hl. rename H1 into Hc.
    assert (Hr1 : forall st' l' ls' M' m', (M' = 68 \/ M' = 100 \/ M' = 172) ->
              rank {| p_cur := {| c_major := M'; c_minor := m' |}; p_stack := st'; p_lcur := l';
                      p_lstack := ls'; p_buf := []; p_err := er |} = 1%nat).
    { intros st' l' ls' M' m' [-> | [-> | ->]]; reflexivity. }
    destruct H as [-> | [-> | ->]]; start_step.
    + destruct (l =? 0) eqn:El.
      * destruct (vis s (EArrStart 0 BByte)) as [s1 err]. destruct (isnil err) eqn:E; [|vis_err E].
        destruct (vis s1 EArrEnd) as [s2 err2].
        apply pop_good; auto; try (destruct ls; psimpl; auto; fail);
          try (unfold sp; destruct ls; psimpl; lia).
        intros p1 Hr. right. rewrite Hr, Hr1; auto.
      * destruct b as [|b0 r].
        -- change (zlen (@nil Z) =? 0) with true. cbv iota. cbn [goodg]. psimpl.
           split; [unfold sp; psimpl; lia|]. split; [reflexivity|]. intros _.
           split; [|split; [intros H; discriminate H|right; rewrite Hr1; auto]].
           split; psimpl; [|reflexivity]. apply ShBytes; auto. lia.
        -- replace (zlen (b0 :: r) =? 0) with false by (rewrite zlen_cons; pose proof (zlen_nonneg r); lia).
           eapply goodg_weaken; [intros p1 nr; apply progc_main|].
           eapply goodg_base; [|apply step_bytes_good; psimpl; auto; try lia; discriminate].
           unfold sp; psimpl; lia.
    + destruct (l =? 0) eqn:El.
      * destruct (vis s (EVal (SStr []))) as [s1 err].
        apply pop_good; auto; try (destruct ls; psimpl; auto; fail);
          try (unfold sp; destruct ls; psimpl; lia).
        intros p1 Hr. right. rewrite Hr, Hr1; auto.
      * psimpl. destruct b as [|b0 r].
        -- change (zlen (@nil Z) =? 0) with true. cbv iota. cbn [goodg]. psimpl.
           split; [unfold sp; psimpl; lia|]. split; [reflexivity|]. intros _.
           split; [|split; [intros H; discriminate H|right; rewrite Hr1; auto]].
           split; psimpl; [|reflexivity]. apply ShText; auto. rewrite zlen_nil. lia.
        -- replace (zlen (b0 :: r) =? 0) with false by (rewrite zlen_cons; pose proof (zlen_nonneg r); lia).
           eapply goodg_weaken; [intros p1 nr; apply progc_main|].
           eapply goodg_base; [|apply step_text_good; psimpl; auto; try (rewrite zlen_nil; lia); discriminate].
           unfold sp; psimpl; lia.
    + destruct (l =? 0) eqn:El.
      * destruct (vis s (EKey [])) as [s1 err]. destruct (isnil err) eqn:E; [|vis_err E].
        cbn [goodg]. split; [unfold sp; destruct ls; psimpl; lia|]. split; [exact Hb|]. intros _.
        split; [|split; [intros H; discriminate H|right; rewrite Hr1; auto]].
        { consts. destruct ls; psimpl; (split; psimpl; [|reflexivity]); apply ShElem; auto. }
      * psimpl. eapply goodg_weaken; [|eapply goodg_base; [|apply step_key_good; psimpl; auto; rewrite zlen_nil; lia]].
        -- intros p1 nr [H|[H1 H2]]; [left; exact H|right]. rewrite Hr1 by auto.
           unfold rank. rewrite H2. cbn. lia.
        -- unfold sp; psimpl; lia.
  - (* byte string body *)
    nonempty Hne. start_step.
    eapply goodg_weaken; [intros p1 nr; apply progc_main|]. apply step_bytes_good; psimpl; auto.
  - (* text / key body *)
    destruct H as [-> | ->]; nonempty Hne; start_step.
    + eapply goodg_weaken; [intros p1 nr; apply progc_main|]. apply step_text_good; psimpl; auto.
    + eapply goodg_weaken; [|apply step_key_good; psimpl; auto].
      intros p1 nr [Hq|[Hq1 Hq2]]; [left; exact Hq|contradiction].
  - (* map element *)
    nonempty Hne. start_step. rename H into Hc.
    destruct st as [|d r]; [destruct Hc|]. psimpl. cbn [cont_ok] in Hc.
    eapply goodg_weaken; [intros p1 nr; apply progv_main; exact Hb0|].
    eapply goodg_base; [|apply step_value_good; psimpl; auto; intros ->; contradiction].
    unfold sp; psimpl; lia.
  - (* StartX of containers *)
    rename H0 into Hd. rename H1 into Hv. destruct d as [Md md]. psimpl.
    destruct H as [-> | [-> | [-> | ->]]]; subst Md; start_step.
    + destruct (vis s (EArrStart l BAny)) as [s1 err]. destruct (isnil err) eqn:E; [|vis_err E].
      psimpl. eapply goodg_weaken; [|eapply goodg_base; [|apply step_array_good; psimpl; auto]].
      * unfold prog_am, prog_main. intros p1 nr [Hq|[Hq _]]; [left; exact Hq|right]. rewrite Hq. cbn. lia.
      * unfold sp; psimpl; lia.
    + destruct (vis s (EObjStart l BAny)) as [s1 err]. destruct (isnil err) eqn:E; [|vis_err E].
      psimpl. eapply goodg_weaken; [|eapply goodg_base; [|apply step_map_good; psimpl; auto]].
      * unfold prog_am, prog_main. intros p1 nr [Hq|[Hq _]]; [left; exact Hq|right]. rewrite Hq. cbn. lia.
      * unfold sp; psimpl; lia.
    + nonempty Hne.
      destruct (vis s (EArrStart (-1) BAny)) as [s1 err]. destruct (isnil err) eqn:E; cbn [negb]; cbv iota;
        [|vis_err E].
      psimpl.
      destruct b as [|b0 r0]; [contradiction|]. apply all_bytes_cons in Hb as Hb'. destruct Hb' as [Hb1 Hr].
      destruct (b0 =? 255) eqn:E255.
      * destruct (vis s1 EArrEnd) as [s2 err2].
        destruct r as [|d' r']; [cbn [vch] in Hv; discriminate Hv|]. cbn [vch] in Hv. destruct Hv as [_ Hv].
        apply pop_good; psimpl; auto; try (unfold sp; psimpl; lia).
        intros p1 _. left. cbn [length]. lia.
      * eapply goodg_weaken; [intros p1 nr; apply progv_main; exact Hb0|].
        eapply goodg_base; [|apply step_value_good; psimpl; auto; intros Hq; discriminate Hq].
        unfold sp; psimpl; lia.
    + nonempty Hne.
      destruct (vis s (EObjStart (-1) BAny)) as [s1 err]. destruct (isnil err) eqn:E; cbn [negb]; cbv iota;
        [|vis_err E].
      psimpl.
      destruct b as [|b0 r0]; [contradiction|]. apply all_bytes_cons in Hb as Hb'. destruct Hb' as [Hb1 Hr].
      destruct (b0 =? 255) eqn:E255.
      * destruct (vis s1 EObjEnd) as [s2 err2].
        destruct r as [|d' r']; [cbn [vch] in Hv; discriminate Hv|]. cbn [vch] in Hv. destruct Hv as [_ Hv].
        apply pop_good; psimpl; auto; try (unfold sp; psimpl; lia).
        intros p1 _. left. cbn [length]. lia.
      * eapply goodg_weaken; [intros p1 nr; apply progc_main|].
        eapply goodg_base; [|apply init_map_key_good; psimpl; auto].
        unfold sp; psimpl; lia.
  - (* length prefix *)
    nonempty Hne. start_step.
    eapply goodg_weaken; [intros p1 nr; apply progc_main|].
    eapply step_len_good; psimpl; eauto.
Qed.

(* ---------- the loops ---------- *)
Lemma rank_le1 p : (rank p <= 1)%nat.
Proof. unfold rank. destruct (Z.land (c_major (p_cur p)) 5 =? 4); lia. Qed.

Lemma sp_trans p nb p1 n1 p2 n2 : sp p nb p1 n1 -> sp p1 n1 p2 n2 -> sp p nb p2 n2.
Proof. unfold sp. lia. Qed.

Lemma sp_zero p nb p1 n1 : sp p nb p1 n1 -> sp p nb p1 0.
Proof. unfold sp. lia. Qed.

Lemma feed_until_ok : forall fuel p s b,
  Inv p -> all_bytes b = true -> (b <> [] \/ rank p = 1%nat) ->
  (2 * length b + rank p < fuel)%nat ->
  exists p1 s1 rest d e, feed_until fuel p s b = Ok (SR p1 s1 rest d e) /\
    sp p (length b) p1 (length rest) /\ all_bytes rest = true /\
    (e = nilE -> Inv p1 /\ rank p1 = 0%nat /\ (rank p = 0%nat -> (length rest < length b)%nat)).
Proof.
  induction fuel as [|f IH]; intros p s b Hinv Hb Hne Hf; [lia|].
  cbn [feed_until].
  pose proof (exec_step_good p s b Hinv Hb Hne) as Hg.
  destruct (exec_step p s b) as [p1 s1 rest d e|w]; [|destruct Hg].
  cbn [goodg] in Hg. destruct Hg as (Hsp & Hrest & Hpost).
  destruct (d || negb (isnil e)) eqn:E1.
  - exists p1, s1, rest, d, e. split; [reflexivity|]. split; [exact Hsp|]. split; [exact Hrest|].
    intros He. destruct (Hpost He) as (Hi & Hd & Hpr). subst e.
    change (isnil nilE) with true in E1. cbn [negb] in E1. rewrite orb_false_r in E1.
    split; [exact Hi|]. split.
    + unfold rank. rewrite (Hd E1). reflexivity.
    + intros Hr0. unfold prog_main in Hpr. lia.
  - apply orb_false_iff in E1 as [Ed Ee]. apply negb_false_iff in Ee. apply isnil_true in Ee.
    destruct (Hpost Ee) as (Hi & _ & Hpr). unfold prog_main in Hpr.
    destruct (negb (zlen rest =? 0) || (Z.land (c_major (p_cur p1)) (stStartX + stIndef) =? stStartX)) eqn:Ec.
    + destruct (IH p1 s1 rest Hi Hrest) as (p2 & s2 & rest2 & d2 & e2 & H1 & H2 & H3 & H4).
      * apply orb_true_iff in Ec as [Ec|Ec].
        -- left. intros ->. discriminate Ec.
        -- right. unfold rank. change 5 with (stStartX + stIndef). change 4 with stStartX. rewrite Ec. reflexivity.
      * pose proof (rank_le1 p1). pose proof (rank_le1 p). unfold sp in Hsp. lia.
      * exists p2, s2, rest2, d2, e2. split; [exact H1|]. split; [eapply sp_trans; eauto|].
        split; [exact H3|]. intros He2. destruct (H4 He2) as (Ha & Hb2 & Hc).
        split; [exact Ha|]. split; [exact Hb2|]. intros Hr0. unfold sp in H2. lia.
    + apply orb_false_iff in Ec as [Ec1 Ec2]. apply negb_false_iff in Ec1.
      exists p1, s1, rest, d, e. split; [reflexivity|]. split; [exact Hsp|]. split; [exact Hrest|].
      intros _. split; [exact Hi|]. split.
      * unfold rank. change 5 with (stStartX + stIndef). change 4 with stStartX. rewrite Ec2. reflexivity.
      * intros Hr0. lia.
Qed.

Lemma feed_ok : forall fuel p s b,
  Inv p -> rank p = 0%nat -> all_bytes b = true -> (length b < fuel)%nat ->
  exists p1 s1 e, feed fuel p s b = Ok (p1, s1, e) /\ sp p (length b) p1 0 /\
    (e = nilE -> Inv p1 /\ rank p1 = 0%nat).
Proof.
  induction fuel as [|f IH]; intros p s b Hinv Hr Hb Hf; [lia|].
  cbn [feed]. destruct (zlen b >? 0) eqn:Ez.
  - destruct (feed_until_ok (feed_fuel b) p s b Hinv Hb) as (p1 & s1 & rest & d & e & H1 & H2 & H3 & H4).
    { left. intros ->. discriminate Ez. }
    { unfold feed_fuel. lia. }
    rewrite H1. destruct (isnil e) eqn:Ee.
    + apply isnil_true in Ee. destruct (H4 Ee) as (Ha & Hb1 & Hc). specialize (Hc Hr).
      destruct (IH p1 s1 rest Ha Hb1 H3) as (p2 & s2 & e2 & G1 & G2 & G3); [lia|].
      exists p2, s2, e2. split; [exact G1|]. split; [eapply sp_trans; eauto|exact G3].
    + exists p1, s1, e. split; [reflexivity|]. split; [eapply sp_zero; eauto|].
      intros He. apply isnil_false in Ee. contradiction.
  - exists p, s, nilE. split; [reflexivity|]. split; [unfold sp; lia|]. auto.
Qed.

Lemma Inv_set_err p e : Inv p -> Inv (set_err p e).
Proof. destruct p. unfold Inv. psimpl. auto. Qed.

Lemma p_write_ok p s b :
  Inv p -> rank p = 0%nat -> all_bytes b = true ->
  exists p1 s1 e, p_write p s b = Ok (p1, s1, e) /\ sp p (length b) p1 0 /\
    (e = nilE -> Inv p1 /\ rank p1 = 0%nat).
Proof.
  intros Hinv Hr Hb. unfold p_write.
  destruct (feed_ok (2 * length b + 2) p s b Hinv Hr Hb) as (p1 & s1 & e & H1 & H2 & H3); [lia|].
  rewrite H1. do 3 eexists. split; [reflexivity|]. split.
  - destruct p1; unfold sp in *; psimpl; exact H2.
  - intros He. destruct (H3 He) as [Ha Hb1]. split; [apply Inv_set_err; exact Ha|].
    destruct p1; exact Hb1.
Qed.

Lemma p_writes_ok : forall chunks p s,
  Inv p -> rank p = 0%nat -> forallb all_bytes chunks = true ->
  exists p1 s1 e, p_writes p s chunks = Ok (p1, s1, e) /\ sp p (length (concat chunks)) p1 0.
Proof.
  induction chunks as [|c cs IH]; intros p s Hinv Hr Hb.
  - cbn [p_writes concat length]. do 3 eexists. split; [reflexivity|]. unfold sp; lia.
  - cbn [forallb] in Hb. apply andb_true_iff in Hb as [Hc Hcs].
    cbn [p_writes concat]. rewrite app_length.
    destruct (p_write_ok p s c Hinv Hr Hc) as (p1 & s1 & e & H1 & H2 & H3).
    rewrite H1. destruct (isnil e) eqn:Ee.
    + apply isnil_true in Ee. destruct (H3 Ee) as [Ha Hb1].
      destruct (IH p1 s1 Ha Hb1 Hcs) as (p2 & s2 & e2 & G1 & G2).
      exists p2, s2, e2. split; [exact G1|]. unfold sp in *. lia.
    + exists p1, s1, e. split; [reflexivity|]. unfold sp in *. lia.
Qed.

Lemma rank0 : rank cparser0 = 0%nat.
Proof. reflexivity. Qed.

(* ---------- C03 ---------- *)
Theorem C03_cbor_chunks_total : forall vfail chunks, forallb all_bytes chunks = true ->
  exists evs e, run_chunks vfail chunks = Ok (evs, e).
Proof.
  intros vfail chunks Hb. unfold run_chunks.
  destruct (p_writes_ok chunks cparser0 (sink0 vfail) Inv0 rank0 Hb) as (p1 & s1 & e & H1 & _).
  rewrite H1. eauto.
Qed.
Print Assumptions C03_cbor_chunks_total.

Theorem C03_cbor_parse_total : forall vfail b, all_bytes b = true ->
  exists evs e, run_parse vfail b = Ok (evs, e).
Proof.
  intros vfail b Hb. unfold run_parse, p_parse.
  destruct (feed_ok (2 * length b + 2) cparser0 (sink0 vfail) b Inv0 rank0 Hb) as (p1 & s1 & e & H1 & _); [lia|].
  rewrite H1. eauto.
Qed.
Print Assumptions C03_cbor_parse_total.

(* memory: what the parser retains (token buffer, state stack, length stack) is
   bounded by the number of bytes actually received, whatever length fields
   those bytes announce *)
Theorem C03_cbor_space : forall vfail chunks p s e, forallb all_bytes chunks = true ->
  p_writes cparser0 (sink0 vfail) chunks = Ok (p, s, e) ->
  (length (p_buf p) <= length (concat chunks))%nat /\
  (length (p_stack p) <= 3 * length (concat chunks))%nat /\
  (length (p_lstack p) <= length (concat chunks))%nat.
Proof.
  intros vfail chunks p s e Hb Hw.
  destruct (p_writes_ok chunks cparser0 (sink0 vfail) Inv0 rank0 Hb) as (p1 & s1 & e1 & H1 & H2).
  rewrite H1 in Hw. injection Hw as -> -> ->. unfold sp in H2. cbn [cparser0 p_stack p_lstack p_buf length] in H2. lia.
Qed.
Print Assumptions C03_cbor_space.
