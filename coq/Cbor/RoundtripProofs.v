(* C07 / C17 for CBOR: the encoder model (Cbor/Enc.v) emits a document that the
   reference decoder (Cbor/Spec.v) reads back as the value of the stream, and
   the encoder's length stack returns to where it was. *)
From SF Require Import Base.Prelude Base.PreludeProofs Core.Events Core.EventsProofs
  Cbor.Spec Cbor.Enc Cbor.EncProofs.
From Coq Require Import ZifyBool ZifyNat ZifyN.
Open Scope Z_scope.

Ltac Zify.zify_post_hook ::= Z.div_mod_to_equations.

(* ====================================================================== *)
(* 0. Named copies of the loops of cbor_ref and a one-step unfolding       *)
(* ====================================================================== *)

Definition items_indef (f : nat) :=
  fix items (g : nat) (b : bytes) (acc : list cvalue) : ref_result :=
    match g with
    | O => RTruncated
    | S g' =>
        match b with
        | [] => RTruncated
        | 255 :: r' => RValue (CArr (rev acc)) r'
        | _ => match cbor_ref f b with
               | RValue v r' => items g' r' (v :: acc)
               | e => e
               end
        end
    end.

Definition pairs_indef (f : nat) :=
  fix pairs (g : nat) (b : bytes) (acc : list (bytes * cvalue)) : ref_result :=
    match g with
    | O => RTruncated
    | S g' =>
        match b with
        | [] => RTruncated
        | 255 :: r' => RValue (CObj (rev acc)) r'
        | kb :: _ =>
            if negb (kb / 32 =? 3) then
              (if (kb / 32 =? 7) && negb (kb mod 32 <? 28) then RMalformed else RUnsupported)
            else
            match cbor_ref f b with
            | RValue (CStr k) r' =>
                match cbor_ref f r' with
                | RValue v r'' => pairs g' r'' ((k, v) :: acc)
                | e => e
                end
            | RValue _ _ => RUnsupported
            | e => e
            end
        end
    end.

Definition items_def (f : nat) :=
  fix items (g : nat) (n : Z) (b : bytes) (acc : list cvalue) : ref_result :=
    if n <=? 0 then RValue (CArr (rev acc)) b else
    match g with
    | O => RTruncated
    | S g' =>
        match cbor_ref f b with
        | RValue v r' => items g' (n - 1) r' (v :: acc)
        | e => e
        end
    end.

Definition pairs_def (f : nat) :=
  fix pairs (g : nat) (n : Z) (b : bytes) (acc : list (bytes * cvalue)) : ref_result :=
    if n <=? 0 then RValue (CObj (rev acc)) b else
    match g with
    | O => RTruncated
    | S g' =>
        match b with
        | [] => RTruncated
        | kb :: _ =>
            if negb (kb / 32 =? 3) then
              (if (kb / 32 =? 7) && negb (kb mod 32 <? 28) then RMalformed else RUnsupported)
            else
            match cbor_ref f b with
            | RValue (CStr k) r' =>
                match cbor_ref f r' with
                | RValue v r'' => pairs g' (n - 1) r'' ((k, v) :: acc)
                | e => e
                end
            | RValue _ _ => RUnsupported
            | e => e
            end
        end
    end.

Definition simple_val (minor : Z) (r : bytes) : ref_result :=
  if minor =? 20 then RValue (CBool false) r
  else if minor =? 21 then RValue (CBool true) r
  else if minor =? 22 then RValue CNil r
  else if minor =? 23 then RValue CNil r
  else if minor =? 26 then
    match take 4 r with Some (a, r') => RValue (CNum (CF32 (be_dec a))) r' | None => RTruncated end
  else if minor =? 27 then
    match take 8 r with Some (a, r') => RValue (CNum (CF64 (be_dec a))) r' | None => RTruncated end
  else if minor =? 31 then RMalformed
  else if (28 <=? minor) && (minor <=? 30) then RMalformed
  else RUnsupported.

Definition after_indef (f : nat) (major : Z) (r1 : bytes) : ref_result :=
  if (major =? 0) || (major =? 1) then RMalformed
  else if (major =? 2) || (major =? 3) then RUnsupported
  else if major =? 4 then items_indef f f r1 []
  else pairs_indef f f r1 [].

Definition after_val (f : nat) (major n : Z) (r1 : bytes) : ref_result :=
  if major =? 0 then RValue (CNum (CInt n)) r1
  else if major =? 1 then
    if n <? 2 ^ 63 then RValue (CNum (CInt (-1 - n))) r1 else RUnsupported
  else if major =? 2 then
    match take n r1 with
    | Some (a, r') => RValue (CArr (map (fun x => CNum (CInt x)) a)) r'
    | None => RTruncated
    end
  else if major =? 3 then
    match take n r1 with
    | Some (a, r') => RValue (CStr a) r'
    | None => RTruncated
    end
  else if major =? 4 then items_def f f n r1 []
  else pairs_def f f n r1 [].

Lemma cbor_ref_S f ib r :
  cbor_ref (S f) (ib :: r) =
  if ib / 32 =? 7 then simple_val (ib mod 32) r
  else if ib / 32 =? 6 then RUnsupported
  else match read_arg (ib mod 32) r with
       | ArgBad => RMalformed
       | ArgTrunc => RTruncated
       | ArgIndef r1 => after_indef f (ib / 32) r1
       | ArgVal n r1 => after_val f (ib / 32) n r1
       end.
Proof. reflexivity. Qed.

Lemma items_def_unfold f g n b acc :
  items_def f g n b acc =
  if n <=? 0 then RValue (CArr (rev acc)) b else
  match g with
  | O => RTruncated
  | S g' => match cbor_ref f b with
            | RValue v r' => items_def f g' (n - 1) r' (v :: acc)
            | e => e
            end
  end.
Proof. destruct g; reflexivity. Qed.

Lemma pairs_def_unfold f g n b acc :
  pairs_def f g n b acc =
  if n <=? 0 then RValue (CObj (rev acc)) b else
  match g with
  | O => RTruncated
  | S g' =>
      match b with
      | [] => RTruncated
      | kb :: _ =>
          if negb (kb / 32 =? 3) then
            (if (kb / 32 =? 7) && negb (kb mod 32 <? 28) then RMalformed else RUnsupported)
          else
          match cbor_ref f b with
          | RValue (CStr k) r' =>
              match cbor_ref f r' with
              | RValue v r'' => pairs_def f g' (n - 1) r'' ((k, v) :: acc)
              | e => e
              end
          | RValue _ _ => RUnsupported
          | e => e
          end
      end
  end.
Proof. destruct g; reflexivity. Qed.

Lemma items_indef_unfold f g x r acc : x <> 255 ->
  items_indef f (S g) (x :: r) acc =
  match cbor_ref f (x :: r) with
  | RValue v r' => items_indef f g r' (v :: acc)
  | e => e
  end.
Proof.
  intro H. destruct x as [|p|p]; try reflexivity.
  do 8 (destruct p as [p|p|]; try reflexivity). congruence.
Qed.

Lemma items_indef_break f g r acc :
  items_indef f (S g) (255 :: r) acc = RValue (CArr (rev acc)) r.
Proof. reflexivity. Qed.

Lemma pairs_indef_unfold f g x r acc : x / 32 = 3 ->
  pairs_indef f (S g) (x :: r) acc =
  match cbor_ref f (x :: r) with
  | RValue (CStr k) r' =>
      match cbor_ref f r' with
      | RValue v r'' => pairs_indef f g r'' ((k, v) :: acc)
      | e => e
      end
  | RValue _ _ => RUnsupported
  | e => e
  end.
Proof.
  intro H.
  assert (E : negb (x / 32 =? 3) = false) by (rewrite H; reflexivity).
  destruct x as [|p|p]; try (cbn [items_indef pairs_indef]; rewrite E; reflexivity).
  do 8 (destruct p as [p|p|]; try (cbn [items_indef pairs_indef]; rewrite E; reflexivity)).
  exfalso. revert H. vm_compute. discriminate.
Qed.

Lemma pairs_indef_break f g r acc :
  pairs_indef f (S g) (255 :: r) acc = RValue (CObj (rev acc)) r.
Proof. reflexivity. Qed.

(* ====================================================================== *)
(* 1. Decoding side: items, keys, sequences                                *)
(* ====================================================================== *)

Definition decodes (bs : bytes) (v : cvalue) : Prop :=
  forall rest fuel, (length (bs ++ rest) < fuel)%nat ->
    cbor_ref fuel (bs ++ rest) = RValue v rest.

(* an encoded item: decodes, and its first byte is not the break code *)
Definition item (bs : bytes) (v : cvalue) : Prop :=
  decodes bs v /\ exists x r, bs = x :: r /\ x <> 255.

Definition keyitem (bs : bytes) (k : bytes) : Prop :=
  decodes bs (CStr k) /\ exists x r, bs = x :: r /\ x / 32 = 3.

Lemma keyitem_item bs k : keyitem bs k -> item bs (CStr k).
Proof.
  intros [H (x & r & E & Hx)]. split; [exact H|]. exists x, r. split; [exact E|].
  intro; subst x. revert Hx. vm_compute. discriminate.
Qed.

Lemma dec_head major v rest f :
  In major [0;32;64;96;128;160] -> 0 <= v < 2^64 ->
  cbor_ref (S f) (cb_head major v ++ rest) = after_val f (major / 32) v rest.
Proof.
  intros Hm Hv.
  destruct (head_roundtrip major v rest Hm Hv) as (ib & r & E & Hq & Ha).
  rewrite E, cbor_ref_S, Hq.
  destruct (major_cases major Hm) as (q & -> & Hq').
  replace (32 * q / 32) with q by lia.
  destruct (q =? 7) eqn:E7; [lia|]. destruct (q =? 6) eqn:E6; [lia|].
  rewrite Ha. reflexivity.
Qed.

Lemma cb_head_first major v : 0 <= v ->
  exists x r, cb_head major v = x :: r /\ major <= x <= major + 27.
Proof.
  intro Hv. unfold cb_head.
  destruct (v <? 24) eqn:E1; [eexists; eexists; split; [reflexivity|lia]|].
  destruct (v <=? 255); [eexists; eexists; split; [reflexivity|lia]|].
  destruct (v <=? 65535); [eexists; eexists; split; [reflexivity|lia]|].
  destruct (v <=? 4294967295); eexists; eexists; (split; [reflexivity|lia]).
Qed.

Lemma after_val_0 f n r : after_val f 0 n r = RValue (CNum (CInt n)) r.
Proof. reflexivity. Qed.
Lemma after_val_1 f n r : after_val f 1 n r =
  if n <? 2 ^ 63 then RValue (CNum (CInt (-1 - n))) r else RUnsupported.
Proof. reflexivity. Qed.
Lemma after_val_2 f n r : after_val f 2 n r =
  match take n r with
  | Some (a, r') => RValue (CArr (map (fun x => CNum (CInt x)) a)) r'
  | None => RTruncated
  end.
Proof. reflexivity. Qed.
Lemma after_val_3 f n r : after_val f 3 n r =
  match take n r with Some (a, r') => RValue (CStr a) r' | None => RTruncated end.
Proof. reflexivity. Qed.
Lemma after_val_4 f n r : after_val f 4 n r = items_def f f n r [].
Proof. reflexivity. Qed.
Lemma after_val_5 f n r : after_val f 5 n r = pairs_def f f n r [].
Proof. reflexivity. Qed.

Definition str_bytes (major : Z) (s : bytes) : bytes := cb_head major (zlen s) ++ s.

Lemma zlen_nonneg {A} (l : list A) : 0 <= zlen l.
Proof. unfold zlen. lia. Qed.

Lemma item_of_head major v tl val :
  In major [0;32;64;96;128;160] -> 0 <= v ->
  decodes (cb_head major v ++ tl) val -> item (cb_head major v ++ tl) val.
Proof.
  intros Hm Hv Hd. split; [exact Hd|].
  destruct (cb_head_first major v Hv) as (x & r & E & Hx).
  exists x, (r ++ tl). rewrite E. split; [reflexivity|].
  destruct (major_cases major Hm) as (q & -> & Hq). lia.
Qed.

Lemma key_ok k : zlen k < 2^64 -> keyitem (str_bytes majorText k) k.
Proof.
  intro Hk. pose proof (zlen_nonneg k) as H0. split.
  - intros rest fuel Hf. destruct fuel as [|f]; [lia|].
    unfold str_bytes. rewrite <- app_assoc.
    rewrite dec_head by (try lia; cbn [In]; tauto).
    change (majorText / 32) with 3. rewrite after_val_3, take_app. reflexivity.
  - unfold str_bytes. destruct (cb_head_first majorText (zlen k) H0) as (x & r & E & Hx).
    exists x, (r ++ k). rewrite E. split; [reflexivity|]. unfold majorText in Hx. lia.
Qed.

Lemma bytestr_ok l : zlen l < 2^64 ->
  item (str_bytes majorBytes l) (CArr (map (fun x => CNum (CInt x)) l)).
Proof.
  intro Hk. pose proof (zlen_nonneg l) as H0.
  apply item_of_head; [cbn [In]; tauto|exact H0|].
  intros rest fuel Hf. destruct fuel as [|f]; [lia|].
  rewrite <- app_assoc.
  rewrite dec_head by (try lia; cbn [In]; tauto).
  change (majorBytes / 32) with 2. rewrite after_val_2, take_app. reflexivity.
Qed.

(* sequences of items / of key-item pairs *)
Inductive seq_items : bytes -> list cvalue -> Prop :=
| si_nil : seq_items [] []
| si_cons b v bs vs : item b v -> seq_items bs vs -> seq_items (b ++ bs) (v :: vs).

Inductive seq_pairs : bytes -> list (bytes * cvalue) -> Prop :=
| sp_nil : seq_pairs [] []
| sp_cons kb k b v bs kvs : keyitem kb k -> item b v -> seq_pairs bs kvs ->
    seq_pairs (kb ++ b ++ bs) ((k, v) :: kvs).

Lemma seq_items_app a va b vb : seq_items a va -> seq_items b vb -> seq_items (a ++ b) (va ++ vb).
Proof.
  induction 1 as [|x v bs vs Hi Hs IH]; intro Hb; [exact Hb|].
  rewrite <- app_assoc. cbn [app]. constructor; auto.
Qed.

Lemma seq_pairs_app a va b vb : seq_pairs a va -> seq_pairs b vb -> seq_pairs (a ++ b) (va ++ vb).
Proof.
  induction 1 as [|kb k x v bs vs Hk Hi Hs IH]; intro Hb; [exact Hb|].
  rewrite <- !app_assoc. cbn [app]. constructor; auto.
Qed.

Lemma items_def_ok f bs vs : seq_items bs vs ->
  forall g acc rest, (length (bs ++ rest) < f)%nat -> (length (bs ++ rest) < g)%nat ->
  items_def f g (zlen vs) (bs ++ rest) acc = RValue (CArr (rev acc ++ vs)) rest.
Proof.
  induction 1 as [|b v bs vs Hi Hs IH]; intros g acc rest Hf Hg.
  - rewrite items_def_unfold. cbn [zlen length app]. rewrite app_nil_r. reflexivity.
  - rewrite items_def_unfold.
    destruct (zlen (v :: vs) <=? 0) eqn:E; [unfold zlen in E; cbn [length] in E; lia|].
    destruct g as [|g']; [lia|].
    destruct Hi as [Hd (x & r & -> & Hx)].
    rewrite <- app_assoc. rewrite <- app_assoc in Hf, Hg.
    rewrite (Hd (bs ++ rest) f Hf).
    replace (zlen (v :: vs) - 1) with (zlen vs) by (unfold zlen; cbn [length]; lia).
    cbn [app length] in Hf, Hg. rewrite app_length in Hf, Hg.
    rewrite IH by lia. cbn [rev]. rewrite <- app_assoc. reflexivity.
Qed.

Lemma items_indef_ok f bs vs : seq_items bs vs ->
  forall g acc rest, (length (bs ++ 255%Z :: rest) < f)%nat -> (length (bs ++ 255%Z :: rest) < g)%nat ->
  items_indef f g (bs ++ 255 :: rest) acc = RValue (CArr (rev acc ++ vs)) rest.
Proof.
  induction 1 as [|b v bs vs Hi Hs IH]; intros g acc rest Hf Hg.
  - destruct g as [|g']; [lia|]. cbn [app]. rewrite items_indef_break, app_nil_r. reflexivity.
  - destruct g as [|g']; [lia|].
    destruct Hi as [Hd (x & r & -> & Hx)].
    rewrite <- app_assoc. rewrite <- app_assoc in Hf, Hg.
    cbn [app]. rewrite items_indef_unfold by exact Hx.
    change (x :: r ++ bs ++ 255 :: rest) with ((x :: r) ++ bs ++ 255 :: rest).
    rewrite (Hd (bs ++ 255 :: rest) f Hf).
    cbn [app length] in Hf, Hg. rewrite app_length in Hf, Hg.
    rewrite IH by lia. cbn [rev]. rewrite <- app_assoc. reflexivity.
Qed.

Ltac len := repeat (progress (cbn [app length] in *; rewrite ?app_length in * )); lia.

Lemma pairs_def_ok f bs kvs : seq_pairs bs kvs ->
  forall g acc rest, (length (bs ++ rest) < f)%nat -> (length (bs ++ rest) < g)%nat ->
  pairs_def f g (zlen kvs) (bs ++ rest) acc = RValue (CObj (rev acc ++ kvs)) rest.
Proof.
  induction 1 as [|kb k b v bs kvs Hk Hi Hs IH]; intros g acc rest Hf Hg.
  - rewrite pairs_def_unfold. cbn [zlen length app]. rewrite app_nil_r. reflexivity.
  - rewrite pairs_def_unfold.
    destruct (zlen ((k, v) :: kvs) <=? 0) eqn:E; [unfold zlen in E; cbn [length] in E; lia|].
    destruct g as [|g']; [lia|].
    destruct Hk as [Hdk (x & r & -> & Hx)].
    destruct Hi as [Hd (y & s & -> & Hy)].
    rewrite <- !app_assoc. rewrite <- !app_assoc in Hf, Hg.
    cbn [app]. rewrite Hx. cbn [Z.eqb Pos.eqb negb].
    change (x :: r ++ y :: s ++ bs ++ rest) with ((x :: r) ++ ((y :: s) ++ bs ++ rest)).
    rewrite (Hdk _ f Hf).
    rewrite (Hd (bs ++ rest) f) by (clear IH; len).
    replace (zlen ((k, v) :: kvs) - 1) with (zlen kvs) by (unfold zlen; cbn [length]; lia).
    rewrite IH by (clear IH; len). cbn [rev]. rewrite <- app_assoc. reflexivity.
Qed.

Lemma pairs_indef_ok f bs kvs : seq_pairs bs kvs ->
  forall g acc rest, (length (bs ++ 255%Z :: rest) < f)%nat -> (length (bs ++ 255%Z :: rest) < g)%nat ->
  pairs_indef f g (bs ++ 255 :: rest) acc = RValue (CObj (rev acc ++ kvs)) rest.
Proof.
  induction 1 as [|kb k b v bs kvs Hk Hi Hs IH]; intros g acc rest Hf Hg.
  - destruct g as [|g']; [lia|]. cbn [app]. rewrite pairs_indef_break, app_nil_r. reflexivity.
  - destruct g as [|g']; [lia|].
    destruct Hk as [Hdk (x & r & -> & Hx)].
    destruct Hi as [Hd (y & s & -> & Hy)].
    rewrite <- !app_assoc. rewrite <- !app_assoc in Hf, Hg.
    cbn [app]. rewrite pairs_indef_unfold by exact Hx.
    change (x :: r ++ y :: s ++ bs ++ 255 :: rest) with ((x :: r) ++ ((y :: s) ++ bs ++ 255 :: rest)).
    rewrite (Hdk _ f Hf).
    rewrite (Hd (bs ++ 255 :: rest) f) by (clear IH; len).
    rewrite IH by (clear IH; len). cbn [rev]. rewrite <- app_assoc. reflexivity.
Qed.

(* ====================================================================== *)
(* 2. Scalars                                                              *)
(* ====================================================================== *)

Definition scalar_small (s : scalar) : bool :=
  match s with SStr b => zlen b <? 2 ^ 64 | _ => true end.

Definition scalar_bytes (s : scalar) : bytes :=
  match s with
  | SNil => [246]
  | SBool true => [245]
  | SBool false => [244]
  | SStr s => str_bytes majorText s
  | SNum KFloat32 z => 250 :: be_enc 4 z
  | SNum KFloat64 z => 251 :: be_enc 8 z
  | SNum (KInt8 | KInt16 | KInt32 | KInt64 | KInt) z => cb_int z
  | SNum _ z => cb_head majorUint z
  end.

Lemma simple_item x v : x / 32 = 7 -> x <> 255 ->
  (forall r, simple_val (x mod 32) r = RValue v r) -> item [x] v.
Proof.
  intros H7 Hx Hs. split.
  - intros rest fuel Hf. destruct fuel as [|f]; [cbn in Hf; lia|].
    cbn [app]. rewrite cbor_ref_S, H7. cbn [Z.eqb Pos.eqb]. apply Hs.
  - exists x, []. auto.
Qed.

Lemma uint_item z : 0 <= z < 2 ^ 64 -> item (cb_head majorUint z) (CNum (CInt z)).
Proof.
  intro Hz. rewrite <- (app_nil_r (cb_head majorUint z)).
  apply item_of_head; [cbn [In]; tauto|lia|].
  intros rest fuel Hf. destruct fuel as [|f]; [lia|].
  rewrite app_nil_r. rewrite dec_head by (try lia; cbn [In]; tauto). reflexivity.
Qed.

Lemma int_item z : - 2 ^ 63 <= z < 2 ^ 64 -> item (cb_int z) (CNum (CInt z)).
Proof.
  intro Hz. unfold cb_int. destruct (z <? 0) eqn:E.
  - rewrite <- (app_nil_r (cb_head majorNeg (-1 - z))).
    apply item_of_head; [cbn [In]; tauto|lia|].
    intros rest fuel Hf. destruct fuel as [|f]; [lia|].
    rewrite app_nil_r. rewrite dec_head by (try lia; cbn [In]; tauto).
    change (majorNeg / 32) with 1. rewrite after_val_1.
    destruct (-1 - z <? 2 ^ 63) eqn:E2; [|lia].
    replace (-1 - (-1 - z)) with z by lia. reflexivity.
  - apply uint_item. lia.
Qed.

Lemma f32_item z : 0 <= z < 2 ^ 32 -> item (250 :: be_enc 4 z) (CNum (CF32 z)).
Proof.
  intro Hz. split.
  - intros rest fuel Hf. destruct fuel as [|f]; [lia|].
    cbn [app]. rewrite cbor_ref_S. change (250 / 32 =? 7) with true. cbv iota.
    change (250 mod 32) with 26.
    change (simple_val 26 (be_enc 4 z ++ rest)) with
      (match take 4 (be_enc 4 z ++ rest) with
       | Some (a, r') => RValue (CNum (CF32 (be_dec a))) r' | None => RTruncated end).
    rewrite (take_be 4 z rest 4 eq_refl), be_dec_enc; [reflexivity|].
    change (256 ^ Z.of_nat 4) with (2 ^ 32). lia.
  - exists 250, (be_enc 4 z). split; [reflexivity|lia].
Qed.

Lemma f64_item z : 0 <= z < 2 ^ 64 -> item (251 :: be_enc 8 z) (CNum (CF64 z)).
Proof.
  intro Hz. split.
  - intros rest fuel Hf. destruct fuel as [|f]; [lia|].
    cbn [app]. rewrite cbor_ref_S. change (251 / 32 =? 7) with true. cbv iota.
    change (251 mod 32) with 27.
    change (simple_val 27 (be_enc 8 z ++ rest)) with
      (match take 8 (be_enc 8 z ++ rest) with
       | Some (a, r') => RValue (CNum (CF64 (be_dec a))) r' | None => RTruncated end).
    rewrite (take_be 8 z rest 8 eq_refl), be_dec_enc; [reflexivity|].
    change (256 ^ Z.of_nat 8) with (2 ^ 64). lia.
  - exists 251, (be_enc 8 z). split; [reflexivity|lia].
Qed.

Lemma in_u_range w z : in_u w z = true -> 0 <= z < 2 ^ w.
Proof. unfold in_u. lia. Qed.
Lemma in_s_range w z : in_s w z = true -> - 2 ^ (w - 1) <= z < 2 ^ (w - 1).
Proof. unfold in_s. lia. Qed.

Lemma scalar_item s : scalar_ok s = true -> scalar_small s = true ->
  item (scalar_bytes s) (cv (scalar_value s)).
Proof.
  intros Hok Hsm. destruct s as [|b|s|k z]; cbn [scalar_bytes scalar_value cv].
  - apply simple_item; [reflexivity|lia|reflexivity].
  - destruct b; (apply simple_item; [reflexivity|lia|reflexivity]).
  - apply keyitem_item, key_ok. cbn [scalar_small] in Hsm. lia.
  - cbn [scalar_ok] in Hok.
    destruct k; cbn [nkind_ok canon_num] in *;
      try (apply in_s_range in Hok; cbn [Z.sub Z.pos_sub Pos.pred_double Z.opp] in Hok;
           apply int_item; lia);
      try (apply in_u_range in Hok; apply uint_item; lia).
    + apply in_u_range in Hok. apply f32_item. lia.
    + apply in_u_range in Hok. apply f64_item. lia.
Qed.

(* ====================================================================== *)
(* 3. Encoder side: what each call writes when the writer does not fail    *)
(* ====================================================================== *)

Definition wrote (e e' : cenc) (bs : bytes) : Prop :=
  w_fail (ce_w e') = None /\ w_bytes (ce_w e') = w_bytes (ce_w e) ++ bs.

Definition enc_ok (e e' : cenc) (bs : bytes) : Prop :=
  ce_len e' = ce_len e /\ wrote e e' bs.

Lemma wrote_trans e e1 e2 a b : wrote e e1 a -> wrote e1 e2 b -> wrote e e2 (a ++ b).
Proof.
  intros [F1 B1] [F2 B2]. split; [exact F2|]. rewrite B2, B1, app_assoc. reflexivity.
Qed.

Lemma enc_ok_trans e e1 e2 a b : enc_ok e e1 a -> enc_ok e1 e2 b -> enc_ok e e2 (a ++ b).
Proof.
  intros [L1 W1] [L2 W2]. split; [congruence|]. eapply wrote_trans; eassumption.
Qed.

Lemma enc_ok_refl e : w_fail (ce_w e) = None -> enc_ok e e [].
Proof. intro H. split; [reflexivity|]. split; [exact H|]. rewrite app_nil_r. reflexivity. Qed.

Lemma cw_ok e b : w_fail (ce_w e) = None ->
  exists e', cw e b = (e', true) /\ enc_ok e e' b.
Proof.
  intro H. unfold cw, wwrite. rewrite H. eexists. split; [reflexivity|].
  split; [reflexivity|]. split; [reflexivity|].
  cbn [ce_w]. unfold w_bytes, w_chunks. cbn [w_rchunks rev].
  rewrite concat_app. cbn [concat]. rewrite app_nil_r. reflexivity.
Qed.

Lemma cb_bytes_ok e major s : w_fail (ce_w e) = None ->
  exists e', cb_bytes e major s = (e', true) /\ enc_ok e e' (str_bytes major s).
Proof.
  intro H. unfold cb_bytes.
  destruct (cw_ok e (cb_head major (zlen s)) H) as (e1 & E1 & O1). rewrite E1.
  destruct (cw_ok e1 s (proj1 (proj2 O1))) as (e2 & E2 & O2).
  exists e2. split; [exact E2|]. eapply enc_ok_trans; eassumption.
Qed.

Lemma cb_scalar_ok e s : w_fail (ce_w e) = None ->
  exists e', cb_scalar e s = (e', true) /\ enc_ok e e' (scalar_bytes s).
Proof.
  intro H. destruct s as [|b|s|k z]; cbn [cb_scalar scalar_bytes].
  - apply cw_ok, H.
  - destruct b; apply cw_ok, H.
  - apply cb_bytes_ok, H.
  - destruct k; apply cw_ok, H.
Qed.

Lemma cb_scalars_ok l : forall e, w_fail (ce_w e) = None ->
  exists e', cb_scalars e l = (e', true) /\ enc_ok e e' (flat_map scalar_bytes l).
Proof.
  induction l as [|s r IH]; intros e H; cbn [cb_scalars flat_map].
  - exists e. split; [reflexivity|]. apply enc_ok_refl, H.
  - destruct (cb_scalar_ok e s H) as (e1 & E1 & O1). rewrite E1.
    destruct (IH e1 (proj1 (proj2 O1))) as (e2 & E2 & O2).
    exists e2. split; [exact E2|]. eapply enc_ok_trans; eassumption.
Qed.

Definition member_bytes (m : bytes * scalar) : bytes :=
  str_bytes majorText (fst m) ++ scalar_bytes (snd m).

Lemma cb_members_ok l : forall e, w_fail (ce_w e) = None ->
  exists e', cb_members e l = (e', true) /\ enc_ok e e' (flat_map member_bytes l).
Proof.
  induction l as [|[k s] r IH]; intros e H; cbn [cb_members flat_map].
  - exists e. split; [reflexivity|]. apply enc_ok_refl, H.
  - destruct (cb_bytes_ok e majorText k H) as (e1 & E1 & O1). rewrite E1. cbn [negb].
    destruct (cb_scalar_ok e1 s (proj1 (proj2 O1))) as (e2 & E2 & O2). rewrite E2.
    destruct (IH e2 (proj1 (proj2 O2))) as (e3 & E3 & O3).
    exists e3. split; [exact E3|]. unfold member_bytes. cbn [fst snd].
    eapply enc_ok_trans; [|exact O3]. eapply enc_ok_trans; eassumption.
Qed.

Definition start_bytes (major len : Z) : bytes :=
  if len <? 0 then [major + 31] else cb_head major len.
Definition finish_bytes (len : Z) : bytes := if len <? 0 then [codeBreak] else [].

Lemma cb_start_ok e major len : w_fail (ce_w e) = None ->
  exists e', cb_start e major len = (e', true) /\
    ce_len e' = ls_push (ce_len e) len /\ wrote e e' (start_bytes major len).
Proof.
  intro H. unfold cb_start, cb_optlen, start_bytes.
  destruct (len <? 0).
  - destruct (cw_ok e [major + 31] H) as (e1 & E1 & L1 & O1). rewrite E1.
    eexists. split; [reflexivity|]. cbn [ce_len ce_w]. rewrite L1. split; [reflexivity|exact O1].
  - destruct (cw_ok e (cb_head major len) H) as (e1 & E1 & L1 & O1). rewrite E1.
    eexists. split; [reflexivity|]. cbn [ce_len ce_w]. rewrite L1. split; [reflexivity|exact O1].
Qed.

Lemma ls_pop_push s l : ls_pop (ls_push s l) = (s, l).
Proof. destruct s; reflexivity. Qed.

Lemma cb_finish_ok e s len : w_fail (ce_w e) = None -> ce_len e = ls_push s len ->
  exists e', cb_finish e = (e', true) /\ ce_len e' = s /\ wrote e e' (finish_bytes len).
Proof.
  intros H L. unfold cb_finish, finish_bytes. rewrite L, ls_pop_push.
  destruct (len <? 0).
  - destruct (cw_ok {| ce_w := ce_w e; ce_len := s |} [codeBreak] H) as (e1 & E1 & L1 & O1).
    exists e1. split; [exact E1|]. split; [exact L1|exact O1].
  - eexists. split; [reflexivity|]. split; [reflexivity|]. cbn [ce_w].
    split; [exact H|]. rewrite app_nil_r. reflexivity.
Qed.

Lemma cbor_run_app a : forall b e i e1,
  cbor_run e a i = (e1, None) -> cbor_run e (a ++ b) i = cbor_run e1 b (i + length a)%nat.
Proof.
  induction a as [|ev r IH]; intros b e i e1 H; cbn [cbor_run app length] in *.
  - inversion H; subst. rewrite Nat.add_0_r. reflexivity.
  - destruct (cbor_on e ev) as [e0 ok]. destruct ok; [|discriminate].
    rewrite (IH b e0 (S i) e1 H). f_equal. lia.
Qed.

(* ====================================================================== *)
(* 4. Containers                                                           *)
(* ====================================================================== *)

Lemma cbor_ref_indef_arr f r : cbor_ref (S f) (159 :: r) = items_indef f f r [].
Proof. reflexivity. Qed.
Lemma cbor_ref_indef_map f r : cbor_ref (S f) (191 :: r) = pairs_indef f f r [].
Proof. reflexivity. Qed.

Lemma start_bytes_nonneg major len : 0 <= len -> start_bytes major len = cb_head major len.
Proof. intro H. unfold start_bytes. destruct (len <? 0) eqn:E; [lia|reflexivity]. Qed.
Lemma finish_bytes_nonneg len : 0 <= len -> finish_bytes len = [].
Proof. intro H. unfold finish_bytes. destruct (len <? 0) eqn:E; [lia|reflexivity]. Qed.

Lemma arr_item len bs vs : seq_items bs vs -> len < 2 ^ 64 ->
  (len <? 0) || (len =? zlen vs) = true ->
  item (start_bytes majorArr len ++ bs ++ finish_bytes len) (CArr vs).
Proof.
  intros Hs Hsm Hl. unfold start_bytes, finish_bytes. destruct (len <? 0) eqn:E.
  - change [majorArr + 31] with [159]. change codeBreak with 255. split.
    + intros rest fuel Hf. destruct fuel as [|f]; [lia|].
      cbn [app]. rewrite <- app_assoc. cbn [app].
      cbn [app length] in Hf. rewrite <- app_assoc in Hf. cbn [app] in Hf.
      rewrite cbor_ref_indef_arr.
      rewrite (items_indef_ok f bs vs Hs f [] rest) by lia. reflexivity.
    + exists 159, (bs ++ [255]). split; [reflexivity|lia].
  - assert (Hlen : len = zlen vs) by lia. pose proof (zlen_nonneg vs) as H0.
    apply item_of_head; [cbn [In]; tauto|lia|].
    intros rest fuel Hf. destruct fuel as [|f]; [lia|].
    rewrite app_nil_r, <- app_assoc. rewrite app_nil_r, <- app_assoc in Hf.
    rewrite dec_head by (try lia; cbn [In]; tauto).
    change (majorArr / 32) with 4. rewrite after_val_4.
    destruct (cb_head_first majorArr len ltac:(lia)) as (x & r & Ex & _).
    rewrite Ex in Hf. cbn [app length] in Hf. rewrite app_length in Hf.
    rewrite Hlen. rewrite (items_def_ok f bs vs Hs f [] rest) by lia. reflexivity.
Qed.

Lemma map_item len bs kvs : seq_pairs bs kvs -> len < 2 ^ 64 ->
  (len <? 0) || (len =? zlen kvs) = true ->
  item (start_bytes majorMap len ++ bs ++ finish_bytes len) (CObj kvs).
Proof.
  intros Hs Hsm Hl. unfold start_bytes, finish_bytes. destruct (len <? 0) eqn:E.
  - change [majorMap + 31] with [191]. change codeBreak with 255. split.
    + intros rest fuel Hf. destruct fuel as [|f]; [lia|].
      cbn [app]. rewrite <- app_assoc. cbn [app].
      cbn [app length] in Hf. rewrite <- app_assoc in Hf. cbn [app] in Hf.
      rewrite cbor_ref_indef_map.
      rewrite (pairs_indef_ok f bs kvs Hs f [] rest) by lia. reflexivity.
    + exists 191, (bs ++ [255]). split; [reflexivity|lia].
  - assert (Hlen : len = zlen kvs) by lia. pose proof (zlen_nonneg kvs) as H0.
    apply item_of_head; [cbn [In]; tauto|lia|].
    intros rest fuel Hf. destruct fuel as [|f]; [lia|].
    rewrite app_nil_r, <- app_assoc. rewrite app_nil_r, <- app_assoc in Hf.
    rewrite dec_head by (try lia; cbn [In]; tauto).
    change (majorMap / 32) with 5. rewrite after_val_5.
    destruct (cb_head_first majorMap len ltac:(lia)) as (x & r & Ex & _).
    rewrite Ex in Hf. cbn [app length] in Hf. rewrite app_length in Hf.
    rewrite Hlen. rewrite (pairs_def_ok f bs kvs Hs f [] rest) by lia. reflexivity.
Qed.

(* typed arrays / objects of scalars *)
Lemma xelem_scalar_ok bt s : xelem_ok bt s = true -> scalar_ok s = true.
Proof. unfold xelem_ok. destruct bt; intro H; try discriminate; apply andb_true_iff in H; tauto. Qed.

Lemma scalars_items bt es : forallb (xelem_ok bt) es = true -> forallb scalar_small es = true ->
  seq_items (flat_map scalar_bytes es) (map (fun s => cv (scalar_value s)) es).
Proof.
  induction es as [|s r IH]; cbn [forallb flat_map map]; intros H1 H2; [constructor|].
  apply andb_true_iff in H1 as [H1 H1']. apply andb_true_iff in H2 as [H2 H2'].
  constructor; [|auto]. apply scalar_item; [eapply xelem_scalar_ok; eassumption|exact H2].
Qed.

Lemma members_pairs bt ms :
  forallb (fun m => all_bytes (fst m) && xelem_ok bt (snd m)) ms = true ->
  forallb (fun m => (zlen (fst m) <? 2 ^ 64) && scalar_small (snd m)) ms = true ->
  seq_pairs (flat_map member_bytes ms) (map (fun m => (fst m, cv (scalar_value (snd m)))) ms).
Proof.
  induction ms as [|[k s] r IH]; cbn [forallb flat_map map fst snd]; intros H1 H2; [constructor|].
  apply andb_true_iff in H1 as [H1 H1']. apply andb_true_iff in H2 as [H2 H2'].
  apply andb_true_iff in H1 as [_ H1]. apply andb_true_iff in H2 as [H2k H2].
  unfold member_bytes at 1. cbn [fst snd]. rewrite <- app_assoc.
  constructor; [apply key_ok; lia| |auto].
  apply scalar_item; [eapply xelem_scalar_ok; eassumption|exact H2].
Qed.

Lemma xbytes_values bt es : is_bytes_bt bt = true -> forallb (xelem_ok bt) es = true ->
  map (fun x => CNum (CInt x)) (map xbyte es) = map (fun s => cv (scalar_value s)) es.
Proof.
  intros Hb. induction es as [|s r IH]; cbn [forallb map]; intro H; [reflexivity|].
  apply andb_true_iff in H as [H H']. rewrite (IH H'). f_equal.
  destruct bt; try discriminate; destruct s as [| | |k z]; try discriminate;
    destruct k; try discriminate; reflexivity.
Qed.

(* ====================================================================== *)
(* 5. Trees                                                                *)
(* ====================================================================== *)

(* every announced length, every typed-container length and every string /
   key length is below 2^64 (a Go slice, string or map cannot be larger) *)
Fixpoint tree_small (t : tree) : bool :=
  match t with
  | TVal s _ => scalar_small s
  | TArr len _ es => (len <? 2 ^ 64) && forallb tree_small es
  | TObj len _ ms =>
      (len <? 2 ^ 64) &&
      forallb (fun m => (zlen (fst (fst m)) <? 2 ^ 64) && tree_small (snd m)) ms
  | TXArr _ es => (zlen es <? 2 ^ 64) && forallb scalar_small es
  | TXObj _ ms =>
      (zlen ms <? 2 ^ 64) &&
      forallb (fun m => (zlen (fst m) <? 2 ^ 64) && scalar_small (snd m)) ms
  end.

Definition enc_tree_ok (t : tree) : Prop :=
  wf_tree t = true -> tree_small t = true ->
  forall e i, w_fail (ce_w e) = None ->
  exists e' bs, cbor_run e (flatten t) i = (e', None) /\ enc_ok e e' bs /\
                item bs (cv (value_of t)).

Lemma run_elems es : Forall enc_tree_ok es ->
  forallb wf_tree es = true -> forallb tree_small es = true ->
  forall e i, w_fail (ce_w e) = None ->
  exists e' bs, cbor_run e (flatten_elems es) i = (e', None) /\ enc_ok e e' bs /\
                seq_items bs (map (fun t => cv (value_of t)) es).
Proof.
  induction 1 as [|t r Ht Hr IH]; cbn [forallb]; intros Hw Hs e i He.
  - exists e, []. split; [reflexivity|]. split; [apply enc_ok_refl, He|constructor].
  - apply andb_true_iff in Hw as [Hw Hw']. apply andb_true_iff in Hs as [Hs Hs'].
    destruct (Ht Hw Hs e i He) as (e1 & b1 & E1 & O1 & I1).
    destruct (IH Hw' Hs' e1 (i + length (flatten t))%nat (proj1 (proj2 O1))) as (e2 & b2 & E2 & O2 & I2).
    exists e2, (b1 ++ b2). unfold flatten_elems in *. cbn [flat_map map].
    rewrite (cbor_run_app _ _ _ _ _ E1). split; [exact E2|].
    split; [eapply enc_ok_trans; eassumption|constructor; assumption].
Qed.

Lemma cbor_on_key e k r : cbor_on e (key_event k r) = cb_bytes e majorText k.
Proof. destruct r; reflexivity. Qed.

Lemma run_members ms : Forall (fun m => enc_tree_ok (snd m)) ms ->
  forallb (fun m : bytes * bool * tree => all_bytes (fst (fst m)) && wf_tree (snd m)) ms = true ->
  forallb (fun m : bytes * bool * tree => (zlen (fst (fst m)) <? 2 ^ 64) && tree_small (snd m)) ms = true ->
  forall e i, w_fail (ce_w e) = None ->
  exists e' bs, cbor_run e (flatten_members ms) i = (e', None) /\ enc_ok e e' bs /\
                seq_pairs bs (map (fun m : bytes * bool * tree => (fst (fst m), cv (value_of (snd m)))) ms).
Proof.
  induction 1 as [|[[k kr] t] r Ht Hr IH]; cbn [forallb fst snd]; intros Hw Hs e i He.
  - exists e, []. split; [reflexivity|]. split; [apply enc_ok_refl, He|constructor].
  - apply andb_true_iff in Hw as [Hw Hw']. apply andb_true_iff in Hs as [Hs Hs'].
    apply andb_true_iff in Hw as [_ Hw]. apply andb_true_iff in Hs as [Hk Hs].
    cbn [snd] in Ht.
    destruct (cb_bytes_ok e majorText k He) as (e0 & E0 & O0).
    destruct (Ht Hw Hs e0 (S i) (proj1 (proj2 O0))) as (e1 & b1 & E1 & O1 & I1).
    destruct (IH Hw' Hs' e1 (S i + length (flatten t))%nat (proj1 (proj2 O1))) as (e2 & b2 & E2 & O2 & I2).
    exists e2, (str_bytes majorText k ++ b1 ++ b2).
    unfold flatten_members in *. cbn [flat_map map fst snd].
    cbn [app cbor_run]. rewrite cbor_on_key, E0.
    rewrite (cbor_run_app _ _ _ _ _ E1). split; [exact E2|].
    split; [eapply enc_ok_trans; [exact O0|]; eapply enc_ok_trans; eassumption|].
    constructor; [apply key_ok; lia|assumption|assumption].
Qed.

Lemma container_enc e e1 e2 e3 a b c :
  wrote e e1 a -> enc_ok e1 e2 b -> wrote e2 e3 c -> ce_len e3 = ce_len e ->
  enc_ok e e3 (a ++ b ++ c).
Proof.
  intros W1 [_ W2] W3 L. split; [exact L|].
  eapply wrote_trans; [exact W1|]. eapply wrote_trans; eassumption.
Qed.

Lemma enc_tree_all t : enc_tree_ok t.
Proof.
  induction t as [s r|len bt es IH|len bt ms IH|bt es|bt ms] using tree_ind';
    intros Hw Hs e i He.
  - (* scalar *)
    assert (R : cbor_run e (flatten (TVal s r)) i =
                let '(e1, ok) := cb_scalar e s in if ok then (e1, None) else (e1, Some i)).
    { destruct s as [|b|b|k z]; destruct r; reflexivity. }
    destruct (cb_scalar_ok e s He) as (e1 & E1 & O1).
    exists e1, (scalar_bytes s). rewrite R, E1. split; [reflexivity|]. split; [exact O1|].
    cbn [value_of]. apply scalar_item; assumption.
  - (* array *)
    rewrite wf_arr in Hw. apply andb_true_iff in Hw as [Hw Hw3]. apply andb_true_iff in Hw as [Hw1 _].
    cbn [tree_small] in Hs. apply andb_true_iff in Hs as [Hs1 Hs2].
    rewrite flatten_arr. cbn [cbor_run cbor_on].
    destruct (cb_start_ok e majorArr len He) as (e1 & E1 & L1 & W1). rewrite E1.
    destruct (run_elems es IH Hw3 Hs2 e1 (S i) (proj1 W1)) as (e2 & bs & E2 & O2 & I2).
    rewrite (cbor_run_app _ _ _ _ _ E2). cbn [cbor_run cbor_on].
    destruct (cb_finish_ok e2 (ce_len e) len (proj1 (proj2 O2))) as (e3 & E3 & L3 & W3).
    { rewrite (proj1 O2). exact L1. }
    rewrite E3. exists e3, (start_bytes majorArr len ++ bs ++ finish_bytes len).
    split; [reflexivity|]. split.
    + eapply container_enc; eauto.
    + cbn [value_of cv]. rewrite map_map. apply arr_item; [exact I2|lia|].
      unfold len_ok in Hw1. unfold zlen in *. rewrite map_length. exact Hw1.
  - (* object *)
    rewrite wf_obj in Hw. apply andb_true_iff in Hw as [Hw Hw3]. apply andb_true_iff in Hw as [Hw1 _].
    cbn [tree_small] in Hs. apply andb_true_iff in Hs as [Hs1 Hs2].
    rewrite flatten_obj. cbn [cbor_run cbor_on].
    destruct (cb_start_ok e majorMap len He) as (e1 & E1 & L1 & W1). rewrite E1.
    destruct (run_members ms IH Hw3 Hs2 e1 (S i) (proj1 W1)) as (e2 & bs & E2 & O2 & I2).
    rewrite (cbor_run_app _ _ _ _ _ E2). cbn [cbor_run cbor_on].
    destruct (cb_finish_ok e2 (ce_len e) len (proj1 (proj2 O2))) as (e3 & E3 & L3 & W3).
    { rewrite (proj1 O2). exact L1. }
    rewrite E3. exists e3, (start_bytes majorMap len ++ bs ++ finish_bytes len).
    split; [reflexivity|]. split.
    + eapply container_enc; eauto.
    + cbn [value_of cv]. rewrite map_map. cbn [fst snd]. apply map_item; [exact I2|lia|].
      unfold len_ok in Hw1. unfold zlen in *. rewrite map_length. exact Hw1.
  - (* typed array *)
    cbn [wf_tree] in Hw. cbn [tree_small] in Hs. apply andb_true_iff in Hs as [Hs1 Hs2].
    cbn [flatten cbor_run]. rewrite cbor_on_xarr. cbn [value_of cv]. rewrite map_map.
    destruct (is_bytes_bt bt) eqn:Eb.
    + destruct (cb_bytes_ok e majorBytes (map xbyte es) He) as (e1 & E1 & O1). rewrite E1.
      exists e1, (str_bytes majorBytes (map xbyte es)).
      split; [reflexivity|]. split; [exact O1|].
      rewrite <- (xbytes_values bt es Eb Hw). apply bytestr_ok.
      unfold zlen in *. rewrite map_length. lia.
    + destruct (cw_ok e (cb_head majorArr (zlen es)) He) as (e1 & E1 & O1). rewrite E1.
      destruct (cb_scalars_ok es e1 (proj1 (proj2 O1))) as (e2 & E2 & O2). rewrite E2.
      exists e2, (cb_head majorArr (zlen es) ++ flat_map scalar_bytes es).
      split; [reflexivity|]. split; [eapply enc_ok_trans; eassumption|].
      pose proof (zlen_nonneg es) as H0.
      replace (cb_head majorArr (zlen es) ++ flat_map scalar_bytes es)
        with (start_bytes majorArr (zlen es) ++ flat_map scalar_bytes es ++ finish_bytes (zlen es))
        by (rewrite start_bytes_nonneg, finish_bytes_nonneg, app_nil_r by exact H0; reflexivity).
      apply arr_item; [eapply scalars_items; eassumption|lia|].
      unfold zlen. rewrite map_length. lia.
  - (* typed object *)
    cbn [wf_tree] in Hw. apply andb_true_iff in Hw as [_ Hw].
    cbn [tree_small] in Hs. apply andb_true_iff in Hs as [Hs1 Hs2].
    cbn [flatten cbor_run cbor_on]. cbn [value_of cv]. rewrite map_map. cbn [fst snd].
    destruct (cb_start_ok e majorMap (zlen ms) He) as (e1 & E1 & L1 & W1). rewrite E1. cbn [negb].
    destruct (cb_members_ok ms e1 (proj1 W1)) as (e2 & E2 & O2). rewrite E2. cbn [negb].
    destruct (cb_finish_ok e2 (ce_len e) (zlen ms) (proj1 (proj2 O2))) as (e3 & E3 & L3 & W3).
    { rewrite (proj1 O2). exact L1. }
    rewrite E3.
    exists e3, (start_bytes majorMap (zlen ms) ++ flat_map member_bytes ms ++ finish_bytes (zlen ms)).
    split; [reflexivity|]. split.
    + eapply container_enc; eauto.
    + apply map_item; [eapply members_pairs; eassumption|lia|].
      unfold zlen. rewrite map_length. lia.
Qed.

(* ====================================================================== *)
(* 6. Main theorems                                                        *)
(* ====================================================================== *)

Theorem cbor_enc_tree : forall t, wf_tree t = true -> tree_small t = true ->
  forall e i, w_fail (ce_w e) = None ->
  exists e' bs, cbor_run e (flatten t) i = (e', None) /\
     ce_len e' = ce_len e /\ w_fail (ce_w e') = None /\
     w_bytes (ce_w e') = w_bytes (ce_w e) ++ bs /\
     forall rest fuel, (length (bs ++ rest) < fuel)%nat ->
       cbor_ref fuel (bs ++ rest) = RValue (cv (value_of t)) rest.
Proof.
  intros t Hw Hs e i He.
  destruct (enc_tree_all t Hw Hs e i He) as (e' & bs & E & (L & F & B) & (D & _)).
  exists e', bs. auto.
Qed.
Print Assumptions cbor_enc_tree.

(* the first byte of an encoded document is never the break code *)
Theorem cbor_enc_tree_first : forall t, wf_tree t = true -> tree_small t = true ->
  forall e i, w_fail (ce_w e) = None ->
  exists e' x r, cbor_run e (flatten t) i = (e', None) /\
     w_bytes (ce_w e') = w_bytes (ce_w e) ++ x :: r /\ x <> 255.
Proof.
  intros t Hw Hs e i He.
  destruct (enc_tree_all t Hw Hs e i He) as (e' & bs & E & (L & F & B) & (_ & x & r & -> & Hx)).
  exists e', x, r. auto.
Qed.
Print Assumptions cbor_enc_tree_first.

Theorem C07_cbor : forall t, wf_tree t = true -> tree_small t = true ->
  exists bs, cbor_encode (flatten t) = Some bs /\
             cbor_decode bs = RValue (cv (value_of t)) [].
Proof.
  intros t Hw Hs.
  destruct (cbor_enc_tree t Hw Hs (cenc0 None) 0%nat eq_refl) as (e' & bs & E & _ & _ & B & D).
  exists bs. unfold cbor_encode. rewrite E. change (w_bytes (ce_w (cenc0 None))) with (@nil Z) in B.
  cbn [app] in B. rewrite B. split; [reflexivity|].
  unfold cbor_decode. specialize (D [] (S (length bs))). rewrite app_nil_r in D. apply D. lia.
Qed.
Print Assumptions C07_cbor.

Theorem C17_cbor_enc_idle : forall t e i, wf_tree t = true -> tree_small t = true ->
  w_fail (ce_w e) = None ->
  exists e', cbor_run e (flatten t) i = (e', None) /\ ce_len e' = ce_len e.
Proof.
  intros t e i Hw Hs He.
  destruct (cbor_enc_tree t Hw Hs e i He) as (e' & bs & E & L & _).
  exists e'. auto.
Qed.
Print Assumptions C17_cbor_enc_idle.

(* streams of several documents *)
Lemma run_stream ts : forallb wf_tree ts = true -> forallb tree_small ts = true ->
  forall e i, w_fail (ce_w e) = None ->
  exists e' bs, cbor_run e (flat_map flatten ts) i = (e', None) /\ enc_ok e e' bs /\
    (length ts <= length bs)%nat /\
    forall fuel, (length ts < fuel)%nat ->
      cbor_decode_all fuel bs = Some (map (fun t => cv (value_of t)) ts).
Proof.
  induction ts as [|t r IH]; cbn [forallb]; intros Hw Hs e i He.
  - exists e, []. split; [reflexivity|]. split; [apply enc_ok_refl, He|].
    split; [cbn [length]; lia|]. intros fuel Hf. destruct fuel; [cbn [length] in Hf; lia|reflexivity].
  - apply andb_true_iff in Hw as [Hw Hw']. apply andb_true_iff in Hs as [Hs Hs'].
    destruct (enc_tree_all t Hw Hs e i He) as (e1 & b1 & E1 & O1 & (D1 & x & b1' & -> & Hx)).
    destruct (IH Hw' Hs' e1 (i + length (flatten t))%nat (proj1 (proj2 O1)))
      as (e2 & b2 & E2 & O2 & Hl & D2).
    exists e2, ((x :: b1') ++ b2). cbn [flat_map].
    rewrite (cbor_run_app _ _ _ _ _ E1). split; [exact E2|].
    split; [eapply enc_ok_trans; eassumption|].
    split; [cbn [app length] in *; rewrite app_length; lia|].
    intros fuel Hf. destruct fuel as [|f]; [lia|]. cbn [length] in Hf.
    cbn [app cbor_decode_all map]. unfold cbor_decode.
    change (x :: b1' ++ b2) with ((x :: b1') ++ b2).
    rewrite (D1 b2 (S (length ((x :: b1') ++ b2)))) by lia.
    rewrite D2 by lia. reflexivity.
Qed.

Theorem C07_cbor_stream_fuel : forall ts, forallb wf_tree ts = true -> forallb tree_small ts = true ->
  exists bs, cbor_encode (flat_map flatten ts) = Some bs /\
    (length ts <= length bs)%nat /\
    forall fuel, (length ts < fuel)%nat ->
      cbor_decode_all fuel bs = Some (map (fun t => cv (value_of t)) ts).
Proof.
  intros ts Hw Hs.
  destruct (run_stream ts Hw Hs (cenc0 None) 0%nat eq_refl) as (e' & bs & E & (_ & _ & B) & Hl & D).
  exists bs. unfold cbor_encode. rewrite E.
  change (w_bytes (ce_w (cenc0 None))) with (@nil Z) in B. cbn [app] in B. rewrite B.
  split; [reflexivity|]. split; assumption.
Qed.
Print Assumptions C07_cbor_stream_fuel.

Theorem C07_cbor_stream : forall ts, forallb wf_tree ts = true -> forallb tree_small ts = true ->
  exists bs, cbor_encode (flat_map flatten ts) = Some bs /\
    cbor_decode_all (S (length bs)) bs = Some (map (fun t => cv (value_of t)) ts).
Proof.
  intros ts Hw Hs.
  destruct (C07_cbor_stream_fuel ts Hw Hs) as (bs & E & Hl & D).
  exists bs. split; [exact E|]. apply D. lia.
Qed.
Print Assumptions C07_cbor_stream.

(* sanity checks of the statements on concrete inputs *)
Example roundtrip_example :
  let t := TObj (-1) BAny
             [([97], false, TArr 2 BAny [TVal (SNum KInt8 (-5)) false; TVal (SStr [104;105]) true]);
              ([98], true, TXArr BByte [SNum KByte 255; SNum KByte 1]);
              ([99], false, TXObj BFloat32 [([100], SNum KFloat32 1065353216)]);
              ([101], false, TArr (-1) BAny [TVal SNil false; TVal (SBool true) false])] in
  wf_tree t = true /\ tree_small t = true /\
  match cbor_encode (flatten t) with
  | Some bs => cbor_decode bs = RValue (cv (value_of t)) []
  | None => False
  end.
Proof. vm_compute. auto. Qed.
