(* C02 for the CBOR parser model: the events and the verdict depend only on the
   concatenated input, not on how it is cut into Write calls; Parse on the whole
   buffer agrees with any sequence of writes followed by end of input. *)
From Coq Require Import List ZArith Bool Lia.
From Coq Require Import ZifyBool ZifyNat ZifyN.
From SF Require Import Base.Prelude Core.Events Cbor.Parse.
Import ListNotations.
Open Scope Z_scope.
Ltac Zify.zify_post_hook ::= Z.div_mod_to_equations.

(* ---------- lists ---------- *)
Lemma zlen_app : forall (a b : bytes), zlen (a ++ b) = zlen a + zlen b.
Proof. intros; unfold zlen; rewrite app_length; lia. Qed.
Lemma zlen_nonneg : forall (a : bytes), 0 <= zlen a.
Proof. intros; unfold zlen; lia. Qed.
Lemma zlen_nil : zlen (@nil Z) = 0.
Proof. reflexivity. Qed.
Lemma zlen_zero : forall (a : bytes), zlen a = 0 -> a = [].
Proof. intros [|x a] H; [reflexivity|]. unfold zlen in H; cbn [length] in H; lia. Qed.
Lemma zlen_pos : forall (a : bytes), a <> [] -> 0 < zlen a.
Proof. intros [|x a] H; [congruence|]. unfold zlen; cbn [length]; lia. Qed.

Lemma zfirstn_app : forall n (a b : bytes),
  zfirstn n (a ++ b) = zfirstn n a ++ zfirstn (n - zlen a) b.
Proof.
  intros; unfold zfirstn, zlen. rewrite (firstn_app (Z.to_nat n) a b).
  f_equal. f_equal. lia.
Qed.
Lemma zskipn_app : forall n (a b : bytes),
  zskipn n (a ++ b) = zskipn n a ++ zskipn (n - zlen a) b.
Proof.
  intros; unfold zskipn, zlen. rewrite (skipn_app (Z.to_nat n) a b).
  f_equal. f_equal. lia.
Qed.
Lemma zfirstn_all : forall n (a : bytes), zlen a <= n -> zfirstn n a = a.
Proof. intros; unfold zfirstn, zlen in *. apply firstn_all2. lia. Qed.
Lemma zskipn_all : forall n (a : bytes), zlen a <= n -> zskipn n a = [].
Proof. intros; unfold zskipn, zlen in *. apply skipn_all2. lia. Qed.
Lemma zfirstn_le0 : forall n (a : bytes), n <= 0 -> zfirstn n a = [].
Proof. intros; unfold zfirstn. replace (Z.to_nat n) with O by lia. reflexivity. Qed.
Lemma zskipn_le0 : forall n (a : bytes), n <= 0 -> zskipn n a = a.
Proof. intros; unfold zskipn. replace (Z.to_nat n) with O by lia. reflexivity. Qed.
Lemma zlen_zfirstn : forall n (a : bytes), 0 <= n <= zlen a -> zlen (zfirstn n a) = n.
Proof. intros; unfold zfirstn, zlen in *. rewrite firstn_length. lia. Qed.

(* ---------- records ---------- *)
Lemma set_buf_same : forall p, set_buf p (p_buf p) = p.
Proof. intros []; reflexivity. Qed.
Lemma set_buf_nil_same : forall p, p_buf p = [] -> set_buf p [] = p.
Proof. intros [] H; cbn in H; subst; reflexivity. Qed.
Lemma set_err_same : forall p, p_err p = 0 -> set_err p 0 = p.
Proof. intros [] H; cbn in H; subst; reflexivity. Qed.

(* ---------- collect ---------- *)
(* the buffer is empty, or holds a proper non-empty prefix of the wanted token *)
Definition bufok (p : cparser) (count : Z) : Prop :=
  p_buf p = [] \/ (0 < zlen (p_buf p) /\ zlen (p_buf p) < count).

(* collect in terms of the virtual input  buffer ++ slice *)
Definition collect_s (p : cparser) (a : bytes) (count : Z) : cres :=
  if count <? 0 then CCrash
  else if zlen (p_buf p) + zlen a >=? count then
    CR (set_buf p []) (zskipn (count - zlen (p_buf p)) a) (Some (zfirstn count (p_buf p ++ a)))
  else CR (set_buf p (p_buf p ++ a)) [] None.

Lemma collect_spec : forall p a count, bufok p count -> collect p a count = collect_s p a count.
Proof.
  intros p a count [Hb | [Hb1 Hb2]]; unfold collect, collect_s.
  - rewrite Hb. cbn [app]. rewrite zlen_nil.
    replace (0 >? 0) with false by reflexivity.
    destruct (count <? 0) eqn:E1; [reflexivity|].
    replace (0 + zlen a) with (zlen a) by lia.
    destruct (zlen a >=? count) eqn:E2; [|reflexivity].
    rewrite <- Hb at 1. rewrite set_buf_same, Z.sub_0_r. reflexivity.
  - replace (zlen (p_buf p) >? 0) with true by lia.
    replace (count - zlen (p_buf p) >? 0) with true by lia.
    replace (count <? 0) with false by lia.
    pose proof (zlen_nonneg a) as Ha.
    destruct (count - zlen (p_buf p) >? zlen a) eqn:E1.
    + replace (zlen (p_buf p) + zlen a >=? count) with false by lia. reflexivity.
    + replace (zlen (p_buf p) + zlen a >=? count) with true by lia.
      cbn [p_buf set_buf].
      assert (Hl : zlen (p_buf p ++ zfirstn (count - zlen (p_buf p)) a) = count).
      { rewrite zlen_app, zlen_zfirstn; lia. }
      rewrite Hl. replace (count >=? count) with true by lia.
      replace (count <? 0) with false by lia. rewrite Z.eqb_refl.
      f_equal. f_equal.
      rewrite (zfirstn_all count (p_buf p ++ zfirstn _ a)) by lia.
      rewrite (zfirstn_app count (p_buf p) a).
      rewrite (zfirstn_all count (p_buf p)) by lia. reflexivity.
Qed.

Lemma collect_some_app : forall p a b count p1 rest t,
  bufok p count -> collect p a count = CR p1 rest (Some t) ->
  collect p (a ++ b) count = CR p1 (rest ++ b) (Some t) /\ p1 = set_buf p [].
Proof.
  intros p a b count p1 rest t Hb H.
  rewrite (collect_spec p (a ++ b) count Hb). rewrite (collect_spec p a count Hb) in H.
  unfold collect_s in *.
  destruct (count <? 0) eqn:E1; [discriminate|].
  destruct (zlen (p_buf p) + zlen a >=? count) eqn:E2; [|discriminate].
  inversion H; subst p1 rest t; clear H.
  rewrite zlen_app. pose proof (zlen_nonneg b).
  replace (zlen (p_buf p) + (zlen a + zlen b) >=? count) with true by lia.
  split; [|reflexivity]. f_equal.
  - rewrite (zskipn_app _ a b). f_equal. apply zskipn_le0. lia.
  - f_equal. rewrite (app_assoc (p_buf p) a b).
    rewrite (zfirstn_app count (p_buf p ++ a) b).
    rewrite (zfirstn_le0 (count - zlen (p_buf p ++ a)) b) by (rewrite zlen_app; lia).
    rewrite app_nil_r. reflexivity.
Qed.

Lemma collect_none_app : forall p a b count p1 rest,
  bufok p count -> collect p a count = CR p1 rest None ->
  rest = [] /\ p1 = set_buf p (p_buf p ++ a) /\ bufok p1 count /\
  collect p1 b count = collect p (a ++ b) count.
Proof.
  intros p a b count p1 rest Hb H.
  rewrite (collect_spec p (a ++ b) count Hb). rewrite (collect_spec p a count Hb) in H.
  unfold collect_s in H.
  destruct (count <? 0) eqn:E1; [discriminate|].
  destruct (zlen (p_buf p) + zlen a >=? count) eqn:E2; [discriminate|].
  inversion H; subst p1 rest; clear H.
  assert (Hb1 : bufok (set_buf p (p_buf p ++ a)) count).
  { unfold bufok. cbn [p_buf set_buf].
    destruct (p_buf p ++ a) as [|x l] eqn:E; [left; reflexivity|right].
    rewrite <- E. rewrite zlen_app. split; [|lia].
    rewrite <- zlen_app, E. unfold zlen; cbn [length]; lia. }
  split; [reflexivity|]. split; [reflexivity|]. split; [exact Hb1|].
  rewrite (collect_spec _ b count Hb1).
  unfold collect_s. rewrite E1. cbn [p_buf set_buf].
  rewrite !zlen_app. rewrite <- Z.add_assoc.
  destruct (zlen (p_buf p) + (zlen a + zlen b) >=? count) eqn:E3.
  - f_equal.
    + rewrite (zskipn_app _ a b). rewrite (zskipn_all _ a) by lia. cbn [app].
      f_equal. lia.
    + rewrite <- app_assoc. reflexivity.
  - rewrite <- app_assoc. reflexivity.
Qed.

(* ---------- exec_step, state by state ---------- *)
Definition maj (p : cparser) : Z := c_major (p_cur p).

Ltac eval_eqb :=
  repeat match goal with
  | |- context [?a =? ?b] =>
      let v := eval vm_compute in (a =? b) in
      match v with true => idtac | false => idtac end; change (a =? b) with v
  end.
Ltac ex_tac := intros p s b H; unfold maj in H; unfold exec_step; rewrite H; reflexivity.

Lemma ex_value : forall p s b, maj p = stValue -> exec_step p s b = step_value p s b.
Proof. ex_tac. Qed.
Lemma ex_len : forall p s b, maj p = stLen -> exec_step p s b = step_len p s b.
Proof. ex_tac. Qed.
Lemma ex_uint : forall p s b, maj p = mUint -> exec_step p s b = step_num false p s b.
Proof. ex_tac. Qed.
Lemma ex_neg : forall p s b, maj p = mNeg -> exec_step p s b = step_num true p s b.
Proof. ex_tac. Qed.
Lemma ex_f32 : forall p s b, maj p = 250 -> exec_step p s b = step_float 4 p s b.
Proof. ex_tac. Qed.
Lemma ex_f64 : forall p s b, maj p = 251 -> exec_step p s b = step_float 8 p s b.
Proof. ex_tac. Qed.
Lemma ex_bytes : forall p s b, maj p = mBytes -> exec_step p s b = step_bytes p s b.
Proof. ex_tac. Qed.
Lemma ex_text : forall p s b, maj p = mText -> exec_step p s b = step_text p s b.
Proof. ex_tac. Qed.
Lemma ex_arr : forall p s b, maj p = mArr -> exec_step p s b = step_array p s b.
Proof. ex_tac. Qed.
Lemma ex_map : forall p s b, maj p = mMap -> exec_step p s b = step_map p s b.
Proof. ex_tac. Qed.
Lemma ex_key : forall p s b, maj p = stKey -> exec_step p s b = step_key p s b.
Proof. ex_tac. Qed.
Lemma ex_elem : forall p s b, maj p = stElem -> exec_step p s b = step_value (st_pop p) s b.
Proof. ex_tac. Qed.

Lemma ex_bytesx : forall p s b, maj p = mBytes + stStartX ->
  exec_step p s b =
    if p_lcur p =? 0 then
      let '(s1, err) := vis s (EArrStart 0 BByte) in
      if isnil err then
        let '(s2, err2) := vis s1 EArrEnd in
        let p1 := len_pop p in
        if isnil err2 then
          match pop_state p1 s2 with
          | Some (p2, s3, d, e) => SR p2 s3 b d e
          | None => Crash 97
          end
        else SR p1 s2 b false err2
      else SR p s1 b false err
    else
      let p1 := clear_startx p in
      if zlen b =? 0 then SR p1 s b false nilE else step_bytes p1 s b.
Proof. ex_tac. Qed.

Lemma ex_textx : forall p s b, maj p = mText + stStartX ->
  exec_step p s b =
    if p_lcur p =? 0 then
      let p1 := len_pop p in
      let '(s1, err) := vis s (EVal (SStr [])) in
      if isnil err then
        match pop_state p1 s1 with
        | Some (p2, s2, d, e) => SR p2 s2 b d e
        | None => Crash 98
        end
      else SR p1 s1 b false err
    else
      let p1 := clear_startx p in
      if zlen b =? 0 then SR p1 s b false nilE else step_text p1 s b.
Proof. ex_tac. Qed.

Lemma ex_arrx : forall p s b, maj p = mArr + stStartX ->
  exec_step p s b =
    let '(s1, err) := vis s (EArrStart (p_lcur p) BAny) in
    if isnil err then step_array (st_pop p) s1 b else SR p s1 b false err.
Proof. ex_tac. Qed.

Lemma ex_mapx : forall p s b, maj p = mMap + stStartX ->
  exec_step p s b =
    let '(s1, err) := vis s (EObjStart (p_lcur p) BAny) in
    if isnil err then step_map (st_pop p) s1 b else SR p s1 b false err.
Proof. ex_tac. Qed.

Definition indef_body (isarr : bool) (p1 : cparser) (s1 : sink) (b : bytes) : sres :=
  match b with
  | [] => Crash (if isarr then 11 else 12)
  | b0 :: r =>
      if b0 =? 255 then
        let '(s2, err2) := vis s1 (if isarr then EArrEnd else EObjEnd) in
        if isnil err2 then
          match pop_state p1 s2 with
          | Some (p2, s3, d, e) => SR p2 s3 r d e
          | None => Crash (if isarr then 99 else 100)
          end
        else SR p1 s2 r false err2
      else if isarr then step_value p1 s1 b else init_map_key p1 s1 b
  end.

Lemma ex_arri : forall p s b, maj p = mArr + stIndef -> exec_step p s b = indef_body true p s b.
Proof. intros p s b H; unfold maj in H; unfold exec_step; rewrite H; destruct b; reflexivity. Qed.
Lemma ex_mapi : forall p s b, maj p = mMap + stIndef -> exec_step p s b = indef_body false p s b.
Proof. intros p s b H; unfold maj in H; unfold exec_step; rewrite H; destruct b; reflexivity. Qed.
Lemma ex_arrxi : forall p s b, maj p = mArr + stStartX + stIndef ->
  exec_step p s b =
    let '(s1, err) := vis s (EArrStart (-1) BAny) in
    if isnil err then indef_body true (st_pop p) s1 b else SR p s1 b false err.
Proof.
  intros p s b H; unfold maj in H; unfold exec_step; rewrite H.
  eval_eqb. cbv beta iota zeta. cbn [orb].
  destruct (vis s (EArrStart (-1) BAny)) as [s1 err]. destruct (isnil err), b; reflexivity.
Qed.
Lemma ex_mapxi : forall p s b, maj p = mMap + stStartX + stIndef ->
  exec_step p s b =
    let '(s1, err) := vis s (EObjStart (-1) BAny) in
    if isnil err then indef_body false (st_pop p) s1 b else SR p s1 b false err.
Proof.
  intros p s b H; unfold maj in H; unfold exec_step; rewrite H.
  eval_eqb. cbv beta iota zeta. cbn [orb].
  destruct (vis s (EObjStart (-1) BAny)) as [s1 err]. destruct (isnil err), b; reflexivity.
Qed.

Lemma ex_keyx : forall p s b, maj p = stKey + stStartX ->
  exec_step p s b =
    if p_lcur p =? 0 then
      let '(s1, err) := vis s (EKey []) in
      if isnil err then SR (set_cur (len_pop p) (mkst stElem (c_minor (p_cur p)))) s1 b false nilE
      else SR p s1 b false err
    else step_key (clear_startx p) s b.
Proof. ex_tac. Qed.

(* ---------- the feed loop without fuel ---------- *)
(* states in which feedUntil goes on although the input is used up *)
Definition startx (p : cparser) : bool :=
  Z.land (c_major (p_cur p)) (stStartX + stIndef) =? stStartX.

Definition fres := (cparser * sink * Z)%type.

(* [R p s b r]: the loop of feed/feedUntil started on [exec_step p s b] ends with r *)
Inductive R : cparser -> sink -> bytes -> fres -> Prop :=
| R_err : forall p s b p1 s1 rest d e,
    exec_step p s b = SR p1 s1 rest d e -> e <> nilE -> R p s b (p1, s1, e)
| R_more : forall p s b p1 s1 rest d r,
    exec_step p s b = SR p1 s1 rest d nilE -> rest <> [] -> R p1 s1 rest r -> R p s b r
| R_stut : forall p s b p1 s1 r,
    exec_step p s b = SR p1 s1 [] false nilE -> startx p1 = true -> R p1 s1 [] r -> R p s b r
| R_stop : forall p s b p1 s1 d,
    exec_step p s b = SR p1 s1 [] d nilE -> d = true \/ startx p1 = false ->
    R p s b (p1, s1, nilE).

(* p.feed(b) *)
Definition Feed (p : cparser) (s : sink) (b : bytes) (r : fres) : Prop :=
  (b = [] /\ r = (p, s, nilE)) \/ (b <> [] /\ R p s b r).

Lemma isnil_true : forall e, isnil e = true <-> e = nilE.
Proof. intros; unfold isnil; apply Z.eqb_eq. Qed.
Lemma isnil_false : forall e, isnil e = false <-> e <> nilE.
Proof. intros; unfold isnil; apply Z.eqb_neq. Qed.

Lemma R_congr : forall p s b p' s' b' r,
  exec_step p s b = exec_step p' s' b' -> R p s b r -> R p' s' b' r.
Proof.
  intros p s b p' s' b' r E H. inversion H; subst; rewrite E in *.
  - eapply R_err; eauto.
  - eapply R_more; eauto.
  - eapply R_stut; eauto.
  - eapply R_stop; eauto.
Qed.

Lemma R_det : forall p s b r, R p s b r -> forall r', R p s b r' -> r = r'.
Proof.
  induction 1 as [p s b p1 s1 rest d e E Hn | p s b p1 s1 rest d r E Hr _ IH
                 | p s b p1 s1 r E Hx _ IH | p s b p1 s1 d E Hd];
    intros r' H'; inversion H'; subst;
    match goal with H : exec_step _ _ _ = _ |- _ => rewrite E in H; inversion H; subst end;
    try congruence; auto;
    try (match goal with H : _ \/ _ |- _ => destruct H; congruence end).
Qed.

Lemma Feed_det : forall p s b r r', Feed p s b r -> Feed p s b r' -> r = r'.
Proof.
  intros p s b r r' [[H1 H2]|[H1 H2]] [[H3 H4]|[H3 H4]]; try congruence.
  eapply R_det; eauto.
Qed.

(* what happens after feedUntil returned (rest, done, err) inside feed *)
Definition after_fu (p1 : cparser) (s1 : sink) (rest : bytes) (e : Z) (r : fres) : Prop :=
  (e <> nilE /\ r = (p1, s1, e)) \/
  (e = nilE /\ rest = [] /\ r = (p1, s1, nilE)) \/
  (e = nilE /\ rest <> [] /\ R p1 s1 rest r).

Lemma feed_until_sound : forall n p s b p1 s1 rest d e,
  feed_until n p s b = Ok (SR p1 s1 rest d e) ->
  forall r, after_fu p1 s1 rest e r -> R p s b r.
Proof.
  induction n as [|n IH]; intros p s b p1 s1 rest d e H r K; [discriminate|].
  cbn [feed_until] in H.
  destruct (exec_step p s b) as [pa sa ra da ea|w] eqn:E; [|discriminate].
  destruct (da || negb (isnil ea)) eqn:E1.
  - inversion H; subst; clear H.
    destruct K as [[K1 K2]|[[K1 [K2 K3]]|[K1 [K2 K3]]]]; subst.
    + eapply R_err; eauto.
    + eapply R_stop; eauto. left. rewrite (proj2 (isnil_true nilE) eq_refl) in E1.
      destruct d; [reflexivity|discriminate].
    + eapply R_more; eauto.
  - apply orb_false_iff in E1. destruct E1 as [Ed En]. subst da.
    apply negb_false_iff, isnil_true in En. subst ea.
    match type of H with (if ?c then _ else _) = _ => destruct c eqn:Ec end.
    + specialize (IH _ _ _ _ _ _ _ _ H r K).
      destruct ra as [|x ra].
      * eapply R_stut; [exact E|exact Ec|exact IH].
      * eapply R_more; [exact E|discriminate|exact IH].
    + inversion H; subst; clear H.
      apply orb_false_iff in Ec. destruct Ec as [Ec1 Ec2].
      apply negb_false_iff, Z.eqb_eq, zlen_zero in Ec1. subst rest.
      destruct K as [[K1 K2]|[[K1 [K2 K3]]|[K1 [K2 K3]]]]; subst; try congruence.
      eapply R_stop; eauto.
Qed.

Lemma feed_sound : forall n p s b r, feed n p s b = Ok r -> Feed p s b r.
Proof.
  induction n as [|n IH]; intros p s b r H; [discriminate|].
  cbn [feed] in H.
  destruct (zlen b >? 0) eqn:Eb.
  - assert (Hb : b <> []) by (intro; subst; discriminate).
    right; split; [exact Hb|].
    destruct (feed_until (feed_fuel b) p s b) as [[p1 s1 rest d e|w]|?|?|] eqn:E; try discriminate.
    eapply feed_until_sound; [exact E|].
    destruct (isnil e) eqn:Ee.
    + apply isnil_true in Ee. subst e. apply IH in H. destruct H as [[H1 H2]|[H1 H2]].
      * right; left; auto.
      * right; right; auto.
    + apply isnil_false in Ee. inversion H; subst. left; auto.
  - inversion H; subst. left. split; [|reflexivity].
    apply zlen_zero. pose proof (zlen_nonneg b). lia.
Qed.

(* ---------- one step on a ++ b versus the same step on a ---------- *)
(* the step on the longer input does the same and leaves b unread; after an
   error only the visitor and the error matter *)
Definition ext (b : bytes) (r r' : sres) : Prop :=
  match r with
  | Crash _ => True
  | SR p1 s1 rest d e =>
      match r' with
      | Crash _ => False
      | SR p2 s2 rest' d' e' =>
          s1 = s2 /\ e = e' /\ (e = nilE -> p1 = p2 /\ d = d' /\ rest' = rest ++ b)
      end
  end.

Lemma ext_same : forall b p s rest d e, ext b (SR p s rest d e) (SR p s (rest ++ b) d e).
Proof. intros; cbn [ext]; auto. Qed.
Lemma ext_err : forall b p s rest d e p' rest' d',
  e <> nilE -> ext b (SR p s rest d e) (SR p' s rest' d' e).
Proof. intros; cbn [ext]; repeat split; auto; congruence. Qed.
Lemma ext_crash : forall b w r, ext b (Crash w) r.
Proof. intros; exact I. Qed.

Ltac bm :=
  match goal with
  | |- context [match ?x with _ => _ end] => destruct x eqn:?
  end.
Ltac ext_solve :=
  first [ apply ext_crash | apply ext_same
        | apply ext_err; first [ assumption | discriminate
                               | (intro; subst; discriminate)
                               | (apply isnil_false; assumption) ] ].

Lemma after_value_ext : forall b p s rest e,
  ext b (after_value p s rest e) (after_value p s (rest ++ b) e).
Proof. intros; unfold after_value; repeat bm; ext_solve. Qed.
Lemma after_pop_ext : forall b p s rest e,
  ext b (after_pop p s rest e) (after_pop p s (rest ++ b) e).
Proof. intros; unfold after_pop; repeat bm; ext_solve. Qed.

Lemma init_byte_seq_ext : forall b p s major minor rest,
  ext b (init_byte_seq p s major minor rest) (init_byte_seq p s major minor (rest ++ b)).
Proof. intros; unfold init_byte_seq; repeat bm; ext_solve. Qed.
Lemma init_sub_ext : forall b p s major minor rest,
  ext b (init_sub p s major minor rest) (init_sub p s major minor (rest ++ b)).
Proof. intros; unfold init_sub; repeat bm; ext_solve. Qed.

Lemma step_value_ext : forall b p s a, a <> [] ->
  ext b (step_value p s a) (step_value p s (a ++ b)).
Proof.
  intros b p s [|a0 ar] Ha; [congruence|]. cbn [app]. unfold step_value.
  repeat (first [ apply after_value_ext | apply init_byte_seq_ext | apply init_sub_ext
                | ext_solve | bm ]).
Qed.

Lemma init_map_key_ext : forall b p s a, a <> [] ->
  ext b (init_map_key p s a) (init_map_key p s (a ++ b)).
Proof.
  intros b p s [|a0 ar] Ha; [congruence|]. cbn [app]. unfold init_map_key.
  repeat (first [ apply init_byte_seq_ext | ext_solve | bm ]).
Qed.

(* ---------- reachable parser states ---------- *)
Definition cfg (p : cparser) : list cstate := p_cur p :: p_stack p.

Definition is_sub (m : Z) : Prop :=
  m = mArr \/ m = mMap \/ m = mArr + stIndef \/ m = mMap + stIndef.

(* a stack of open containers over the top-level stValue *)
Inductive ctxs : list cstate -> Prop :=
| ctxs_base : forall c, c_major c = stValue -> ctxs [c]
| ctxs_sub : forall c l, is_sub (c_major c) -> ctxs l -> ctxs (c :: l).

Definition leafm (m : Z) : Prop :=
  m = mUint \/ m = mNeg \/ m = 250 \/ m = 251 \/ m = mBytes \/ m = mText \/
  m = mBytes + stStartX \/ m = mText + stStartX \/
  m = stKey \/ m = stKey + stStartX \/ m = stElem.

Definition lenable (l : list cstate) : Prop :=
  match l with
  | c :: _ => c_major c = mBytes + stStartX \/ c_major c = mText + stStartX \/
              c_major c = stKey + stStartX \/ c_major c = mArr + stStartX \/
              c_major c = mMap + stStartX
  | [] => False
  end.

Inductive shape : list cstate -> Prop :=
| sh_ctx : forall l, ctxs l -> shape l
| sh_leaf : forall c l, leafm (c_major c) -> ctxs l -> shape (c :: l)
| sh_subx : forall c c2 l, is_sub (c_major c2) -> c_major c = c_major c2 + stStartX ->
    ctxs (c2 :: l) -> shape (c :: c2 :: l)
| sh_len : forall c l, c_major c = stLen -> lenable l -> shape l -> shape (c :: l).

(* the size of the token being collected in the current state *)
Definition count_of (p : cparser) : Z :=
  let m := c_major (p_cur p) in
  let n := c_minor (p_cur p) in
  if (m =? mUint) || (m =? mNeg) || (m =? stLen) then
    if (n =? 25) || (n =? 26) || (n =? 27) then 2 ^ (n - 24) else 0
  else if m =? 250 then 4 else if m =? 251 then 8
  else if (m =? mText) || (m =? stKey) then p_lcur p else 0.

Definition Inv (p : cparser) : Prop :=
  p_err p = 0 /\ shape (cfg p) /\ bufok p (count_of p).
(* between two tokens *)
Definition InvE (p : cparser) : Prop :=
  p_err p = 0 /\ shape (cfg p) /\ p_buf p = [].
(* in a context state *)
Definition InvC (p : cparser) : Prop :=
  p_err p = 0 /\ ctxs (cfg p) /\ p_buf p = [].

Lemma InvE_Inv : forall p, InvE p -> Inv p.
Proof. intros p (H1 & H2 & H3). repeat split; auto. left; auto. Qed.
Lemma InvC_InvE : forall p, InvC p -> InvE p.
Proof. intros p (H1 & H2 & H3). repeat split; auto. apply sh_ctx; auto. Qed.

Ltac pc := cbn [cfg p_cur p_stack p_lcur p_lstack p_buf p_err st_pop len_pop set_lcur
                set_cur set_buf set_err st_push len_push clear_startx c_major c_minor mkst] in *.

Lemma ctxs_nonempty : forall l, ctxs l -> exists c l', l = c :: l'.
Proof. intros l H; inversion H; eauto. Qed.
Lemma ctxs_tail : forall c l, ctxs (c :: l) -> c_major c <> stValue ->
  ctxs l /\ exists c' l', l = c' :: l'.
Proof.
  intros c l H Hn. inversion H; subst; [congruence|].
  split; [assumption|]. apply ctxs_nonempty; assumption.
Qed.
Lemma ctxs_head : forall c l, ctxs (c :: l) -> c_major c = stValue \/ is_sub (c_major c).
Proof. intros c l H; inversion H; auto. Qed.
Lemma ctxs_notfail : forall c l, ctxs (c :: l) -> (c_major c =? stFail) = false.
Proof.
  intros c l H. apply ctxs_head in H. unfold is_sub in H.
  destruct H as [H|[H|[H|[H|H]]]]; rewrite H; reflexivity.
Qed.

(* projections through the stack operations *)
Lemma len_pop_proj : forall p,
  p_cur (len_pop p) = p_cur p /\ p_stack (len_pop p) = p_stack p /\
  p_buf (len_pop p) = p_buf p /\ p_err (len_pop p) = p_err p.
Proof. intros p; unfold len_pop; destruct (p_lstack p); pc; auto. Qed.
Lemma len_pop_set_lcur : forall p x, len_pop (set_lcur p x) = len_pop p.
Proof. intros p x; unfold len_pop; pc; destruct (p_lstack p); reflexivity. Qed.

Lemma InvC_len_pop : forall p, InvC p -> InvC (len_pop p).
Proof.
  intros p (H1 & H2 & H3). destruct (len_pop_proj p) as (A & B & C & D).
  unfold InvC, cfg in *. rewrite A, B, C, D. auto.
Qed.
Lemma InvC_set_lcur : forall p x, InvC p -> InvC (set_lcur p x).
Proof. intros p x H; exact H. Qed.

(* popping the state above a context *)
Lemma InvC_st_pop : forall p c l,
  p_err p = 0 -> p_buf p = [] -> cfg p = c :: l -> ctxs l -> InvC (st_pop p).
Proof.
  intros [cur st lc ls bf er] c l He Hb Hc Hl. pc. inversion Hc; subst.
  destruct (ctxs_nonempty _ Hl) as (c' & l' & ->). pc. repeat split; auto.
Qed.

Lemma on_value_inv : forall n p s p1 s1 d e,
  InvC p -> on_value n p s = Some (p1, s1, d, e) -> InvC p1.
Proof.
  induction n as [|n IH]; intros p s p1 s1 d e HI H; [discriminate|].
  cbn [on_value] in H. cbv zeta in H.
  destruct ((c_major (p_cur p) =? mArr) || (c_major (p_cur p) =? mMap)) eqn:E1.
  - destruct (p_lcur (set_lcur p (p_lcur p - 1)) >? 0).
    + inversion H; subst. apply InvC_set_lcur; assumption.
    + destruct (vis s _) as [s2 err]. destruct (isnil err).
      * apply IH in H; [assumption|].
        rewrite len_pop_set_lcur.
        destruct HI as (H1 & H2 & H3). destruct (len_pop_proj p) as (A & B & C & D).
        unfold cfg in H2.
        destruct (ctxs_tail _ _ H2) as [Ht _].
        { apply orb_true_iff in E1. destruct E1 as [E1|E1]; apply Z.eqb_eq in E1;
            rewrite E1; discriminate. }
        eapply InvC_st_pop; try congruence. unfold cfg. rewrite A, B. reflexivity. exact Ht.
      * inversion H; subst. apply InvC_set_lcur; assumption.
  - destruct ((c_major (p_cur p) =? mArr + stIndef) || (c_major (p_cur p) =? mMap + stIndef));
      inversion H; subst; assumption.
Qed.

Lemma pop_state_inv : forall p s c l p1 s1 d e,
  p_err p = 0 -> p_buf p = [] -> cfg p = c :: l -> ctxs l ->
  pop_state p s = Some (p1, s1, d, e) -> InvC p1.
Proof.
  intros p s c l p1 s1 d e He Hb Hc Hl H. unfold pop_state in H.
  eapply on_value_inv; [|exact H]. eapply InvC_st_pop; eauto.
Qed.

Ltac bmH H :=
  match type of H with
  | context [match ?x with _ => _ end] => destruct x eqn:?
  end.
Ltac boolprop :=
  repeat match goal with
  | H : (_ || _) = true |- _ => apply orb_true_iff in H; destruct H as [H|H]
  | H : (_ =? _) = true |- _ => apply Z.eqb_eq in H
  | H : isnil _ = true |- _ => apply isnil_true in H
  | H : isnil _ = false |- _ => apply isnil_false in H
  | H : negb _ = true |- _ => apply negb_true_iff in H
  | H : negb _ = false |- _ => apply negb_false_iff in H
  end.
Ltac invSR H := inversion H; subst; clear H.

Lemma after_value_inv : forall p s rest e p1 s1 rest' d e',
  InvC p -> after_value p s rest e = SR p1 s1 rest' d e' -> InvC p1.
Proof.
  intros p s rest e p1 s1 rest' d e' HI H. unfold after_value in H.
  destruct (isnil e).
  - destruct (on_value (depth_fuel p) p s) as [[[[p2 s2] d2] e2]|] eqn:E; [|discriminate].
    invSR H. eapply on_value_inv; eauto.
  - invSR H. assumption.
Qed.

Lemma after_pop_inv : forall p s rest e c l p1 s1 rest' d e',
  p_err p = 0 -> p_buf p = [] -> cfg p = c :: l -> ctxs l ->
  after_pop p s rest e = SR p1 s1 rest' d e' -> e' = nilE -> InvC p1.
Proof.
  intros p s rest e c l p1 s1 rest' d e' He Hb Hc Hl H Hn. unfold after_pop in H.
  destruct (isnil e) eqn:Ee.
  - destruct (pop_state p s) as [[[[p2 s2] d2] e2]|] eqn:E; [|discriminate].
    invSR H. eapply pop_state_inv; eauto.
  - invSR H. discriminate.
Qed.

Lemma cfg_push : forall p n, ctxs (cfg p) -> cfg (st_push p n) = n :: cfg p.
Proof.
  intros p n H. unfold cfg in *. pc. rewrite (ctxs_notfail _ _ H). reflexivity.
Qed.

Lemma push_leaf : forall p m n, InvC p -> leafm m -> InvE (st_push p (mkst m n)).
Proof.
  intros p m n (H1 & H2 & H3) Hm. repeat split; auto.
  rewrite cfg_push by assumption. apply sh_leaf; assumption.
Qed.
Lemma push_sub : forall p m n, InvC p -> is_sub m -> InvC (st_push p (mkst m n)).
Proof.
  intros p m n (H1 & H2 & H3) Hm. repeat split; auto.
  rewrite cfg_push by assumption. apply ctxs_sub; assumption.
Qed.
Lemma push_subx : forall p n, InvC p -> is_sub (maj p) ->
  InvE (st_push p (mkst (maj p + stStartX) n)).
Proof.
  intros p n (H1 & H2 & H3) Hm. repeat split; auto.
  rewrite cfg_push by assumption. unfold cfg in *. apply sh_subx; auto.
Qed.
Lemma push_len : forall p n, InvE p -> lenable (cfg p) -> InvE (st_push p (mkst stLen n)).
Proof.
  intros p n (H1 & H2 & H3) Hm. repeat split; auto.
  assert (E : cfg (st_push p (mkst stLen n)) = mkst stLen n :: cfg p).
  { unfold cfg in *. pc. cbn [lenable] in Hm.
    destruct Hm as [H|[H|[H|[H|H]]]]; rewrite H; reflexivity. }
  rewrite E. apply sh_len; auto.
Qed.
Lemma InvE_len_push : forall p x, InvE p -> InvE (len_push p x).
Proof. intros p x H; exact H. Qed.

Lemma lenable_push : forall p m n, ctxs (cfg p) ->
  m = mBytes \/ m = mText \/ m = stKey \/ m = mArr \/ m = mMap ->
  lenable (cfg (st_push p (mkst (m + stStartX) n))).
Proof.
  intros p m n H Hm. rewrite cfg_push by assumption. cbn [lenable c_major mkst].
  destruct Hm as [H0|[H0|[H0|[H0|H0]]]]; subst m; auto 6.
Qed.

Lemma init_byte_seq_inv : forall p s major minor b p1 s1 rest d e,
  InvC p -> major = mBytes \/ major = mText \/ major = stKey ->
  init_byte_seq p s major minor b = SR p1 s1 rest d e -> e = nilE -> InvE p1.
Proof.
  intros p s major minor b p1 s1 rest d e HI Hm H He. unfold init_byte_seq in H.
  assert (Hl : leafm (major + stStartX)).
  { unfold leafm. destruct Hm as [?|[?|?]]; subst major; auto 12. }
  assert (Hm' : major = mBytes \/ major = mText \/ major = stKey \/ major = mArr \/ major = mMap)
    by (destruct Hm as [?|[?|?]]; auto).
  destruct (minor <? 24).
  - invSR H. apply InvE_len_push. apply push_leaf; assumption.
  - destruct (minor >? 27); invSR H; [discriminate|].
    apply push_len; [apply push_leaf; assumption|].
    apply lenable_push; [apply HI|assumption].
Qed.

Lemma maj_push : forall p m n, maj (st_push p (mkst m n)) = m.
Proof. reflexivity. Qed.

Lemma init_sub_inv : forall p s major minor b p1 s1 rest d e,
  InvC p -> major = mArr \/ major = mMap ->
  init_sub p s major minor b = SR p1 s1 rest d e -> e = nilE -> InvE p1.
Proof.
  intros p s major minor b p1 s1 rest d e HI Hm H He. unfold init_sub in H.
  assert (Hs : is_sub major) by (unfold is_sub; destruct Hm; auto).
  assert (Hs' : is_sub (major + stIndef)) by (unfold is_sub; destruct Hm; subst; auto).
  assert (Hm' : major = mBytes \/ major = mText \/ major = stKey \/ major = mArr \/ major = mMap)
    by (destruct Hm; auto).
  destruct (minor =? 31).
  - invSR H.
    replace (major + stStartX + stIndef) with (maj (st_push p (mkst (major + stIndef) stStart)) + stStartX)
      by (rewrite maj_push; lia).
    apply push_subx; [apply push_sub; assumption|]. rewrite maj_push. assumption.
  - destruct (minor <? 24).
    + invSR H. apply InvE_len_push.
      replace (major + stStartX) with (maj (st_push p (mkst major stStart)) + stStartX)
        by (rewrite maj_push; lia).
      apply push_subx; [apply push_sub; assumption|]. rewrite maj_push. assumption.
    + destruct (minor >? 27); invSR H; [discriminate|].
      apply push_len.
      * replace (major + stStartX) with (maj (st_push p (mkst major stStart)) + stStartX)
          by (rewrite maj_push; lia).
        apply push_subx; [apply push_sub; assumption|]. rewrite maj_push. assumption.
      * apply lenable_push; [|assumption]. apply (push_sub p major stStart HI Hs).
Qed.

Lemma step_value_inv : forall p s a p1 s1 rest d e,
  InvC p -> step_value p s a = SR p1 s1 rest d e -> e = nilE -> InvE p1.
Proof.
  intros p s a p1 s1 rest d e HI H He. unfold step_value in H.
  destruct a as [|b0 r]; [invSR H; apply InvC_InvE; assumption|].
  repeat (bmH H);
    try (apply after_value_inv in H; [apply InvC_InvE; assumption|assumption]);
    try (eapply init_byte_seq_inv in H; eauto; boolprop; auto; fail);
    try (eapply init_sub_inv in H; eauto; boolprop; auto; fail);
    invSR H; try discriminate;
    boolprop; (apply push_leaf; [assumption|]); unfold leafm;
    repeat match goal with H : _ = _ |- _ => rewrite H end; auto 12.
Qed.

Lemma init_map_key_inv : forall p s a p1 s1 rest d e,
  InvC p -> init_map_key p s a = SR p1 s1 rest d e -> e = nilE -> InvE p1.
Proof.
  intros p s a p1 s1 rest d e HI H He. unfold init_map_key in H.
  destruct a as [|b0 r]; [discriminate|].
  repeat (bmH H); try (invSR H; discriminate).
  eapply init_byte_seq_inv in H; eauto.
Qed.

(* ---------- reading the shape off the current state ---------- *)
Ltac zconst := unfold stFail, stValue, stLen, stStartX, stIndef, mUint, mNeg, mBytes, mText,
  mArr, mMap, mTag, stKey, stElem, stStart, stCont in *.
Ltac splitor := repeat match goal with H : _ \/ _ |- _ => destruct H as [H|H] end.

Ltac shape_contra :=
  exfalso; repeat match goal with H : ctxs (_ :: _) |- _ => apply ctxs_head in H end;
  unfold is_sub, leafm in *; splitor; zconst; lia.

Lemma shape_ctx : forall c l, shape (c :: l) ->
  c_major c = stValue \/ is_sub (c_major c) -> ctxs (c :: l).
Proof. intros c l H Hm. inversion H; subst; auto; shape_contra. Qed.
Lemma shape_leaf : forall c l, shape (c :: l) -> leafm (c_major c) -> ctxs l.
Proof. intros c l H Hm. inversion H; subst; auto; shape_contra. Qed.
Lemma shape_subx : forall c l m, shape (c :: l) -> is_sub m -> c_major c = m + stStartX ->
  exists c2 l', l = c2 :: l' /\ c_major c2 = m /\ ctxs (c2 :: l').
Proof.
  intros c l m H Hm Hc. inversion H; subst; try shape_contra.
  eexists _, _. split; [reflexivity|]. split; [lia|assumption].
Qed.
Lemma shape_len : forall c l, shape (c :: l) -> c_major c = stLen -> lenable l /\ shape l.
Proof. intros c l H Hc. inversion H; subst; auto; shape_contra. Qed.

Lemma count_of_0 : forall p,
  maj p <> mUint -> maj p <> mNeg -> maj p <> stLen -> maj p <> 250 -> maj p <> 251 ->
  maj p <> mText -> maj p <> stKey -> count_of p = 0.
Proof.
  intros p H1 H2 H3 H4 H5 H6 H7. unfold count_of, maj in *. cbv zeta.
  repeat match goal with |- context [?a =? ?b] => destruct (Z.eqb_spec a b); [congruence|] end.
  reflexivity.
Qed.
Lemma bufok_0 : forall p, bufok p 0 -> p_buf p = [].
Proof. intros p [H|[H1 H2]]; [assumption|lia]. Qed.

Lemma Inv_ctx : forall p, Inv p -> maj p = stValue \/ is_sub (maj p) -> InvC p.
Proof.
  intros p (H1 & H2 & H3) Hm. repeat split; auto.
  - apply shape_ctx; assumption.
  - apply bufok_0. rewrite <- (count_of_0 p); [assumption|..];
      unfold is_sub in Hm; splitor; rewrite Hm; zconst; lia.
Qed.

Definition Dich (b : bytes) (r whole : sres) : Prop :=
  match r with
  | Crash _ => True
  | SR p1 s1 rest d e =>
      ext b r whole \/
      (rest = [] /\ d = false /\ e = nilE /\ startx p1 = false /\ exec_step p1 s1 b = whole)
  end.
Lemma Dich_ext : forall b r w, ext b r w -> Dich b r w.
Proof. intros b [] w H; [left; exact H|exact I]. Qed.

(* ----- definite and indefinite containers ----- *)
Lemma InvC_pop_tail : forall p, InvC p -> maj p <> stValue -> exists c l,
  cfg (len_pop p) = c :: l /\ ctxs l /\ p_err (len_pop p) = 0 /\ p_buf (len_pop p) = [].
Proof.
  intros p (H1 & H2 & H3) Hm. destruct (len_pop_proj p) as (A & B & C & D).
  unfold cfg in *. destruct (ctxs_tail _ _ H2 Hm) as [Ht _].
  exists (p_cur p), (p_stack p). rewrite A, B, C, D. auto.
Qed.

Lemma step_array_inv : forall p s a p1 s1 rest d,
  InvC p -> maj p <> stValue -> step_array p s a = SR p1 s1 rest d nilE -> InvE p1.
Proof.
  intros p s a p1 s1 rest d HI Hm H. unfold step_array, handle_len in H.
  destruct (p_lcur p >? 0).
  - eapply step_value_inv; eauto.
  - destruct (vis s EArrEnd) as [s2 err]. destruct (isnil err) eqn:Ee.
    + destruct (pop_state (len_pop p) s2) as [[[[p2 s3] d2] e2]|] eqn:E; [|discriminate].
      invSR H. apply InvC_InvE.
      destruct (InvC_pop_tail p HI Hm) as (c & l & A & B & C & D).
      eapply pop_state_inv; eauto.
    + invSR H. discriminate.
Qed.

Lemma step_map_inv : forall p s a p1 s1 rest d,
  InvC p -> maj p <> stValue -> step_map p s a = SR p1 s1 rest d nilE -> InvE p1.
Proof.
  intros p s a p1 s1 rest d HI Hm H. unfold step_map, handle_len in H.
  destruct (p_lcur p >? 0).
  - destruct (zlen a >? 0).
    + eapply init_map_key_inv; eauto.
    + invSR H. apply InvC_InvE; assumption.
  - destruct (vis s EObjEnd) as [s2 err]. destruct (isnil err) eqn:Ee.
    + destruct (pop_state (len_pop p) s2) as [[[[p2 s3] d2] e2]|] eqn:E; [|discriminate].
      invSR H. apply InvC_InvE.
      destruct (InvC_pop_tail p HI Hm) as (c & l & A & B & C & D).
      eapply pop_state_inv; eauto.
    + invSR H. discriminate.
Qed.

Lemma startx_false : forall p m, maj p = m ->
  (Z.land m (stStartX + stIndef) =? stStartX) = false -> startx p = false.
Proof. intros p m H E. unfold startx. unfold maj in H. rewrite H. exact E. Qed.

Lemma step_array_dich : forall b p s a, maj p = mArr -> b <> [] ->
  Dich b (step_array p s a) (step_array p s (a ++ b)).
Proof.
  intros b p s a Hm Hb.
  destruct (p_lcur p >? 0) eqn:El.
  - assert (W : forall x, step_array p s x = step_value p s x).
    { intro x. unfold step_array, handle_len. rewrite El. reflexivity. }
    rewrite (W a), (W (a ++ b)). destruct a as [|a0 ar].
    + cbn [step_value app]. right. repeat split; auto.
      * eapply startx_false; [exact Hm|reflexivity].
      * rewrite <- W. apply ex_arr; assumption.
    + apply Dich_ext. apply step_value_ext. discriminate.
  - apply Dich_ext. unfold step_array, handle_len. rewrite El.
    destruct (vis s EArrEnd) as [s2 err]. destruct (isnil err) eqn:Ee.
    + destruct (pop_state (len_pop p) s2) as [[[[p2 s3] d2] e2]|]; ext_solve.
    + ext_solve.
Qed.

Lemma step_map_dich : forall b p s a, maj p = mMap -> b <> [] ->
  Dich b (step_map p s a) (step_map p s (a ++ b)).
Proof.
  intros b p s a Hm Hb. unfold step_map at 1. unfold handle_len.
  destruct (p_lcur p >? 0) eqn:El.
  - destruct a as [|a0 ar].
    + cbn [zlen length Z.of_nat app]. replace (0 >? 0) with false by reflexivity.
      right. repeat split; auto.
      * eapply startx_false; [exact Hm|reflexivity].
      * apply ex_map; assumption.
    + replace (zlen (a0 :: ar) >? 0) with true by (unfold zlen; cbn [length]; lia).
      apply Dich_ext. unfold step_map, handle_len. rewrite El.
      replace (zlen ((a0 :: ar) ++ b) >? 0) with true by (unfold zlen; cbn [length app]; lia).
      apply init_map_key_ext. discriminate.
  - apply Dich_ext. unfold step_map, handle_len. rewrite El.
    destruct (vis s EObjEnd) as [s2 err]. destruct (isnil err) eqn:Ee.
    + destruct (pop_state (len_pop p) s2) as [[[[p2 s3] d2] e2]|]; ext_solve.
    + ext_solve.
Qed.

Lemma indef_body_inv : forall isarr p s a p1 s1 rest d,
  InvC p -> maj p <> stValue -> indef_body isarr p s a = SR p1 s1 rest d nilE -> InvE p1.
Proof.
  intros isarr p s a p1 s1 rest d HI Hm H. unfold indef_body in H.
  destruct a as [|b0 r]; [discriminate|].
  destruct (b0 =? 255).
  - destruct (vis s _) as [s2 err]. destruct (isnil err) eqn:Ee.
    + destruct (pop_state p s2) as [[[[p2 s3] d2] e2]|] eqn:E; [|discriminate].
      invSR H. apply InvC_InvE.
      destruct HI as (H1 & H2 & H3). unfold cfg in H2.
      destruct (ctxs_tail _ _ H2 Hm) as [Ht _].
      eapply pop_state_inv; eauto. reflexivity.
    + invSR H. discriminate.
  - destruct isarr.
    + eapply step_value_inv; eauto.
    + eapply init_map_key_inv; eauto.
Qed.

Lemma indef_body_ext : forall b isarr p s a, a <> [] ->
  ext b (indef_body isarr p s a) (indef_body isarr p s (a ++ b)).
Proof.
  intros b isarr p s [|a0 ar] Ha; [congruence|]. unfold indef_body. cbn [app].
  destruct (a0 =? 255).
  - repeat bm; ext_solve.
  - destruct isarr.
    + apply (step_value_ext b p s (a0 :: ar)). discriminate.
    + apply (init_map_key_ext b p s (a0 :: ar)). discriminate.
Qed.

(* ----- token states ----- *)
Lemma Inv_leaf : forall p, Inv p -> leafm (maj p) ->
  p_err p = 0 /\ ctxs (p_stack p) /\ bufok p (count_of p).
Proof.
  intros p (H1 & H2 & H3) Hm. repeat split; auto. eapply shape_leaf; eauto.
Qed.

Lemma leaf_Inv : forall p, p_err p = 0 -> leafm (maj p) -> ctxs (p_stack p) ->
  bufok p (count_of p) -> Inv p.
Proof. intros p H1 H2 H3 H4. repeat split; auto. apply sh_leaf; auto. Qed.

Lemma pop_ready : forall q s p1 s1 d e,
  p_err q = 0 -> p_buf q = [] -> ctxs (p_stack q) ->
  pop_state q s = Some (p1, s1, d, e) -> InvC p1.
Proof. intros. eapply pop_state_inv; eauto. reflexivity. Qed.
Lemma pop_ready_len : forall q s p1 s1 d e,
  p_err q = 0 -> p_buf q = [] -> ctxs (p_stack q) ->
  pop_state (len_pop q) s = Some (p1, s1, d, e) -> InvC p1.
Proof.
  intros q s p1 s1 d e H1 H2 H3 H. destruct (len_pop_proj q) as (A & B & C & D).
  eapply pop_ready; [| | |exact H]; congruence.
Qed.

Lemma count_of_text : forall p, maj p = mText -> count_of p = p_lcur p.
Proof. intros p H; unfold count_of, maj in *; rewrite H; reflexivity. Qed.
Lemma count_of_key : forall p, maj p = stKey -> count_of p = p_lcur p.
Proof. intros p H; unfold count_of, maj in *; rewrite H; reflexivity. Qed.
Lemma count_of_f32 : forall p, maj p = 250 -> count_of p = 4.
Proof. intros p H; unfold count_of, maj in *; rewrite H; reflexivity. Qed.
Lemma count_of_f64 : forall p, maj p = 251 -> count_of p = 8.
Proof. intros p H; unfold count_of, maj in *; rewrite H; reflexivity. Qed.
Lemma count_of_num : forall p, maj p = mUint \/ maj p = mNeg \/ maj p = stLen ->
  count_of p = if (c_minor (p_cur p) =? 25) || (c_minor (p_cur p) =? 26) || (c_minor (p_cur p) =? 27)
               then 2 ^ (c_minor (p_cur p) - 24) else 0.
Proof. intros p H; unfold count_of, maj in *; destruct H as [H|[H|H]]; rewrite H; reflexivity. Qed.

Lemma step_text_inv : forall p s a p1 s1 rest d,
  maj p = mText -> p_err p = 0 -> ctxs (p_stack p) -> bufok p (p_lcur p) ->
  step_text p s a = SR p1 s1 rest d nilE -> Inv p1.
Proof.
  intros p s a p1 s1 rest d Hm He Hc Hb H. unfold step_text in H.
  destruct (collect p a (p_lcur p)) as [p' rest' [t|]|] eqn:E; [..|discriminate].
  - destruct (collect_some_app p a [] _ _ _ _ Hb E) as [_ ->].
    destruct (vis s (EStrRef t)) as [s2 err]. destruct (isnil err) eqn:Ee.
    + destruct (pop_state _ s2) as [[[[p2 s3] d2] e2]|] eqn:E2; [|discriminate].
      invSR H. apply InvE_Inv, InvC_InvE. eapply pop_ready_len; [| | |exact E2]; auto.
    + invSR H. discriminate.
  - destruct (collect_none_app p a [] _ _ _ Hb E) as (-> & -> & Hb1 & _).
    invSR H. apply leaf_Inv; auto.
    + unfold maj in *; pc; rewrite Hm; unfold leafm; auto 12.
    + rewrite count_of_text by exact Hm. exact Hb1.
Qed.

Lemma step_text_dich : forall b p s a, maj p = mText -> bufok p (p_lcur p) ->
  Dich b (step_text p s a) (step_text p s (a ++ b)).
Proof.
  intros b p s a Hm Hb. unfold step_text at 1.
  destruct (collect p a (p_lcur p)) as [p' rest' [t|]|] eqn:E; [..|exact I].
  - apply Dich_ext. destruct (collect_some_app p a b _ _ _ _ Hb E) as [E2 _].
    unfold step_text. rewrite E2.
    destruct (vis s (EStrRef t)) as [s2 err]. destruct (isnil err) eqn:Ee.
    + destruct (pop_state _ s2) as [[[[p2 s3] d2] e2]|]; ext_solve.
    + ext_solve.
  - destruct (collect_none_app p a b _ _ _ Hb E) as (-> & -> & Hb1 & E2).
    right. repeat split; auto.
    + eapply startx_false; [exact Hm|reflexivity].
    + rewrite ex_text by exact Hm. unfold step_text. pc. rewrite E2. reflexivity.
Qed.

Lemma step_key_inv : forall p s a p1 s1 rest d,
  maj p = stKey -> p_err p = 0 -> ctxs (p_stack p) -> bufok p (p_lcur p) ->
  step_key p s a = SR p1 s1 rest d nilE -> Inv p1.
Proof.
  intros p s a p1 s1 rest d Hm He Hc Hb H. unfold step_key in H.
  destruct (collect p a (p_lcur p)) as [p' rest' [t|]|] eqn:E; [..|discriminate].
  - destruct (collect_some_app p a [] _ _ _ _ Hb E) as [_ ->].
    destruct (vis s (EKeyRef t)) as [s2 err]. destruct (isnil err) eqn:Ee.
    + invSR H. apply InvE_Inv.
      destruct (len_pop_proj (set_buf p [])) as (A & B & C & D).
      repeat split; pc; try congruence.
      unfold cfg; pc. rewrite B. pc. apply sh_leaf; [unfold leafm; pc; auto 12|assumption].
    + invSR H. apply isnil_false in Ee. congruence.
  - destruct (collect_none_app p a [] _ _ _ Hb E) as (-> & -> & Hb1 & _).
    invSR H. apply leaf_Inv; auto.
    + unfold maj in *; pc; rewrite Hm; unfold leafm; auto 12.
    + rewrite count_of_key by exact Hm. exact Hb1.
Qed.

Lemma step_key_dich : forall b p s a, maj p = stKey -> bufok p (p_lcur p) ->
  Dich b (step_key p s a) (step_key p s (a ++ b)).
Proof.
  intros b p s a Hm Hb. unfold step_key at 1.
  destruct (collect p a (p_lcur p)) as [p' rest' [t|]|] eqn:E; [..|exact I].
  - apply Dich_ext. destruct (collect_some_app p a b _ _ _ _ Hb E) as [E2 _].
    unfold step_key. rewrite E2.
    destruct (vis s (EKeyRef t)) as [s2 err]. destruct (isnil err) eqn:Ee; ext_solve.
  - destruct (collect_none_app p a b _ _ _ Hb E) as (-> & -> & Hb1 & E2).
    right. repeat split; auto.
    + eapply startx_false; [exact Hm|reflexivity].
    + rewrite ex_key by exact Hm. unfold step_key. pc. rewrite E2. reflexivity.
Qed.
