(* C02 for the CBOR parser model: the events and the verdict depend only on the
   concatenated input, not on how it is cut into Write calls; Parse on the whole
   buffer agrees with any sequence of writes followed by end of input. *)
From Coq Require Import List ZArith Bool Lia.
From Coq Require Import ZifyBool ZifyNat ZifyN.
From SF Require Import Base.Prelude Core.Events Cbor.Parse.
Import ListNotations.
Open Scope Z_scope.
Ltac Zify.zify_post_hook ::= Z.div_mod_to_equations.

(* ---------- lists ---------- *)
Lemma zlen_app : forall (a b : bytes), zlen (a ++ b) = zlen a + zlen b.
Proof. intros; unfold zlen; rewrite app_length; lia. Qed.
Lemma zlen_nonneg : forall (a : bytes), 0 <= zlen a.
Proof. intros; unfold zlen; lia. Qed.
Lemma zlen_nil : zlen (@nil Z) = 0.
Proof. reflexivity. Qed.
Lemma zlen_zero : forall (a : bytes), zlen a = 0 -> a = [].
Proof. intros [|x a] H; [reflexivity|]. unfold zlen in H; cbn [length] in H; lia. Qed.
Lemma zlen_pos : forall (a : bytes), a <> [] -> 0 < zlen a.
Proof. intros [|x a] H; [congruence|]. unfold zlen; cbn [length]; lia. Qed.

Lemma zfirstn_app : forall n (a b : bytes),
  zfirstn n (a ++ b) = zfirstn n a ++ zfirstn (n - zlen a) b.
Proof.
  intros; unfold zfirstn, zlen. rewrite (firstn_app (Z.to_nat n) a b).
  f_equal. f_equal. lia.
Qed.
Lemma zskipn_app : forall n (a b : bytes),
  zskipn n (a ++ b) = zskipn n a ++ zskipn (n - zlen a) b.
Proof.
  intros; unfold zskipn, zlen. rewrite (skipn_app (Z.to_nat n) a b).
  f_equal. f_equal. lia.
Qed.
Lemma zfirstn_all : forall n (a : bytes), zlen a <= n -> zfirstn n a = a.
Proof. intros; unfold zfirstn, zlen in *. apply firstn_all2. lia. Qed.
Lemma zskipn_all : forall n (a : bytes), zlen a <= n -> zskipn n a = [].
Proof. intros; unfold zskipn, zlen in *. apply skipn_all2. lia. Qed.
Lemma zfirstn_le0 : forall n (a : bytes), n <= 0 -> zfirstn n a = [].
Proof. intros; unfold zfirstn. replace (Z.to_nat n) with O by lia. reflexivity. Qed.
Lemma zskipn_le0 : forall n (a : bytes), n <= 0 -> zskipn n a = a.
Proof. intros; unfold zskipn. replace (Z.to_nat n) with O by lia. reflexivity. Qed.
Lemma zlen_zfirstn : forall n (a : bytes), 0 <= n <= zlen a -> zlen (zfirstn n a) = n.
Proof. intros; unfold zfirstn, zlen in *. rewrite firstn_length. lia. Qed.

(* ---------- records ---------- *)
Lemma set_buf_same : forall p, set_buf p (p_buf p) = p.
Proof. intros []; reflexivity. Qed.
Lemma set_buf_nil_same : forall p, p_buf p = [] -> set_buf p [] = p.
Proof. intros [] H; cbn in H; subst; reflexivity. Qed.
Lemma set_err_same : forall p, p_err p = 0 -> set_err p 0 = p.
Proof. intros [] H; cbn in H; subst; reflexivity. Qed.

(* ---------- collect ---------- *)
(* the buffer is empty, or holds a proper non-empty prefix of the wanted token *)
Definition bufok (p : cparser) (count : Z) : Prop :=
  p_buf p = [] \/ (0 < zlen (p_buf p) /\ zlen (p_buf p) < count).

(* collect in terms of the virtual input  buffer ++ slice *)
Definition collect_s (p : cparser) (a : bytes) (count : Z) : cres :=
  if count <? 0 then CCrash
  else if zlen (p_buf p) + zlen a >=? count then
    CR (set_buf p []) (zskipn (count - zlen (p_buf p)) a) (Some (zfirstn count (p_buf p ++ a)))
  else CR (set_buf p (p_buf p ++ a)) [] None.

Lemma collect_spec : forall p a count, bufok p count -> collect p a count = collect_s p a count.
Proof.
  intros p a count [Hb | [Hb1 Hb2]]; unfold collect, collect_s.
  - rewrite Hb. cbn [app]. rewrite zlen_nil.
    replace (0 >? 0) with false by reflexivity.
    destruct (count <? 0) eqn:E1; [reflexivity|].
    replace (0 + zlen a) with (zlen a) by lia.
    destruct (zlen a >=? count) eqn:E2; [|reflexivity].
    rewrite <- Hb at 1. rewrite set_buf_same, Z.sub_0_r. reflexivity.
  - replace (zlen (p_buf p) >? 0) with true by lia.
    replace (count - zlen (p_buf p) >? 0) with true by lia.
    replace (count <? 0) with false by lia.
    pose proof (zlen_nonneg a) as Ha.
    destruct (count - zlen (p_buf p) >? zlen a) eqn:E1.
    + replace (zlen (p_buf p) + zlen a >=? count) with false by lia. reflexivity.
    + replace (zlen (p_buf p) + zlen a >=? count) with true by lia.
      cbn [p_buf set_buf].
      assert (Hl : zlen (p_buf p ++ zfirstn (count - zlen (p_buf p)) a) = count).
      { rewrite zlen_app, zlen_zfirstn; lia. }
      rewrite Hl. replace (count >=? count) with true by lia.
      replace (count <? 0) with false by lia. rewrite Z.eqb_refl.
      f_equal. f_equal.
      rewrite (zfirstn_all count (p_buf p ++ zfirstn _ a)) by lia.
      rewrite (zfirstn_app count (p_buf p) a).
      rewrite (zfirstn_all count (p_buf p)) by lia. reflexivity.
Qed.

Lemma collect_some_app : forall p a b count p1 rest t,
  bufok p count -> collect p a count = CR p1 rest (Some t) ->
  collect p (a ++ b) count = CR p1 (rest ++ b) (Some t) /\ p1 = set_buf p [].
Proof.
  intros p a b count p1 rest t Hb H.
  rewrite (collect_spec p (a ++ b) count Hb). rewrite (collect_spec p a count Hb) in H.
  unfold collect_s in *.
  destruct (count <? 0) eqn:E1; [discriminate|].
  destruct (zlen (p_buf p) + zlen a >=? count) eqn:E2; [|discriminate].
  inversion H; subst p1 rest t; clear H.
  rewrite zlen_app. pose proof (zlen_nonneg b).
  replace (zlen (p_buf p) + (zlen a + zlen b) >=? count) with true by lia.
  split; [|reflexivity]. f_equal.
  - rewrite (zskipn_app _ a b). f_equal. apply zskipn_le0. lia.
  - f_equal. rewrite (app_assoc (p_buf p) a b).
    rewrite (zfirstn_app count (p_buf p ++ a) b).
    rewrite (zfirstn_le0 (count - zlen (p_buf p ++ a)) b) by (rewrite zlen_app; lia).
    rewrite app_nil_r. reflexivity.
Qed.

Lemma collect_none_app : forall p a b count p1 rest,
  bufok p count -> collect p a count = CR p1 rest None ->
  rest = [] /\ p1 = set_buf p (p_buf p ++ a) /\ bufok p1 count /\
  collect p1 b count = collect p (a ++ b) count.
Proof.
  intros p a b count p1 rest Hb H.
  rewrite (collect_spec p (a ++ b) count Hb). rewrite (collect_spec p a count Hb) in H.
  unfold collect_s in H.
  destruct (count <? 0) eqn:E1; [discriminate|].
  destruct (zlen (p_buf p) + zlen a >=? count) eqn:E2; [discriminate|].
  inversion H; subst p1 rest; clear H.
  assert (Hb1 : bufok (set_buf p (p_buf p ++ a)) count).
  { unfold bufok. cbn [p_buf set_buf].
    destruct (p_buf p ++ a) as [|x l] eqn:E; [left; reflexivity|right].
    rewrite <- E. rewrite zlen_app. split; [|lia].
    rewrite <- zlen_app, E. unfold zlen; cbn [length]; lia. }
  split; [reflexivity|]. split; [reflexivity|]. split; [exact Hb1|].
  rewrite (collect_spec _ b count Hb1).
  unfold collect_s. rewrite E1. cbn [p_buf set_buf].
  rewrite !zlen_app. rewrite <- Z.add_assoc.
  destruct (zlen (p_buf p) + (zlen a + zlen b) >=? count) eqn:E3.
  - f_equal.
    + rewrite (zskipn_app _ a b). rewrite (zskipn_all _ a) by lia. cbn [app].
      f_equal. lia.
    + rewrite <- app_assoc. reflexivity.
  - rewrite <- app_assoc. reflexivity.
Qed.

(* ---------- exec_step, state by state ---------- *)
Definition maj (p : cparser) : Z := c_major (p_cur p).

Ltac eval_eqb :=
  repeat match goal with
  | |- context [?a =? ?b] =>
      let v := eval vm_compute in (a =? b) in
      match v with true => idtac | false => idtac end; change (a =? b) with v
  end.
Ltac ex_tac := intros p s b H; unfold maj in H; unfold exec_step; rewrite H; reflexivity.

Lemma ex_value : forall p s b, maj p = stValue -> exec_step p s b = step_value p s b.
Proof. ex_tac. Qed.
Lemma ex_len : forall p s b, maj p = stLen -> exec_step p s b = step_len p s b.
Proof. ex_tac. Qed.
Lemma ex_uint : forall p s b, maj p = mUint -> exec_step p s b = step_num false p s b.
Proof. ex_tac. Qed.
Lemma ex_neg : forall p s b, maj p = mNeg -> exec_step p s b = step_num true p s b.
Proof. ex_tac. Qed.
Lemma ex_f32 : forall p s b, maj p = 250 -> exec_step p s b = step_float 4 p s b.
Proof. ex_tac. Qed.
Lemma ex_f64 : forall p s b, maj p = 251 -> exec_step p s b = step_float 8 p s b.
Proof. ex_tac. Qed.
Lemma ex_bytes : forall p s b, maj p = mBytes -> exec_step p s b = step_bytes p s b.
Proof. ex_tac. Qed.
Lemma ex_text : forall p s b, maj p = mText -> exec_step p s b = step_text p s b.
Proof. ex_tac. Qed.
Lemma ex_arr : forall p s b, maj p = mArr -> exec_step p s b = step_array p s b.
Proof. ex_tac. Qed.
Lemma ex_map : forall p s b, maj p = mMap -> exec_step p s b = step_map p s b.
Proof. ex_tac. Qed.
Lemma ex_key : forall p s b, maj p = stKey -> exec_step p s b = step_key p s b.
Proof. ex_tac. Qed.
Lemma ex_elem : forall p s b, maj p = stElem -> exec_step p s b = step_value (st_pop p) s b.
Proof. ex_tac. Qed.

Lemma ex_bytesx : forall p s b, maj p = mBytes + stStartX ->
  exec_step p s b =
    if p_lcur p =? 0 then
      let '(s1, err) := vis s (EArrStart 0 BByte) in
      if isnil err then
        let '(s2, err2) := vis s1 EArrEnd in
        let p1 := len_pop p in
        if isnil err2 then
          match pop_state p1 s2 with
          | Some (p2, s3, d, e) => SR p2 s3 b d e
          | None => Crash 97
          end
        else SR p1 s2 b false err2
      else SR p s1 b false err
    else
      let p1 := clear_startx p in
      if zlen b =? 0 then SR p1 s b false nilE else step_bytes p1 s b.
Proof. ex_tac. Qed.

Lemma ex_textx : forall p s b, maj p = mText + stStartX ->
  exec_step p s b =
    if p_lcur p =? 0 then
      let p1 := len_pop p in
      let '(s1, err) := vis s (EVal (SStr [])) in
      if isnil err then
        match pop_state p1 s1 with
        | Some (p2, s2, d, e) => SR p2 s2 b d e
        | None => Crash 98
        end
      else SR p1 s1 b false err
    else
      let p1 := clear_startx p in
      if zlen b =? 0 then SR p1 s b false nilE else step_text p1 s b.
Proof. ex_tac. Qed.

Lemma ex_arrx : forall p s b, maj p = mArr + stStartX ->
  exec_step p s b =
    let '(s1, err) := vis s (EArrStart (p_lcur p) BAny) in
    if isnil err then step_array (st_pop p) s1 b else SR p s1 b false err.
Proof. ex_tac. Qed.

Lemma ex_mapx : forall p s b, maj p = mMap + stStartX ->
  exec_step p s b =
    let '(s1, err) := vis s (EObjStart (p_lcur p) BAny) in
    if isnil err then step_map (st_pop p) s1 b else SR p s1 b false err.
Proof. ex_tac. Qed.

Definition indef_body (isarr : bool) (p1 : cparser) (s1 : sink) (b : bytes) : sres :=
  match b with
  | [] => Crash (if isarr then 11 else 12)
  | b0 :: r =>
      if b0 =? 255 then
        let '(s2, err2) := vis s1 (if isarr then EArrEnd else EObjEnd) in
        if isnil err2 then
          match pop_state p1 s2 with
          | Some (p2, s3, d, e) => SR p2 s3 r d e
          | None => Crash (if isarr then 99 else 100)
          end
        else SR p1 s2 r false err2
      else if isarr then step_value p1 s1 b else init_map_key p1 s1 b
  end.

Lemma ex_arri : forall p s b, maj p = mArr + stIndef -> exec_step p s b = indef_body true p s b.
Proof. intros p s b H; unfold maj in H; unfold exec_step; rewrite H; destruct b; reflexivity. Qed.
Lemma ex_mapi : forall p s b, maj p = mMap + stIndef -> exec_step p s b = indef_body false p s b.
Proof. intros p s b H; unfold maj in H; unfold exec_step; rewrite H; destruct b; reflexivity. Qed.
Lemma ex_arrxi : forall p s b, maj p = mArr + stStartX + stIndef ->
  exec_step p s b =
    let '(s1, err) := vis s (EArrStart (-1) BAny) in
    if isnil err then indef_body true (st_pop p) s1 b else SR p s1 b false err.
Proof.
  intros p s b H; unfold maj in H; unfold exec_step; rewrite H.
  eval_eqb. cbv beta iota zeta. cbn [orb].
  destruct (vis s (EArrStart (-1) BAny)) as [s1 err]. destruct (isnil err), b; reflexivity.
Qed.
Lemma ex_mapxi : forall p s b, maj p = mMap + stStartX + stIndef ->
  exec_step p s b =
    let '(s1, err) := vis s (EObjStart (-1) BAny) in
    if isnil err then indef_body false (st_pop p) s1 b else SR p s1 b false err.
Proof.
  intros p s b H; unfold maj in H; unfold exec_step; rewrite H.
  eval_eqb. cbv beta iota zeta. cbn [orb].
  destruct (vis s (EObjStart (-1) BAny)) as [s1 err]. destruct (isnil err), b; reflexivity.
Qed.

Lemma ex_keyx : forall p s b, maj p = stKey + stStartX ->
  exec_step p s b =
    if p_lcur p =? 0 then
      let '(s1, err) := vis s (EKey []) in
      if isnil err then SR (set_cur (len_pop p) (mkst stElem (c_minor (p_cur p)))) s1 b false nilE
      else SR p s1 b false err
    else step_key (clear_startx p) s b.
Proof. ex_tac. Qed.

(* ---------- the feed loop without fuel ---------- *)
(* states in which feedUntil goes on although the input is used up *)
Definition startx (p : cparser) : bool :=
  Z.land (c_major (p_cur p)) (stStartX + stIndef) =? stStartX.

Definition fres := (cparser * sink * Z)%type.

(* [R p s b r]: the loop of feed/feedUntil started on [exec_step p s b] ends with r *)
Inductive R : cparser -> sink -> bytes -> fres -> Prop :=
| R_err : forall p s b p1 s1 rest d e,
    exec_step p s b = SR p1 s1 rest d e -> e <> nilE -> R p s b (p1, s1, e)
| R_more : forall p s b p1 s1 rest d r,
    exec_step p s b = SR p1 s1 rest d nilE -> rest <> [] -> R p1 s1 rest r -> R p s b r
| R_stut : forall p s b p1 s1 r,
    exec_step p s b = SR p1 s1 [] false nilE -> startx p1 = true -> R p1 s1 [] r -> R p s b r
| R_stop : forall p s b p1 s1 d,
    exec_step p s b = SR p1 s1 [] d nilE -> d = true \/ startx p1 = false ->
    R p s b (p1, s1, nilE).

(* p.feed(b) *)
Definition Feed (p : cparser) (s : sink) (b : bytes) (r : fres) : Prop :=
  (b = [] /\ r = (p, s, nilE)) \/ (b <> [] /\ R p s b r).

Lemma isnil_true : forall e, isnil e = true <-> e = nilE.
Proof. intros; unfold isnil; apply Z.eqb_eq. Qed.
Lemma isnil_false : forall e, isnil e = false <-> e <> nilE.
Proof. intros; unfold isnil; apply Z.eqb_neq. Qed.

Lemma R_congr : forall p s b p' s' b' r,
  exec_step p s b = exec_step p' s' b' -> R p s b r -> R p' s' b' r.
Proof.
  intros p s b p' s' b' r E H. inversion H; subst; rewrite E in *.
  - eapply R_err; eauto.
  - eapply R_more; eauto.
  - eapply R_stut; eauto.
  - eapply R_stop; eauto.
Qed.

Lemma R_det : forall p s b r, R p s b r -> forall r', R p s b r' -> r = r'.
Proof.
  induction 1 as [p s b p1 s1 rest d e E Hn | p s b p1 s1 rest d r E Hr _ IH
                 | p s b p1 s1 r E Hx _ IH | p s b p1 s1 d E Hd];
    intros r' H'; inversion H'; subst;
    match goal with H : exec_step _ _ _ = _ |- _ => rewrite E in H; inversion H; subst end;
    try congruence; auto;
    try (match goal with H : _ \/ _ |- _ => destruct H; congruence end).
Qed.

Lemma Feed_det : forall p s b r r', Feed p s b r -> Feed p s b r' -> r = r'.
Proof.
  intros p s b r r' [[H1 H2]|[H1 H2]] [[H3 H4]|[H3 H4]]; try congruence.
  eapply R_det; eauto.
Qed.

(* what happens after feedUntil returned (rest, done, err) inside feed *)
Definition after_fu (p1 : cparser) (s1 : sink) (rest : bytes) (e : Z) (r : fres) : Prop :=
  (e <> nilE /\ r = (p1, s1, e)) \/
  (e = nilE /\ rest = [] /\ r = (p1, s1, nilE)) \/
  (e = nilE /\ rest <> [] /\ R p1 s1 rest r).

Lemma feed_until_sound : forall n p s b p1 s1 rest d e,
  feed_until n p s b = Ok (SR p1 s1 rest d e) ->
  forall r, after_fu p1 s1 rest e r -> R p s b r.
Proof.
  induction n as [|n IH]; intros p s b p1 s1 rest d e H r K; [discriminate|].
  cbn [feed_until] in H.
  destruct (exec_step p s b) as [pa sa ra da ea|w] eqn:E; [|discriminate].
  destruct (da || negb (isnil ea)) eqn:E1.
  - inversion H; subst; clear H.
    destruct K as [[K1 K2]|[[K1 [K2 K3]]|[K1 [K2 K3]]]]; subst.
    + eapply R_err; eauto.
    + eapply R_stop; eauto. left. rewrite (proj2 (isnil_true nilE) eq_refl) in E1.
      destruct d; [reflexivity|discriminate].
    + eapply R_more; eauto.
  - apply orb_false_iff in E1. destruct E1 as [Ed En]. subst da.
    apply negb_false_iff, isnil_true in En. subst ea.
    match type of H with (if ?c then _ else _) = _ => destruct c eqn:Ec end.
    + specialize (IH _ _ _ _ _ _ _ _ H r K).
      destruct ra as [|x ra].
      * eapply R_stut; [exact E|exact Ec|exact IH].
      * eapply R_more; [exact E|discriminate|exact IH].
    + inversion H; subst; clear H.
      apply orb_false_iff in Ec. destruct Ec as [Ec1 Ec2].
      apply negb_false_iff, Z.eqb_eq, zlen_zero in Ec1. subst rest.
      destruct K as [[K1 K2]|[[K1 [K2 K3]]|[K1 [K2 K3]]]]; subst; try congruence.
      eapply R_stop; eauto.
Qed.

Lemma feed_sound : forall n p s b r, feed n p s b = Ok r -> Feed p s b r.
Proof.
  induction n as [|n IH]; intros p s b r H; [discriminate|].
  cbn [feed] in H.
  destruct (zlen b >? 0) eqn:Eb.
  - assert (Hb : b <> []) by (intro; subst; discriminate).
    right; split; [exact Hb|].
    destruct (feed_until (feed_fuel b) p s b) as [[p1 s1 rest d e|w]|?|?|] eqn:E; try discriminate.
    eapply feed_until_sound; [exact E|].
    destruct (isnil e) eqn:Ee.
    + apply isnil_true in Ee. subst e. apply IH in H. destruct H as [[H1 H2]|[H1 H2]].
      * right; left; auto.
      * right; right; auto.
    + apply isnil_false in Ee. inversion H; subst. left; auto.
  - inversion H; subst. left. split; [|reflexivity].
    apply zlen_zero. pose proof (zlen_nonneg b). lia.
Qed.

(* ---------- one step on a ++ b versus the same step on a ---------- *)
(* the step on the longer input does the same and leaves b unread; after an
   error only the visitor and the error matter *)
Definition ext (b : bytes) (r r' : sres) : Prop :=
  match r with
  | Crash _ => True
  | SR p1 s1 rest d e =>
      match r' with
      | Crash _ => False
      | SR p2 s2 rest' d' e' =>
          s1 = s2 /\ e = e' /\ (e = nilE -> p1 = p2 /\ d = d' /\ rest' = rest ++ b)
      end
  end.

Lemma ext_same : forall b p s rest d e, ext b (SR p s rest d e) (SR p s (rest ++ b) d e).
Proof. intros; cbn [ext]; auto. Qed.
Lemma ext_err : forall b p s rest d e p' rest' d',
  e <> nilE -> ext b (SR p s rest d e) (SR p' s rest' d' e).
Proof. intros; cbn [ext]; repeat split; auto; congruence. Qed.
Lemma ext_crash : forall b w r, ext b (Crash w) r.
Proof. intros; exact I. Qed.
Lemma ext_refl : forall r, ext [] r r.
Proof. intros [p s rest d e|w]; cbn [ext]; auto. rewrite app_nil_r. auto. Qed.

Ltac bm :=
  match goal with
  | |- context [match ?x with _ => _ end] => destruct x eqn:?
  end.
Ltac ext_solve :=
  first [ apply ext_crash | apply ext_same
        | apply ext_err; first [ assumption | discriminate
                               | (intro; subst; discriminate)
                               | (apply isnil_false; assumption) ] ].

Lemma after_value_ext : forall b p s rest e,
  ext b (after_value p s rest e) (after_value p s (rest ++ b) e).
Proof. intros; unfold after_value; repeat bm; ext_solve. Qed.
Lemma after_pop_ext : forall b p s rest e,
  ext b (after_pop p s rest e) (after_pop p s (rest ++ b) e).
Proof. intros; unfold after_pop; repeat bm; ext_solve. Qed.

Lemma init_byte_seq_ext : forall b p s major minor rest,
  ext b (init_byte_seq p s major minor rest) (init_byte_seq p s major minor (rest ++ b)).
Proof. intros; unfold init_byte_seq; repeat bm; ext_solve. Qed.
Lemma init_sub_ext : forall b p s major minor rest,
  ext b (init_sub p s major minor rest) (init_sub p s major minor (rest ++ b)).
Proof. intros; unfold init_sub; repeat bm; ext_solve. Qed.

Lemma step_value_ext : forall b p s a, a <> [] ->
  ext b (step_value p s a) (step_value p s (a ++ b)).
Proof.
  intros b p s [|a0 ar] Ha; [congruence|]. cbn [app]. unfold step_value.
  repeat (first [ apply after_value_ext | apply init_byte_seq_ext | apply init_sub_ext
                | ext_solve | bm ]).
Qed.

Lemma init_map_key_ext : forall b p s a, a <> [] ->
  ext b (init_map_key p s a) (init_map_key p s (a ++ b)).
Proof.
  intros b p s [|a0 ar] Ha; [congruence|]. cbn [app]. unfold init_map_key.
  repeat (first [ apply init_byte_seq_ext | ext_solve | bm ]).
Qed.

(* ---------- reachable parser states ---------- *)
Definition cfg (p : cparser) : list cstate := p_cur p :: p_stack p.

Definition is_sub (m : Z) : Prop :=
  m = mArr \/ m = mMap \/ m = mArr + stIndef \/ m = mMap + stIndef.

(* a stack of open containers over the top-level stValue *)
Inductive ctxs : list cstate -> Prop :=
| ctxs_base : forall c, c_major c = stValue -> ctxs [c]
| ctxs_sub : forall c l, is_sub (c_major c) -> ctxs l -> ctxs (c :: l).

Definition leafm (m : Z) : Prop :=
  m = mUint \/ m = mNeg \/ m = 250 \/ m = 251 \/ m = mBytes \/ m = mText \/
  m = mBytes + stStartX \/ m = mText + stStartX \/
  m = stKey \/ m = stKey + stStartX \/ m = stElem.

Definition lenable (l : list cstate) : Prop :=
  match l with
  | c :: _ => c_major c = mBytes + stStartX \/ c_major c = mText + stStartX \/
              c_major c = stKey + stStartX \/ c_major c = mArr + stStartX \/
              c_major c = mMap + stStartX
  | [] => False
  end.

Inductive shape : list cstate -> Prop :=
| sh_ctx : forall l, ctxs l -> shape l
| sh_leaf : forall c l, leafm (c_major c) -> ctxs l -> shape (c :: l)
| sh_subx : forall c c2 l, is_sub (c_major c2) -> c_major c = c_major c2 + stStartX ->
    ctxs (c2 :: l) -> shape (c :: c2 :: l)
| sh_len : forall c l, c_major c = stLen -> lenable l -> shape l -> shape (c :: l).

(* the size of the token being collected in the current state *)
Definition count_of (p : cparser) : Z :=
  let m := c_major (p_cur p) in
  let n := c_minor (p_cur p) in
  if (m =? mUint) || (m =? mNeg) || (m =? stLen) then
    if (n =? 25) || (n =? 26) || (n =? 27) then 2 ^ (n - 24) else 0
  else if m =? 250 then 4 else if m =? 251 then 8
  else if (m =? mText) || (m =? stKey) then p_lcur p else 0.

Definition Inv (p : cparser) : Prop :=
  p_err p = 0 /\ shape (cfg p) /\ bufok p (count_of p).
(* between two tokens *)
Definition InvE (p : cparser) : Prop :=
  p_err p = 0 /\ shape (cfg p) /\ p_buf p = [].
(* in a context state *)
Definition InvC (p : cparser) : Prop :=
  p_err p = 0 /\ ctxs (cfg p) /\ p_buf p = [].

Lemma InvE_Inv : forall p, InvE p -> Inv p.
Proof. intros p (H1 & H2 & H3). repeat split; auto. left; auto. Qed.
Lemma InvC_InvE : forall p, InvC p -> InvE p.
Proof. intros p (H1 & H2 & H3). repeat split; auto. apply sh_ctx; auto. Qed.

Ltac pc := cbn [cfg p_cur p_stack p_lcur p_lstack p_buf p_err st_pop len_pop set_lcur
                set_cur set_buf set_err st_push len_push clear_startx c_major c_minor mkst] in *.

Lemma ctxs_nonempty : forall l, ctxs l -> exists c l', l = c :: l'.
Proof. intros l H; inversion H; eauto. Qed.
Lemma ctxs_tail : forall c l, ctxs (c :: l) -> c_major c <> stValue ->
  ctxs l /\ exists c' l', l = c' :: l'.
Proof.
  intros c l H Hn. inversion H; subst; [congruence|].
  split; [assumption|]. apply ctxs_nonempty; assumption.
Qed.
Lemma ctxs_head : forall c l, ctxs (c :: l) -> c_major c = stValue \/ is_sub (c_major c).
Proof. intros c l H; inversion H; auto. Qed.
Lemma ctxs_notfail : forall c l, ctxs (c :: l) -> (c_major c =? stFail) = false.
Proof.
  intros c l H. apply ctxs_head in H. unfold is_sub in H.
  destruct H as [H|[H|[H|[H|H]]]]; rewrite H; reflexivity.
Qed.

(* projections through the stack operations *)
Lemma len_pop_proj : forall p,
  p_cur (len_pop p) = p_cur p /\ p_stack (len_pop p) = p_stack p /\
  p_buf (len_pop p) = p_buf p /\ p_err (len_pop p) = p_err p.
Proof. intros p; unfold len_pop; destruct (p_lstack p); pc; auto. Qed.
Lemma len_pop_set_lcur : forall p x, len_pop (set_lcur p x) = len_pop p.
Proof. intros p x; unfold len_pop; pc; destruct (p_lstack p); reflexivity. Qed.

Lemma InvC_len_pop : forall p, InvC p -> InvC (len_pop p).
Proof.
  intros p (H1 & H2 & H3). destruct (len_pop_proj p) as (A & B & C & D).
  unfold InvC, cfg in *. rewrite A, B, C, D. auto.
Qed.
Lemma InvC_set_lcur : forall p x, InvC p -> InvC (set_lcur p x).
Proof. intros p x H; exact H. Qed.

(* popping the state above a context *)
Lemma InvC_st_pop : forall p c l,
  p_err p = 0 -> p_buf p = [] -> cfg p = c :: l -> ctxs l -> InvC (st_pop p).
Proof.
  intros [cur st lc ls bf er] c l He Hb Hc Hl. pc. inversion Hc; subst.
  destruct (ctxs_nonempty _ Hl) as (c' & l' & ->). pc. repeat split; auto.
Qed.

Lemma on_value_inv : forall n p s p1 s1 d e,
  InvC p -> on_value n p s = Some (p1, s1, d, e) -> InvC p1.
Proof.
  induction n as [|n IH]; intros p s p1 s1 d e HI H; [discriminate|].
  cbn [on_value] in H. cbv zeta in H.
  destruct ((c_major (p_cur p) =? mArr) || (c_major (p_cur p) =? mMap)) eqn:E1.
  - destruct (p_lcur (set_lcur p (p_lcur p - 1)) >? 0).
    + inversion H; subst. apply InvC_set_lcur; assumption.
    + destruct (vis s _) as [s2 err]. destruct (isnil err).
      * apply IH in H; [assumption|].
        rewrite len_pop_set_lcur.
        destruct HI as (H1 & H2 & H3). destruct (len_pop_proj p) as (A & B & C & D).
        unfold cfg in H2.
        destruct (ctxs_tail _ _ H2) as [Ht _].
        { apply orb_true_iff in E1. destruct E1 as [E1|E1]; apply Z.eqb_eq in E1;
            rewrite E1; discriminate. }
        eapply InvC_st_pop; try congruence. unfold cfg. rewrite A, B. reflexivity. exact Ht.
      * inversion H; subst. apply InvC_set_lcur; assumption.
  - destruct ((c_major (p_cur p) =? mArr + stIndef) || (c_major (p_cur p) =? mMap + stIndef));
      inversion H; subst; assumption.
Qed.

Lemma pop_state_inv : forall p s c l p1 s1 d e,
  p_err p = 0 -> p_buf p = [] -> cfg p = c :: l -> ctxs l ->
  pop_state p s = Some (p1, s1, d, e) -> InvC p1.
Proof.
  intros p s c l p1 s1 d e He Hb Hc Hl H. unfold pop_state in H.
  eapply on_value_inv; [|exact H]. eapply InvC_st_pop; eauto.
Qed.

Ltac bmH H :=
  match type of H with
  | context [match ?x with _ => _ end] => destruct x eqn:?
  end.
Ltac boolprop :=
  repeat match goal with
  | H : (_ || _) = true |- _ => apply orb_true_iff in H; destruct H as [H|H]
  | H : (_ =? _) = true |- _ => apply Z.eqb_eq in H
  | H : isnil _ = true |- _ => apply isnil_true in H
  | H : isnil _ = false |- _ => apply isnil_false in H
  | H : negb _ = true |- _ => apply negb_true_iff in H
  | H : negb _ = false |- _ => apply negb_false_iff in H
  end.
Ltac invSR H := inversion H; subst; clear H.

Lemma after_value_inv : forall p s rest e p1 s1 rest' d e',
  InvC p -> after_value p s rest e = SR p1 s1 rest' d e' -> InvC p1.
Proof.
  intros p s rest e p1 s1 rest' d e' HI H. unfold after_value in H.
  destruct (isnil e).
  - destruct (on_value (depth_fuel p) p s) as [[[[p2 s2] d2] e2]|] eqn:E; [|discriminate].
    invSR H. eapply on_value_inv; eauto.
  - invSR H. assumption.
Qed.

Lemma after_pop_inv : forall p s rest e c l p1 s1 rest' d e',
  p_err p = 0 -> p_buf p = [] -> cfg p = c :: l -> ctxs l ->
  after_pop p s rest e = SR p1 s1 rest' d e' -> e' = nilE -> InvC p1.
Proof.
  intros p s rest e c l p1 s1 rest' d e' He Hb Hc Hl H Hn. unfold after_pop in H.
  destruct (isnil e) eqn:Ee.
  - destruct (pop_state p s) as [[[[p2 s2] d2] e2]|] eqn:E; [|discriminate].
    invSR H. eapply pop_state_inv; eauto.
  - invSR H. discriminate.
Qed.

Lemma cfg_push : forall p n, ctxs (cfg p) -> cfg (st_push p n) = n :: cfg p.
Proof.
  intros p n H. unfold cfg in *. pc. rewrite (ctxs_notfail _ _ H). reflexivity.
Qed.

Lemma push_leaf : forall p m n, InvC p -> leafm m -> InvE (st_push p (mkst m n)).
Proof.
  intros p m n (H1 & H2 & H3) Hm. repeat split; auto.
  rewrite cfg_push by assumption. apply sh_leaf; assumption.
Qed.
Lemma push_sub : forall p m n, InvC p -> is_sub m -> InvC (st_push p (mkst m n)).
Proof.
  intros p m n (H1 & H2 & H3) Hm. repeat split; auto.
  rewrite cfg_push by assumption. apply ctxs_sub; assumption.
Qed.
Lemma push_subx : forall p n, InvC p -> is_sub (maj p) ->
  InvE (st_push p (mkst (maj p + stStartX) n)).
Proof.
  intros p n (H1 & H2 & H3) Hm. repeat split; auto.
  rewrite cfg_push by assumption. unfold cfg in *. apply sh_subx; auto.
Qed.
Lemma push_len : forall p n, InvE p -> lenable (cfg p) -> InvE (st_push p (mkst stLen n)).
Proof.
  intros p n (H1 & H2 & H3) Hm. repeat split; auto.
  assert (E : cfg (st_push p (mkst stLen n)) = mkst stLen n :: cfg p).
  { unfold cfg in *. pc. cbn [lenable] in Hm.
    destruct Hm as [H|[H|[H|[H|H]]]]; rewrite H; reflexivity. }
  rewrite E. apply sh_len; auto.
Qed.
Lemma InvE_len_push : forall p x, InvE p -> InvE (len_push p x).
Proof. intros p x H; exact H. Qed.

Lemma lenable_push : forall p m n, ctxs (cfg p) ->
  m = mBytes \/ m = mText \/ m = stKey \/ m = mArr \/ m = mMap ->
  lenable (cfg (st_push p (mkst (m + stStartX) n))).
Proof.
  intros p m n H Hm. rewrite cfg_push by assumption. cbn [lenable c_major mkst].
  destruct Hm as [H0|[H0|[H0|[H0|H0]]]]; subst m; auto 6.
Qed.

Lemma init_byte_seq_inv : forall p s major minor b p1 s1 rest d e,
  InvC p -> major = mBytes \/ major = mText \/ major = stKey ->
  init_byte_seq p s major minor b = SR p1 s1 rest d e -> e = nilE -> InvE p1.
Proof.
  intros p s major minor b p1 s1 rest d e HI Hm H He. unfold init_byte_seq in H.
  assert (Hl : leafm (major + stStartX)).
  { unfold leafm. destruct Hm as [?|[?|?]]; subst major; auto 12. }
  assert (Hm' : major = mBytes \/ major = mText \/ major = stKey \/ major = mArr \/ major = mMap)
    by (destruct Hm as [?|[?|?]]; auto).
  destruct (minor <? 24).
  - invSR H. apply InvE_len_push. apply push_leaf; assumption.
  - destruct (minor >? 27); invSR H; [discriminate|].
    apply push_len; [apply push_leaf; assumption|].
    apply lenable_push; [apply HI|assumption].
Qed.

Lemma maj_push : forall p m n, maj (st_push p (mkst m n)) = m.
Proof. reflexivity. Qed.

Lemma init_sub_inv : forall p s major minor b p1 s1 rest d e,
  InvC p -> major = mArr \/ major = mMap ->
  init_sub p s major minor b = SR p1 s1 rest d e -> e = nilE -> InvE p1.
Proof.
  intros p s major minor b p1 s1 rest d e HI Hm H He. unfold init_sub in H.
  assert (Hs : is_sub major) by (unfold is_sub; destruct Hm; auto).
  assert (Hs' : is_sub (major + stIndef)) by (unfold is_sub; destruct Hm; subst; auto).
  assert (Hm' : major = mBytes \/ major = mText \/ major = stKey \/ major = mArr \/ major = mMap)
    by (destruct Hm; auto).
  destruct (minor =? 31).
  - invSR H.
    replace (major + stStartX + stIndef) with (maj (st_push p (mkst (major + stIndef) stStart)) + stStartX)
      by (rewrite maj_push; lia).
    apply push_subx; [apply push_sub; assumption|]. rewrite maj_push. assumption.
  - destruct (minor <? 24).
    + invSR H. apply InvE_len_push.
      replace (major + stStartX) with (maj (st_push p (mkst major stStart)) + stStartX)
        by (rewrite maj_push; lia).
      apply push_subx; [apply push_sub; assumption|]. rewrite maj_push. assumption.
    + destruct (minor >? 27); invSR H; [discriminate|].
      apply push_len.
      * replace (major + stStartX) with (maj (st_push p (mkst major stStart)) + stStartX)
          by (rewrite maj_push; lia).
        apply push_subx; [apply push_sub; assumption|]. rewrite maj_push. assumption.
      * apply lenable_push; [|assumption]. apply (push_sub p major stStart HI Hs).
Qed.

Lemma step_value_inv : forall p s a p1 s1 rest d e,
  InvC p -> step_value p s a = SR p1 s1 rest d e -> e = nilE -> InvE p1.
Proof.
  intros p s a p1 s1 rest d e HI H He. unfold step_value in H.
  destruct a as [|b0 r]; [invSR H; apply InvC_InvE; assumption|].
  repeat (bmH H);
    try (apply after_value_inv in H; [apply InvC_InvE; assumption|assumption]);
    try (eapply init_byte_seq_inv in H; eauto; boolprop; auto; fail);
    try (eapply init_sub_inv in H; eauto; boolprop; auto; fail);
    invSR H; try discriminate;
    boolprop; (apply push_leaf; [assumption|]); unfold leafm;
    repeat match goal with H : _ = _ |- _ => rewrite H end; auto 12.
Qed.

Lemma init_map_key_inv : forall p s a p1 s1 rest d e,
  InvC p -> init_map_key p s a = SR p1 s1 rest d e -> e = nilE -> InvE p1.
Proof.
  intros p s a p1 s1 rest d e HI H He. unfold init_map_key in H.
  destruct a as [|b0 r]; [discriminate|].
  repeat (bmH H); try (invSR H; discriminate).
  eapply init_byte_seq_inv in H; eauto.
Qed.

(* ---------- reading the shape off the current state ---------- *)
Ltac zconst := unfold stFail, stValue, stLen, stStartX, stIndef, mUint, mNeg, mBytes, mText,
  mArr, mMap, mTag, stKey, stElem, stStart, stCont in *.
Ltac splitor := repeat match goal with H : _ \/ _ |- _ => destruct H as [H|H] end.

Ltac shape_contra :=
  exfalso; repeat match goal with H : ctxs (_ :: _) |- _ => apply ctxs_head in H end;
  unfold is_sub, leafm in *; splitor; zconst; lia.

Lemma shape_ctx : forall c l, shape (c :: l) ->
  c_major c = stValue \/ is_sub (c_major c) -> ctxs (c :: l).
Proof. intros c l H Hm. inversion H; subst; auto; shape_contra. Qed.
Lemma shape_leaf : forall c l, shape (c :: l) -> leafm (c_major c) -> ctxs l.
Proof. intros c l H Hm. inversion H; subst; auto; shape_contra. Qed.
Lemma shape_subx : forall c l m, shape (c :: l) -> is_sub m -> c_major c = m + stStartX ->
  exists c2 l', l = c2 :: l' /\ c_major c2 = m /\ ctxs (c2 :: l').
Proof.
  intros c l m H Hm Hc. inversion H; subst; try shape_contra.
  eexists _, _. split; [reflexivity|]. split; [lia|assumption].
Qed.
Lemma shape_len : forall c l, shape (c :: l) -> c_major c = stLen -> lenable l /\ shape l.
Proof. intros c l H Hc. inversion H; subst; auto; shape_contra. Qed.

Lemma count_of_0 : forall p,
  maj p <> mUint -> maj p <> mNeg -> maj p <> stLen -> maj p <> 250 -> maj p <> 251 ->
  maj p <> mText -> maj p <> stKey -> count_of p = 0.
Proof.
  intros p H1 H2 H3 H4 H5 H6 H7. unfold count_of, maj in *. cbv zeta.
  repeat match goal with |- context [?a =? ?b] => destruct (Z.eqb_spec a b); [congruence|] end.
  reflexivity.
Qed.
Lemma bufok_0 : forall p, bufok p 0 -> p_buf p = [].
Proof. intros p [H|[H1 H2]]; [assumption|lia]. Qed.

Lemma Inv_ctx : forall p, Inv p -> maj p = stValue \/ is_sub (maj p) -> InvC p.
Proof.
  intros p (H1 & H2 & H3) Hm. repeat split; auto.
  - apply shape_ctx; assumption.
  - apply bufok_0. rewrite <- (count_of_0 p); [assumption|..];
      unfold is_sub in Hm; splitor; rewrite Hm; zconst; lia.
Qed.

Definition Dich (b : bytes) (r whole : sres) : Prop :=
  match r with
  | Crash _ => True
  | SR p1 s1 rest d e =>
      ext b r whole \/
      (rest = [] /\ d = false /\ e = nilE /\ startx p1 = false /\
       ext [] (exec_step p1 s1 b) whole)
  end.
Lemma Dich_ext : forall b r w, ext b r w -> Dich b r w.
Proof. intros b [] w H; [left; exact H|exact I]. Qed.

(* ----- definite and indefinite containers ----- *)
Lemma InvC_pop_tail : forall p, InvC p -> maj p <> stValue -> exists c l,
  cfg (len_pop p) = c :: l /\ ctxs l /\ p_err (len_pop p) = 0 /\ p_buf (len_pop p) = [].
Proof.
  intros p (H1 & H2 & H3) Hm. destruct (len_pop_proj p) as (A & B & C & D).
  unfold cfg in *. destruct (ctxs_tail _ _ H2 Hm) as [Ht _].
  exists (p_cur p), (p_stack p). rewrite A, B, C, D. auto.
Qed.

Lemma step_array_inv : forall p s a p1 s1 rest d,
  InvC p -> maj p <> stValue -> step_array p s a = SR p1 s1 rest d nilE -> InvE p1.
Proof.
  intros p s a p1 s1 rest d HI Hm H. unfold step_array, handle_len in H.
  destruct (p_lcur p >? 0).
  - eapply step_value_inv; eauto.
  - destruct (vis s EArrEnd) as [s2 err]. destruct (isnil err) eqn:Ee.
    + destruct (pop_state (len_pop p) s2) as [[[[p2 s3] d2] e2]|] eqn:E; [|discriminate].
      invSR H. apply InvC_InvE.
      destruct (InvC_pop_tail p HI Hm) as (c & l & A & B & C & D).
      eapply pop_state_inv; eauto.
    + invSR H. discriminate.
Qed.

Lemma step_map_inv : forall p s a p1 s1 rest d,
  InvC p -> maj p <> stValue -> step_map p s a = SR p1 s1 rest d nilE -> InvE p1.
Proof.
  intros p s a p1 s1 rest d HI Hm H. unfold step_map, handle_len in H.
  destruct (p_lcur p >? 0).
  - destruct (zlen a >? 0).
    + eapply init_map_key_inv; eauto.
    + invSR H. apply InvC_InvE; assumption.
  - destruct (vis s EObjEnd) as [s2 err]. destruct (isnil err) eqn:Ee.
    + destruct (pop_state (len_pop p) s2) as [[[[p2 s3] d2] e2]|] eqn:E; [|discriminate].
      invSR H. apply InvC_InvE.
      destruct (InvC_pop_tail p HI Hm) as (c & l & A & B & C & D).
      eapply pop_state_inv; eauto.
    + invSR H. discriminate.
Qed.

Lemma startx_false : forall p m, maj p = m ->
  (Z.land m (stStartX + stIndef) =? stStartX) = false -> startx p = false.
Proof. intros p m H E. unfold startx. unfold maj in H. rewrite H. exact E. Qed.

Lemma step_array_dich : forall b p s a, maj p = mArr -> b <> [] ->
  Dich b (step_array p s a) (step_array p s (a ++ b)).
Proof.
  intros b p s a Hm Hb.
  destruct (p_lcur p >? 0) eqn:El.
  - assert (W : forall x, step_array p s x = step_value p s x).
    { intro x. unfold step_array, handle_len. rewrite El. reflexivity. }
    rewrite (W a), (W (a ++ b)). destruct a as [|a0 ar].
    + cbn [step_value app]. right. repeat split; auto.
      * eapply startx_false; [exact Hm|reflexivity].
      * rewrite <- W, (ex_arr p s b Hm). apply ext_refl.
    + apply Dich_ext. apply step_value_ext. discriminate.
  - apply Dich_ext. unfold step_array, handle_len. rewrite El.
    destruct (vis s EArrEnd) as [s2 err]. destruct (isnil err) eqn:Ee.
    + destruct (pop_state (len_pop p) s2) as [[[[p2 s3] d2] e2]|]; ext_solve.
    + ext_solve.
Qed.

Lemma step_map_dich : forall b p s a, maj p = mMap -> b <> [] ->
  Dich b (step_map p s a) (step_map p s (a ++ b)).
Proof.
  intros b p s a Hm Hb. unfold step_map at 1. unfold handle_len.
  destruct (p_lcur p >? 0) eqn:El.
  - destruct a as [|a0 ar].
    + cbn [zlen length Z.of_nat app]. replace (0 >? 0) with false by reflexivity.
      right. repeat split; auto.
      * eapply startx_false; [exact Hm|reflexivity].
      * rewrite (ex_map p s b Hm). apply ext_refl.
    + replace (zlen (a0 :: ar) >? 0) with true by (unfold zlen; cbn [length]; lia).
      apply Dich_ext. unfold step_map, handle_len. rewrite El.
      replace (zlen ((a0 :: ar) ++ b) >? 0) with true by (unfold zlen; cbn [length app]; lia).
      apply init_map_key_ext. discriminate.
  - apply Dich_ext. unfold step_map, handle_len. rewrite El.
    destruct (vis s EObjEnd) as [s2 err]. destruct (isnil err) eqn:Ee.
    + destruct (pop_state (len_pop p) s2) as [[[[p2 s3] d2] e2]|]; ext_solve.
    + ext_solve.
Qed.

Lemma indef_body_inv : forall isarr p s a p1 s1 rest d,
  InvC p -> maj p <> stValue -> indef_body isarr p s a = SR p1 s1 rest d nilE -> InvE p1.
Proof.
  intros isarr p s a p1 s1 rest d HI Hm H. unfold indef_body in H.
  destruct a as [|b0 r]; [discriminate|].
  destruct (b0 =? 255).
  - destruct (vis s _) as [s2 err]. destruct (isnil err) eqn:Ee.
    + destruct (pop_state p s2) as [[[[p2 s3] d2] e2]|] eqn:E; [|discriminate].
      invSR H. apply InvC_InvE.
      destruct HI as (H1 & H2 & H3). unfold cfg in H2.
      destruct (ctxs_tail _ _ H2 Hm) as [Ht _].
      eapply pop_state_inv; eauto. reflexivity.
    + invSR H. discriminate.
  - destruct isarr.
    + eapply step_value_inv; eauto.
    + eapply init_map_key_inv; eauto.
Qed.

Lemma indef_body_ext : forall b isarr p s a, a <> [] ->
  ext b (indef_body isarr p s a) (indef_body isarr p s (a ++ b)).
Proof.
  intros b isarr p s [|a0 ar] Ha; [congruence|]. unfold indef_body. cbn [app].
  destruct (a0 =? 255).
  - repeat bm; ext_solve.
  - destruct isarr.
    + apply (step_value_ext b p s (a0 :: ar)). discriminate.
    + apply (init_map_key_ext b p s (a0 :: ar)). discriminate.
Qed.

(* ----- token states ----- *)
Lemma Inv_leaf : forall p, Inv p -> leafm (maj p) ->
  p_err p = 0 /\ ctxs (p_stack p) /\ bufok p (count_of p).
Proof.
  intros p (H1 & H2 & H3) Hm. repeat split; auto. eapply shape_leaf; eauto.
Qed.

Lemma leaf_Inv : forall p, p_err p = 0 -> leafm (maj p) -> ctxs (p_stack p) ->
  bufok p (count_of p) -> Inv p.
Proof. intros p H1 H2 H3 H4. repeat split; auto. apply sh_leaf; auto. Qed.

Lemma pop_ready : forall q s p1 s1 d e,
  p_err q = 0 -> p_buf q = [] -> ctxs (p_stack q) ->
  pop_state q s = Some (p1, s1, d, e) -> InvC p1.
Proof. intros. eapply pop_state_inv; eauto. reflexivity. Qed.
Lemma pop_ready_len : forall q s p1 s1 d e,
  p_err q = 0 -> p_buf q = [] -> ctxs (p_stack q) ->
  pop_state (len_pop q) s = Some (p1, s1, d, e) -> InvC p1.
Proof.
  intros q s p1 s1 d e H1 H2 H3 H. destruct (len_pop_proj q) as (A & B & C & D).
  eapply pop_ready; [| | |exact H]; congruence.
Qed.

Lemma count_of_text : forall p, maj p = mText -> count_of p = p_lcur p.
Proof. intros p H; unfold count_of, maj in *; rewrite H; reflexivity. Qed.
Lemma count_of_key : forall p, maj p = stKey -> count_of p = p_lcur p.
Proof. intros p H; unfold count_of, maj in *; rewrite H; reflexivity. Qed.
Lemma count_of_f32 : forall p, maj p = 250 -> count_of p = 4.
Proof. intros p H; unfold count_of, maj in *; rewrite H; reflexivity. Qed.
Lemma count_of_f64 : forall p, maj p = 251 -> count_of p = 8.
Proof. intros p H; unfold count_of, maj in *; rewrite H; reflexivity. Qed.
Lemma count_of_num : forall p, maj p = mUint \/ maj p = mNeg \/ maj p = stLen ->
  count_of p = if (c_minor (p_cur p) =? 25) || (c_minor (p_cur p) =? 26) || (c_minor (p_cur p) =? 27)
               then 2 ^ (c_minor (p_cur p) - 24) else 0.
Proof. intros p H; unfold count_of, maj in *; destruct H as [H|[H|H]]; rewrite H; reflexivity. Qed.

Lemma step_text_inv : forall p s a p1 s1 rest d,
  maj p = mText -> p_err p = 0 -> ctxs (p_stack p) -> bufok p (p_lcur p) ->
  step_text p s a = SR p1 s1 rest d nilE -> Inv p1.
Proof.
  intros p s a p1 s1 rest d Hm He Hc Hb H. unfold step_text in H.
  destruct (collect p a (p_lcur p)) as [p' rest' [t|]|] eqn:E; [..|discriminate].
  - destruct (collect_some_app p a [] _ _ _ _ Hb E) as [_ ->].
    destruct (vis s (EStrRef t)) as [s2 err]. destruct (isnil err) eqn:Ee.
    + destruct (pop_state _ s2) as [[[[p2 s3] d2] e2]|] eqn:E2; [|discriminate].
      invSR H. apply InvE_Inv, InvC_InvE. eapply pop_ready_len; [| | |exact E2]; auto.
    + invSR H. discriminate.
  - destruct (collect_none_app p a [] _ _ _ Hb E) as (-> & -> & Hb1 & _).
    invSR H. apply leaf_Inv; auto.
    + unfold maj in *; pc; rewrite Hm; unfold leafm; auto 12.
    + rewrite count_of_text by exact Hm. exact Hb1.
Qed.

Lemma step_text_dich : forall b p s a, maj p = mText -> bufok p (p_lcur p) ->
  Dich b (step_text p s a) (step_text p s (a ++ b)).
Proof.
  intros b p s a Hm Hb. unfold step_text at 1.
  destruct (collect p a (p_lcur p)) as [p' rest' [t|]|] eqn:E; [..|exact I].
  - apply Dich_ext. destruct (collect_some_app p a b _ _ _ _ Hb E) as [E2 _].
    unfold step_text. rewrite E2.
    destruct (vis s (EStrRef t)) as [s2 err]. destruct (isnil err) eqn:Ee.
    + destruct (pop_state _ s2) as [[[[p2 s3] d2] e2]|]; ext_solve.
    + ext_solve.
  - destruct (collect_none_app p a b _ _ _ Hb E) as (-> & -> & Hb1 & E2).
    right. repeat split; auto.
    + eapply startx_false; [exact Hm|reflexivity].
    + rewrite ex_text by exact Hm. unfold step_text. pc. rewrite E2. apply ext_refl.
Qed.

Lemma step_key_inv : forall p s a p1 s1 rest d,
  maj p = stKey -> p_err p = 0 -> ctxs (p_stack p) -> bufok p (p_lcur p) ->
  step_key p s a = SR p1 s1 rest d nilE -> Inv p1.
Proof.
  intros p s a p1 s1 rest d Hm He Hc Hb H. unfold step_key in H.
  destruct (collect p a (p_lcur p)) as [p' rest' [t|]|] eqn:E; [..|discriminate].
  - destruct (collect_some_app p a [] _ _ _ _ Hb E) as [_ ->].
    destruct (vis s (EKeyRef t)) as [s2 err]. destruct (isnil err) eqn:Ee.
    + invSR H. apply InvE_Inv.
      destruct (len_pop_proj (set_buf p [])) as (A & B & C & D).
      repeat split; pc; try congruence.
      unfold cfg; pc. rewrite B. pc. apply sh_leaf; [unfold leafm; pc; auto 12|assumption].
    + invSR H. apply isnil_false in Ee. congruence.
  - destruct (collect_none_app p a [] _ _ _ Hb E) as (-> & -> & Hb1 & _).
    invSR H. apply leaf_Inv; auto.
    + unfold maj in *; pc; rewrite Hm; unfold leafm; auto 12.
    + rewrite count_of_key by exact Hm. exact Hb1.
Qed.

Lemma step_key_dich : forall b p s a, maj p = stKey -> bufok p (p_lcur p) ->
  Dich b (step_key p s a) (step_key p s (a ++ b)).
Proof.
  intros b p s a Hm Hb. unfold step_key at 1.
  destruct (collect p a (p_lcur p)) as [p' rest' [t|]|] eqn:E; [..|exact I].
  - apply Dich_ext. destruct (collect_some_app p a b _ _ _ _ Hb E) as [E2 _].
    unfold step_key. rewrite E2.
    destruct (vis s (EKeyRef t)) as [s2 err]. destruct (isnil err) eqn:Ee; ext_solve.
  - destruct (collect_none_app p a b _ _ _ Hb E) as (-> & -> & Hb1 & E2).
    right. repeat split; auto.
    + eapply startx_false; [exact Hm|reflexivity].
    + rewrite ex_key by exact Hm. unfold step_key. pc. rewrite E2. apply ext_refl.
Qed.

Lemma step_float_inv : forall w p s a p1 s1 rest d,
  leafm (maj p) -> count_of p = w -> p_err p = 0 -> ctxs (p_stack p) -> bufok p w ->
  step_float w p s a = SR p1 s1 rest d nilE -> Inv p1.
Proof.
  intros w p s a p1 s1 rest d Hm Hw He Hc Hb H. unfold step_float, get_uint in H.
  destruct (collect p a w) as [p' rest' [t|]|] eqn:E; [..|discriminate].
  - destruct (collect_some_app p a [] _ _ _ _ Hb E) as [_ ->].
    destruct (vis s _) as [s2 err]. destruct (isnil err) eqn:Ee.
    + destruct (pop_state _ s2) as [[[[p2 s3] d2] e2]|] eqn:E2; [|discriminate].
      invSR H. apply InvE_Inv, InvC_InvE. eapply pop_ready; [| | |exact E2]; auto.
    + invSR H. discriminate.
  - destruct (collect_none_app p a [] _ _ _ Hb E) as (-> & -> & Hb1 & _).
    invSR H. apply leaf_Inv; [exact He|exact Hm|exact Hc|].
    exact Hb1.
Qed.

Lemma step_float_dich : forall b w p s a,
  (maj p = 250 /\ w = 4) \/ (maj p = 251 /\ w = 8) -> bufok p w ->
  Dich b (step_float w p s a) (step_float w p s (a ++ b)).
Proof.
  intros b w p s a Hm Hb. unfold step_float at 1. unfold get_uint.
  destruct (collect p a w) as [p' rest' [t|]|] eqn:E; [..|exact I].
  - apply Dich_ext. destruct (collect_some_app p a b _ _ _ _ Hb E) as [E2 _].
    unfold step_float, get_uint. rewrite E2.
    destruct (vis s _) as [s2 err]. destruct (isnil err) eqn:Ee.
    + destruct (pop_state _ s2) as [[[[p2 s3] d2] e2]|]; ext_solve.
    + ext_solve.
  - destruct (collect_none_app p a b _ _ _ Hb E) as (-> & -> & Hb1 & E2).
    right. repeat split; auto.
    + destruct Hm as [[Hm _]|[Hm _]]; (eapply startx_false; [exact Hm|reflexivity]).
    + destruct Hm as [[Hm ->]|[Hm ->]].
      * rewrite ex_f32 by exact Hm. unfold step_float, get_uint. rewrite E2. apply ext_refl.
      * rewrite ex_f64 by exact Hm. unfold step_float, get_uint. rewrite E2. apply ext_refl.
Qed.

Lemma step_num_inv : forall neg p s a p1 s1 rest d,
  Inv p -> maj p = mUint \/ maj p = mNeg ->
  step_num neg p s a = SR p1 s1 rest d nilE -> Inv p1.
Proof.
  intros neg p s a p1 s1 rest d HI Hm H.
  assert (Hl : leafm (maj p)) by (unfold leafm; destruct Hm; auto).
  destruct (Inv_leaf p HI Hl) as (He & Hc & Hb).
  rewrite count_of_num in Hb by tauto.
  unfold step_num, get_uint in H.
  destruct (c_minor (p_cur p) =? 24) eqn:E24.
  - replace ((c_minor (p_cur p) =? 25) || (c_minor (p_cur p) =? 26) || (c_minor (p_cur p) =? 27))
      with false in Hb by lia.
    apply bufok_0 in Hb.
    destruct a as [|v r]; [discriminate|].
    destruct (num_event neg _ v); [|discriminate].
    destruct (vis s e) as [s2 err].
    apply InvE_Inv, InvC_InvE.
    eapply after_pop_inv; [| | | |exact H|]; eauto. reflexivity.
  - destruct ((c_minor (p_cur p) =? 25) || (c_minor (p_cur p) =? 26) || (c_minor (p_cur p) =? 27)) eqn:E25.
    + destruct (collect p a _) as [p' rest' [t|]|] eqn:E; [..|discriminate].
      * destruct (collect_some_app p a [] _ _ _ _ Hb E) as [_ ->].
        apply InvE_Inv, InvC_InvE.
        destruct (num_event neg _ (be_dec t)).
        -- destruct (vis s e) as [s2 err].
           eapply after_pop_inv; [| | | |exact H|]; eauto; reflexivity.
        -- eapply after_pop_inv; [| | | |exact H|]; eauto; reflexivity.
      * destruct (collect_none_app p a [] _ _ _ Hb E) as (-> & -> & Hb1 & _).
        invSR H. apply leaf_Inv; [exact He|exact Hl|exact Hc|].
        change (count_of (set_buf p (p_buf p ++ a))) with (count_of p).
        rewrite count_of_num by tauto. rewrite E25. exact Hb1.
    + invSR H. exact HI.
Qed.

Lemma step_num_dich : forall b neg p s a,
  (maj p = mUint /\ neg = false) \/ (maj p = mNeg /\ neg = true) ->
  bufok p (count_of p) -> a <> [] ->
  Dich b (step_num neg p s a) (step_num neg p s (a ++ b)).
Proof.
  intros b neg p s a Hm Hb Ha.
  rewrite count_of_num in Hb by tauto.
  unfold step_num at 1. unfold get_uint.
  destruct (c_minor (p_cur p) =? 24) eqn:E24.
  - apply Dich_ext. unfold step_num. rewrite E24.
    destruct a as [|v r]; [congruence|]. cbn [app].
    destruct (num_event neg _ v); [|ext_solve].
    destruct (vis s e) as [s2 err]. apply after_pop_ext.
  - destruct ((c_minor (p_cur p) =? 25) || (c_minor (p_cur p) =? 26) || (c_minor (p_cur p) =? 27)) eqn:E25.
    + destruct (collect p a _) as [p' rest' [t|]|] eqn:E; [..|exact I].
      * apply Dich_ext. destruct (collect_some_app p a b _ _ _ _ Hb E) as [E2 _].
        unfold step_num, get_uint. rewrite E24, E25, E2.
        destruct (num_event neg _ (be_dec t)).
        -- destruct (vis s e) as [s2 err]. apply after_pop_ext.
        -- apply after_pop_ext.
      * destruct (collect_none_app p a b _ _ _ Hb E) as (-> & -> & Hb1 & E2).
        right. repeat split; auto.
        -- destruct Hm as [[Hm _]|[Hm _]]; (eapply startx_false; [exact Hm|reflexivity]).
        -- destruct Hm as [[Hm ->]|[Hm ->]].
           ++ rewrite ex_uint by exact Hm. unfold step_num, get_uint. pc.
              rewrite E24, E25, E2. apply ext_refl.
           ++ rewrite ex_neg by exact Hm. unfold step_num, get_uint. pc.
              rewrite E24, E25, E2. apply ext_refl.
    + apply Dich_ext. unfold step_num. rewrite E24, E25. ext_solve.
Qed.

Lemma step_len_inv : forall p s a p1 s1 rest d,
  Inv p -> maj p = stLen -> step_len p s a = SR p1 s1 rest d nilE -> Inv p1.
Proof.
  intros p s a p1 s1 rest d HI Hm H.
  destruct HI as (He & Hs & Hb).
  assert (HI : Inv p) by (repeat split; assumption).
  unfold cfg in Hs. destruct (shape_len _ _ Hs Hm) as [Hl Hs2].
  rewrite count_of_num in Hb by tauto.
  assert (Hpop : forall q v, p_cur q = p_cur p -> p_stack q = p_stack p -> p_err q = 0 ->
                 p_buf q = [] -> Inv (st_pop (len_push q v))).
  { intros [cur st lc ls bf er] v A B C D. pc. subst.
    destruct (p_stack p) as [|c2 l2]; [destruct Hl|].
    apply InvE_Inv. repeat split; pc; auto. }
  unfold step_len, get_uint in H.
  destruct (c_minor (p_cur p) =? 24) eqn:E24.
  - replace ((c_minor (p_cur p) =? 25) || (c_minor (p_cur p) =? 26) || (c_minor (p_cur p) =? 27))
      with false in Hb by lia.
    apply bufok_0 in Hb.
    destruct a as [|v r]; [discriminate|]. invSR H. apply Hpop; auto.
  - destruct ((c_minor (p_cur p) =? 25) || (c_minor (p_cur p) =? 26) || (c_minor (p_cur p) =? 27)) eqn:E25.
    + destruct (collect p a _) as [p' rest' [t|]|] eqn:E; [..|discriminate].
      * destruct (collect_some_app p a [] _ _ _ _ Hb E) as [_ ->].
        destruct (be_dec t >? 9223372036854775807); invSR H; try discriminate.
        apply Hpop; auto.
      * destruct (collect_none_app p a [] _ _ _ Hb E) as (-> & -> & Hb1 & _).
        invSR H. repeat split; auto.
        change (count_of (set_buf p (p_buf p ++ a))) with (count_of p).
        rewrite count_of_num by tauto. rewrite E25. exact Hb1.
    + invSR H. exact HI.
Qed.

Lemma step_len_dich : forall b p s a,
  maj p = stLen -> bufok p (count_of p) -> a <> [] ->
  Dich b (step_len p s a) (step_len p s (a ++ b)).
Proof.
  intros b p s a Hm Hb Ha.
  rewrite count_of_num in Hb by tauto.
  unfold step_len at 1. unfold get_uint.
  destruct (c_minor (p_cur p) =? 24) eqn:E24.
  - apply Dich_ext. unfold step_len. rewrite E24.
    destruct a as [|v r]; [congruence|]. cbn [app]. ext_solve.
  - destruct ((c_minor (p_cur p) =? 25) || (c_minor (p_cur p) =? 26) || (c_minor (p_cur p) =? 27)) eqn:E25.
    + destruct (collect p a _) as [p' rest' [t|]|] eqn:E; [..|exact I].
      * apply Dich_ext. destruct (collect_some_app p a b _ _ _ _ Hb E) as [E2 _].
        unfold step_len, get_uint. rewrite E24, E25, E2.
        destruct (be_dec t >? 9223372036854775807); ext_solve.
      * destruct (collect_none_app p a b _ _ _ Hb E) as (-> & -> & Hb1 & E2).
        right. repeat split; auto.
        -- eapply startx_false; [exact Hm|reflexivity].
        -- rewrite ex_len by exact Hm. unfold step_len, get_uint. pc.
           rewrite E24, E25, E2. apply ext_refl.
    + apply Dich_ext. unfold step_len. rewrite E24, E25. ext_solve.
Qed.

(* ----- byte strings are delivered piecemeal ----- *)
Definition bytes_start (p : cparser) (s : sink) : cparser * sink * Z :=
  if c_minor (p_cur p) =? stStart then
    let '(s1, err) := vis s (EArrStart (p_lcur p) BByte) in
    (if isnil err then set_cur p (mkst (c_major (p_cur p)) stCont) else p, s1, err)
  else (p, s, nilE).

Definition bytes_tail (p1 : cparser) (s1 : sink) (b : bytes) : sres :=
  let L := p_lcur p1 in
  let done := zlen b >=? L in
  let '(p2, L2) := if done then (p1, L) else (set_lcur p1 (p_lcur p1 - zlen b), zlen b) in
  if L2 <? 0 then Crash 7 else
  let '(s2, err) := emit_bytes s1 (zfirstn L2 b) in
  if negb (isnil err) then SR p2 s2 [] false err else
  let rest := zskipn L2 b in
  if done then
    let '(s3, err3) := vis s2 EArrEnd in
    let p3 := len_pop p2 in
    if isnil err3 then
      match pop_state p3 s3 with
      | Some (p4, s4, d, e) => SR p4 s4 rest d e
      | None => Crash 93
      end
    else SR p3 s3 rest true err3
  else SR p2 s2 rest false nilE.

Lemma step_bytes_eq : forall p s b,
  step_bytes p s b =
    let '(p1, s1, err0) := bytes_start p s in
    if negb (isnil err0) then SR p1 s1 [] false err0 else bytes_tail p1 s1 b.
Proof. reflexivity. Qed.

Lemma emit_bytes_app : forall x y s,
  emit_bytes s (x ++ y) =
    let '(s1, e) := emit_bytes s x in if isnil e then emit_bytes s1 y else (s1, e).
Proof.
  induction x as [|c x IH]; intros y s.
  - reflexivity.
  - cbn [app emit_bytes]. destruct (vis s _) as [s1 e]. destruct (isnil e) eqn:E.
    + apply IH.
    + rewrite E. reflexivity.
Qed.

(* the parser after the start of a byte string *)
Lemma bytes_start_props : forall p s q s1 e,
  bytes_start p s = (q, s1, e) ->
  p_stack q = p_stack p /\ p_buf q = p_buf p /\ p_err q = p_err p /\ maj q = maj p /\
  (e = nilE -> c_minor (p_cur q) <> stStart).
Proof.
  intros p s q s1 e H. unfold bytes_start in H.
  destruct (c_minor (p_cur p) =? stStart) eqn:E.
  - destruct (vis s _) as [s2 err]. destruct (isnil err) eqn:Ee; invSR H.
    + repeat split; auto. intros _. pc. discriminate.
    + repeat split; auto. intros ->. discriminate.
  - invSR H. repeat split; auto. intros _. apply Z.eqb_neq. exact E.
Qed.

Lemma bytes_tail_inv : forall q s1 a p1 s2 rest d,
  maj q = mBytes -> p_err q = 0 -> ctxs (p_stack q) -> p_buf q = [] ->
  bytes_tail q s1 a = SR p1 s2 rest d nilE -> InvE p1.
Proof.
  intros q s1 a p1 s2 rest d Hm He Hc Hb H. unfold bytes_tail in H.
  assert (Hleaf : forall x, InvE (set_lcur q x)).
  { intros x. repeat split; auto. unfold cfg; pc. apply sh_leaf; auto.
    unfold maj in Hm. rewrite Hm. unfold leafm; auto 12. }
  destruct (zlen a >=? p_lcur q).
  - destruct (p_lcur q <? 0); [discriminate|].
    destruct (emit_bytes s1 _) as [s3 err]. destruct (negb (isnil err)) eqn:E1.
    + invSR H. discriminate.
    + destruct (vis s3 EArrEnd) as [s4 err3]. destruct (isnil err3) eqn:E3.
      * destruct (pop_state _ s4) as [[[[p4 s5] d4] e4]|] eqn:E4; [|discriminate].
        invSR H. apply InvC_InvE. eapply pop_ready_len; [| | |exact E4]; auto.
      * invSR H. discriminate.
  - destruct (zlen a <? 0); [discriminate|].
    destruct (emit_bytes s1 _) as [s3 err]. destruct (negb (isnil err)) eqn:E1.
    + invSR H. discriminate.
    + invSR H. apply Hleaf.
Qed.

Lemma step_bytes_inv : forall p s a p1 s1 rest d,
  maj p = mBytes -> p_err p = 0 -> ctxs (p_stack p) -> p_buf p = [] ->
  step_bytes p s a = SR p1 s1 rest d nilE -> InvE p1.
Proof.
  intros p s a p1 s1 rest d Hm He Hc Hb H. rewrite step_bytes_eq in H.
  destruct (bytes_start p s) as [[q s2] e0] eqn:E0.
  destruct (bytes_start_props _ _ _ _ _ E0) as (A & B & C & D & _).
  destruct (negb (isnil e0)) eqn:E1.
  - invSR H. discriminate.
  - eapply bytes_tail_inv; [| | | |exact H]; congruence.
Qed.

Lemma bytes_tail_split : forall q s1 s2 a b,
  zlen a < p_lcur q -> emit_bytes s1 a = (s2, nilE) ->
  ext [] (bytes_tail (set_lcur q (p_lcur q - zlen a)) s2 b) (bytes_tail q s1 (a ++ b)).
Proof.
  intros q s1 s2 a b Hl Em. unfold bytes_tail. pc.
  pose proof (zlen_nonneg a) as Ha. pose proof (zlen_nonneg b) as Hb.
  rewrite zlen_app.
  replace (zlen a + zlen b >=? p_lcur q) with (zlen b >=? p_lcur q - zlen a) by lia.
  destruct (zlen b >=? p_lcur q - zlen a) eqn:Ed.
  - replace (p_lcur q - zlen a <? 0) with false by lia.
    replace (p_lcur q <? 0) with false by lia.
    rewrite (zfirstn_app (p_lcur q) a b), (zfirstn_all (p_lcur q) a) by lia.
    rewrite emit_bytes_app, Em. replace (isnil nilE) with true by reflexivity.
    rewrite (zskipn_app (p_lcur q) a b), (zskipn_all (p_lcur q) a) by lia. cbn [app].
    rewrite len_pop_set_lcur.
    destruct (emit_bytes s2 _) as [s3 err]. destruct (negb (isnil err)) eqn:En.
    + boolprop. ext_solve.
    + apply ext_refl.
  - replace (zlen b <? 0) with false by lia.
    replace (zlen a + zlen b <? 0) with false by lia.
    rewrite (zfirstn_all (zlen b) b) by lia.
    rewrite (zfirstn_all (zlen a + zlen b) (a ++ b)) by (rewrite zlen_app; lia).
    rewrite emit_bytes_app, Em. replace (isnil nilE) with true by reflexivity.
    rewrite (zskipn_all (zlen b) b) by lia.
    rewrite (zskipn_all (zlen a + zlen b) (a ++ b)) by (rewrite zlen_app; lia).
    replace (p_lcur q - zlen a - zlen b) with (p_lcur q - (zlen a + zlen b)) by lia.
    apply ext_refl.
Qed.

Lemma bytes_tail_dich : forall b q s1 a,
  maj q = mBytes -> c_minor (p_cur q) <> stStart ->
  Dich b (bytes_tail q s1 a) (bytes_tail q s1 (a ++ b)).
Proof.
  intros b q s1 a Hm Hn. unfold bytes_tail at 1.
  pose proof (zlen_nonneg a) as Ha. pose proof (zlen_nonneg b) as Hb.
  destruct (zlen a >=? p_lcur q) eqn:Ed.
  - destruct (p_lcur q <? 0) eqn:El; [exact I|].
    apply Dich_ext. unfold bytes_tail. rewrite zlen_app.
    replace (zlen a + zlen b >=? p_lcur q) with true by lia. rewrite El.
    rewrite (zfirstn_app (p_lcur q) a b), (zfirstn_le0 (p_lcur q - zlen a) b), app_nil_r by lia.
    rewrite (zskipn_app (p_lcur q) a b), (zskipn_le0 (p_lcur q - zlen a) b) by lia.
    destruct (emit_bytes s1 _) as [s2 err]. destruct (negb (isnil err)) eqn:En.
    + boolprop. ext_solve.
    + destruct (vis s2 EArrEnd) as [s3 err3]. destruct (isnil err3) eqn:E3.
      * destruct (pop_state _ s3) as [[[[p4 s4] d4] e4]|]; ext_solve.
      * ext_solve.
  - replace (zlen a <? 0) with false by lia.
    rewrite (zfirstn_all (zlen a) a) by lia.
    destruct (emit_bytes s1 a) as [s2 err] eqn:Em. destruct (negb (isnil err)) eqn:En.
    + left. boolprop. unfold bytes_tail. rewrite zlen_app.
      assert (W : forall n, zlen a <= n ->
                emit_bytes s1 (zfirstn n (a ++ b)) = (s2, err)).
      { intros n Hn'. rewrite (zfirstn_app n a b), (zfirstn_all n a) by lia.
        rewrite emit_bytes_app, Em. apply isnil_false in En. rewrite En. reflexivity. }
      destruct (zlen a + zlen b >=? p_lcur q).
      * replace (p_lcur q <? 0) with false by lia. rewrite W by lia.
        apply isnil_false in En. rewrite En. cbn [negb]. apply ext_err.
        apply isnil_false; assumption.
      * replace (zlen a + zlen b <? 0) with false by lia. rewrite W by lia.
        apply isnil_false in En. rewrite En. cbn [negb]. apply ext_err.
        apply isnil_false; assumption.
    + boolprop. subst err. rewrite (zskipn_all (zlen a) a) by lia.
      right. repeat split; auto.
      * eapply startx_false; [exact Hm|reflexivity].
      * rewrite ex_bytes by exact Hm. rewrite step_bytes_eq.
        unfold bytes_start. pc.
        replace (c_minor (p_cur q) =? stStart) with false by lia.
        replace (negb (isnil nilE)) with false by reflexivity.
        apply bytes_tail_split; [lia|exact Em].
Qed.

Lemma step_bytes_dich : forall b p s a, maj p = mBytes ->
  Dich b (step_bytes p s a) (step_bytes p s (a ++ b)).
Proof.
  intros b p s a Hm. rewrite !step_bytes_eq.
  destruct (bytes_start p s) as [[q s2] e0] eqn:E0.
  destruct (bytes_start_props _ _ _ _ _ E0) as (A & B & C & D & F).
  destruct (negb (isnil e0)) eqn:E1.
  - apply Dich_ext. boolprop. ext_solve.
  - boolprop. apply bytes_tail_dich; [congruence|auto].
Qed.

(* ---------- exec_step: invariant and dichotomy, class by class ---------- *)
Lemma need_input : forall p (a : bytes) m, a <> [] \/ startx p = true -> maj p = m ->
  (Z.land m (stStartX + stIndef) =? stStartX) = false -> a <> [].
Proof.
  intros p a m [H|H] Hm E; [assumption|].
  rewrite (startx_false p m Hm E) in H. discriminate.
Qed.

Lemma subx_pop : forall p m, Inv p -> is_sub m -> maj p = m + stStartX ->
  InvC (st_pop p) /\ maj (st_pop p) = m.
Proof.
  intros p m (He & Hs & Hb) Hm Hp. unfold cfg in Hs.
  destruct (shape_subx _ _ m Hs Hm Hp) as (c2 & l' & E & Hc2 & Hc).
  assert (Hbuf : p_buf p = []).
  { apply bufok_0. rewrite <- (count_of_0 p); [assumption|..];
      unfold is_sub in Hm; splitor; rewrite Hp, Hm; zconst; lia. }
  destruct p as [cur st lc ls bf er]. pc. subst st. pc.
  split; [|exact Hc2]. repeat split; auto.
Qed.

(* containers *)
Lemma cl_value_inv : forall p s a p1 s1 rest d,
  Inv p -> maj p = stValue -> exec_step p s a = SR p1 s1 rest d nilE -> Inv p1.
Proof.
  intros p s a p1 s1 rest d HI Hm H. rewrite ex_value in H by exact Hm.
  apply InvE_Inv. eapply step_value_inv; [|exact H|reflexivity]. apply Inv_ctx; auto.
Qed.
Lemma cl_value_dich : forall p s a b, maj p = stValue -> a <> [] ->
  Dich b (exec_step p s a) (exec_step p s (a ++ b)).
Proof.
  intros p s a b Hm Ha. rewrite !ex_value by exact Hm. apply Dich_ext, step_value_ext, Ha.
Qed.

Lemma sub_not_value : forall m, is_sub m -> m <> stValue.
Proof. intros m H; unfold is_sub in H; splitor; subst; discriminate. Qed.

Lemma cl_sub_inv : forall p s a p1 s1 rest d,
  Inv p -> is_sub (maj p) -> exec_step p s a = SR p1 s1 rest d nilE -> Inv p1.
Proof.
  intros p s a p1 s1 rest d HI Hm H.
  assert (HC : InvC p) by (apply Inv_ctx; auto).
  pose proof (sub_not_value _ Hm) as Hn.
  apply InvE_Inv. unfold is_sub in Hm. destruct Hm as [Hm|[Hm|[Hm|Hm]]].
  - rewrite ex_arr in H by exact Hm. eapply step_array_inv; eauto.
  - rewrite ex_map in H by exact Hm. eapply step_map_inv; eauto.
  - rewrite ex_arri in H by exact Hm. eapply indef_body_inv; eauto.
  - rewrite ex_mapi in H by exact Hm. eapply indef_body_inv; eauto.
Qed.
Lemma cl_sub_dich : forall p s a b, is_sub (maj p) -> a <> [] -> b <> [] ->
  Dich b (exec_step p s a) (exec_step p s (a ++ b)).
Proof.
  intros p s a b Hm Ha Hb. unfold is_sub in Hm. destruct Hm as [Hm|[Hm|[Hm|Hm]]].
  - rewrite !ex_arr by exact Hm. apply step_array_dich; auto.
  - rewrite !ex_map by exact Hm. apply step_map_dich; auto.
  - rewrite !ex_arri by exact Hm. apply Dich_ext, indef_body_ext, Ha.
  - rewrite !ex_mapi by exact Hm. apply Dich_ext, indef_body_ext, Ha.
Qed.

Lemma cl_subx_inv : forall p s a m p1 s1 rest d,
  Inv p -> is_sub m -> maj p = m + stStartX ->
  exec_step p s a = SR p1 s1 rest d nilE -> Inv p1.
Proof.
  intros p s a m p1 s1 rest d HI Hm Hp H.
  destruct (subx_pop p m HI Hm Hp) as [HC Hq].
  assert (Hn : maj (st_pop p) <> stValue) by (rewrite Hq; apply sub_not_value; exact Hm).
  apply InvE_Inv. unfold is_sub in Hm. destruct Hm as [Hm|[Hm|[Hm|Hm]]]; subst m.
  - rewrite ex_arrx in H by exact Hp.
    destruct (vis s _) as [s2 err]. destruct (isnil err) eqn:Ee.
    + eapply step_array_inv; eauto.
    + invSR H. discriminate.
  - rewrite ex_mapx in H by exact Hp.
    destruct (vis s _) as [s2 err]. destruct (isnil err) eqn:Ee.
    + eapply step_map_inv; eauto.
    + invSR H. discriminate.
  - rewrite ex_arrxi in H by (rewrite Hp; reflexivity).
    destruct (vis s _) as [s2 err]. destruct (isnil err) eqn:Ee.
    + eapply indef_body_inv; eauto.
    + invSR H. discriminate.
  - rewrite ex_mapxi in H by (rewrite Hp; reflexivity).
    destruct (vis s _) as [s2 err]. destruct (isnil err) eqn:Ee.
    + eapply indef_body_inv; eauto.
    + invSR H. discriminate.
Qed.

Lemma cl_subx_dich : forall p s a b m,
  Inv p -> is_sub m -> maj p = m + stStartX -> a <> [] \/ startx p = true -> b <> [] ->
  Dich b (exec_step p s a) (exec_step p s (a ++ b)).
Proof.
  intros p s a b m HI Hm Hp Ha Hb.
  destruct (subx_pop p m HI Hm Hp) as [HC Hq].
  unfold is_sub in Hm. destruct Hm as [Hm|[Hm|[Hm|Hm]]]; subst m.
  - rewrite !ex_arrx by exact Hp.
    destruct (vis s _) as [s2 err]. destruct (isnil err) eqn:Ee.
    + apply step_array_dich; auto.
    + apply Dich_ext. ext_solve.
  - rewrite !ex_mapx by exact Hp.
    destruct (vis s _) as [s2 err]. destruct (isnil err) eqn:Ee.
    + apply step_map_dich; auto.
    + apply Dich_ext. ext_solve.
  - assert (Ha' : a <> []) by (eapply need_input; [exact Ha|exact Hp|reflexivity]).
    rewrite !ex_arrxi by (rewrite Hp; reflexivity).
    destruct (vis s _) as [s2 err]. destruct (isnil err) eqn:Ee.
    + apply Dich_ext, indef_body_ext, Ha'.
    + apply Dich_ext. ext_solve.
  - assert (Ha' : a <> []) by (eapply need_input; [exact Ha|exact Hp|reflexivity]).
    rewrite !ex_mapxi by (rewrite Hp; reflexivity).
    destruct (vis s _) as [s2 err]. destruct (isnil err) eqn:Ee.
    + apply Dich_ext, indef_body_ext, Ha'.
    + apply Dich_ext. ext_solve.
Qed.

(* token states *)
Lemma clear_maj : forall p m, maj p = m + stStartX -> maj (clear_startx p) = m.
Proof. intros p m H. unfold maj in *. pc. lia. Qed.

Lemma zlen_eqb_nil : forall (a : bytes), a <> [] -> (zlen a =? 0) = false.
Proof. intros a H. pose proof (zlen_pos a H). lia. Qed.
Lemma app_nonnil : forall (a b : bytes), a <> [] -> a ++ b <> [].
Proof. intros [|x a] b H; [congruence|discriminate]. Qed.

Lemma leaf_buf_nil : forall p, bufok p (count_of p) ->
  maj p = mBytes \/ maj p = mBytes + stStartX \/ maj p = mText + stStartX \/
  maj p = stKey + stStartX \/ maj p = stElem -> p_buf p = [].
Proof.
  intros p Hb Hm. apply bufok_0. rewrite <- (count_of_0 p); [assumption|..];
    splitor; rewrite Hm; zconst; lia.
Qed.

Lemma cl_leaf_inv : forall p s a p1 s1 rest d,
  Inv p -> leafm (maj p) -> exec_step p s a = SR p1 s1 rest d nilE -> Inv p1.
Proof.
  intros p s a p1 s1 rest d HI Hl H.
  destruct (Inv_leaf p HI Hl) as (He & Hc & Hb).
  unfold leafm in Hl.
  destruct Hl as [Hm|[Hm|[Hm|[Hm|[Hm|[Hm|[Hm|[Hm|[Hm|[Hm|Hm]]]]]]]]]].
  - rewrite ex_uint in H by exact Hm. eapply step_num_inv; eauto.
  - rewrite ex_neg in H by exact Hm. eapply step_num_inv; eauto.
  - rewrite ex_f32 in H by exact Hm. rewrite count_of_f32 in Hb by exact Hm.
    eapply step_float_inv; [| | | | |exact H]; auto.
    + unfold leafm; auto 12.
    + apply count_of_f32; exact Hm.
  - rewrite ex_f64 in H by exact Hm. rewrite count_of_f64 in Hb by exact Hm.
    eapply step_float_inv; [| | | | |exact H]; auto.
    + unfold leafm; auto 12.
    + apply count_of_f64; exact Hm.
  - rewrite ex_bytes in H by exact Hm. apply InvE_Inv.
    eapply step_bytes_inv; [| | | |exact H]; auto. apply leaf_buf_nil; auto.
  - rewrite ex_text in H by exact Hm. rewrite count_of_text in Hb by exact Hm.
    eapply step_text_inv; [| | | |exact H]; auto.
  - (* bytes, fresh *)
    assert (Hbuf : p_buf p = []) by (apply leaf_buf_nil; auto).
    rewrite ex_bytesx in H by exact Hm.
    destruct (p_lcur p =? 0).
    + destruct (vis s _) as [s2 err]. destruct (isnil err) eqn:Ee; [|invSR H; discriminate].
      destruct (vis s2 _) as [s3 err2]. cbv zeta in H.
      destruct (isnil err2) eqn:Ee2; [|invSR H; discriminate].
      destruct (pop_state _ s3) as [[[[p2 s4] d2] e2]|] eqn:E2; [|discriminate].
      invSR H. apply InvE_Inv, InvC_InvE. eapply pop_ready_len; [| | |exact E2]; auto.
    + pose proof (clear_maj p mBytes Hm) as Hm'. cbv zeta in H.
      destruct (zlen a =? 0).
      * invSR H. apply leaf_Inv; auto.
        -- rewrite Hm'. unfold leafm; auto 12.
        -- left. exact Hbuf.
      * apply InvE_Inv. eapply step_bytes_inv; [| | | |exact H]; auto.
  - (* text, fresh *)
    assert (Hbuf : p_buf p = []) by (apply leaf_buf_nil; auto).
    rewrite ex_textx in H by exact Hm.
    destruct (p_lcur p =? 0).
    + cbv zeta in H.
      destruct (vis s _) as [s2 err]. destruct (isnil err) eqn:Ee; [|invSR H; discriminate].
      destruct (pop_state _ s2) as [[[[p2 s4] d2] e2]|] eqn:E2; [|discriminate].
      invSR H. apply InvE_Inv, InvC_InvE. eapply pop_ready_len; [| | |exact E2]; auto.
    + pose proof (clear_maj p mText Hm) as Hm'. cbv zeta in H.
      destruct (zlen a =? 0).
      * invSR H. apply leaf_Inv; auto.
        -- rewrite Hm'. unfold leafm; auto 12.
        -- left. exact Hbuf.
      * eapply step_text_inv; [| | | |exact H]; auto. left. exact Hbuf.
  - rewrite ex_key in H by exact Hm. rewrite count_of_key in Hb by exact Hm.
    eapply step_key_inv; [| | | |exact H]; auto.
  - (* key, fresh *)
    assert (Hbuf : p_buf p = []) by (apply leaf_buf_nil; auto 6).
    rewrite ex_keyx in H by exact Hm.
    destruct (p_lcur p =? 0).
    + destruct (vis s _) as [s2 err]. destruct (isnil err) eqn:Ee; invSR H.
      * apply InvE_Inv. destruct (len_pop_proj p) as (A & B & C & D).
        repeat split; pc; try congruence.
        unfold cfg; pc. rewrite B. apply sh_leaf; [unfold leafm; pc; auto 12|assumption].
      * boolprop. congruence.
    + pose proof (clear_maj p stKey Hm) as Hm'.
      eapply step_key_inv; [| | | |exact H]; auto. left. exact Hbuf.
  - (* map element *)
    assert (Hbuf : p_buf p = []) by (apply leaf_buf_nil; auto 6).
    rewrite ex_elem in H by exact Hm. apply InvE_Inv.
    eapply step_value_inv; [|exact H|reflexivity].
    eapply InvC_st_pop; eauto. reflexivity.
Qed.

Lemma cl_leaf_dich : forall p s a b,
  Inv p -> leafm (maj p) -> a <> [] \/ startx p = true -> b <> [] ->
  Dich b (exec_step p s a) (exec_step p s (a ++ b)).
Proof.
  intros p s a b HI Hl Ha Hb0.
  destruct (Inv_leaf p HI Hl) as (He & Hc & Hb).
  unfold leafm in Hl.
  destruct Hl as [Hm|[Hm|[Hm|[Hm|[Hm|[Hm|[Hm|[Hm|[Hm|[Hm|Hm]]]]]]]]]].
  - assert (Ha' : a <> []) by (eapply need_input; [exact Ha|exact Hm|reflexivity]).
    rewrite !ex_uint by exact Hm. apply step_num_dich; auto.
  - assert (Ha' : a <> []) by (eapply need_input; [exact Ha|exact Hm|reflexivity]).
    rewrite !ex_neg by exact Hm. apply step_num_dich; auto.
  - rewrite !ex_f32 by exact Hm. rewrite count_of_f32 in Hb by exact Hm.
    apply step_float_dich; auto.
  - rewrite !ex_f64 by exact Hm. rewrite count_of_f64 in Hb by exact Hm.
    apply step_float_dich; auto.
  - rewrite !ex_bytes by exact Hm. apply step_bytes_dich; auto.
  - rewrite !ex_text by exact Hm. rewrite count_of_text in Hb by exact Hm.
    apply step_text_dich; auto.
  - (* bytes, fresh *)
    rewrite !ex_bytesx by exact Hm.
    pose proof (clear_maj p mBytes Hm) as Hm'.
    destruct (p_lcur p =? 0).
    + apply Dich_ext.
      destruct (vis s _) as [s2 err]. destruct (isnil err) eqn:Ee; [|ext_solve].
      destruct (vis s2 _) as [s3 err2]. cbv zeta.
      destruct (isnil err2) eqn:Ee2; [|ext_solve].
      destruct (pop_state _ s3) as [[[[p2 s4] d2] e2]|]; ext_solve.
    + cbv zeta. destruct a as [|a0 ar].
      * cbn [app]. replace (zlen (@nil Z) =? 0) with true by reflexivity.
        rewrite (zlen_eqb_nil b Hb0). right. repeat split; auto.
        -- eapply startx_false; [exact Hm'|reflexivity].
        -- rewrite (ex_bytes _ s b Hm'). apply ext_refl.
      * rewrite (zlen_eqb_nil (a0 :: ar)) by discriminate.
        rewrite (zlen_eqb_nil ((a0 :: ar) ++ b)) by discriminate.
        apply step_bytes_dich; auto.
  - (* text, fresh *)
    assert (Hbuf : p_buf p = []) by (apply leaf_buf_nil; auto).
    rewrite !ex_textx by exact Hm.
    pose proof (clear_maj p mText Hm) as Hm'.
    destruct (p_lcur p =? 0).
    + apply Dich_ext. cbv zeta.
      destruct (vis s _) as [s2 err]. destruct (isnil err) eqn:Ee; [|ext_solve].
      destruct (pop_state _ s2) as [[[[p2 s4] d2] e2]|]; ext_solve.
    + cbv zeta. destruct a as [|a0 ar].
      * cbn [app]. replace (zlen (@nil Z) =? 0) with true by reflexivity.
        rewrite (zlen_eqb_nil b Hb0). right. repeat split; auto.
        -- eapply startx_false; [exact Hm'|reflexivity].
        -- rewrite (ex_text _ s b Hm'). apply ext_refl.
      * rewrite (zlen_eqb_nil (a0 :: ar)) by discriminate.
        rewrite (zlen_eqb_nil ((a0 :: ar) ++ b)) by discriminate.
        apply step_text_dich; auto. left. exact Hbuf.
  - rewrite !ex_key by exact Hm. rewrite count_of_key in Hb by exact Hm.
    apply step_key_dich; auto.
  - (* key, fresh *)
    assert (Hbuf : p_buf p = []) by (apply leaf_buf_nil; auto 6).
    rewrite !ex_keyx by exact Hm.
    pose proof (clear_maj p stKey Hm) as Hm'.
    destruct (p_lcur p =? 0).
    + apply Dich_ext.
      destruct (vis s _) as [s2 err]. destruct (isnil err) eqn:Ee; ext_solve.
    + apply step_key_dich; auto. left. exact Hbuf.
  - assert (Ha' : a <> []) by (eapply need_input; [exact Ha|exact Hm|reflexivity]).
    rewrite !ex_elem by exact Hm. apply Dich_ext, step_value_ext, Ha'.
Qed.

Lemma cl_len_inv : forall p s a p1 s1 rest d,
  Inv p -> maj p = stLen -> exec_step p s a = SR p1 s1 rest d nilE -> Inv p1.
Proof.
  intros p s a p1 s1 rest d HI Hm H. rewrite ex_len in H by exact Hm.
  eapply step_len_inv; eauto.
Qed.
Lemma cl_len_dich : forall p s a b,
  Inv p -> maj p = stLen -> a <> [] ->
  Dich b (exec_step p s a) (exec_step p s (a ++ b)).
Proof.
  intros p s a b HI Hm Ha. rewrite !ex_len by exact Hm.
  apply step_len_dich; auto. apply HI.
Qed.

(* ---------- all states ---------- *)
Lemma maj_cases : forall p, Inv p ->
  maj p = stValue \/ is_sub (maj p) \/ leafm (maj p) \/
  (exists m, is_sub m /\ maj p = m + stStartX) \/ maj p = stLen.
Proof.
  intros p (_ & Hs & _). unfold cfg in Hs. unfold maj. inversion Hs; subst.
  - match goal with H : ctxs _ |- _ => apply ctxs_head in H; destruct H; auto end.
  - auto.
  - right; right; right; left. eexists; split; eauto.
  - auto 6.
Qed.

Lemma exec_inv : forall p s a p1 s1 rest d,
  Inv p -> exec_step p s a = SR p1 s1 rest d nilE -> Inv p1.
Proof.
  intros p s a p1 s1 rest d HI H.
  destruct (maj_cases p HI) as [Hm|[Hm|[Hm|[[m [Hm Hp]]|Hm]]]].
  - eapply cl_value_inv; eauto.
  - eapply cl_sub_inv; eauto.
  - eapply cl_leaf_inv; eauto.
  - eapply cl_subx_inv; eauto.
  - eapply cl_len_inv; eauto.
Qed.

Lemma exec_dich : forall p s a b,
  Inv p -> a <> [] \/ startx p = true -> b <> [] ->
  Dich b (exec_step p s a) (exec_step p s (a ++ b)).
Proof.
  intros p s a b HI Ha Hb.
  destruct (maj_cases p HI) as [Hm|[Hm|[Hm|[[m [Hm Hp]]|Hm]]]].
  - apply cl_value_dich; auto. eapply need_input; [exact Ha|exact Hm|reflexivity].
  - apply cl_sub_dich; auto.
    unfold is_sub in Hm; destruct Hm as [Hm|[Hm|[Hm|Hm]]];
      (eapply need_input; [exact Ha|exact Hm|reflexivity]).
  - apply cl_leaf_dich; auto.
  - eapply cl_subx_dich; eauto.
  - apply cl_len_dich; auto. eapply need_input; [exact Ha|exact Hm|reflexivity].
Qed.

(* ---------- merging two consecutive feeds into one ---------- *)
(* same visitor, same error; the same parser unless an error occurred *)
Definition sim (r r' : fres) : Prop :=
  let '(p, s, e) := r in let '(p', s', e') := r' in
  s = s' /\ e = e' /\ (e = nilE -> p = p').
Lemma sim_refl : forall r, sim r r.
Proof. intros [[p s] e]; cbn; auto. Qed.

Lemma R_ext_nil : forall p1 s1 b p s x r,
  ext [] (exec_step p1 s1 b) (exec_step p s x) -> R p1 s1 b r ->
  exists r', R p s x r' /\ sim r r'.
Proof.
  intros p1 s1 b p s x r X H.
  inversion H; subst;
    match goal with E : exec_step p1 s1 b = _ |- _ => rewrite E in X end;
    destruct (exec_step p s x) as [pw sw restw dw ew|w] eqn:W; cbn [ext] in X;
    try contradiction; destruct X as (<- & <- & X).
  - eexists; split; [eapply R_err; eauto|]. cbn. repeat split; auto. congruence.
  - destruct (X eq_refl) as (<- & <- & ->). rewrite app_nil_r in W.
    eexists; split; [eapply R_more; eauto|apply sim_refl].
  - destruct (X eq_refl) as (<- & <- & ->). cbn [app] in W.
    eexists; split; [eapply R_stut; eauto|apply sim_refl].
  - destruct (X eq_refl) as (<- & <- & ->). cbn [app] in W.
    eexists; split; [eapply R_stop; eauto|apply sim_refl].
Qed.

Lemma R_merge : forall p s a r, R p s a r ->
  Inv p -> a <> [] \/ startx p = true -> forall b, b <> [] ->
  (snd r <> nilE -> exists p1', R p s (a ++ b) (p1', snd (fst r), snd r)) /\
  (snd r = nilE -> forall r2, R (fst (fst r)) (snd (fst r)) b r2 ->
                   exists r2', R p s (a ++ b) r2' /\ sim r2 r2').
Proof.
  induction 1 as [p s a p1 s1 rest d e E Hn | p s a p1 s1 rest d r E Hr HR IH
                 | p s a p1 s1 r E Hx HR IH | p s a p1 s1 d E Hd];
    intros HI Ha b Hb;
    pose proof (exec_dich p s a b HI Ha Hb) as D; rewrite E in D; cbn [Dich] in D.
  - cbn [fst snd]. split; [intros _|congruence].
    destruct D as [D|(_ & _ & D & _)]; [|congruence].
    destruct (exec_step p s (a ++ b)) as [p2 s2 rest2 d2 e2|w] eqn:W; cbn [ext] in D;
      [|contradiction].
    destruct D as (<- & <- & _). exists p2. eapply R_err; eauto.
  - destruct D as [D|(D & _)]; [|congruence].
    destruct (exec_step p s (a ++ b)) as [p2 s2 rest2 d2 e2|w] eqn:W; cbn [ext] in D;
      [|contradiction].
    destruct D as (<- & <- & D). destruct (D eq_refl) as (<- & <- & ->).
    assert (HI1 : Inv p1) by (eapply exec_inv; eauto).
    destruct (IH HI1 (or_introl Hr) b Hb) as [IH1 IH2].
    assert (Hrb : rest ++ b <> []) by (apply app_nonnil; exact Hr).
    split.
    + intros Hn. destruct (IH1 Hn) as [p1' R1]. exists p1'. eapply R_more; eauto.
    + intros Hn r2 R2. destruct (IH2 Hn r2 R2) as (r2' & R2' & S2).
      exists r2'. split; [eapply R_more; eauto|exact S2].
  - destruct D as [D|(_ & _ & _ & D & _)]; [|congruence].
    destruct (exec_step p s (a ++ b)) as [p2 s2 rest2 d2 e2|w] eqn:W; cbn [ext] in D;
      [|contradiction].
    destruct D as (<- & <- & D). destruct (D eq_refl) as (<- & <- & ->). cbn [app] in W.
    assert (HI1 : Inv p1) by (eapply exec_inv; eauto).
    destruct (IH HI1 (or_intror Hx) b Hb) as [IH1 IH2]. cbn [app] in IH1, IH2.
    split.
    + intros Hn. destruct (IH1 Hn) as [p1' R1]. exists p1'. eapply R_more; eauto.
    + intros Hn r2 R2. destruct (IH2 Hn r2 R2) as (r2' & R2' & S2).
      exists r2'. split; [eapply R_more; eauto|exact S2].
  - cbn [fst snd]. split; [congruence|intros _ r2 R2].
    destruct D as [D|(_ & _ & _ & _ & D)].
    + destruct (exec_step p s (a ++ b)) as [p2 s2 rest2 d2 e2|w] eqn:W; cbn [ext] in D;
        [|contradiction].
      destruct D as (<- & <- & D). destruct (D eq_refl) as (<- & <- & ->). cbn [app] in W.
      exists r2. split; [eapply R_more; eauto|apply sim_refl].
    + eapply R_ext_nil; eauto.
Qed.

Lemma R_inv : forall p s a r, R p s a r -> Inv p -> snd r = nilE -> Inv (fst (fst r)).
Proof.
  induction 1 as [p s a p1 s1 rest d e E Hn | p s a p1 s1 rest d r E Hr HR IH
                 | p s a p1 s1 r E Hx HR IH | p s a p1 s1 d E Hd]; intros HI Hn'.
  - cbn in Hn'. congruence.
  - apply IH; auto. eapply exec_inv; eauto.
  - apply IH; auto. eapply exec_inv; eauto.
  - cbn. eapply exec_inv; eauto.
Qed.

Lemma Feed_inv : forall p s a p1 s1, Feed p s a (p1, s1, nilE) -> Inv p -> Inv p1.
Proof.
  intros p s a p1 s1 [[_ H]|[_ H]] HI.
  - inversion H; subst. exact HI.
  - apply (R_inv _ _ _ _ H HI eq_refl).
Qed.

Lemma Feed_merge : forall p s a b p1 s1 e, Inv p -> Feed p s a (p1, s1, e) ->
  (e <> nilE -> exists p1', Feed p s (a ++ b) (p1', s1, e)) /\
  (e = nilE -> forall r2, Feed p1 s1 b r2 -> exists r2', Feed p s (a ++ b) r2' /\ sim r2 r2').
Proof.
  intros p s a b p1 s1 e HI [[Ha H]|[Ha H]].
  - inversion H; subst. cbn [app]. split; [congruence|].
    intros _ r2 F2. exists r2. split; [exact F2|apply sim_refl].
  - destruct b as [|b0 br].
    + rewrite app_nil_r. split.
      * intros _. exists p1. right. auto.
      * intros -> r2 [[_ ->]|[Hb _]]; [|congruence].
        exists (p1, s1, nilE). split; [right; auto|apply sim_refl].
    + assert (Hb : b0 :: br <> []) by discriminate.
      destruct (R_merge _ _ _ _ H HI (or_introl Ha) _ Hb) as [M1 M2]. cbn [fst snd] in M1, M2.
      split.
      * intros Hn. destruct (M1 Hn) as [p1' R1]. exists p1'. right. split; auto.
        apply app_nonnil; exact Ha.
      * intros Hn r2 [[Hb' _]|[_ R2]]; [congruence|].
        destruct (M2 Hn r2 R2) as (r2' & R2' & S2). exists r2'. split; [|exact S2].
        right. split; auto. apply app_nonnil; exact Ha.
Qed.

(* ---------- sequences of writes ---------- *)
Lemma Inv0 : Inv cparser0.
Proof.
  repeat split; [|left; reflexivity].
  apply sh_ctx. apply ctxs_base. reflexivity.
Qed.

(* what a run on the whole input b reports: the visitor and the verdict *)
Definition Whole (p : cparser) (s : sink) (b : bytes) (o : sink * Z) : Prop :=
  exists pm sm em, Feed p s b (pm, sm, em) /\
                   o = (sm, if isnil em then finalize pm else em).

Lemma Whole_det : forall p s b o o', Whole p s b o -> Whole p s b o' -> o = o'.
Proof.
  intros p s b o o' (pm & sm & em & F & ->) (pm' & sm' & em' & F' & ->).
  pose proof (Feed_det _ _ _ _ _ F F') as E. inversion E; subst. reflexivity.
Qed.

Lemma p_write_Ok : forall p s c p1 s1 err, p_write p s c = Ok (p1, s1, err) ->
  exists p1', Feed p s c (p1', s1, err) /\ p1 = set_err p1' (if isnil err then 0 else err).
Proof.
  intros p s c p1 s1 err H. unfold p_write in H.
  destruct (feed (2 * length c + 2) p s c) as [[[p1' s1'] e']| | |] eqn:E; try discriminate.
  inversion H; subst. exists p1'. split; [|reflexivity].
  eapply feed_sound; eauto.
Qed.

Lemma writes_whole : forall cs p s pf sf ef, Inv p ->
  p_writes p s cs = Ok (pf, sf, ef) -> Whole p s (concat cs) (sf, ef).
Proof.
  induction cs as [|c cs IH]; intros p s pf sf ef HI H.
  - cbn [p_writes concat] in *. inversion H; subst.
    exists pf, sf, nilE. split; [left; auto|reflexivity].
  - cbn [p_writes concat] in *.
    destruct (p_write p s c) as [[[p1 s1] err]| | |] eqn:E; try discriminate.
    destruct (p_write_Ok _ _ _ _ _ _ E) as (p1' & F & ->).
    destruct (Feed_merge p s c (concat cs) p1' s1 err HI F) as [M1 M2].
    destruct (isnil err) eqn:Ee.
    + apply isnil_true in Ee. subst err.
      assert (HI1 : Inv p1') by (eapply Feed_inv; eauto).
      rewrite set_err_same in H by apply HI1.
      destruct (IH _ _ _ _ _ HI1 H) as (pm & sm & em & F2 & O).
      destruct (M2 eq_refl _ F2) as ([[pm' sm'] em'] & F3 & S3).
      cbn [sim] in S3. destruct S3 as (<- & <- & S3).
      exists pm', sm, em. split; [exact F3|]. rewrite O.
      destruct (isnil em) eqn:Em; [|reflexivity].
      apply isnil_true in Em. rewrite (S3 Em). reflexivity.
    + inversion H; subst. apply isnil_false in Ee.
      destruct (M1 Ee) as [p1'' F3].
      exists p1'', sf, ef. split; [exact F3|].
      apply isnil_false in Ee. rewrite Ee. reflexivity.
Qed.

Lemma parse_whole : forall p s b pf sf ef,
  p_parse p s b = Ok (pf, sf, ef) -> Whole p s b (sf, ef).
Proof.
  intros p s b pf sf ef H. unfold p_parse in H.
  destruct (feed (2 * length b + 2) p s b) as [[[p1 s1] e1]| | |] eqn:E; try discriminate.
  inversion H; subst. exists pf, sf, e1. split; [|reflexivity].
  eapply feed_sound; eauto.
Qed.

(* One-write split, as a statement about the model functions: when the three
   calls return, Write(a ++ b) does what Write(a); Write(b) does. *)
Theorem C02_cbor_write_split : forall p s a b p1 s1 p2 s2 e2 p3 s3 e3,
  Inv p ->
  p_write p s a = Ok (p1, s1, nilE) -> p_write p1 s1 b = Ok (p2, s2, e2) ->
  p_write p s (a ++ b) = Ok (p3, s3, e3) ->
  s3 = s2 /\ e3 = e2 /\ (e2 = nilE -> p3 = p2).
Proof.
  intros p s a b p1 s1 p2 s2 e2 p3 s3 e3 HI W1 W2 W3.
  destruct (p_write_Ok _ _ _ _ _ _ W1) as (p1' & F1 & E1).
  destruct (p_write_Ok _ _ _ _ _ _ W2) as (p2' & F2 & E2).
  destruct (p_write_Ok _ _ _ _ _ _ W3) as (p3' & F3 & E3).
  assert (HI1 : Inv p1') by (eapply Feed_inv; eauto).
  replace (isnil nilE) with true in E1 by reflexivity.
  rewrite set_err_same in E1 by apply HI1. subst p1.
  destruct (Feed_merge p s a b p1' s1 nilE HI F1) as [_ M2].
  destruct (M2 eq_refl _ F2) as ([[pm sm] em] & F4 & S4).
  pose proof (Feed_det _ _ _ _ _ F3 F4) as E. inversion E; subst.
  cbn [sim] in S4. destruct S4 as (<- & <- & S4).
  repeat split; auto. intros ->. rewrite (S4 eq_refl). reflexivity.
Qed.
Print Assumptions C02_cbor_write_split.

(* ---------- C02 ---------- *)
(* Strongest form: whenever the two runs return at all (no panic, no fuel
   exhaustion - see ParseSafety), they report exactly the same events and the
   same verdict (same error class), also when the input is rejected, and for
   every visitor failure schedule vfail. *)
Theorem C02_cbor_chunks_strong : forall vfail cs1 cs2 r1 r2,
  concat cs1 = concat cs2 ->
  run_chunks vfail cs1 = Ok r1 -> run_chunks vfail cs2 = Ok r2 -> r1 = r2.
Proof.
  intros vfail cs1 cs2 r1 r2 Hc H1 H2. unfold run_chunks in *.
  destruct (p_writes cparser0 (sink0 vfail) cs1) as [[[pf1 sf1] ef1]| | |] eqn:E1; try discriminate.
  destruct (p_writes cparser0 (sink0 vfail) cs2) as [[[pf2 sf2] ef2]| | |] eqn:E2; try discriminate.
  apply (writes_whole _ _ _ _ _ _ Inv0) in E1. apply (writes_whole _ _ _ _ _ _ Inv0) in E2.
  rewrite Hc in E1. pose proof (Whole_det _ _ _ _ _ E1 E2) as E. inversion E; subst.
  inversion H1; inversion H2; subst. reflexivity.
Qed.
Print Assumptions C02_cbor_chunks_strong.

Theorem C02_cbor_entry_strong : forall vfail cs r1 r2,
  run_parse vfail (concat cs) = Ok r1 -> run_chunks vfail cs = Ok r2 -> r1 = r2.
Proof.
  intros vfail cs r1 r2 H1 H2. unfold run_parse, run_chunks in *.
  destruct (p_parse cparser0 (sink0 vfail) (concat cs)) as [[[pf1 sf1] ef1]| | |] eqn:E1; try discriminate.
  destruct (p_writes cparser0 (sink0 vfail) cs) as [[[pf2 sf2] ef2]| | |] eqn:E2; try discriminate.
  apply parse_whole in E1. apply (writes_whole _ _ _ _ _ _ Inv0) in E2.
  pose proof (Whole_det _ _ _ _ _ E1 E2) as E. inversion E; subst.
  inversion H1; inversion H2; subst. reflexivity.
Qed.
Print Assumptions C02_cbor_entry_strong.

(* The observation of the task statement. *)
Definition same_obs (r1 r2 : res (list event * Z)) : Prop :=
  match r1, r2 with
  | Ok (ev1, e1), Ok (ev2, e2) =>
      (e1 = nilE /\ e2 = nilE /\ ev1 = ev2) \/ (e1 <> nilE /\ e2 <> nilE)
  | _, _ => False
  end.
(* stronger: identical events and identical verdict *)
Definition same_obs_strong (r1 r2 : res (list event * Z)) : Prop :=
  match r1, r2 with
  | Ok o1, Ok o2 => o1 = o2
  | _, _ => False
  end.
Lemma same_obs_strong_weaken : forall r1 r2, same_obs_strong r1 r2 -> same_obs r1 r2.
Proof.
  intros [[ev1 e1]| | |] [[ev2 e2]| | |] H; cbn in *; try contradiction.
  inversion H; subst. destruct (Z.eq_dec e2 nilE); auto.
Qed.

Theorem C02_cbor_chunks_ok : forall cs1 cs2 r1 r2,
  concat cs1 = concat cs2 ->
  run_chunks None cs1 = Ok r1 -> run_chunks None cs2 = Ok r2 ->
  same_obs (run_chunks None cs1) (run_chunks None cs2).
Proof.
  intros cs1 cs2 r1 r2 Hc H1 H2. apply same_obs_strong_weaken.
  rewrite H1, H2. cbn. eapply C02_cbor_chunks_strong; eauto.
Qed.
Print Assumptions C02_cbor_chunks_ok.

Theorem C02_cbor_entry_ok : forall cs r1 r2,
  run_parse None (concat cs) = Ok r1 -> run_chunks None cs = Ok r2 ->
  same_obs (run_parse None (concat cs)) (run_chunks None cs).
Proof.
  intros cs r1 r2 H1 H2. apply same_obs_strong_weaken.
  rewrite H1, H2. cbn. eapply C02_cbor_entry_strong; eauto.
Qed.
Print Assumptions C02_cbor_entry_ok.

(* The unconditional statements, given that the model always returns on byte
   inputs (C03_cbor_chunks_total / C03_cbor_parse_total of Cbor/ParseSafety.v
   have exactly the shape of the two hypotheses). *)
Section WithTotality.
  Hypothesis chunks_total : forall vfail chunks, forallb all_bytes chunks = true ->
    exists evs e, run_chunks vfail chunks = Ok (evs, e).
  Hypothesis parse_total : forall vfail b, all_bytes b = true ->
    exists evs e, run_parse vfail b = Ok (evs, e).

  Lemma all_bytes_concat : forall cs, forallb all_bytes cs = true -> all_bytes (concat cs) = true.
  Proof.
    induction cs as [|c cs IH]; intros H; [reflexivity|].
    cbn [forallb concat] in *. apply andb_true_iff in H. destruct H as [H1 H2].
    unfold all_bytes in *. rewrite forallb_app, H1, (IH H2). reflexivity.
  Qed.

  Theorem C02_cbor_chunks_total_strong : forall vfail cs1 cs2,
    forallb all_bytes cs1 = true -> forallb all_bytes cs2 = true ->
    concat cs1 = concat cs2 ->
    same_obs_strong (run_chunks vfail cs1) (run_chunks vfail cs2).
  Proof.
    intros vfail cs1 cs2 B1 B2 Hc.
    destruct (chunks_total vfail cs1 B1) as (ev1 & e1 & H1).
    destruct (chunks_total vfail cs2 B2) as (ev2 & e2 & H2).
    rewrite H1, H2. cbn. eapply C02_cbor_chunks_strong; eauto.
  Qed.

  Theorem C02_cbor_entry_total_strong : forall vfail cs,
    forallb all_bytes cs = true ->
    same_obs_strong (run_parse vfail (concat cs)) (run_chunks vfail cs).
  Proof.
    intros vfail cs B.
    destruct (parse_total vfail (concat cs) (all_bytes_concat cs B)) as (ev1 & e1 & H1).
    destruct (chunks_total vfail cs B) as (ev2 & e2 & H2).
    rewrite H1, H2. cbn. eapply C02_cbor_entry_strong; eauto.
  Qed.

  Theorem C02_cbor_chunks_total : forall cs1 cs2,
    forallb all_bytes cs1 = true -> forallb all_bytes cs2 = true ->
    concat cs1 = concat cs2 -> same_obs (run_chunks None cs1) (run_chunks None cs2).
  Proof. intros; apply same_obs_strong_weaken, C02_cbor_chunks_total_strong; auto. Qed.

  Theorem C02_cbor_entry_total : forall cs, forallb all_bytes cs = true ->
    same_obs (run_parse None (concat cs)) (run_chunks None cs).
  Proof. intros; apply same_obs_strong_weaken, C02_cbor_entry_total_strong; auto. Qed.
End WithTotality.
Print Assumptions C02_cbor_chunks_total_strong.
Print Assumptions C02_cbor_entry_total_strong.
Print Assumptions C02_cbor_chunks_total.
Print Assumptions C02_cbor_entry_total.
