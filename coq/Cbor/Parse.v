(* L1: the CBOR parser, cborl/parse.go + stack.go + decode.go, function by
   function (after the fix: commits recorded in known-findings.txt).
   Outcomes: every Go index/slice expression that can panic is a checked
   operation returning [Crash]; the feed loops run on explicit fuel. *)
From SF Require Import Base.Prelude Core.Events.
Open Scope Z_scope.

(* error classes *)
Definition eInvalidCode := 1.
Definition eTextKeyRequired := 2.
Definition eIndefByteSeq := 3.
Definition eUnsupported := 4.
Definition eIntRange := 5.
Definition eLenRange := 6.
Definition eIncomplete := 7.
Definition eEOF := 8.
Definition eNilErr := 0.   (* stFail with p.err == nil: execStep returns a nil error *)

(* state 'major' codes (parse.go consts; they share one uint8 space with CBOR initial bytes) *)
Definition stFail := 1.
Definition stValue := 2.
Definition stLen := 3.
Definition stStartX := 4.
Definition stIndef := 1.
Definition mUint := 0.
Definition mNeg := 32.
Definition mBytes := 64.
Definition mText := 96.
Definition mArr := 128.
Definition mMap := 160.
Definition mTag := 192.
Definition stKey := 168.   (* majorMap | 8 *)
Definition stElem := 169.  (* majorMap | 9 *)
Definition stStart := 1.
Definition stCont := 2.

Record cstate := { c_major : Z; c_minor : Z }.
Definition mkst (a b : Z) : cstate := {| c_major := a; c_minor := b |}.

Record cparser := {
  p_cur : cstate; p_stack : list cstate;      (* stateStack, top first *)
  p_lcur : Z; p_lstack : list Z;              (* lengthStack *)
  p_buf : bytes;                              (* p.buffer *)
  p_err : Z                                   (* p.err as class, 0 = nil *)
}.

Definition cparser0 : cparser :=
  {| p_cur := mkst stValue stStart; p_stack := []; p_lcur := 0; p_lstack := []; p_buf := []; p_err := 0 |}.

Definition set_cur (p : cparser) (c : cstate) : cparser :=
  {| p_cur := c; p_stack := p_stack p; p_lcur := p_lcur p; p_lstack := p_lstack p; p_buf := p_buf p; p_err := p_err p |}.
Definition set_buf (p : cparser) (b : bytes) : cparser :=
  {| p_cur := p_cur p; p_stack := p_stack p; p_lcur := p_lcur p; p_lstack := p_lstack p; p_buf := b; p_err := p_err p |}.
Definition set_lcur (p : cparser) (l : Z) : cparser :=
  {| p_cur := p_cur p; p_stack := p_stack p; p_lcur := l; p_lstack := p_lstack p; p_buf := p_buf p; p_err := p_err p |}.
Definition set_err (p : cparser) (e : Z) : cparser :=
  {| p_cur := p_cur p; p_stack := p_stack p; p_lcur := p_lcur p; p_lstack := p_lstack p; p_buf := p_buf p; p_err := e |}.

(* stateStack.push / pop *)
Definition st_push (p : cparser) (next : cstate) : cparser :=
  {| p_cur := next;
     p_stack := if c_major (p_cur p) =? stFail then p_stack p else p_cur p :: p_stack p;
     p_lcur := p_lcur p; p_lstack := p_lstack p; p_buf := p_buf p; p_err := p_err p |}.
Definition st_pop (p : cparser) : cparser :=
  match p_stack p with
  | [] => set_cur p (mkst stFail stStart)
  | c :: r => {| p_cur := c; p_stack := r; p_lcur := p_lcur p; p_lstack := p_lstack p; p_buf := p_buf p; p_err := p_err p |}
  end.
(* lengthStack.push / pop *)
Definition len_push (p : cparser) (l : Z) : cparser :=
  {| p_cur := p_cur p; p_stack := p_stack p; p_lcur := l; p_lstack := p_lcur p :: p_lstack p; p_buf := p_buf p; p_err := p_err p |}.
Definition len_pop (p : cparser) : cparser :=
  match p_lstack p with
  | [] => set_lcur p (-1)
  | l :: r => {| p_cur := p_cur p; p_stack := p_stack p; p_lcur := l; p_lstack := r; p_buf := p_buf p; p_err := p_err p |}
  end.

(* result of a step: (rest of input, done, err) plus the mutated parser and visitor *)
Inductive sres :=
| SR (p : cparser) (s : sink) (rest : bytes) (done : bool) (err : Z)   (* err = -1: nil *)
| Crash (why : Z).
Definition nilE := -1.
Definition eVisitor := 99.

(* visitor call: returns the sink and the error (nilE or eVisitor) *)
Definition vis (s : sink) (e : event) : sink * Z :=
  let '(s', ok) := emit s e in (s', if ok then nilE else eVisitor).

Definition isnil (e : Z) : bool := e =? nilE.

Definition zfirstn (n : Z) (b : bytes) : bytes := firstn (Z.to_nat n) b.
Definition zskipn (n : Z) (b : bytes) : bytes := skipn (Z.to_nat n) b.

(* p.collect(b, count): returns (parser, rest, Some token | None) or a crash.
   When the token is incomplete Go returns a nil rest: everything consumed. *)
Inductive cres := CR (p : cparser) (rest : bytes) (tmp : option bytes) | CCrash.
Definition collect (p : cparser) (b : bytes) (count : Z) : cres :=
  let fast (p : cparser) (b : bytes) :=
    if count <? 0 then CCrash     (* b[:count] with a negative bound *)
    else if zlen b >=? count then CR p (zskipn count b) (Some (zfirstn count b))
    else CR (set_buf p (p_buf p ++ b)) [] None in
  if zlen (p_buf p) >? 0 then
    let delta := count - zlen (p_buf p) in
    let '(p1, b1, incomplete) :=
      if delta >? 0 then
        if delta >? zlen b then (set_buf p (p_buf p ++ b), [], true)
        else (set_buf p (p_buf p ++ zfirstn delta b), zskipn delta b, false)
      else (p, b, false) in
    if incomplete then CR p1 [] None
    else if zlen (p_buf p1) >=? count then
      if count <? 0 then CCrash else
      let tmp := zfirstn count (p_buf p1) in
      if zlen (p_buf p1) =? count then CR (set_buf p1 []) b1 (Some tmp)
      else CR (set_buf p1 (zskipn count (p_buf p1))) b1 (Some tmp)
    else fast p1 b1
  else fast p b.

(* onValue / popState / arrayHandleLen / mapHandleLen are mutually recursive in Go
   (closing a container may close its parent): fuel = nesting depth. *)
Fixpoint on_value (fuel : nat) (p : cparser) (s : sink) : option (cparser * sink * bool * Z) :=
  match fuel with
  | O => None
  | S f =>
      let m := c_major (p_cur p) in
      if (m =? mArr) || (m =? mMap) then
        let p1 := set_lcur p (p_lcur p - 1) in
        if p_lcur p1 >? 0 then Some (p1, s, false, nilE)
        else
          let '(s1, err) := vis s (if m =? mArr then EArrEnd else EObjEnd) in
          if isnil err then
            on_value f (st_pop (len_pop p1)) s1
          else Some (p1, s1, false, err)
      else if (m =? mArr + stIndef) || (m =? mMap + stIndef) then Some (p, s, false, nilE)
      else Some (p, s, true, nilE)
  end.

Definition depth_fuel (p : cparser) : nat := S (S (length (p_stack p))).

Definition pop_state (p : cparser) (s : sink) : option (cparser * sink * bool * Z) :=
  let p1 := st_pop p in on_value (depth_fuel p1) p1 s.

(* helpers to build results *)
Definition after_value (p : cparser) (s : sink) (rest : bytes) (err : Z) : sres :=
  (* "done := false; if err == nil { done, err = p.onValue() }; return rest, done, err" *)
  if isnil err then
    match on_value (depth_fuel p) p s with
    | Some (p1, s1, done, err1) => SR p1 s1 rest done err1
    | None => Crash 90
    end
  else SR p s rest false err.

Definition after_pop (p : cparser) (s : sink) (rest : bytes) (err : Z) : sres :=
  (* "if err == nil { done, err = p.popState() }" with done = true before *)
  if isnil err then
    match pop_state p s with
    | Some (p1, s1, done, err1) => SR p1 s1 rest done err1
    | None => Crash 91
    end
  else SR p s rest true err.

Definition init_byte_seq (p : cparser) (s : sink) (major minor : Z) (b : bytes) : sres :=
  if minor <? 24 then
    SR (len_push (st_push p (mkst (major + stStartX) stStart)) minor) s b false nilE
  else if minor >? 27 then SR p s [] false eInvalidCode
  else SR (st_push (st_push p (mkst (major + stStartX) stStart)) (mkst stLen minor)) s b false nilE.

Definition init_sub (p : cparser) (s : sink) (major minor : Z) (b : bytes) : sres :=
  if minor =? 31 then
    SR (st_push (st_push p (mkst (major + stIndef) stStart)) (mkst (major + stStartX + stIndef) stStart)) s b false nilE
  else if minor <? 24 then
    SR (len_push (st_push (st_push p (mkst major stStart)) (mkst (major + stStartX) stStart)) minor) s b false nilE
  else if minor >? 27 then SR p s [] false eInvalidCode
  else SR (st_push (st_push (st_push p (mkst major stStart)) (mkst (major + stStartX) stStart)) (mkst stLen minor)) s b false nilE.

Definition step_value (p : cparser) (s : sink) (b : bytes) : sres :=
  match b with
  | [] => SR p s b false nilE
  | b0 :: r =>
      let major := (b0 / 32) * 32 in
      let minor := b0 mod 32 in
      if major =? mUint then
        if b0 <? 24 then let '(s1, err) := vis s (EVal (SNum KUint8 b0)) in after_value p s1 r err
        else if minor >? 27 then SR p s [] false eInvalidCode
        else SR (st_push p (mkst major minor)) s r false nilE
      else if major =? mNeg then
        if minor <? 24 then let '(s1, err) := vis s (EVal (SNum KInt8 (-1 - minor))) in after_value p s1 r err
        else if minor >? 27 then SR p s [] false eInvalidCode
        else SR (st_push p (mkst major minor)) s r false nilE
      else if (major =? mBytes) || (major =? mText) then
        if minor =? 31 then SR p s [] false eIndefByteSeq
        else init_byte_seq p s major minor r
      else if (major =? mArr) || (major =? mMap) then init_sub p s major minor r
      else if major =? mTag then SR p s [] false eUnsupported
      else
        if b0 =? 244 then let '(s1, err) := vis s (EVal (SBool false)) in after_value p s1 r err
        else if b0 =? 245 then let '(s1, err) := vis s (EVal (SBool true)) in after_value p s1 r err
        else if (b0 =? 246) || (b0 =? 247) then let '(s1, err) := vis s (EVal SNil) in after_value p s1 r err
        else if b0 =? 249 then SR p s r false eUnsupported
        else if (b0 =? 250) || (b0 =? 251) then SR (st_push p (mkst b0 stStart)) s r false nilE
        else SR p s [] false eInvalidCode
  end.

(* getUint16/32/64: (parser, rest, Some value) | incomplete.  getUint32 returns
   the collect'ed rest (nil as well) - all three consume everything when incomplete. *)
Definition get_uint (p : cparser) (b : bytes) (k : Z) : cres := collect p b k.

(* stepUint / stepNeg share their shape *)
Definition num_event (neg : bool) (minor v : Z) : option event :=
  if negb neg then
    Some (EVal (SNum (if minor =? 24 then KUint8 else if minor =? 25 then KUint16
                      else if minor =? 26 then KUint32 else KUint64) v))
  else if minor =? 24 then Some (EVal (if v <=? 127 then SNum KInt8 (-1 - v) else SNum KInt16 (-1 - v)))
  else if minor =? 25 then Some (EVal (if v <=? 32767 then SNum KInt16 (-1 - v) else SNum KInt32 (-1 - v)))
  else if minor =? 26 then Some (EVal (if v <=? 2147483647 then SNum KInt32 (-1 - v) else SNum KInt64 (-1 - v)))
  else if v <=? 9223372036854775807 then Some (EVal (SNum KInt64 (-1 - v))) else None.

Definition step_num (neg : bool) (p : cparser) (s : sink) (b : bytes) : sres :=
  let minor := c_minor (p_cur p) in
  if minor =? 24 then
    match b with
    | [] => Crash 1        (* b[0] on an empty slice *)
    | v :: r =>
        match num_event neg minor v with
        | Some e => let '(s1, err) := vis s e in after_pop p s1 r err
        | None => Crash 2
        end
    end
  else if (minor =? 25) || (minor =? 26) || (minor =? 27) then
    match get_uint p b (2 ^ (minor - 24)) with
    | CCrash => Crash 3
    | CR p1 rest None => SR p1 s rest false nilE
    | CR p1 rest (Some tmp) =>
        match num_event neg minor (be_dec tmp) with
        | Some e => let '(s1, err) := vis s e in after_pop p1 s1 rest err
        | None => after_pop p1 s rest eIntRange    (* done && err != nil: no pop *)
        end
    end
  else SR p s b false nilE.    (* no case matches: nothing happens *)

Definition step_float (w : Z) (p : cparser) (s : sink) (b : bytes) : sres :=
  match get_uint p b w with
  | CCrash => Crash 4
  | CR p1 rest None => SR p1 s rest false nilE
  | CR p1 rest (Some tmp) =>
      let '(s1, err) := vis s (EVal (SNum (if w =? 4 then KFloat32 else KFloat64) (be_dec tmp))) in
      if isnil err then
        match pop_state p1 s1 with
        | Some (p2, s2, done, err2) => SR p2 s2 rest done err2
        | None => Crash 92
        end
      else SR p1 s1 rest true err
  end.

Definition step_len (p : cparser) (s : sink) (b : bytes) : sres :=
  let minor := c_minor (p_cur p) in
  if minor =? 24 then
    match b with
    | [] => Crash 5
    | v :: r => SR (st_pop (len_push p v)) s r false nilE
    end
  else if (minor =? 25) || (minor =? 26) || (minor =? 27) then
    match get_uint p b (2 ^ (minor - 24)) with
    | CCrash => Crash 6
    | CR p1 rest None => SR p1 s rest false nilE
    | CR p1 rest (Some tmp) =>
        let v := be_dec tmp in
        if v >? 9223372036854775807 then SR p1 s [] false eLenRange
        else SR (st_pop (len_push p1 v)) s rest false nilE
    end
  else SR p s b false nilE.

Fixpoint emit_bytes (s : sink) (l : bytes) : sink * Z :=
  match l with
  | [] => (s, nilE)
  | c :: r => let '(s1, err) := vis s (EVal (SNum KByte c)) in if isnil err then emit_bytes s1 r else (s1, err)
  end.

Definition step_bytes (p : cparser) (s : sink) (b : bytes) : sres :=
  let '(p1, s1, err0) :=
    if c_minor (p_cur p) =? stStart then
      let '(s1, err) := vis s (EArrStart (p_lcur p) BByte) in
      (if isnil err then set_cur p (mkst (c_major (p_cur p)) stCont) else p, s1, err)
    else (p, s, nilE) in
  if negb (isnil err0) then SR p1 s1 [] false err0 else
  let L := p_lcur p1 in
  let done := zlen b >=? L in
  let '(p2, L2) := if done then (p1, L) else (set_lcur p1 (p_lcur p1 - zlen b), zlen b) in
  if L2 <? 0 then Crash 7 else
  let '(s2, err) := emit_bytes s1 (zfirstn L2 b) in
  if negb (isnil err) then SR p2 s2 [] false err else
  let rest := zskipn L2 b in
  if done then
    let '(s3, err3) := vis s2 EArrEnd in
    let p3 := len_pop p2 in
    if isnil err3 then
      match pop_state p3 s3 with
      | Some (p4, s4, d, e) => SR p4 s4 rest d e
      | None => Crash 93
      end
    else SR p3 s3 rest true err3
  else SR p2 s2 rest false nilE.

Definition step_text (p : cparser) (s : sink) (b : bytes) : sres :=
  match collect p b (p_lcur p) with
  | CCrash => Crash 8
  | CR p1 rest None => SR p1 s [] false nilE
  | CR p1 rest (Some tmp) =>
      let p2 := len_pop p1 in
      let '(s1, err) := vis s (EStrRef tmp) in
      if isnil err then
        match pop_state p2 s1 with
        | Some (p3, s2, d, e) => SR p3 s2 rest d e
        | None => Crash 94
        end
      else SR p2 s1 rest true err
  end.

Definition step_key (p : cparser) (s : sink) (b : bytes) : sres :=
  match collect p b (p_lcur p) with
  | CCrash => Crash 9
  | CR p1 rest None => SR p1 s [] false nilE
  | CR p1 rest (Some tmp) =>
      let '(s1, err) := vis s (EKeyRef tmp) in
      if isnil err then SR (set_cur (len_pop p1) (mkst stElem (c_minor (p_cur p1)))) s1 rest false nilE
      else SR p1 s1 rest false err
  end.

Definition init_map_key (p : cparser) (s : sink) (b : bytes) : sres :=
  match b with
  | [] => Crash 10
  | b0 :: r =>
      if negb ((b0 / 32) * 32 =? mText) then SR p s [] false eTextKeyRequired
      else if b0 mod 32 =? 31 then SR p s [] false eIndefByteSeq
      else init_byte_seq p s stKey (b0 mod 32) r
  end.

(* arrayHandleLen / mapHandleLen: (value?, parser, sink, done, err) *)
Definition handle_len (isarr : bool) (p : cparser) (s : sink) : option (bool * cparser * sink * bool * Z) :=
  if p_lcur p >? 0 then Some (true, p, s, false, nilE)
  else
    let '(s1, err) := vis s (if isarr then EArrEnd else EObjEnd) in
    if isnil err then
      match pop_state (len_pop p) s1 with
      | Some (p2, s2, d, e) => Some (false, p2, s2, d, e)
      | None => None
      end
    else Some (false, p, s1, false, err).

Definition step_array (p : cparser) (s : sink) (b : bytes) : sres :=
  match handle_len true p s with
  | None => Crash 95
  | Some (true, p1, s1, _, _) => step_value p1 s1 b
  | Some (false, p1, s1, d, e) => SR p1 s1 b d e
  end.

Definition step_map (p : cparser) (s : sink) (b : bytes) : sres :=
  match handle_len false p s with
  | None => Crash 96
  | Some (true, p1, s1, d, e) =>
      if zlen b >? 0 then init_map_key p1 s1 b else SR p1 s1 b d e
  | Some (false, p1, s1, d, e) => SR p1 s1 b d e
  end.

Definition clear_startx (p : cparser) : cparser :=
  set_cur p (mkst (c_major (p_cur p) - stStartX) (c_minor (p_cur p))).

Definition exec_step (p : cparser) (s : sink) (b : bytes) : sres :=
  let m := c_major (p_cur p) in
  if m =? stFail then SR p s b false (if p_err p =? 0 then nilE else p_err p)
  else if m =? stValue then step_value p s b
  else if m =? stLen then step_len p s b
  else if m =? mUint then step_num false p s b
  else if m =? mNeg then step_num true p s b
  else if m =? 250 then step_float 4 p s b
  else if m =? 251 then step_float 8 p s b
  else if m =? mBytes + stStartX then
    if p_lcur p =? 0 then
      let '(s1, err) := vis s (EArrStart 0 BByte) in
      if isnil err then
        let '(s2, err2) := vis s1 EArrEnd in
        let p1 := len_pop p in
        if isnil err2 then
          match pop_state p1 s2 with
          | Some (p2, s3, d, e) => SR p2 s3 b d e
          | None => Crash 97
          end
        else SR p1 s2 b false err2
      else SR p s1 b false err
    else
      let p1 := clear_startx p in
      if zlen b =? 0 then SR p1 s b false nilE else step_bytes p1 s b
  else if m =? mBytes then step_bytes p s b
  else if m =? mText + stStartX then
    if p_lcur p =? 0 then
      let p1 := len_pop p in
      let '(s1, err) := vis s (EVal (SStr [])) in
      if isnil err then
        match pop_state p1 s1 with
        | Some (p2, s2, d, e) => SR p2 s2 b d e
        | None => Crash 98
        end
      else SR p1 s1 b false err
    else
      let p1 := clear_startx p in
      if zlen b =? 0 then SR p1 s b false nilE else step_text p1 s b
  else if m =? mText then step_text p s b
  else if m =? mArr + stStartX then
    let '(s1, err) := vis s (EArrStart (p_lcur p) BAny) in
    if isnil err then step_array (st_pop p) s1 b else SR p s1 b false err
  else if m =? mArr then step_array p s b
  else if (m =? mArr + stStartX + stIndef) || (m =? mArr + stIndef) then
    let '(p1, s1, err) :=
      if m =? mArr + stIndef then (p, s, nilE)
      else let '(s1, err) := vis s (EArrStart (-1) BAny) in ((if isnil err then st_pop p else p), s1, err) in
    if negb (isnil err) then SR p1 s1 b false err else
    match b with
    | [] => Crash 11
    | b0 :: r =>
        if b0 =? 255 then
          let '(s2, err2) := vis s1 EArrEnd in
          if isnil err2 then
            match pop_state p1 s2 with
            | Some (p2, s3, d, e) => SR p2 s3 r d e
            | None => Crash 99
            end
          else SR p1 s2 r false err2
        else step_value p1 s1 b
    end
  else if m =? mMap + stStartX then
    let '(s1, err) := vis s (EObjStart (p_lcur p) BAny) in
    if isnil err then step_map (st_pop p) s1 b else SR p s1 b false err
  else if m =? mMap then step_map p s b
  else if (m =? mMap + stStartX + stIndef) || (m =? mMap + stIndef) then
    let '(p1, s1, err) :=
      if m =? mMap + stIndef then (p, s, nilE)
      else let '(s1, err) := vis s (EObjStart (-1) BAny) in ((if isnil err then st_pop p else p), s1, err) in
    if negb (isnil err) then SR p1 s1 b false err else
    match b with
    | [] => Crash 12
    | b0 :: r =>
        if b0 =? 255 then
          let '(s2, err2) := vis s1 EObjEnd in
          if isnil err2 then
            match pop_state p1 s2 with
            | Some (p2, s3, d, e) => SR p2 s3 r d e
            | None => Crash 100
            end
          else SR p1 s2 r false err2
        else init_map_key p1 s1 b
    end
  else if m =? stKey + stStartX then
    if p_lcur p =? 0 then
      let '(s1, err) := vis s (EKey []) in
      if isnil err then SR (set_cur (len_pop p) (mkst stElem (c_minor (p_cur p)))) s1 b false nilE
      else SR p s1 b false err
    else step_key (clear_startx p) s b
  else if m =? stKey then step_key p s b
  else if m =? stElem then step_value (st_pop p) s b
  else SR p s b false eInvalidCode.

(* feedUntil: (consumed rest, done, err) *)
Fixpoint feed_until (fuel : nat) (p : cparser) (s : sink) (b : bytes) : res sres :=
  match fuel with
  | O => OutOfFuel
  | S f =>
      match exec_step p s b with
      | Crash w => Panic w
      | SR p1 s1 rest done err =>
          if done || negb (isnil err) then Ok (SR p1 s1 rest done err)
          else
            let cont := negb (zlen rest =? 0) ||
                        (Z.land (c_major (p_cur p1)) (stStartX + stIndef) =? stStartX) in
            if cont then feed_until f p1 s1 rest else Ok (SR p1 s1 rest done err)
      end
  end.

(* fuel: every iteration consumes a byte or moves through a bounded number of
   byte-less states; 8 per byte + 8 is ample (proved in ParseProofs) *)
Definition feed_fuel (b : bytes) : nat := 8 * length b + 16.

(* p.feed(b) *)
Fixpoint feed (fuel : nat) (p : cparser) (s : sink) (b : bytes) : res (cparser * sink * Z) :=
  match fuel with
  | O => OutOfFuel
  | S f =>
      if zlen b >? 0 then
        match feed_until (feed_fuel b) p s b with
        | Ok (SR p1 s1 rest _ err) =>
            if isnil err then feed f p1 s1 rest else Ok (p1, s1, err)
        | Ok (Crash w) => Panic w
        | Err e => Err e
        | Panic w => Panic w
        | OutOfFuel => OutOfFuel
        end
      else Ok (p, s, nilE)
  end.

Definition finalize (p : cparser) : Z :=
  if (zlen (p_stack p) >? 0) || negb (c_major (p_cur p) =? stValue) || (zlen (p_buf p) >? 0)
  then eIncomplete else nilE.

(* Parser.Write *)
Definition p_write (p : cparser) (s : sink) (b : bytes) : res (cparser * sink * Z) :=
  match feed (2 * length b + 2) p s b with
  | Ok (p1, s1, err) => Ok (set_err p1 (if isnil err then 0 else err), s1, err)
  | r => r
  end.

(* Parser.Parse(b) on a parser in state p *)
Definition p_parse (p : cparser) (s : sink) (b : bytes) : res (cparser * sink * Z) :=
  match feed (2 * length b + 2) p s b with
  | Ok (p1, s1, err) => Ok (p1, s1, if isnil err then finalize p1 else err)
  | r => r
  end.

(* a sequence of Write calls followed by the end of input (ParseReader / io.Copy) *)
Fixpoint p_writes (p : cparser) (s : sink) (chunks : list bytes) : res (cparser * sink * Z) :=
  match chunks with
  | [] => Ok (p, s, finalize p)
  | c :: r =>
      match p_write p s c with
      | Ok (p1, s1, err) => if isnil err then p_writes p1 s1 r else Ok (p1, s1, err)
      | x => x
      end
  end.

(* observation of a whole run: events and the final verdict *)
Definition run_chunks (vfail : option nat) (chunks : list bytes) : res (list event * Z) :=
  match p_writes cparser0 (sink0 vfail) chunks with
  | Ok (_, s, err) => Ok (s_log s, err)
  | Err e => Err e | Panic w => Panic w | OutOfFuel => OutOfFuel
  end.

Definition run_parse (vfail : option nat) (b : bytes) : res (list event * Z) :=
  match p_parse cparser0 (sink0 vfail) b with
  | Ok (_, s, err) => Ok (s_log s, err)
  | Err e => Err e | Panic w => Panic w | OutOfFuel => OutOfFuel
  end.

(* ---------- Decoder (decode.go) ---------- *)
(* A reader is a script of results: (data, err) with err = 0 for nil. *)
Record cdecoder := { d_p : cparser; d_buf : bytes; d_script : list (bytes * Z); d_bytesdec : bool }.

(* Decoder.Next: returns the error class (nilE = nil) *)
Fixpoint dec_next (fuel : nat) (d : cdecoder) (s : sink) : res (cdecoder * sink * Z) :=
  match fuel with
  | O => OutOfFuel
  | S f =>
      let fill :=
        if zlen (d_buf d) =? 0 then
          if d_bytesdec d then inr (finalize (d_p d))
          else
            match d_script d with
            | [] => inr (finalize (d_p d))     (* script exhausted = (0, io.EOF) forever *)
            | (data, err) :: rest =>
                let d1 := {| d_p := d_p d; d_buf := data; d_script := rest; d_bytesdec := false |} in
                if (zlen data =? 0) && negb (err =? 0) then
                  inr (if err =? eEOF then finalize (d_p d) else err)
                else inl d1
            end
        else inl d in
      match fill with
      | inr e => Ok (d, s, if isnil e then eEOF else e)
      | inl d1 =>
          (* a Read that returned (0, nil): read again, nothing is fed *)
          if zlen (d_buf d1) =? 0 then dec_next f d1 s else
          match feed_until (feed_fuel (d_buf d1)) (d_p d1) s (d_buf d1) with
          | Ok (SR p1 s1 rest done err) =>
              let d2 := {| d_p := p1; d_buf := rest; d_script := d_script d1; d_bytesdec := d_bytesdec d1 |} in
              if negb (isnil err) then Ok ({| d_p := p1; d_buf := d_buf d1; d_script := d_script d1; d_bytesdec := d_bytesdec d1 |}, s1, err)
              else if done then Ok (d2, s1, nilE)
              else dec_next f d2 s1
          | Ok (Crash w) => Panic w
          | Err e => Err e | Panic w => Panic w | OutOfFuel => OutOfFuel
          end
      end
  end.
