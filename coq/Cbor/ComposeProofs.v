(* Composition theorems for CBOR: encoder -> parser (C01), parser -> reference
   for every accepted input (C09), parser -> encoder (C08), and the parser
   being back in its initial state after every accepted document (C17). *)
From Coq Require Import List NArith ZArith Bool Lia.
From Coq Require Import ZifyBool ZifyNat ZifyN.
From SF Require Import Base.Prelude Base.PreludeProofs Core.Events Core.EventsProofs
  Core.AdapterProofs Cbor.Spec Cbor.Enc Cbor.Parse Cbor.EncProofs.
From SF Require Cbor.RoundtripProofs Cbor.ParseSafety Cbor.ChunkProofs Cbor.ChunkTotalProofs.
From SF Require Import Cbor.ConformanceProofs.
Import ListNotations.
Open Scope Z_scope.

Ltac Zify.zify_post_hook ::= Z.div_mod_to_equations.

Notation tree_small := RoundtripProofs.tree_small.

#[local] Opaque cbor_ref items_ind pairs_ind items_def pairs_def.

(* ====================================================================== *)
(* Part A: the encoder writes bytes                                         *)
(* ====================================================================== *)

(* what the encoder needs from an event to write only bytes: this is part of
   the Visitor contract (wf_tree) *)
Definition ev_ok (ev : event) : bool :=
  match ev with
  | EVal s => scalar_ok s
  | EStrRef s | EKey s | EKeyRef s => all_bytes s
  | EXArr bt es => forallb (xelem_ok bt) es
  | EXObj bt ms => forallb (fun m => all_bytes (fst m) && xelem_ok bt (snd m)) ms
  | _ => true
  end.

Definition binv (e : cenc) : Prop := all_bytes (w_bytes (ce_w e)) = true.

Lemma cw_binv e b e1 ok : binv e -> all_bytes b = true -> cw e b = (e1, ok) -> binv e1.
Proof.
  unfold binv, cw, wwrite, w_bytes, w_chunks. intros Hi Hb H.
  destruct (w_fail (ce_w e)); inversion H; subst e1; cbn [ce_w w_rchunks rev];
    rewrite concat_app, all_bytes_app, Hi; cbn [concat]; rewrite app_nil_r; exact Hb.
Qed.

Lemma cb_head_bytes major v : 0 <= major <= 160 -> 0 <= v ->
  all_bytes (cb_head major v) = true.
Proof.
  intros Hm Hv. unfold cb_head.
  destruct (v <? 24) eqn:E1.
  { unfold all_bytes, is_byte. cbn [forallb]. lia. }
  destruct (v <=? 255) eqn:E2.
  { unfold all_bytes, is_byte. cbn [forallb]. lia. }
  destruct (v <=? 65535); [|destruct (v <=? 4294967295)];
    rewrite all_bytes_cons, be_enc_bytes; unfold is_byte; lia.
Qed.

Lemma cb_int_bytes z : all_bytes (cb_int z) = true.
Proof.
  unfold cb_int. destruct (z <? 0) eqn:E; apply cb_head_bytes; unfold majorNeg, majorUint; lia.
Qed.

Lemma cb_bytes_binv e major s e1 ok : binv e -> 0 <= major <= 160 -> all_bytes s = true ->
  cb_bytes e major s = (e1, ok) -> binv e1.
Proof.
  intros Hi Hm Hs H. unfold cb_bytes in H.
  destruct (cw e (cb_head major (zlen s))) as [e0 ok0] eqn:E0.
  assert (H0 : binv e0).
  { eapply cw_binv; [exact Hi| |exact E0]. apply cb_head_bytes; [exact Hm|apply zlen_nonneg]. }
  destruct ok0.
  - eapply cw_binv; [exact H0|exact Hs|exact H].
  - inversion H; subst e1. exact H0.
Qed.

Lemma in_u_nonneg w z : in_u w z = true -> 0 <= z.
Proof. unfold in_u. lia. Qed.

Lemma cb_scalar_binv e s e1 ok : binv e -> scalar_ok s = true ->
  cb_scalar e s = (e1, ok) -> binv e1.
Proof.
  intros Hi Hs H. destruct s as [|b|s|kd z]; cbn [cb_scalar scalar_ok] in *.
  - eapply cw_binv; [exact Hi| |exact H]; reflexivity.
  - destruct b; (eapply cw_binv; [exact Hi| |exact H]; reflexivity).
  - eapply cb_bytes_binv; [exact Hi| |exact Hs|exact H]. unfold majorText. lia.
  - destruct kd; cbn [nkind_ok] in Hs;
      (eapply cw_binv; [exact Hi| |exact H]);
      try apply cb_int_bytes;
      try (apply cb_head_bytes; [unfold majorUint; lia|eapply in_u_nonneg; exact Hs]);
      (rewrite all_bytes_cons, be_enc_bytes; reflexivity).
Qed.

Lemma cb_optlen_binv e major len e1 ok : binv e -> major = 128 \/ major = 160 ->
  cb_optlen e major len = (e1, ok) -> binv e1.
Proof.
  intros Hi Hm H. unfold cb_optlen in H. destruct (len <? 0) eqn:E.
  - eapply cw_binv; [exact Hi| |exact H]. destruct Hm; subst major; reflexivity.
  - eapply cw_binv; [exact Hi| |exact H]. apply cb_head_bytes; lia.
Qed.

Lemma cb_start_binv e major len e1 ok : binv e -> major = 128 \/ major = 160 ->
  cb_start e major len = (e1, ok) -> binv e1.
Proof.
  intros Hi Hm H. unfold cb_start in H.
  destruct (cb_optlen e major len) as [e0 ok0] eqn:E0.
  apply (cb_optlen_binv _ _ _ _ _ Hi Hm) in E0.
  destruct ok0; inversion H; subst e1; exact E0.
Qed.

Lemma cb_finish_binv e e1 ok : binv e -> cb_finish e = (e1, ok) -> binv e1.
Proof.
  intros Hi H. unfold cb_finish in H.
  destruct (ls_pop (ce_len e)) as [ls old].
  destruct (old <? 0).
  - eapply cw_binv; [| |exact H]; [exact Hi|reflexivity].
  - inversion H; subst e1. exact Hi.
Qed.

Lemma cb_scalars_binv l : forall e e1 ok, binv e -> forallb scalar_ok l = true ->
  cb_scalars e l = (e1, ok) -> binv e1.
Proof.
  induction l as [|s r IH]; intros e e1 ok Hi Hl H; cbn [cb_scalars forallb] in *.
  - inversion H; subst e1. exact Hi.
  - apply andb_true_iff in Hl as [Hs Hr].
    destruct (cb_scalar e s) as [e0 ok0] eqn:E0.
    apply (cb_scalar_binv _ _ _ _ Hi Hs) in E0.
    destruct ok0; [eapply IH; eassumption|inversion H; subst e1; exact E0].
Qed.

Lemma cb_members_binv l : forall e e1 ok, binv e ->
  forallb (fun m => all_bytes (fst m) && scalar_ok (snd m)) l = true ->
  cb_members e l = (e1, ok) -> binv e1.
Proof.
  induction l as [|[key s] r IH]; intros e e1 ok Hi Hl H; cbn [cb_members forallb fst snd] in *.
  - inversion H; subst e1. exact Hi.
  - apply andb_true_iff in Hl as [Hs Hr]. apply andb_true_iff in Hs as [Hk Hs].
    destruct (cb_bytes e majorText key) as [e0 ok0] eqn:E0.
    eapply cb_bytes_binv in E0; [|exact Hi|unfold majorText; lia|exact Hk].
    destruct ok0; cbn [negb] in H; [|inversion H; subst e1; exact E0].
    destruct (cb_scalar e0 s) as [e2 ok2] eqn:E2.
    apply (cb_scalar_binv _ _ _ _ E0 Hs) in E2.
    destruct ok2; [eapply IH; eassumption|inversion H; subst e1; exact E2].
Qed.

Lemma xbytes_bytes bt es : is_bytes_bt bt = true -> forallb (xelem_ok bt) es = true ->
  all_bytes (map xbyte es) = true.
Proof.
  intros Hb. induction es as [|s r IH]; cbn [forallb map]; intro H; [reflexivity|].
  apply andb_true_iff in H as [H H']. rewrite all_bytes_cons, (IH H'), andb_true_r.
  destruct bt; try discriminate; destruct s as [| | |k z]; try discriminate;
    destruct k; try discriminate; cbn [xelem_ok scalar_matches scalar_ok nkind_ok andb xbyte] in *;
    unfold in_u, is_byte in *; lia.
Qed.

Lemma forallb_impl {A} (f g : A -> bool) l : (forall x, f x = true -> g x = true) ->
  forallb f l = true -> forallb g l = true.
Proof.
  intros Hfg H. apply forallb_forall. intros x Hx. apply Hfg.
  eapply forallb_forall in H; eassumption.
Qed.

Lemma cbor_on_binv e ev e1 ok : binv e -> ev_ok ev = true -> cbor_on e ev = (e1, ok) -> binv e1.
Proof.
  intros Hi Hev H.
  destruct ev as [s|s|len bt| |len bt| |key|key|bt es|bt ms]; cbn [ev_ok] in Hev.
  - eapply cb_scalar_binv; eassumption.
  - eapply cb_bytes_binv; [exact Hi| |exact Hev|exact H]. unfold majorText; lia.
  - eapply cb_start_binv; [exact Hi| |exact H]. left; reflexivity.
  - eapply cb_finish_binv; eassumption.
  - eapply cb_start_binv; [exact Hi| |exact H]. right; reflexivity.
  - eapply cb_finish_binv; eassumption.
  - eapply cb_bytes_binv; [exact Hi| |exact Hev|exact H]. unfold majorText; lia.
  - eapply cb_bytes_binv; [exact Hi| |exact Hev|exact H]. unfold majorText; lia.
  - rewrite cbor_on_xarr in H. destruct (is_bytes_bt bt) eqn:Eb.
    + eapply cb_bytes_binv; [exact Hi| | |exact H]; [unfold majorBytes; lia|].
      eapply xbytes_bytes; eassumption.
    + destruct (cw e (cb_head majorArr (zlen es))) as [e0 ok0] eqn:E0.
      eapply cw_binv in E0; [|exact Hi|apply cb_head_bytes; [unfold majorArr; lia|apply zlen_nonneg]].
      destruct ok0; [|inversion H; subst e1; exact E0].
      eapply cb_scalars_binv; [exact E0| |exact H].
      eapply forallb_impl; [|exact Hev]. intros x. apply RoundtripProofs.xelem_scalar_ok.
  - cbn [cbor_on] in H.
    destruct (cb_start e majorMap (zlen ms)) as [e0 ok0] eqn:E0.
    eapply cb_start_binv in E0; [|exact Hi|right; reflexivity].
    destruct ok0; cbn [negb] in H; [|inversion H; subst e1; exact E0].
    destruct (cb_members e0 ms) as [e2 ok2] eqn:E2.
    eapply cb_members_binv in E2; [|exact E0|].
    2:{ eapply forallb_impl; [|exact Hev]. intros m Hm. apply andb_true_iff in Hm as [Hk Hx].
        rewrite Hk. cbn [andb]. eapply RoundtripProofs.xelem_scalar_ok; exact Hx. }
    destruct ok2; cbn [negb] in H; [|inversion H; subst e1; exact E2].
    eapply cb_finish_binv; eassumption.
Qed.

Lemma cbor_run_binv evs : forall e i e' r, binv e -> forallb ev_ok evs = true ->
  cbor_run e evs i = (e', r) -> binv e'.
Proof.
  induction evs as [|ev r IH]; intros e i e' res Hi Hev H; cbn [cbor_run forallb] in *.
  - inversion H; subst e'. exact Hi.
  - apply andb_true_iff in Hev as [Hev Hr].
    destruct (cbor_on e ev) as [e1 ok] eqn:E1.
    apply (cbor_on_binv _ _ _ _ Hi Hev) in E1.
    destruct ok; [eapply IH; eassumption|inversion H; subst e'; exact E1].
Qed.

Lemma forallb_flat_map {A B} (f : B -> bool) (g : A -> list B) l :
  forallb f (flat_map g l) = forallb (fun x => forallb f (g x)) l.
Proof.
  induction l as [|x l IH]; [reflexivity|]. cbn [flat_map forallb]. rewrite forallb_app, IH. reflexivity.
Qed.

(* the Visitor contract implies what the encoder needs *)
Lemma flatten_ev_ok : forall t, wf_tree t = true -> forallb ev_ok (flatten t) = true.
Proof.
  induction t as [s r|len bt es IH|len bt ms IH|bt es|bt ms] using tree_ind'; intro Hw.
  - cbn [wf_tree] in Hw. destruct s as [|b|s|k z], r; cbn [flatten forallb ev_ok]; rewrite ?andb_true_r; exact Hw.
  - rewrite wf_arr in Hw. apply andb_true_iff in Hw as [_ Hw].
    rewrite flatten_arr. cbn [forallb ev_ok]. rewrite forallb_app. cbn [forallb ev_ok].
    rewrite andb_true_r. unfold flatten_elems. rewrite forallb_flat_map.
    apply forallb_forall. intros x Hx. rewrite Forall_forall in IH. apply IH; [exact Hx|].
    eapply forallb_forall in Hw; eassumption.
  - rewrite wf_obj in Hw. apply andb_true_iff in Hw as [_ Hw].
    rewrite flatten_obj. cbn [forallb ev_ok]. rewrite forallb_app. cbn [forallb ev_ok].
    rewrite andb_true_r. unfold flatten_members. rewrite forallb_flat_map.
    apply forallb_forall. intros [[k r] e] Hx. rewrite Forall_forall in IH.
    eapply forallb_forall in Hw; [|exact Hx]. cbn [fst snd] in Hw.
    apply andb_true_iff in Hw as [Hk He]. cbn [forallb].
    pose proof (IH _ Hx He) as IHe. cbn [snd] in IHe. rewrite IHe, andb_true_r. destruct r; exact Hk.
  - cbn [wf_tree flatten forallb ev_ok] in *. rewrite Hw. reflexivity.
  - cbn [wf_tree flatten forallb ev_ok] in *. apply andb_true_iff in Hw as [_ Hw]. rewrite Hw. reflexivity.
Qed.

Theorem cbor_encode_bytes : forall evs bs, forallb ev_ok evs = true ->
  cbor_encode evs = Some bs -> all_bytes bs = true.
Proof.
  intros evs bs Hev H. unfold cbor_encode in H.
  destruct (cbor_run (cenc0 None) evs 0) as [e r] eqn:E.
  destruct r; [discriminate|]. inversion H; subst bs.
  eapply cbor_run_binv; [|exact Hev|exact E]. reflexivity.
Qed.
Print Assumptions cbor_encode_bytes.

Corollary cbor_encode_tree_bytes : forall t bs, wf_tree t = true ->
  cbor_encode (flatten t) = Some bs -> all_bytes bs = true.
Proof. intros t bs Hw. apply cbor_encode_bytes, flatten_ev_ok, Hw. Qed.
Print Assumptions cbor_encode_tree_bytes.

(* ====================================================================== *)
(* Part B: Parse on a sequence of top-level items                           *)
(* ====================================================================== *)

Lemma vctx_top : vctx cparser0.
Proof. split; [reflexivity|discriminate]. Qed.

(* one accepted top-level item: feedUntil returns done with the parser in its
   initial state *)
Lemma feed_until_top_value b s s' rest n : b <> [] -> (n + 1 <= 3 * length b)%nat ->
  reaches (step_value cparser0 s b) (after_value cparser0 s' rest nilE) n ->
  feed_until (feed_fuel b) cparser0 s b = Ok (SR cparser0 s' rest true nilE).
Proof.
  intros Hne Hn Hreach. unfold feed_fuel.
  replace (8 * length b + 16)%nat with (S (n + (8 * length b + 15 - n)))%nat by lia.
  rewrite feed_until_S, exec_at_value by reflexivity. rewrite Hreach.
  rewrite after_value_top. reflexivity.
Qed.

Lemma zlen_pos_gt (b : bytes) : b <> [] -> (zlen b >? 0) = true.
Proof.
  destruct b as [|x r]; [congruence|]. intros _. rewrite zlen_cons. pose proof (zlen_nonneg r). lia.
Qed.

(* a refused top-level item: Parse reports an error *)
Lemma feed_rejects f b s : b <> [] -> rejects (step_value cparser0 s b) (3 * length b) ->
  forall p' s' e, feed (S f) cparser0 s b = Ok (p', s', e) ->
  (if isnil e then finalize p' else e) <> nilE.
Proof.
  intros Hne (n & Hn & H) p' s' e Hfeed.
  rewrite feed_S, (zlen_pos_gt b Hne) in Hfeed. unfold feed_fuel in Hfeed.
  replace (8 * length b + 16)%nat with (S (n + (8 * length b + 15 - n)))%nat in Hfeed by lia.
  rewrite feed_until_S, exec_at_value in Hfeed by reflexivity.
  destruct (H (8 * length b + 15 - n)%nat) as (Y & HY & Hbad). rewrite HY in Hfeed.
  destruct Y as [p1 s1 rest d e1|w]; [|destruct Hbad].
  cbn [bad_end] in Hbad.
  destruct (Z.eq_dec e1 nilE) as [->|He].
  - destruct Hbad as [Hbad|[-> Hinc]]; [congruence|].
    change (isnil nilE) with true in Hfeed. cbv iota in Hfeed.
    destruct f as [|f]; [discriminate|]. rewrite feed_S in Hfeed.
    change (zlen (@nil Z) >? 0) with false in Hfeed. cbv iota in Hfeed.
    inversion Hfeed; subst. change (isnil nilE) with true. cbv iota. exact Hinc.
  - unfold isnil in Hfeed at 1. rewrite (neq_eqb _ _ He) in Hfeed.
    inversion Hfeed; subst. unfold isnil. rewrite (neq_eqb _ _ He). exact He.
Qed.

Lemma cbor_decode_all_mono : forall f1 f2 b vs, (f1 <= f2)%nat ->
  cbor_decode_all f1 b = Some vs -> cbor_decode_all f2 b = Some vs.
Proof.
  induction f1 as [|f1 IH]; intros f2 b vs Hle H; [discriminate|].
  destruct f2 as [|f2]; [lia|]. cbn [cbor_decode_all] in *.
  destruct b as [|x r]; [exact H|].
  destruct (cbor_decode (x :: r)) as [v rest| | |]; try discriminate.
  destruct (cbor_decode_all f1 rest) as [vs'|] eqn:E; [|discriminate].
  rewrite (IH f2 rest vs' ltac:(lia) E). exact H.
Qed.

Definition tvals (ts : list tree) : list cvalue := map (fun t => cv (value_of t)) ts.

(* Main lemma: whenever Parse accepts (any number of top-level items), the
   events are the concatenated streams of well-formed trees, the reference
   decodes the input to exactly their values, and the parser is back in its
   initial state. *)
Lemma feed_items : forall fuel b s p' s' e, (length b < fuel)%nat ->
  all_bytes b = true -> zlen b <= MaxInt64 -> s_fail s = None ->
  feed fuel cparser0 s b = Ok (p', s', e) ->
  (if isnil e then finalize p' else e) = nilE ->
  p' = cparser0 /\ e = nilE /\
  exists ts, s' = sadd s (flat_map flatten ts) /\ forallb wf_tree ts = true /\
             cbor_decode_all (S (length b)) b = Some (tvals ts).
Proof.
  induction fuel as [|f IH]; intros b s p' s' e Hlen Hb Hsz Hs Hfeed Hacc; [lia|].
  destruct b as [|x r].
  { rewrite feed_S in Hfeed. change (zlen (@nil Z) >? 0) with false in Hfeed. cbv iota in Hfeed.
    inversion Hfeed; subst. split; [reflexivity|]. split; [reflexivity|].
    exists []. cbn [flat_map]. rewrite sadd_nil. repeat split. }
  set (b := x :: r) in *.
  assert (Hne : b <> []) by discriminate.
  assert (Hf : fuel_ok (S (length b)) b).
  { unfold fuel_ok, MaxInt64, zlen in *. split; lia. }
  destruct (cbor_decode b) as [v rest| | |] eqn:Hd.
  - unfold cbor_decode in Hd.
    destruct (value_ok _ b v rest Hd Hb Hf cparser0 s vctx_top Hs)
      as (t & n & Hwf & Hcv & (Hc & Hrb) & Hreach).
    pose proof (feed_until_top_value b s _ rest n Hne ltac:(lia) Hreach) as Hfu.
    rewrite feed_S, (zlen_pos_gt b Hne), Hfu in Hfeed.
    change (isnil nilE) with true in Hfeed. cbv iota in Hfeed.
    assert (Hlr : (length rest < length b)%nat) by lia.
    destruct (IH rest _ p' s' e ltac:(lia) Hrb ltac:(unfold zlen in *; lia)
                ltac:(rewrite sadd_fail; exact Hs) Hfeed Hacc)
      as (Hp & He & ts & Hs' & Hwfs & Hall).
    split; [exact Hp|]. split; [exact He|].
    exists (t :: ts). cbn [flat_map forallb]. rewrite Hwf, Hwfs, Hs', sadd_app.
    repeat split.
    change (cbor_decode_all (S (length b)) b) with
      (match cbor_decode b with
       | RValue v r => match cbor_decode_all (length b) r with Some vs => Some (v :: vs) | None => None end
       | _ => None end).
    unfold cbor_decode. rewrite Hd.
    rewrite (cbor_decode_all_mono (S (length rest)) (length b) _ _ ltac:(lia) Hall).
    unfold tvals. cbn [map]. rewrite Hcv. reflexivity.
  - exfalso. eapply (feed_rejects f b s Hne); [|exact Hfeed|exact Hacc].
    apply (reject_ok (S (length b)) b); try assumption.
    + unfold cbor_decode in Hd. rewrite Hd. reflexivity.
    + apply rctx_top.
    + intro; congruence.
  - exfalso. eapply (feed_rejects f b s Hne); [|exact Hfeed|exact Hacc].
    apply (reject_ok (S (length b)) b); try assumption.
    + unfold cbor_decode in Hd. rewrite Hd. reflexivity.
    + apply rctx_top.
    + intro; congruence.
  - exfalso. eapply (feed_rejects f b s Hne); [|exact Hfeed|exact Hacc].
    apply (reject_ok (S (length b)) b); try assumption.
    + unfold cbor_decode in Hd. rewrite Hd. reflexivity.
    + apply rctx_top.
    + intro; congruence.
Qed.

Lemma p_parse_accept b s p' s' : p_parse cparser0 s b = Ok (p', s', nilE) ->
  exists e, feed (2 * length b + 2) cparser0 s b = Ok (p', s', e) /\
            (if isnil e then finalize p' else e) = nilE.
Proof.
  unfold p_parse. intro H.
  destruct (feed (2 * length b + 2) cparser0 s b) as [[[p1 s1] e1]| | |]; try discriminate.
  injection H as -> -> He. exists e1. split; [reflexivity|exact He].
Qed.

(* ---------- C09 for every accepted input ---------- *)
(* The parser accepts only what the reference accepts: whenever whole-buffer
   Parse returns nil, the input is a sequence of items of the supported subset
   (the reference decodes all of it), the events are the concatenation of one
   well-formed tree per top-level item and these trees denote the reference
   values.  (The hypothesis [b <> []] of the task statement is not needed: for
   the empty input ts = [].) *)
Theorem C09_cbor_accepted_wf : forall b evs, all_bytes b = true -> (zlen b <=? MaxInt64) = true ->
  run_parse None b = Ok (evs, nilE) ->
  exists ts, evs = flat_map flatten ts /\ forallb wf_tree ts = true /\
             cbor_decode_all (S (length b)) b = Some (map (fun t => cv (value_of t)) ts).
Proof.
  intros b evs Hb Hsz H. unfold run_parse in H.
  destruct (p_parse cparser0 (sink0 None) b) as [[[p1 s1] e1]| | |] eqn:E; try discriminate.
  inversion H; subst. destruct (p_parse_accept _ _ _ _ E) as (e & Hfeed & Hacc).
  destruct (feed_items (2 * length b + 2)%nat b (sink0 None) p1 s1 e ltac:(lia) Hb ltac:(lia) eq_refl Hfeed Hacc)
    as (_ & _ & ts & -> & Hwf & Hall).
  exists ts. rewrite sadd_log. split; [reflexivity|]. split; assumption.
Qed.
Print Assumptions C09_cbor_accepted_wf.

(* the same for every chunking of the input *)
Lemma all_bytes_concat_inv : forall cs, all_bytes (concat cs) = true -> forallb all_bytes cs = true.
Proof.
  induction cs as [|c cs IH]; intro H; [reflexivity|].
  cbn [concat forallb] in *. rewrite all_bytes_app in H. apply andb_true_iff in H as [H1 H2].
  rewrite H1, (IH H2). reflexivity.
Qed.

Lemma chunks_as_parse cs : all_bytes (concat cs) = true ->
  run_chunks None cs = run_parse None (concat cs).
Proof.
  intro Hb. pose proof (ChunkTotalProofs.C02_cbor_entry_strongest None cs (all_bytes_concat_inv cs Hb)) as H.
  unfold ChunkProofs.same_obs_strong in H.
  destruct (run_parse None (concat cs)) as [o1| | |]; try contradiction.
  destruct (run_chunks None cs) as [o2| | |]; try contradiction.
  subst. reflexivity.
Qed.

Theorem C09_cbor_accepted_wf_chunks : forall cs evs, all_bytes (concat cs) = true ->
  (zlen (concat cs) <=? MaxInt64) = true ->
  run_chunks None cs = Ok (evs, nilE) ->
  exists ts, evs = flat_map flatten ts /\ forallb wf_tree ts = true /\
             cbor_decode_all (S (length (concat cs))) (concat cs) = Some (map (fun t => cv (value_of t)) ts).
Proof.
  intros cs evs Hb Hsz H. rewrite chunks_as_parse in H by exact Hb.
  apply C09_cbor_accepted_wf; assumption.
Qed.
Print Assumptions C09_cbor_accepted_wf_chunks.

(* contrapositive reading: an accepted non-empty input starts with an item the
   reference accepts - it never says Unsupported / Malformed / Truncated *)
Corollary C09_cbor_accepted_ref : forall b evs, all_bytes b = true -> (zlen b <=? MaxInt64) = true ->
  run_parse None b = Ok (evs, nilE) -> b <> [] ->
  exists v rest, cbor_decode b = RValue v rest.
Proof.
  intros b evs Hb Hsz H Hne. destruct (C09_cbor_accepted_wf b evs Hb Hsz H) as (ts & _ & _ & Hall).
  cbn [cbor_decode_all] in Hall. destruct b as [|x r]; [congruence|].
  destruct (cbor_decode (x :: r)) as [v rest| | |]; try discriminate. eauto.
Qed.
Print Assumptions C09_cbor_accepted_ref.

(* each tree of the stream satisfies the contract monitor *)
Corollary C09_cbor_accepted_contract : forall b evs, all_bytes b = true -> (zlen b <=? MaxInt64) = true ->
  run_parse None b = Ok (evs, nilE) ->
  exists ts, evs = flat_map flatten ts /\ Forall (fun t => contract_ok (flatten t) = true) ts.
Proof.
  intros b evs Hb Hsz H. destruct (C09_cbor_accepted_wf b evs Hb Hsz H) as (ts & He & Hwf & _).
  exists ts. split; [exact He|]. apply Forall_forall. intros t Ht.
  rewrite contract_flatten. eapply forallb_forall in Hwf; eassumption.
Qed.
Print Assumptions C09_cbor_accepted_contract.

(* ---------- C17 for the parser ---------- *)
(* After every accepted input (one document or several items) the parser is
   exactly in its initial state: all six fields of cparser0, including the
   length stack, the token buffer and the error field. *)
Theorem C17_cbor_parser_idle : forall b s p' s', all_bytes b = true -> (zlen b <=? MaxInt64) = true ->
  s_fail s = None ->
  p_parse cparser0 s b = Ok (p', s', nilE) -> p' = cparser0.
Proof.
  intros b s p' s' Hb Hsz Hs H. destruct (p_parse_accept _ _ _ _ H) as (e & Hfeed & Hacc).
  destruct (feed_items (2 * length b + 2)%nat b s p' s' e ltac:(lia) Hb ltac:(lia) Hs Hfeed Hacc) as (Hp & _). exact Hp.
Qed.
Print Assumptions C17_cbor_parser_idle.

(* the next document is parsed as by a fresh parser *)
Corollary C17_cbor_parser_next : forall b s p' s' b2, all_bytes b = true -> (zlen b <=? MaxInt64) = true ->
  s_fail s = None ->
  p_parse cparser0 s b = Ok (p', s', nilE) ->
  p_parse p' s' b2 = p_parse cparser0 s' b2 /\ forall cs, p_writes p' s' cs = p_writes cparser0 s' cs.
Proof.
  intros b s p' s' b2 Hb Hsz Hs H. rewrite (C17_cbor_parser_idle b s p' s' Hb Hsz Hs H). auto.
Qed.
Print Assumptions C17_cbor_parser_next.

(* what the accepted Parse call did to the visitor *)
Theorem C17_cbor_parser_doc : forall b s p' s', all_bytes b = true -> (zlen b <=? MaxInt64) = true ->
  s_fail s = None ->
  p_parse cparser0 s b = Ok (p', s', nilE) ->
  p' = cparser0 /\
  exists ts, s' = sadd s (flat_map flatten ts) /\ forallb wf_tree ts = true /\
             cbor_decode_all (S (length b)) b = Some (tvals ts).
Proof.
  intros b s p' s' Hb Hsz Hs H. destruct (p_parse_accept _ _ _ _ H) as (e & Hfeed & Hacc).
  destruct (feed_items (2 * length b + 2)%nat b s p' s' e ltac:(lia) Hb ltac:(lia) Hs Hfeed Hacc) as (Hp & _ & Hts).
  split; assumption.
Qed.

(* a sequence of Parse calls on one parser; stops at the first error *)
Fixpoint parse_docs (p : cparser) (s : sink) (docs : list bytes) : res (cparser * sink * Z) :=
  match docs with
  | [] => Ok (p, s, nilE)
  | d :: r =>
      match p_parse p s d with
      | Ok (p1, s1, e) => if isnil e then parse_docs p1 s1 r else Ok (p1, s1, e)
      | x => x
      end
  end.

Definition doc_ok (d : bytes) : bool := all_bytes d && (zlen d <=? MaxInt64).

Theorem C17_cbor_parser_docs : forall docs s p' s', forallb doc_ok docs = true -> s_fail s = None ->
  parse_docs cparser0 s docs = Ok (p', s', nilE) ->
  p' = cparser0 /\
  exists tss, s' = sadd s (flat_map (flat_map flatten) tss) /\
    Forall2 (fun d ts => forallb wf_tree ts = true /\
                         cbor_decode_all (S (length d)) d = Some (tvals ts)) docs tss.
Proof.
  induction docs as [|d r IH]; intros s p' s' Hd Hs H; cbn [parse_docs forallb] in *.
  - inversion H; subst. split; [reflexivity|]. exists []. cbn [flat_map]. rewrite sadd_nil.
    split; [reflexivity|constructor].
  - apply andb_true_iff in Hd as [Hd Hr]. unfold doc_ok in Hd. apply andb_true_iff in Hd as [Hb Hsz].
    destruct (p_parse cparser0 s d) as [[[p1 s1] e1]| | |] eqn:E; try discriminate.
    destruct (isnil e1) eqn:Ee.
    + apply Z.eqb_eq in Ee. subst e1.
      destruct (C17_cbor_parser_doc d s p1 s1 Hb Hsz Hs E) as (-> & ts & -> & Hwf & Hall).
      destruct (IH _ p' s' Hr ltac:(rewrite sadd_fail; exact Hs) H) as (Hp & tss & -> & HF).
      split; [exact Hp|]. exists (ts :: tss). cbn [flat_map]. rewrite sadd_app.
      split; [reflexivity|]. constructor; [split; assumption|exact HF].
    + inversion H; subst. discriminate.
Qed.
Print Assumptions C17_cbor_parser_docs.

(* streaming entry point: the same after a sequence of Write calls followed by
   the end-of-input check *)
Lemma writes_feed : forall cs p s pf sf, ChunkProofs.Inv p ->
  p_writes p s cs = Ok (pf, sf, nilE) ->
  ChunkProofs.Feed p s (concat cs) (pf, sf, nilE) /\ finalize pf = nilE.
Proof.
  induction cs as [|c cs IH]; intros p s pf sf HI H; cbn [p_writes concat] in *.
  - injection H as -> -> Hfin. split; [left; auto|exact Hfin].
  - destruct (p_write p s c) as [[[p1 s1] err]| | |] eqn:E; try discriminate.
    destruct (ChunkProofs.p_write_Ok _ _ _ _ _ _ E) as (p1' & F & ->).
    destruct (ChunkProofs.Feed_merge p s c (concat cs) p1' s1 err HI F) as [_ M2].
    destruct (isnil err) eqn:Ee.
    + apply Z.eqb_eq in Ee. subst err.
      assert (HI1 : ChunkProofs.Inv p1') by (eapply ChunkProofs.Feed_inv; eauto).
      rewrite ChunkProofs.set_err_same in H by apply HI1.
      destruct (IH _ _ _ _ HI1 H) as (F2 & Hfin).
      destruct (M2 eq_refl _ F2) as ([[pm sm] em] & F3 & S3).
      cbn [ChunkProofs.sim] in S3. destruct S3 as (<- & <- & S3). rewrite <- (S3 eq_refl) in F3.
      split; assumption.
    + inversion H; subst. discriminate.
Qed.

Theorem C17_cbor_parser_idle_chunks : forall cs s p' s', all_bytes (concat cs) = true ->
  (zlen (concat cs) <=? MaxInt64) = true -> s_fail s = None ->
  p_writes cparser0 s cs = Ok (p', s', nilE) ->
  p' = cparser0 /\
  exists ts, s' = sadd s (flat_map flatten ts) /\ forallb wf_tree ts = true /\
             cbor_decode_all (S (length (concat cs))) (concat cs) = Some (tvals ts).
Proof.
  intros cs s p' s' Hb Hsz Hs H.
  destruct (writes_feed cs cparser0 s p' s' ChunkProofs.Inv0 H) as (F & Hfin).
  set (b := concat cs) in *.
  destruct (ParseSafety.feed_ok (S (length b)) cparser0 s b ParseSafety.Inv0 ParseSafety.rank0 Hb ltac:(lia))
    as (p1 & s1 & e1 & Hfeed & _).
  pose proof (ChunkProofs.Feed_det _ _ _ _ _ F (ChunkProofs.feed_sound _ _ _ _ _ Hfeed)) as Heq.
  inversion Heq; subst p1 s1 e1.
  destruct (feed_items (S (length b)) b s p' s' nilE ltac:(lia) Hb ltac:(lia) Hs Hfeed Hfin) as (Hp & _ & Hts).
  split; assumption.
Qed.
Print Assumptions C17_cbor_parser_idle_chunks.

(* ====================================================================== *)
(* Part C: a decoded value is not larger than the bytes it was decoded from *)
(* ====================================================================== *)

Fixpoint cv_size (v : cvalue) : nat :=
  match v with
  | CStr s => S (length s)
  | CArr vs => S (list_sum (map cv_size vs))
  | CObj kvs => S (list_sum (map (fun kv : bytes * cvalue => S (length (fst kv)) + cv_size (snd kv))%nat kvs))
  | _ => 1%nat
  end.

Lemma cv_size_pos v : (1 <= cv_size v)%nat.
Proof. destruct v; cbn [cv_size]; lia. Qed.

Lemma list_sum_cons x l : list_sum (x :: l) = (x + list_sum l)%nat.
Proof. reflexivity. Qed.

Lemma list_sum_in {A} (f : A -> nat) l x : In x l -> (f x <= list_sum (map f l))%nat.
Proof.
  induction l as [|y l IH]; intro H; [destruct H|]. cbn [map]. rewrite list_sum_cons.
  destruct H as [->|H]; [lia|]. specialize (IH H). lia.
Qed.

Lemma list_sum_len {A} (f : A -> nat) l : (forall x, 1 <= f x)%nat ->
  (length l <= list_sum (map f l))%nat.
Proof.
  intro Hf. induction l as [|y l IH]; [cbn; lia|]. cbn [map length]. rewrite list_sum_cons.
  specialize (Hf y). lia.
Qed.

Lemma list_sum_map_app {A} (f : A -> nat) a b :
  list_sum (map f (a ++ b)) = (list_sum (map f a) + list_sum (map f b))%nat.
Proof. rewrite map_app, list_sum_app. reflexivity. Qed.

Definition size_spec (f : nat) : Prop :=
  forall b v rest, cbor_ref f b = RValue v rest -> (cv_size v + length rest <= length b)%nat.

Lemma take_length k r a r' : take k r = Some (a, r') -> length r = (length a + length r')%nat.
Proof.
  intro H. apply take_some in H as (_ & _ & _ & _ & H & _). rewrite H at 1. apply app_length.
Qed.

Lemma read_arg_len minor r :
  match read_arg minor r with
  | ArgVal _ r1 => (length r1 <= length r)%nat
  | ArgIndef r1 => r1 = r
  | _ => True
  end.
Proof.
  unfold read_arg. destruct (minor <? 24); [lia|].
  destruct (minor <=? 27).
  - destruct (take (2 ^ (minor - 24)) r) as [[a r']|] eqn:E; [|exact I].
    apply take_length in E. lia.
  - destruct (minor =? 31); [reflexivity|exact I].
Qed.

Lemma simple_size minor r v rest : ref_simple minor r = RValue v rest ->
  (cv_size v + length rest <= S (length r))%nat.
Proof.
  unfold ref_simple. intro H.
  destruct (minor =? 20); [inversion H; subst; cbn [cv_size]; lia|].
  destruct (minor =? 21); [inversion H; subst; cbn [cv_size]; lia|].
  destruct (minor =? 22); [inversion H; subst; cbn [cv_size]; lia|].
  destruct (minor =? 23); [inversion H; subst; cbn [cv_size]; lia|].
  destruct (minor =? 26).
  { destruct (take 4 r) as [[a r']|] eqn:E; [|discriminate]. apply take_length in E.
    inversion H; subst. cbn [cv_size]. lia. }
  destruct (minor =? 27).
  { destruct (take 8 r) as [[a r']|] eqn:E; [|discriminate]. apply take_length in E.
    inversion H; subst. cbn [cv_size]. lia. }
  destruct (minor =? 31); [discriminate|].
  destruct ((28 <=? minor) && (minor <=? 30)); discriminate.
Qed.

Lemma bytes_arr_size a : list_sum (map cv_size (map (fun x => CNum (CInt x)) a)) = length a.
Proof. induction a as [|x a IH]; [reflexivity|]. cbn [map cv_size length]. rewrite list_sum_cons. lia. Qed.

Lemma items_def_size f : size_spec f -> forall g n b acc v rest,
  items_def f g n b acc = RValue v rest ->
  exists vs, v = CArr (rev acc ++ vs) /\
             (list_sum (map cv_size vs) + length rest <= length b)%nat.
Proof.
  intro Hf. induction g as [|g IH]; intros n b acc v rest H; rewrite items_def_eq in H.
  - destruct (n <=? 0); [|discriminate]. inversion H; subst. exists []. rewrite app_nil_r.
    split; [reflexivity|cbn; lia].
  - destruct (n <=? 0).
    { inversion H; subst. exists []. rewrite app_nil_r. split; [reflexivity|cbn; lia]. }
    destruct (cbor_ref f b) as [v1 r1| | |] eqn:E; try discriminate.
    apply Hf in E. destruct (IH _ _ _ _ _ H) as (vs & -> & Hsz).
    exists (v1 :: vs). cbn [rev]. rewrite <- app_assoc. cbn [app map]. rewrite list_sum_cons.
    split; [reflexivity|lia].
Qed.

Lemma items_ind_size f : size_spec f -> forall g b acc v rest,
  items_ind f g b acc = RValue v rest ->
  exists vs, v = CArr (rev acc ++ vs) /\
             (list_sum (map cv_size vs) + length rest <= length b)%nat.
Proof.
  intro Hf. induction g as [|g IH]; intros b acc v rest H.
  - destruct b; discriminate H.
  - destruct b as [|x r]; [rewrite items_ind_S in H; discriminate|].
    destruct (Z.eq_dec x 255) as [->|Hx].
    + rewrite items_ind_S in H. inversion H; subst. exists []. rewrite app_nil_r.
      split; [reflexivity|cbn; lia].
    + rewrite items_ind_other in H by exact Hx.
      destruct (cbor_ref f (x :: r)) as [v1 r1| | |] eqn:E; try discriminate.
      apply Hf in E. destruct (IH _ _ _ _ H) as (vs & -> & Hsz).
      exists (v1 :: vs). cbn [rev]. rewrite <- app_assoc. cbn [app map]. rewrite list_sum_cons.
      split; [reflexivity|lia].
Qed.

Notation pairsz := (fun kv : bytes * cvalue => (S (length (fst kv)) + cv_size (snd kv))%nat).

Lemma pairs_def_size f : size_spec f -> forall g n b acc v rest,
  pairs_def f g n b acc = RValue v rest ->
  exists kvs, v = CObj (rev acc ++ kvs) /\
              (list_sum (map pairsz kvs) + length rest <= length b)%nat.
Proof.
  intro Hf. induction g as [|g IH]; intros n b acc v rest H; rewrite pairs_def_eq in H.
  - destruct (n <=? 0); [|discriminate]. inversion H; subst. exists []. rewrite app_nil_r.
    split; [reflexivity|cbn; lia].
  - destruct (n <=? 0).
    { inversion H; subst. exists []. rewrite app_nil_r. split; [reflexivity|cbn; lia]. }
    destruct b as [|kb b']; [discriminate|].
    destruct (negb (kb / 32 =? 3)).
    { destruct ((kb / 32 =? 7) && negb (kb mod 32 <? 28)); discriminate. }
    destruct (cbor_ref f (kb :: b')) as [vk r1| | |] eqn:Ek; try discriminate.
    destruct vk as [| |k| | |]; try discriminate.
    destruct (cbor_ref f r1) as [v1 r2| | |] eqn:Ev; try discriminate.
    apply Hf in Ek. apply Hf in Ev. cbn [cv_size] in Ek.
    destruct (IH _ _ _ _ _ H) as (kvs & -> & Hsz).
    exists ((k, v1) :: kvs). cbn [rev]. rewrite <- app_assoc. cbn [app map fst snd]. rewrite list_sum_cons.
    split; [reflexivity|lia].
Qed.

Lemma pairs_ind_size f : size_spec f -> forall g b acc v rest,
  pairs_ind f g b acc = RValue v rest ->
  exists kvs, v = CObj (rev acc ++ kvs) /\
              (list_sum (map pairsz kvs) + length rest <= length b)%nat.
Proof.
  intro Hf. induction g as [|g IH]; intros b acc v rest H.
  - destruct b; discriminate H.
  - destruct b as [|kb b']; [rewrite pairs_ind_S in H; discriminate|].
    destruct (Z.eq_dec kb 255) as [->|Hx].
    + rewrite pairs_ind_S in H. inversion H; subst. exists []. rewrite app_nil_r.
      split; [reflexivity|cbn; lia].
    + rewrite pairs_ind_other in H by exact Hx.
      destruct (negb (kb / 32 =? 3)).
      { destruct ((kb / 32 =? 7) && negb (kb mod 32 <? 28)); discriminate. }
      destruct (cbor_ref f (kb :: b')) as [vk r1| | |] eqn:Ek; try discriminate.
      destruct vk as [| |k| | |]; try discriminate.
      destruct (cbor_ref f r1) as [v1 r2| | |] eqn:Ev; try discriminate.
      apply Hf in Ek. apply Hf in Ev. cbn [cv_size] in Ek.
      destruct (IH _ _ _ _ H) as (kvs & -> & Hsz).
      exists ((k, v1) :: kvs). cbn [rev]. rewrite <- app_assoc. cbn [app map fst snd]. rewrite list_sum_cons.
      split; [reflexivity|lia].
Qed.

Theorem ref_size : forall f, size_spec f.
Proof.
  induction f as [|f IH]; intros b v rest H; [rewrite cbor_ref_O in H; discriminate|].
  destruct b as [|ib r]; [rewrite cbor_ref_nil in H; discriminate|].
  rewrite cbor_ref_S in H. unfold ref_body in H. cbv zeta in H. cbn [length].
  destruct (ib / 32 =? 7).
  { apply simple_size in H. lia. }
  destruct (ib / 32 =? 6); [discriminate|].
  pose proof (read_arg_len (ib mod 32) r) as Ha.
  destruct (read_arg (ib mod 32) r) as [n r1|r1| |]; try discriminate.
  - destruct (ib / 32 =? 0). { inversion H; subst. cbn [cv_size]. lia. }
    destruct (ib / 32 =? 1).
    { destruct (n <? 2 ^ 63); [|discriminate]. inversion H; subst. cbn [cv_size]. lia. }
    destruct (ib / 32 =? 2).
    { destruct (take n r1) as [[a r']|] eqn:Et; [|discriminate]. apply take_length in Et.
      inversion H; subst. cbn [cv_size]. rewrite bytes_arr_size. lia. }
    destruct (ib / 32 =? 3).
    { destruct (take n r1) as [[a r']|] eqn:Et; [|discriminate]. apply take_length in Et.
      inversion H; subst. cbn [cv_size]. lia. }
    destruct (ib / 32 =? 4).
    + destruct (items_def_size f IH _ _ _ _ _ _ H) as (vs & -> & Hsz). cbn [rev app cv_size]. lia.
    + destruct (pairs_def_size f IH _ _ _ _ _ _ H) as (vs & -> & Hsz). cbn [rev app cv_size]. lia.
  - subst r1.
    destruct ((ib / 32 =? 0) || (ib / 32 =? 1)); [discriminate|].
    destruct ((ib / 32 =? 2) || (ib / 32 =? 3)); [discriminate|].
    destruct (ib / 32 =? 4).
    + destruct (items_ind_size f IH _ _ _ _ _ H) as (vs & -> & Hsz). cbn [rev app cv_size]. lia.
    + destruct (pairs_ind_size f IH _ _ _ _ _ H) as (vs & -> & Hsz). cbn [rev app cv_size]. lia.
Qed.
Print Assumptions ref_size.

(* a well-formed tree whose value is small has small announced lengths *)
Lemma small_of_size : forall t N, wf_tree t = true ->
  (cv_size (cv (value_of t)) <= N)%nat -> Z.of_nat N < 2 ^ 64 -> tree_small t = true.
Proof.
  induction t as [s r|len bt es IH|len bt ms IH|bt es|bt ms] using tree_ind';
    intros N Hw Hsz HN.
  - destruct s as [|b|s|k z]; try reflexivity.
    cbn [RoundtripProofs.tree_small RoundtripProofs.scalar_small value_of scalar_value cv cv_size] in *.
    unfold zlen. lia.
  - rewrite wf_arr in Hw. apply andb_true_iff in Hw as [Hw Hwf]. apply andb_true_iff in Hw as [Hlen _].
    cbn [value_of cv cv_size] in Hsz. rewrite !map_map in Hsz.
    pose proof (list_sum_len (fun x => cv_size (cv (value_of x))) es ltac:(intro; apply cv_size_pos)) as Hl.
    cbn [RoundtripProofs.tree_small]. apply andb_true_iff. split.
    + unfold len_ok, zlen in Hlen. lia.
    + apply forallb_forall. intros x Hx. rewrite Forall_forall in IH.
      apply (IH x Hx N); [eapply forallb_forall in Hwf; eassumption| |exact HN].
      pose proof (list_sum_in (fun x => cv_size (cv (value_of x))) es x Hx). cbn beta in *. lia.
  - rewrite wf_obj in Hw. apply andb_true_iff in Hw as [Hw Hwf]. apply andb_true_iff in Hw as [Hlen _].
    cbn [value_of cv cv_size] in Hsz. rewrite !map_map in Hsz. cbn [fst snd] in Hsz.
    set (g := fun m : bytes * bool * tree => (S (length (fst (fst m))) + cv_size (cv (value_of (snd m))))%nat) in *.
    pose proof (list_sum_len g ms ltac:(intro; unfold g; lia)) as Hl.
    cbn [RoundtripProofs.tree_small]. apply andb_true_iff. split.
    + unfold len_ok, zlen in Hlen. lia.
    + apply forallb_forall. intros [[k r] e] Hx. rewrite Forall_forall in IH.
      pose proof (list_sum_in g ms _ Hx) as Hin. unfold g in Hin at 1. cbn [fst snd] in Hin |- *.
      apply andb_true_iff. split; [unfold zlen; lia|].
      apply (IH _ Hx N); cbn [snd]; [|lia|exact HN].
      eapply forallb_forall in Hwf; [|exact Hx]. apply andb_true_iff in Hwf as [_ Hwf]. exact Hwf.
  - cbn [value_of cv cv_size] in Hsz. rewrite !map_map in Hsz.
    pose proof (list_sum_len (fun x => cv_size (cv (scalar_value x))) es ltac:(intro; apply cv_size_pos)) as Hl.
    cbn [RoundtripProofs.tree_small]. apply andb_true_iff. split; [unfold zlen; lia|].
    apply forallb_forall. intros x Hx.
    pose proof (list_sum_in (fun x => cv_size (cv (scalar_value x))) es x Hx) as Hin. cbn beta in Hin.
    destruct x as [|b|s|k z]; try reflexivity.
    cbn [RoundtripProofs.scalar_small scalar_value cv cv_size] in *. unfold zlen. lia.
  - cbn [value_of cv cv_size] in Hsz. rewrite !map_map in Hsz. cbn [fst snd] in Hsz.
    set (g := fun m : bytes * scalar => (S (length (fst m)) + cv_size (cv (scalar_value (snd m))))%nat) in *.
    pose proof (list_sum_len g ms ltac:(intro; unfold g; lia)) as Hl.
    cbn [RoundtripProofs.tree_small]. apply andb_true_iff. split; [unfold zlen; lia|].
    apply forallb_forall. intros [k x] Hx.
    pose proof (list_sum_in g ms _ Hx) as Hin. unfold g in Hin at 1. cbn [fst snd] in Hin |- *.
    apply andb_true_iff. split; [unfold zlen; lia|].
    destruct x as [|b|s|kd z]; try reflexivity.
    cbn [RoundtripProofs.scalar_small scalar_value cv cv_size] in *. unfold zlen. lia.
Qed.

Lemma decode_all_size : forall f b vs, cbor_decode_all f b = Some vs ->
  (list_sum (map cv_size vs) <= length b)%nat.
Proof.
  induction f as [|f IH]; intros b vs H; [discriminate|]. cbn [cbor_decode_all] in H.
  destruct b as [|x r]; [inversion H; subst; cbn; lia|].
  destruct (cbor_decode (x :: r)) as [v rest| | |] eqn:E; try discriminate.
  destruct (cbor_decode_all f rest) as [vs'|] eqn:E'; [|discriminate].
  inversion H; subst. cbn [map]. rewrite list_sum_cons.
  apply IH in E'. unfold cbor_decode in E. apply ref_size in E. lia.
Qed.

Lemma trees_small ts N : forallb wf_tree ts = true ->
  (list_sum (map cv_size (tvals ts)) <= N)%nat -> Z.of_nat N < 2 ^ 64 ->
  forallb tree_small ts = true.
Proof.
  intros Hwf Hsz HN. apply forallb_forall. intros t Ht.
  apply (small_of_size t N); [eapply forallb_forall in Hwf; eassumption| |exact HN].
  unfold tvals in Hsz. rewrite map_map in Hsz.
  pose proof (list_sum_in (fun t => cv_size (cv (value_of t))) ts t Ht). cbn beta in *. lia.
Qed.

(* ====================================================================== *)
(* Part D: the compositions                                                 *)
(* ====================================================================== *)

(* ---------- C01: encode, then parse, in any chunking ---------- *)
(* Side condition: the output is at most MaxInt64 bytes long (always true of a
   Go []byte).  It cannot be dropped: tree_small allows a string of 2^63
   bytes, whose head the parser refuses - see [len_2_63_refused] below. *)
Theorem C01_cbor : forall t, wf_tree t = true -> tree_small t = true ->
  exists bs, cbor_encode (flatten t) = Some bs /\ all_bytes bs = true /\
    ((zlen bs <=? MaxInt64) = true ->
     forall cs, concat cs = bs ->
       exists evs t', run_chunks None cs = Ok (evs, nilE) /\ stream_tree evs = Some t' /\
                      wf_tree t' = true /\ cv (value_of t') = cv (value_of t)).
Proof.
  intros t Hw Hs. destruct (RoundtripProofs.C07_cbor t Hw Hs) as (bs & E & D).
  pose proof (cbor_encode_tree_bytes t bs Hw E) as Hb.
  exists bs. split; [exact E|]. split; [exact Hb|]. intros Hsz cs Hc.
  destruct (C05_accept bs _ Hb Hsz D) as (evs & t' & Hrun & Hst & Hwf & Hcv).
  exists evs, t'. rewrite chunks_as_parse by (rewrite Hc; exact Hb). rewrite Hc. auto.
Qed.
Print Assumptions C01_cbor.

(* the events the parser delivers are those of a tree that differs from the
   encoded one only in representation (same canonical value) *)
Corollary C01_cbor_parse : forall t bs, wf_tree t = true -> tree_small t = true ->
  cbor_encode (flatten t) = Some bs -> (zlen bs <=? MaxInt64) = true ->
  exists evs t', run_parse None bs = Ok (evs, nilE) /\ stream_tree evs = Some t' /\
                 wf_tree t' = true /\ cv (value_of t') = cv (value_of t).
Proof.
  intros t bs Hw Hs E Hsz. destruct (C01_cbor t Hw Hs) as (bs' & E' & Hb & H).
  rewrite E in E'. inversion E'; subst bs'.
  destruct (H Hsz [bs] ltac:(cbn [concat]; apply app_nil_r)) as (evs & t' & Hrun & Hrest).
  exists evs, t'. split; [|exact Hrest].
  rewrite chunks_as_parse in Hrun by (cbn [concat]; rewrite app_nil_r; exact Hb).
  cbn [concat] in Hrun. rewrite app_nil_r in Hrun. exact Hrun.
Qed.
Print Assumptions C01_cbor_parse.

(* why the length side condition is there: a text string head announcing 2^63
   bytes (what the encoder writes for a string of that length) is refused at
   once with "length out of range", whatever follows *)
Example len_2_63_refused :
  cb_head majorText (2 ^ 63) = 123 :: be_enc 8 (2 ^ 63) /\
  run_parse None (cb_head majorText (2 ^ 63)) = Ok ([], eLenRange).
Proof. vm_compute. auto. Qed.

(* ---------- C08 for (CBOR, CBOR): parser connected to encoder ---------- *)
Lemma single_doc b v ts : cbor_decode b = RValue v [] ->
  cbor_decode_all (S (length b)) b = Some (tvals ts) ->
  exists t, ts = [t] /\ cv (value_of t) = v.
Proof.
  intros Hd Hall. destruct b as [|x r]; [discriminate Hd|].
  cbn [cbor_decode_all] in Hall. rewrite Hd in Hall. cbn [length cbor_decode_all] in Hall.
  inversion Hall as [Hts]. destruct ts as [|t [|t' ts']]; try discriminate.
  unfold tvals in Hts. cbn [map] in Hts. inversion Hts. exists t. auto.
Qed.

Theorem C08_cbor_cbor : forall b v, all_bytes b = true -> (zlen b <=? MaxInt64) = true ->
  cbor_decode b = RValue v [] ->
  forall cs, concat cs = b ->
  exists evs out, run_chunks None cs = Ok (evs, nilE) /\ cbor_encode evs = Some out /\
                  cbor_decode out = RValue v [].
Proof.
  intros b v Hb Hsz Hd cs Hc.
  destruct (C05_accept b v Hb Hsz Hd) as (evs & _ & Hrun & _).
  destruct (C09_cbor_accepted_wf b evs Hb Hsz Hrun) as (ts & -> & Hwf & Hall).
  destruct (single_doc b v ts Hd Hall) as (t & -> & Hcv).
  cbn [forallb] in Hwf. rewrite andb_true_r in Hwf. cbn [flat_map] in *. rewrite app_nil_r in *.
  assert (Hsm : tree_small t = true).
  { apply (small_of_size t (length b) Hwf).
    - unfold cbor_decode in Hd. apply ref_size in Hd. rewrite Hcv. cbn [length] in Hd. lia.
    - unfold MaxInt64, zlen in Hsz. lia. }
  destruct (RoundtripProofs.C07_cbor t Hwf Hsm) as (out & E & D).
  exists (flatten t), out. rewrite chunks_as_parse by (rewrite Hc; exact Hb). rewrite Hc, <- Hcv. auto.
Qed.
Print Assumptions C08_cbor_cbor.

(* the general form: whatever input the parser accepts (any number of
   top-level items), re-encoding its events gives a document that the
   reference decodes to the same sequence of values *)
Theorem C08_cbor_cbor_stream : forall b evs, all_bytes b = true -> (zlen b <=? MaxInt64) = true ->
  run_parse None b = Ok (evs, nilE) ->
  exists out vs, cbor_encode evs = Some out /\
    cbor_decode_all (S (length b)) b = Some vs /\
    cbor_decode_all (S (length out)) out = Some vs.
Proof.
  intros b evs Hb Hsz Hrun.
  destruct (C09_cbor_accepted_wf b evs Hb Hsz Hrun) as (ts & -> & Hwf & Hall).
  assert (Hsm : forallb tree_small ts = true).
  { apply (trees_small ts (length b) Hwf).
    - eapply decode_all_size. exact Hall.
    - unfold MaxInt64, zlen in Hsz. lia. }
  destruct (RoundtripProofs.C07_cbor_stream ts Hwf Hsm) as (out & E & D).
  exists out, (tvals ts). auto.
Qed.
Print Assumptions C08_cbor_cbor_stream.

(* and the re-encoded document is again accepted by the parser, with the same
   values: parse . encode . parse = parse on values *)
Theorem C08_cbor_reparse : forall b v, all_bytes b = true -> (zlen b <=? MaxInt64) = true ->
  cbor_decode b = RValue v [] ->
  exists evs out, run_parse None b = Ok (evs, nilE) /\ cbor_encode evs = Some out /\
    all_bytes out = true /\
    ((zlen out <=? MaxInt64) = true ->
     exists evs2 t2, run_parse None out = Ok (evs2, nilE) /\ stream_tree evs2 = Some t2 /\
                     wf_tree t2 = true /\ cv (value_of t2) = v).
Proof.
  intros b v Hb Hsz Hd.
  destruct (C08_cbor_cbor b v Hb Hsz Hd [b] ltac:(cbn [concat]; apply app_nil_r))
    as (evs & out & Hrun & E & D).
  rewrite chunks_as_parse in Hrun by (cbn [concat]; rewrite app_nil_r; exact Hb).
  cbn [concat] in Hrun. rewrite app_nil_r in Hrun.
  destruct (C09_cbor_accepted_wf b evs Hb Hsz Hrun) as (ts & He & Hwf & _).
  assert (Hob : all_bytes out = true).
  { eapply cbor_encode_bytes; [|exact E]. rewrite He, forallb_flat_map.
    eapply forallb_impl; [|exact Hwf]. intros t. apply flatten_ev_ok. }
  exists evs, out. repeat split; try assumption.
  intro Hosz. apply C05_accept; assumption.
Qed.
Print Assumptions C08_cbor_reparse.

(* ====================================================================== *)
(* Part E: sequences of documents - the converse of C09_cbor_accepted_wf    *)
(* ====================================================================== *)

Lemma feed_accepts : forall fuel b s g vs, (length b < fuel)%nat ->
  all_bytes b = true -> zlen b <= MaxInt64 -> s_fail s = None ->
  cbor_decode_all g b = Some vs ->
  exists ts, feed fuel cparser0 s b = Ok (cparser0, sadd s (flat_map flatten ts), nilE) /\
             forallb wf_tree ts = true /\ tvals ts = vs.
Proof.
  induction fuel as [|f IH]; intros b s g vs Hlen Hb Hsz Hs Hall; [lia|].
  destruct g as [|g]; [discriminate|]. cbn [cbor_decode_all] in Hall.
  destruct b as [|x r].
  { inversion Hall; subst. exists []. cbn [flat_map]. rewrite sadd_nil, feed_S.
    change (zlen (@nil Z) >? 0) with false. cbv iota. repeat split. }
  set (b := x :: r) in *.
  assert (Hne : b <> []) by discriminate.
  assert (Hf : fuel_ok (S (length b)) b).
  { unfold fuel_ok, MaxInt64, zlen in *. split; lia. }
  destruct (cbor_decode b) as [v rest| | |] eqn:Hd; try discriminate.
  destruct (cbor_decode_all g rest) as [vs'|] eqn:Hall'; [|discriminate].
  inversion Hall; subst vs. unfold cbor_decode in Hd.
  destruct (value_ok _ b v rest Hd Hb Hf cparser0 s vctx_top Hs)
    as (t & n & Hwf & Hcv & (Hc & Hrb) & Hreach).
  pose proof (feed_until_top_value b s _ rest n Hne ltac:(lia) Hreach) as Hfu.
  destruct (IH rest (sadd s (flatten t)) g vs' ltac:(lia) Hrb ltac:(unfold zlen in *; lia)
              ltac:(rewrite sadd_fail; exact Hs) Hall') as (ts & Hfeed & Hwfs & Hvs).
  exists (t :: ts). rewrite feed_S, (zlen_pos_gt b Hne), Hfu.
  change (isnil nilE) with true. cbv iota. rewrite Hfeed. cbn [flat_map forallb].
  rewrite sadd_app, Hwf, Hwfs. unfold tvals in *. cbn [map]. rewrite Hcv, Hvs. repeat split.
Qed.

(* C05 for sequences of items: everything the reference decodes completely is
   accepted, with the reference's values *)
Theorem C05_accept_stream : forall b g vs, all_bytes b = true -> (zlen b <=? MaxInt64) = true ->
  cbor_decode_all g b = Some vs ->
  exists ts, run_parse None b = Ok (flat_map flatten ts, nilE) /\
             forallb wf_tree ts = true /\ map (fun t => cv (value_of t)) ts = vs.
Proof.
  intros b g vs Hb Hsz Hall.
  destruct (feed_accepts (2 * length b + 2) b (sink0 None) g vs ltac:(lia) Hb ltac:(lia) eq_refl Hall)
    as (ts & Hfeed & Hwf & Hvs).
  exists ts. unfold run_parse, p_parse. rewrite Hfeed.
  change (isnil nilE) with true. cbv iota. change (finalize cparser0) with nilE.
  rewrite sadd_log. auto.
Qed.
Print Assumptions C05_accept_stream.

(* acceptance by the parser = complete decodability by the reference *)
Theorem C05_cbor_accept_iff : forall b, all_bytes b = true -> (zlen b <=? MaxInt64) = true ->
  ((exists evs, run_parse None b = Ok (evs, nilE)) <->
   (exists vs, cbor_decode_all (S (length b)) b = Some vs)).
Proof.
  intros b Hb Hsz. split.
  - intros (evs & H). destruct (C09_cbor_accepted_wf b evs Hb Hsz H) as (ts & _ & _ & Hall). eauto.
  - intros (vs & H). destruct (C05_accept_stream b _ vs Hb Hsz H) as (ts & Hrun & _). eauto.
Qed.
Print Assumptions C05_cbor_accept_iff.

(* C01 for streams of documents, any chunking *)
Theorem C01_cbor_stream : forall ts, forallb wf_tree ts = true -> forallb tree_small ts = true ->
  exists bs, cbor_encode (flat_map flatten ts) = Some bs /\ all_bytes bs = true /\
    ((zlen bs <=? MaxInt64) = true ->
     forall cs, concat cs = bs ->
       exists ts', run_chunks None cs = Ok (flat_map flatten ts', nilE) /\
                   forallb wf_tree ts' = true /\
                   map (fun t => cv (value_of t)) ts' = map (fun t => cv (value_of t)) ts).
Proof.
  intros ts Hw Hs. destruct (RoundtripProofs.C07_cbor_stream ts Hw Hs) as (bs & E & D).
  assert (Hb : all_bytes bs = true).
  { eapply cbor_encode_bytes; [|exact E]. rewrite forallb_flat_map.
    eapply forallb_impl; [|exact Hw]. intros t. apply flatten_ev_ok. }
  exists bs. split; [exact E|]. split; [exact Hb|]. intros Hsz cs Hc.
  destruct (C05_accept_stream bs _ _ Hb Hsz D) as (ts' & Hrun & Hwf & Hvs).
  exists ts'. rewrite chunks_as_parse by (rewrite Hc; exact Hb). rewrite Hc. auto.
Qed.
Print Assumptions C01_cbor_stream.

(* sanity checks of the statements on concrete inputs *)
Example compose_example :
  let t := TObj (-1) BAny
             [([97], false, TArr 2 BAny [TVal (SNum KInt8 (-5)) false; TVal (SStr [104;105]) true]);
              ([98], true, TXArr BByte [SNum KByte 255; SNum KByte 1]);
              ([99], false, TXObj BFloat32 [([100], SNum KFloat32 1065353216)])] in
  match cbor_encode (flatten t) with
  | Some bs =>
      all_bytes bs = true /\
      match run_chunks None [firstn 3 bs; skipn 3 bs] with
      | Ok (evs, e) =>
          e = nilE /\
          match stream_tree evs, cbor_encode evs with
          | Some t', Some out => wf_tree t' = true /\ cv (value_of t') = cv (value_of t) /\
                                 cbor_decode out = cbor_decode bs
          | _, _ => False
          end
      | _ => False
      end
  | None => False
  end.
Proof. vm_compute. auto. Qed.
