(* Composition theorems for CBOR: encoder -> parser (C01), parser -> reference
   for every accepted input (C09), parser -> encoder (C08), and the parser
   being back in its initial state after every accepted document (C17). *)
From Coq Require Import List NArith ZArith Bool Lia.
From Coq Require Import ZifyBool ZifyNat ZifyN.
From SF Require Import Base.Prelude Base.PreludeProofs Core.Events Core.EventsProofs
  Core.AdapterProofs Cbor.Spec Cbor.Enc Cbor.Parse Cbor.EncProofs.
From SF Require Cbor.RoundtripProofs Cbor.ParseSafety Cbor.ChunkProofs Cbor.ChunkTotalProofs.
From SF Require Import Cbor.ConformanceProofs.
Import ListNotations.
Open Scope Z_scope.

Ltac Zify.zify_post_hook ::= Z.div_mod_to_equations.

Notation tree_small := RoundtripProofs.tree_small.

#[local] Opaque cbor_ref items_ind pairs_ind items_def pairs_def.

(* ====================================================================== *)
(* Part A: the encoder writes bytes                                         *)
(* ====================================================================== *)

(* what the encoder needs from an event to write only bytes: this is part of
   the Visitor contract (wf_tree) *)
Definition ev_ok (ev : event) : bool :=
  match ev with
  | EVal s => scalar_ok s
  | EStrRef s | EKey s | EKeyRef s => all_bytes s
  | EXArr bt es => forallb (xelem_ok bt) es
  | EXObj bt ms => forallb (fun m => all_bytes (fst m) && xelem_ok bt (snd m)) ms
  | _ => true
  end.

Definition binv (e : cenc) : Prop := all_bytes (w_bytes (ce_w e)) = true.

Lemma cw_binv e b e1 ok : binv e -> all_bytes b = true -> cw e b = (e1, ok) -> binv e1.
Proof.
  unfold binv, cw, wwrite, w_bytes, w_chunks. intros Hi Hb H.
  destruct (w_fail (ce_w e)); inversion H; subst e1; cbn [ce_w w_rchunks rev];
    rewrite concat_app, all_bytes_app, Hi; cbn [concat]; rewrite app_nil_r; exact Hb.
Qed.

Lemma cb_head_bytes major v : 0 <= major <= 160 -> 0 <= v ->
  all_bytes (cb_head major v) = true.
Proof.
  intros Hm Hv. unfold cb_head.
  destruct (v <? 24) eqn:E1.
  { unfold all_bytes, is_byte. cbn [forallb]. lia. }
  destruct (v <=? 255) eqn:E2.
  { unfold all_bytes, is_byte. cbn [forallb]. lia. }
  destruct (v <=? 65535); [|destruct (v <=? 4294967295)];
    rewrite all_bytes_cons, be_enc_bytes; unfold is_byte; lia.
Qed.

Lemma cb_int_bytes z : all_bytes (cb_int z) = true.
Proof.
  unfold cb_int. destruct (z <? 0) eqn:E; apply cb_head_bytes; unfold majorNeg, majorUint; lia.
Qed.

Lemma cb_bytes_binv e major s e1 ok : binv e -> 0 <= major <= 160 -> all_bytes s = true ->
  cb_bytes e major s = (e1, ok) -> binv e1.
Proof.
  intros Hi Hm Hs H. unfold cb_bytes in H.
  destruct (cw e (cb_head major (zlen s))) as [e0 ok0] eqn:E0.
  assert (H0 : binv e0).
  { eapply cw_binv; [exact Hi| |exact E0]. apply cb_head_bytes; [exact Hm|apply zlen_nonneg]. }
  destruct ok0.
  - eapply cw_binv; [exact H0|exact Hs|exact H].
  - inversion H; subst e1. exact H0.
Qed.

Lemma in_u_nonneg w z : in_u w z = true -> 0 <= z.
Proof. unfold in_u. lia. Qed.

Lemma cb_scalar_binv e s e1 ok : binv e -> scalar_ok s = true ->
  cb_scalar e s = (e1, ok) -> binv e1.
Proof.
  intros Hi Hs H. destruct s as [|b|s|kd z]; cbn [cb_scalar scalar_ok] in *.
  - eapply cw_binv; [exact Hi| |exact H]; reflexivity.
  - destruct b; (eapply cw_binv; [exact Hi| |exact H]; reflexivity).
  - eapply cb_bytes_binv; [exact Hi| |exact Hs|exact H]. unfold majorText. lia.
  - destruct kd; cbn [nkind_ok] in Hs;
      (eapply cw_binv; [exact Hi| |exact H]);
      try apply cb_int_bytes;
      try (apply cb_head_bytes; [unfold majorUint; lia|eapply in_u_nonneg; exact Hs]);
      (rewrite all_bytes_cons, be_enc_bytes; reflexivity).
Qed.

Lemma cb_optlen_binv e major len e1 ok : binv e -> major = 128 \/ major = 160 ->
  cb_optlen e major len = (e1, ok) -> binv e1.
Proof.
  intros Hi Hm H. unfold cb_optlen in H. destruct (len <? 0) eqn:E.
  - eapply cw_binv; [exact Hi| |exact H]. destruct Hm; subst major; reflexivity.
  - eapply cw_binv; [exact Hi| |exact H]. apply cb_head_bytes; lia.
Qed.

Lemma cb_start_binv e major len e1 ok : binv e -> major = 128 \/ major = 160 ->
  cb_start e major len = (e1, ok) -> binv e1.
Proof.
  intros Hi Hm H. unfold cb_start in H.
  destruct (cb_optlen e major len) as [e0 ok0] eqn:E0.
  apply (cb_optlen_binv _ _ _ _ _ Hi Hm) in E0.
  destruct ok0; inversion H; subst e1; exact E0.
Qed.

Lemma cb_finish_binv e e1 ok : binv e -> cb_finish e = (e1, ok) -> binv e1.
Proof.
  intros Hi H. unfold cb_finish in H.
  destruct (ls_pop (ce_len e)) as [ls old].
  destruct (old <? 0).
  - eapply cw_binv; [| |exact H]; [exact Hi|reflexivity].
  - inversion H; subst e1. exact Hi.
Qed.

Lemma cb_scalars_binv l : forall e e1 ok, binv e -> forallb scalar_ok l = true ->
  cb_scalars e l = (e1, ok) -> binv e1.
Proof.
  induction l as [|s r IH]; intros e e1 ok Hi Hl H; cbn [cb_scalars forallb] in *.
  - inversion H; subst e1. exact Hi.
  - apply andb_true_iff in Hl as [Hs Hr].
    destruct (cb_scalar e s) as [e0 ok0] eqn:E0.
    apply (cb_scalar_binv _ _ _ _ Hi Hs) in E0.
    destruct ok0; [eapply IH; eassumption|inversion H; subst e1; exact E0].
Qed.

Lemma cb_members_binv l : forall e e1 ok, binv e ->
  forallb (fun m => all_bytes (fst m) && scalar_ok (snd m)) l = true ->
  cb_members e l = (e1, ok) -> binv e1.
Proof.
  induction l as [|[key s] r IH]; intros e e1 ok Hi Hl H; cbn [cb_members forallb fst snd] in *.
  - inversion H; subst e1. exact Hi.
  - apply andb_true_iff in Hl as [Hs Hr]. apply andb_true_iff in Hs as [Hk Hs].
    destruct (cb_bytes e majorText key) as [e0 ok0] eqn:E0.
    eapply cb_bytes_binv in E0; [|exact Hi|unfold majorText; lia|exact Hk].
    destruct ok0; cbn [negb] in H; [|inversion H; subst e1; exact E0].
    destruct (cb_scalar e0 s) as [e2 ok2] eqn:E2.
    apply (cb_scalar_binv _ _ _ _ E0 Hs) in E2.
    destruct ok2; [eapply IH; eassumption|inversion H; subst e1; exact E2].
Qed.

Lemma xbytes_bytes bt es : is_bytes_bt bt = true -> forallb (xelem_ok bt) es = true ->
  all_bytes (map xbyte es) = true.
Proof.
  intros Hb. induction es as [|s r IH]; cbn [forallb map]; intro H; [reflexivity|].
  apply andb_true_iff in H as [H H']. rewrite all_bytes_cons, (IH H'), andb_true_r.
  destruct bt; try discriminate; destruct s as [| | |k z]; try discriminate;
    destruct k; try discriminate; cbn [xelem_ok scalar_matches scalar_ok nkind_ok andb xbyte] in *;
    unfold in_u, is_byte in *; lia.
Qed.

Lemma forallb_impl {A} (f g : A -> bool) l : (forall x, f x = true -> g x = true) ->
  forallb f l = true -> forallb g l = true.
Proof.
  intros Hfg H. apply forallb_forall. intros x Hx. apply Hfg.
  eapply forallb_forall in H; eassumption.
Qed.

Lemma cbor_on_binv e ev e1 ok : binv e -> ev_ok ev = true -> cbor_on e ev = (e1, ok) -> binv e1.
Proof.
  intros Hi Hev H.
  destruct ev as [s|s|len bt| |len bt| |key|key|bt es|bt ms]; cbn [ev_ok] in Hev.
  - eapply cb_scalar_binv; eassumption.
  - eapply cb_bytes_binv; [exact Hi| |exact Hev|exact H]. unfold majorText; lia.
  - eapply cb_start_binv; [exact Hi| |exact H]. left; reflexivity.
  - eapply cb_finish_binv; eassumption.
  - eapply cb_start_binv; [exact Hi| |exact H]. right; reflexivity.
  - eapply cb_finish_binv; eassumption.
  - eapply cb_bytes_binv; [exact Hi| |exact Hev|exact H]. unfold majorText; lia.
  - eapply cb_bytes_binv; [exact Hi| |exact Hev|exact H]. unfold majorText; lia.
  - rewrite cbor_on_xarr in H. destruct (is_bytes_bt bt) eqn:Eb.
    + eapply cb_bytes_binv; [exact Hi| | |exact H]; [unfold majorBytes; lia|].
      eapply xbytes_bytes; eassumption.
    + destruct (cw e (cb_head majorArr (zlen es))) as [e0 ok0] eqn:E0.
      eapply cw_binv in E0; [|exact Hi|apply cb_head_bytes; [unfold majorArr; lia|apply zlen_nonneg]].
      destruct ok0; [|inversion H; subst e1; exact E0].
      eapply cb_scalars_binv; [exact E0| |exact H].
      eapply forallb_impl; [|exact Hev]. intros x. apply RoundtripProofs.xelem_scalar_ok.
  - cbn [cbor_on] in H.
    destruct (cb_start e majorMap (zlen ms)) as [e0 ok0] eqn:E0.
    eapply cb_start_binv in E0; [|exact Hi|right; reflexivity].
    destruct ok0; cbn [negb] in H; [|inversion H; subst e1; exact E0].
    destruct (cb_members e0 ms) as [e2 ok2] eqn:E2.
    eapply cb_members_binv in E2; [|exact E0|].
    2:{ eapply forallb_impl; [|exact Hev]. intros m Hm. apply andb_true_iff in Hm as [Hk Hx].
        rewrite Hk. cbn [andb]. eapply RoundtripProofs.xelem_scalar_ok; exact Hx. }
    destruct ok2; cbn [negb] in H; [|inversion H; subst e1; exact E2].
    eapply cb_finish_binv; eassumption.
Qed.

Lemma cbor_run_binv evs : forall e i e' r, binv e -> forallb ev_ok evs = true ->
  cbor_run e evs i = (e', r) -> binv e'.
Proof.
  induction evs as [|ev r IH]; intros e i e' res Hi Hev H; cbn [cbor_run forallb] in *.
  - inversion H; subst e'. exact Hi.
  - apply andb_true_iff in Hev as [Hev Hr].
    destruct (cbor_on e ev) as [e1 ok] eqn:E1.
    apply (cbor_on_binv _ _ _ _ Hi Hev) in E1.
    destruct ok; [eapply IH; eassumption|inversion H; subst e'; exact E1].
Qed.

Lemma forallb_flat_map {A B} (f : B -> bool) (g : A -> list B) l :
  forallb f (flat_map g l) = forallb (fun x => forallb f (g x)) l.
Proof.
  induction l as [|x l IH]; [reflexivity|]. cbn [flat_map forallb]. rewrite forallb_app, IH. reflexivity.
Qed.

(* the Visitor contract implies what the encoder needs *)
Lemma flatten_ev_ok : forall t, wf_tree t = true -> forallb ev_ok (flatten t) = true.
Proof.
  induction t as [s r|len bt es IH|len bt ms IH|bt es|bt ms] using tree_ind'; intro Hw.
  - cbn [wf_tree] in Hw. destruct s as [|b|s|k z], r; cbn [flatten forallb ev_ok]; rewrite ?andb_true_r; exact Hw.
  - rewrite wf_arr in Hw. apply andb_true_iff in Hw as [_ Hw].
    rewrite flatten_arr. cbn [forallb ev_ok]. rewrite forallb_app. cbn [forallb ev_ok].
    rewrite andb_true_r. unfold flatten_elems. rewrite forallb_flat_map.
    apply forallb_forall. intros x Hx. rewrite Forall_forall in IH. apply IH; [exact Hx|].
    eapply forallb_forall in Hw; eassumption.
  - rewrite wf_obj in Hw. apply andb_true_iff in Hw as [_ Hw].
    rewrite flatten_obj. cbn [forallb ev_ok]. rewrite forallb_app. cbn [forallb ev_ok].
    rewrite andb_true_r. unfold flatten_members. rewrite forallb_flat_map.
    apply forallb_forall. intros [[k r] e] Hx. rewrite Forall_forall in IH.
    eapply forallb_forall in Hw; [|exact Hx]. cbn [fst snd] in Hw.
    apply andb_true_iff in Hw as [Hk He]. cbn [forallb].
    pose proof (IH _ Hx He) as IHe. cbn [snd] in IHe. rewrite IHe, andb_true_r. destruct r; exact Hk.
  - cbn [wf_tree flatten forallb ev_ok] in *. rewrite Hw. reflexivity.
  - cbn [wf_tree flatten forallb ev_ok] in *. apply andb_true_iff in Hw as [_ Hw]. rewrite Hw. reflexivity.
Qed.

Theorem cbor_encode_bytes : forall evs bs, forallb ev_ok evs = true ->
  cbor_encode evs = Some bs -> all_bytes bs = true.
Proof.
  intros evs bs Hev H. unfold cbor_encode in H.
  destruct (cbor_run (cenc0 None) evs 0) as [e r] eqn:E.
  destruct r; [discriminate|]. inversion H; subst bs.
  eapply cbor_run_binv; [|exact Hev|exact E]. reflexivity.
Qed.
Print Assumptions cbor_encode_bytes.

Corollary cbor_encode_tree_bytes : forall t bs, wf_tree t = true ->
  cbor_encode (flatten t) = Some bs -> all_bytes bs = true.
Proof. intros t bs Hw. apply cbor_encode_bytes, flatten_ev_ok, Hw. Qed.
Print Assumptions cbor_encode_tree_bytes.

(* ====================================================================== *)
(* Part B: Parse on a sequence of top-level items                           *)
(* ====================================================================== *)

Lemma vctx_top : vctx cparser0.
Proof. split; [reflexivity|discriminate]. Qed.

(* one accepted top-level item: feedUntil returns done with the parser in its
   initial state *)
Lemma feed_until_top_value b s s' rest n : b <> [] -> (n + 1 <= 3 * length b)%nat ->
  reaches (step_value cparser0 s b) (after_value cparser0 s' rest nilE) n ->
  feed_until (feed_fuel b) cparser0 s b = Ok (SR cparser0 s' rest true nilE).
Proof.
  intros Hne Hn Hreach. unfold feed_fuel.
  replace (8 * length b + 16)%nat with (S (n + (8 * length b + 15 - n)))%nat by lia.
  rewrite feed_until_S, exec_at_value by reflexivity. rewrite Hreach.
  rewrite after_value_top. reflexivity.
Qed.

Lemma zlen_pos_gt (b : bytes) : b <> [] -> (zlen b >? 0) = true.
Proof.
  destruct b as [|x r]; [congruence|]. intros _. rewrite zlen_cons. pose proof (zlen_nonneg r). lia.
Qed.

(* a refused top-level item: Parse reports an error *)
Lemma feed_rejects f b s : b <> [] -> rejects (step_value cparser0 s b) (3 * length b) ->
  forall p' s' e, feed (S f) cparser0 s b = Ok (p', s', e) ->
  (if isnil e then finalize p' else e) <> nilE.
Proof.
  intros Hne (n & Hn & H) p' s' e Hfeed.
  rewrite feed_S, (zlen_pos_gt b Hne) in Hfeed. unfold feed_fuel in Hfeed.
  replace (8 * length b + 16)%nat with (S (n + (8 * length b + 15 - n)))%nat in Hfeed by lia.
  rewrite feed_until_S, exec_at_value in Hfeed by reflexivity.
  destruct (H (8 * length b + 15 - n)%nat) as (Y & HY & Hbad). rewrite HY in Hfeed.
  destruct Y as [p1 s1 rest d e1|w]; [|destruct Hbad].
  cbn [bad_end] in Hbad.
  destruct (Z.eq_dec e1 nilE) as [->|He].
  - destruct Hbad as [Hbad|[-> Hinc]]; [congruence|].
    change (isnil nilE) with true in Hfeed. cbv iota in Hfeed.
    destruct f as [|f]; [discriminate|]. rewrite feed_S in Hfeed.
    change (zlen (@nil Z) >? 0) with false in Hfeed. cbv iota in Hfeed.
    inversion Hfeed; subst. change (isnil nilE) with true. cbv iota. exact Hinc.
  - unfold isnil in Hfeed at 1. rewrite (neq_eqb _ _ He) in Hfeed.
    inversion Hfeed; subst. unfold isnil. rewrite (neq_eqb _ _ He). exact He.
Qed.

Lemma cbor_decode_all_mono : forall f1 f2 b vs, (f1 <= f2)%nat ->
  cbor_decode_all f1 b = Some vs -> cbor_decode_all f2 b = Some vs.
Proof.
  induction f1 as [|f1 IH]; intros f2 b vs Hle H; [discriminate|].
  destruct f2 as [|f2]; [lia|]. cbn [cbor_decode_all] in *.
  destruct b as [|x r]; [exact H|].
  destruct (cbor_decode (x :: r)) as [v rest| | |]; try discriminate.
  destruct (cbor_decode_all f1 rest) as [vs'|] eqn:E; [|discriminate].
  rewrite (IH f2 rest vs' ltac:(lia) E). exact H.
Qed.

Definition tvals (ts : list tree) : list cvalue := map (fun t => cv (value_of t)) ts.

(* Main lemma: whenever Parse accepts (any number of top-level items), the
   events are the concatenated streams of well-formed trees, the reference
   decodes the input to exactly their values, and the parser is back in its
   initial state. *)
Lemma feed_items : forall fuel b s p' s' e, (length b < fuel)%nat ->
  all_bytes b = true -> zlen b <= MaxInt64 -> s_fail s = None ->
  feed fuel cparser0 s b = Ok (p', s', e) ->
  (if isnil e then finalize p' else e) = nilE ->
  p' = cparser0 /\ e = nilE /\
  exists ts, s' = sadd s (flat_map flatten ts) /\ forallb wf_tree ts = true /\
             cbor_decode_all (S (length b)) b = Some (tvals ts).
Proof.
  induction fuel as [|f IH]; intros b s p' s' e Hlen Hb Hsz Hs Hfeed Hacc; [lia|].
  destruct b as [|x r].
  { rewrite feed_S in Hfeed. change (zlen (@nil Z) >? 0) with false in Hfeed. cbv iota in Hfeed.
    inversion Hfeed; subst. split; [reflexivity|]. split; [reflexivity|].
    exists []. cbn [flat_map]. rewrite sadd_nil. repeat split. }
  set (b := x :: r) in *.
  assert (Hne : b <> []) by discriminate.
  assert (Hf : fuel_ok (S (length b)) b).
  { unfold fuel_ok, MaxInt64, zlen in *. split; lia. }
  destruct (cbor_decode b) as [v rest| | |] eqn:Hd.
  - unfold cbor_decode in Hd.
    destruct (value_ok _ b v rest Hd Hb Hf cparser0 s vctx_top Hs)
      as (t & n & Hwf & Hcv & (Hc & Hrb) & Hreach).
    pose proof (feed_until_top_value b s _ rest n Hne ltac:(lia) Hreach) as Hfu.
    rewrite feed_S, (zlen_pos_gt b Hne), Hfu in Hfeed.
    change (isnil nilE) with true in Hfeed. cbv iota in Hfeed.
    assert (Hlr : (length rest < length b)%nat) by lia.
    destruct (IH rest _ p' s' e ltac:(lia) Hrb ltac:(unfold zlen in *; lia)
                ltac:(rewrite sadd_fail; exact Hs) Hfeed Hacc)
      as (Hp & He & ts & Hs' & Hwfs & Hall).
    split; [exact Hp|]. split; [exact He|].
    exists (t :: ts). cbn [flat_map forallb]. rewrite Hwf, Hwfs, Hs', sadd_app.
    repeat split.
    change (cbor_decode_all (S (length b)) b) with
      (match cbor_decode b with
       | RValue v r => match cbor_decode_all (length b) r with Some vs => Some (v :: vs) | None => None end
       | _ => None end).
    unfold cbor_decode. rewrite Hd.
    rewrite (cbor_decode_all_mono (S (length rest)) (length b) _ _ ltac:(lia) Hall).
    unfold tvals. cbn [map]. rewrite Hcv. reflexivity.
  - exfalso. eapply (feed_rejects f b s Hne); [|exact Hfeed|exact Hacc].
    apply (reject_ok (S (length b)) b); try assumption.
    + unfold cbor_decode in Hd. rewrite Hd. reflexivity.
    + apply rctx_top.
    + intro; congruence.
  - exfalso. eapply (feed_rejects f b s Hne); [|exact Hfeed|exact Hacc].
    apply (reject_ok (S (length b)) b); try assumption.
    + unfold cbor_decode in Hd. rewrite Hd. reflexivity.
    + apply rctx_top.
    + intro; congruence.
  - exfalso. eapply (feed_rejects f b s Hne); [|exact Hfeed|exact Hacc].
    apply (reject_ok (S (length b)) b); try assumption.
    + unfold cbor_decode in Hd. rewrite Hd. reflexivity.
    + apply rctx_top.
    + intro; congruence.
Qed.
