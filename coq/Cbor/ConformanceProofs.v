(* C05 (and C09 for the parser on accepted inputs, C03 for CBOR): the CBOR parser
   model reads every item of the supported subset with exactly the value the
   RFC reference decoder assigns, emitting a well-formed event stream, and
   refuses everything else (whole-buffer Parse, visitor never fails). *)
From Coq Require Import List NArith ZArith Bool Lia.
From Coq Require Import ZifyBool ZifyNat ZifyN.
From SF Require Import Base.Prelude Base.PreludeProofs Core.Events Core.EventsProofs
  Core.AdapterProofs Cbor.Spec Cbor.Parse.
Import ListNotations.
Open Scope Z_scope.

Ltac Zify.zify_post_hook ::= Z.div_mod_to_equations.

(* ====================================================================== *)
(* Part 0: generic helpers                                                  *)
(* ====================================================================== *)

Lemma all_bytes_app a b : all_bytes (a ++ b) = all_bytes a && all_bytes b.
Proof. unfold all_bytes. apply forallb_app. Qed.

Lemma all_bytes_cons x l : all_bytes (x :: l) = is_byte x && all_bytes l.
Proof. reflexivity. Qed.

Lemma zlen_cons {A} (x : A) l : zlen (x :: l) = 1 + zlen l.
Proof. unfold zlen. cbn [length]. lia. Qed.

Lemma zlen_nil {A} : zlen (@nil A) = 0.
Proof. reflexivity. Qed.

Lemma zlen_nonneg {A} (l : list A) : 0 <= zlen l.
Proof. unfold zlen. lia. Qed.

Lemma zlen_app {A} (a b : list A) : zlen (a ++ b) = zlen a + zlen b.
Proof. unfold zlen. rewrite app_length. lia. Qed.

(* take *)
Lemma take_some k r a r' : take k r = Some (a, r') ->
  0 <= k /\ k <= zlen r /\ a = zfirstn k r /\ r' = zskipn k r /\ r = a ++ r' /\ zlen a = k.
Proof.
  unfold take. destruct (k <? 0) eqn:E1; [discriminate|].
  destruct (zlen r <? k) eqn:E2; [discriminate|].
  intro H. inversion H; subst. unfold zfirstn, zskipn.
  repeat split; try lia.
  - symmetry. apply firstn_skipn.
  - unfold zlen in *. rewrite firstn_length. lia.
Qed.

Lemma take_none k r : take k r = None -> 0 <= k -> zlen r < k.
Proof.
  unfold take. destruct (k <? 0) eqn:E1; [lia|].
  destruct (zlen r <? k) eqn:E2; [lia|discriminate].
Qed.

Lemma take_app k a r : zlen a = k -> take k (a ++ r) = Some (a, r).
Proof.
  intro H. unfold take. pose proof (zlen_nonneg a).
  destruct (k <? 0) eqn:E1; [lia|]. rewrite zlen_app. pose proof (zlen_nonneg r).
  destruct (zlen a + zlen r <? k) eqn:E2; [lia|].
  unfold zlen in H. replace (Z.to_nat k) with (length a + 0)%nat by lia.
  rewrite firstn_app_2, skipn_app. cbn [firstn]. rewrite app_nil_r.
  replace (length a + 0 - length a)%nat with 0%nat by lia.
  rewrite skipn_all2 by lia. reflexivity.
Qed.

(* ====================================================================== *)
(* Part 1: sinks that never fail                                            *)
(* ====================================================================== *)

Definition sadd (s : sink) (evs : list event) : sink :=
  {| s_rlog := rev evs ++ s_rlog s; s_n := length evs + s_n s; s_fail := s_fail s |}.

Lemma sadd_fail s evs : s_fail (sadd s evs) = s_fail s.
Proof. reflexivity. Qed.

Lemma sadd_app s a b : sadd (sadd s a) b = sadd s (a ++ b).
Proof.
  unfold sadd. cbn [s_rlog s_n s_fail]. f_equal.
  - rewrite rev_app_distr, app_assoc. reflexivity.
  - rewrite app_length. lia.
Qed.

Lemma sadd_nil s : sadd s [] = s.
Proof. destruct s. reflexivity. Qed.

Lemma sadd_log s evs : s_log (sadd s evs) = s_log s ++ evs.
Proof.
  unfold s_log, sadd. cbn [s_rlog]. rewrite rev_app_distr, rev_involutive. reflexivity.
Qed.

Lemma vis_ok s e : s_fail s = None -> vis s e = (sadd s [e], nilE).
Proof.
  intro H. unfold vis, emit. rewrite H. unfold sadd. cbn [rev app length]. rewrite H.
  reflexivity.
Qed.

Lemma emit_bytes_ok l : forall s, s_fail s = None ->
  emit_bytes s l = (sadd s (map (fun c => EVal (SNum KByte c)) l), nilE).
Proof.
  induction l as [|c l IH]; intros s H; cbn [emit_bytes map].
  - rewrite sadd_nil. reflexivity.
  - rewrite vis_ok by assumption. cbn [isnil]. change (nilE =? nilE) with true. cbv iota.
    rewrite IH by (rewrite sadd_fail; assumption). rewrite sadd_app. reflexivity.
Qed.

(* ====================================================================== *)
(* Part 2: the feed loop without its fuel                                   *)
(* ====================================================================== *)

Definition contb (rest : bytes) (p1 : cparser) : bool :=
  negb (zlen rest =? 0) || (Z.land (c_major (p_cur p1)) (stStartX + stIndef) =? stStartX).

Definition fu_cont (f : nat) (r : sres) : res sres :=
  match r with
  | Crash w => Panic w
  | SR p1 s1 rest done err =>
      if done || negb (isnil err) then Ok (SR p1 s1 rest done err)
      else if contb rest p1 then feed_until f p1 s1 rest else Ok (SR p1 s1 rest done err)
  end.

Lemma feed_until_S f p s b : feed_until (S f) p s b = fu_cont f (exec_step p s b).
Proof. reflexivity. Qed.

Definition reaches (X Y : sres) (n : nat) : Prop :=
  forall f, fu_cont (n + f) X = fu_cont f Y.

Lemma reaches_refl X : reaches X X 0.
Proof. intro f. reflexivity. Qed.

Lemma reaches_eq X Y : X = Y -> reaches X Y 0.
Proof. intros ->. apply reaches_refl. Qed.

Lemma reaches_trans X Y Z n m : reaches X Y n -> reaches Y Z m -> reaches X Z (n + m).
Proof.
  intros H1 H2 f. rewrite <- Nat.add_assoc. rewrite H1. apply H2.
Qed.

Lemma reaches_step p s rest : contb rest p = true ->
  reaches (SR p s rest false nilE) (exec_step p s rest) 1.
Proof.
  intros H f. cbn [Nat.add fu_cont orb negb isnil]. change (nilE =? nilE) with true.
  cbn [negb]. rewrite H. apply feed_until_S.
Qed.

Lemma contb_nonempty x r p : contb (x :: r) p = true.
Proof. unfold contb. rewrite zlen_cons. pose proof (zlen_nonneg r).
  destruct (1 + zlen r =? 0) eqn:E; [lia|]. reflexivity. Qed.

(* ====================================================================== *)
(* Part 3: parser state algebra                                             *)
(* ====================================================================== *)

Definition vctx (p : cparser) : Prop := p_buf p = [] /\ c_major (p_cur p) <> stFail.

Lemma neq_eqb a b : a <> b -> (a =? b) = false.
Proof. intro H. apply Z.eqb_neq. exact H. Qed.

Ltac pdestruct p :=
  destruct p as [[?cm ?cn] ?st ?lc ?ls ?bf ?er];
  unfold vctx, st_pop, len_pop, st_push, len_push, set_cur, set_lcur, set_buf, set_err, clear_startx, mkst in *;
  cbn [p_cur p_stack p_lcur p_lstack p_buf p_err c_major c_minor] in *.

Lemma pop_push p A : c_major (p_cur p) <> stFail -> st_pop (st_push p A) = p.
Proof. intro H. pdestruct p. rewrite (neq_eqb _ _ H). reflexivity. Qed.

Lemma lpop_lpush p n : len_pop (len_push p n) = p.
Proof. pdestruct p. reflexivity. Qed.

Lemma buf_push p A : p_buf (st_push p A) = p_buf p.
Proof. reflexivity. Qed.
Lemma buf_lpush p n : p_buf (len_push p n) = p_buf p.
Proof. reflexivity. Qed.

(* on_value never runs out of its depth fuel *)
Lemma on_value_some : forall f p s, (length (p_stack p) + 2 <= f)%nat ->
  exists r, on_value f p s = Some r.
Proof.
  induction f as [|f IH]; intros p s Hf; [lia|].
  cbn [on_value].
  destruct ((c_major (p_cur p) =? mArr) || (c_major (p_cur p) =? mMap)) eqn:E1.
  - destruct (p_lcur (set_lcur p (p_lcur p - 1)) >? 0) eqn:E2; [eexists; reflexivity|].
    destruct (vis s (if c_major (p_cur p) =? mArr then EArrEnd else EObjEnd)) as [s1 err].
    destruct (isnil err); [|eexists; reflexivity].
    destruct (p_stack p) as [|c r] eqn:Est.
    + (* empty stack: stFail, next call returns *)
      destruct f as [|f']; [cbn [length] in Hf; lia|].
      unfold st_pop, len_pop, set_lcur. cbn [p_stack p_lstack]. rewrite Est.
      destruct (p_lstack p); cbn [on_value set_cur set_lcur p_cur p_lcur c_major mkst];
        eexists; reflexivity.
    + apply IH. unfold st_pop, len_pop, set_lcur. cbn [p_stack p_lstack].
      destruct (p_lstack p); cbn [p_stack set_lcur]; rewrite Est; cbn [p_stack length] in *; lia.
  - destruct ((c_major (p_cur p) =? mArr + stIndef) || (c_major (p_cur p) =? mMap + stIndef));
      eexists; reflexivity.
Qed.

Lemma after_value_eq p s rest k :
  match on_value (depth_fuel p) p s with
  | Some (p1, s1, d, e) => SR p1 s1 rest d e
  | None => Crash k
  end = after_value p s rest nilE.
Proof.
  unfold after_value. change (isnil nilE) with true. cbv iota.
  destruct (on_value_some (depth_fuel p) p s) as [[[[p1 s1] d] e] H]; [unfold depth_fuel; lia|].
  rewrite H. reflexivity.
Qed.

Lemma pop_state_eq p2 p s rest k : st_pop p2 = p ->
  match pop_state p2 s with
  | Some (p1, s1, d, e) => SR p1 s1 rest d e
  | None => Crash k
  end = after_value p s rest nilE.
Proof. intros H. unfold pop_state. rewrite H. apply after_value_eq. Qed.

Lemma after_pop_eq p2 p s rest : st_pop p2 = p ->
  after_pop p2 s rest nilE = after_value p s rest nilE.
Proof.
  intro H. unfold after_pop. change (isnil nilE) with true. cbv iota. apply pop_state_eq. exact H.
Qed.

(* collect on an empty buffer with the whole token available *)
Lemma collect_fast p b k : p_buf p = [] -> 0 <= k -> k <= zlen b ->
  collect p b k = CR p (zskipn k b) (Some (zfirstn k b)).
Proof.
  intros Hb Hk Hl. unfold collect. rewrite Hb. change (zlen [] >? 0) with false. cbv iota.
  destruct (k <? 0) eqn:E1; [lia|].
  destruct (zlen b >=? k) eqn:E2; [reflexivity|lia].
Qed.

Lemma collect_short p b k : p_buf p = [] -> 0 <= k -> zlen b < k ->
  collect p b k = CR (set_buf p ([] ++ b)) [] None.
Proof.
  intros Hb Hk Hl. unfold collect. rewrite Hb. change (zlen [] >? 0) with false. cbv iota.
  destruct (k <? 0) eqn:E1; [lia|].
  destruct (zlen b >=? k) eqn:E2; [lia|reflexivity].
Qed.

(* ====================================================================== *)
(* Part 4: the reference decoder, its anonymous loops named                 *)
(* ====================================================================== *)

Definition items_ind (f : nat) :=
  fix items (g : nat) (b : bytes) (acc : list cvalue) : ref_result :=
    match g with
    | O => RTruncated
    | S g' =>
        match b with
        | [] => RTruncated
        | 255 :: r' => RValue (CArr (rev acc)) r'
        | _ => match cbor_ref f b with
               | RValue v r' => items g' r' (v :: acc)
               | e => e
               end
        end
    end.

Definition pairs_ind (f : nat) :=
  fix pairs (g : nat) (b : bytes) (acc : list (bytes * cvalue)) : ref_result :=
    match g with
    | O => RTruncated
    | S g' =>
        match b with
        | [] => RTruncated
        | 255 :: r' => RValue (CObj (rev acc)) r'
        | kb :: _ =>
            if negb (kb / 32 =? 3) then
              (if (kb / 32 =? 7) && negb (kb mod 32 <? 28) then RMalformed else RUnsupported)
            else
            match cbor_ref f b with
            | RValue (CStr k) r' =>
                match cbor_ref f r' with
                | RValue v r'' => pairs g' r'' ((k, v) :: acc)
                | e => e
                end
            | RValue _ _ => RUnsupported
            | e => e
            end
        end
    end.

Definition items_def (f : nat) :=
  fix items (g : nat) (n : Z) (b : bytes) (acc : list cvalue) : ref_result :=
    if n <=? 0 then RValue (CArr (rev acc)) b else
    match g with
    | O => RTruncated
    | S g' =>
        match cbor_ref f b with
        | RValue v r' => items g' (n - 1) r' (v :: acc)
        | e => e
        end
    end.

Definition pairs_def (f : nat) :=
  fix pairs (g : nat) (n : Z) (b : bytes) (acc : list (bytes * cvalue)) : ref_result :=
    if n <=? 0 then RValue (CObj (rev acc)) b else
    match g with
    | O => RTruncated
    | S g' =>
        match b with
        | [] => RTruncated
        | kb :: _ =>
            if negb (kb / 32 =? 3) then
              (if (kb / 32 =? 7) && negb (kb mod 32 <? 28) then RMalformed else RUnsupported)
            else
            match cbor_ref f b with
            | RValue (CStr k) r' =>
                match cbor_ref f r' with
                | RValue v r'' => pairs g' (n - 1) r'' ((k, v) :: acc)
                | e => e
                end
            | RValue _ _ => RUnsupported
            | e => e
            end
        end
    end.

Definition ref_simple (minor : Z) (r : bytes) : ref_result :=
  if minor =? 20 then RValue (CBool false) r
  else if minor =? 21 then RValue (CBool true) r
  else if minor =? 22 then RValue CNil r
  else if minor =? 23 then RValue CNil r
  else if minor =? 26 then
    match take 4 r with Some (a, r') => RValue (CNum (CF32 (be_dec a))) r' | None => RTruncated end
  else if minor =? 27 then
    match take 8 r with Some (a, r') => RValue (CNum (CF64 (be_dec a))) r' | None => RTruncated end
  else if minor =? 31 then RMalformed
  else if (28 <=? minor) && (minor <=? 30) then RMalformed
  else RUnsupported.

Definition ref_body (f : nat) (ib : Z) (r : bytes) : ref_result :=
  let major := ib / 32 in
  let minor := ib mod 32 in
  if major =? 7 then ref_simple minor r
  else if major =? 6 then RUnsupported
  else
    match read_arg minor r with
    | ArgBad => RMalformed
    | ArgTrunc => RTruncated
    | ArgIndef r1 =>
        if (major =? 0) || (major =? 1) then RMalformed
        else if (major =? 2) || (major =? 3) then RUnsupported
        else if major =? 4 then items_ind f f r1 []
        else pairs_ind f f r1 []
    | ArgVal n r1 =>
        if major =? 0 then RValue (CNum (CInt n)) r1
        else if major =? 1 then
          if n <? 2 ^ 63 then RValue (CNum (CInt (-1 - n))) r1 else RUnsupported
        else if major =? 2 then
          match take n r1 with
          | Some (a, r') => RValue (CArr (map (fun x => CNum (CInt x)) a)) r'
          | None => RTruncated
          end
        else if major =? 3 then
          match take n r1 with
          | Some (a, r') => RValue (CStr a) r'
          | None => RTruncated
          end
        else if major =? 4 then items_def f f n r1 []
        else pairs_def f f n r1 []
    end.

Lemma cbor_ref_S f ib r : cbor_ref (S f) (ib :: r) = ref_body f ib r.
Proof. reflexivity. Qed.

Lemma cbor_ref_nil f : cbor_ref f [] = RTruncated.
Proof. destruct f; reflexivity. Qed.

Lemma cbor_ref_O b : cbor_ref O b = RTruncated.
Proof. reflexivity. Qed.

Lemma items_ind_S f g b acc : items_ind f (S g) b acc =
  match b with
  | [] => RTruncated
  | 255 :: r' => RValue (CArr (rev acc)) r'
  | _ => match cbor_ref f b with
         | RValue v r' => items_ind f g r' (v :: acc)
         | e => e
         end
  end.
Proof. reflexivity. Qed.

Lemma pairs_ind_S f g b acc : pairs_ind f (S g) b acc =
  match b with
  | [] => RTruncated
  | 255 :: r' => RValue (CObj (rev acc)) r'
  | kb :: _ =>
      if negb (kb / 32 =? 3) then
        (if (kb / 32 =? 7) && negb (kb mod 32 <? 28) then RMalformed else RUnsupported)
      else
      match cbor_ref f b with
      | RValue (CStr k) r' =>
          match cbor_ref f r' with
          | RValue v r'' => pairs_ind f g r'' ((k, v) :: acc)
          | e => e
          end
      | RValue _ _ => RUnsupported
      | e => e
      end
  end.
Proof. reflexivity. Qed.

Lemma items_def_eq f g n b acc : items_def f g n b acc =
  if n <=? 0 then RValue (CArr (rev acc)) b else
  match g with
  | O => RTruncated
  | S g' =>
      match cbor_ref f b with
      | RValue v r' => items_def f g' (n - 1) r' (v :: acc)
      | e => e
      end
  end.
Proof. destruct g; reflexivity. Qed.

Lemma pairs_def_eq f g n b acc : pairs_def f g n b acc =
  if n <=? 0 then RValue (CObj (rev acc)) b else
  match g with
  | O => RTruncated
  | S g' =>
      match b with
      | [] => RTruncated
      | kb :: _ =>
          if negb (kb / 32 =? 3) then
            (if (kb / 32 =? 7) && negb (kb mod 32 <? 28) then RMalformed else RUnsupported)
          else
          match cbor_ref f b with
          | RValue (CStr k) r' =>
              match cbor_ref f r' with
              | RValue v r'' => pairs_def f g' (n - 1) r'' ((k, v) :: acc)
              | e => e
              end
          | RValue _ _ => RUnsupported
          | e => e
          end
      end
  end.
Proof. destruct g; reflexivity. Qed.

#[local] Opaque cbor_ref items_ind pairs_ind items_def pairs_def.

(* per-major views of the reference decoder *)
Lemma ref_m0 f ib r : ib / 32 = 0 -> ref_body f ib r =
  match read_arg (ib mod 32) r with
  | ArgBad => RMalformed | ArgTrunc => RTruncated | ArgIndef _ => RMalformed
  | ArgVal n r1 => RValue (CNum (CInt n)) r1
  end.
Proof. intro H. unfold ref_body. rewrite H. reflexivity. Qed.

Lemma ref_m1 f ib r : ib / 32 = 1 -> ref_body f ib r =
  match read_arg (ib mod 32) r with
  | ArgBad => RMalformed | ArgTrunc => RTruncated | ArgIndef _ => RMalformed
  | ArgVal n r1 => if n <? 2 ^ 63 then RValue (CNum (CInt (-1 - n))) r1 else RUnsupported
  end.
Proof. intro H. unfold ref_body. rewrite H. reflexivity. Qed.

Lemma ref_m2 f ib r : ib / 32 = 2 -> ref_body f ib r =
  match read_arg (ib mod 32) r with
  | ArgBad => RMalformed | ArgTrunc => RTruncated | ArgIndef _ => RUnsupported
  | ArgVal n r1 =>
      match take n r1 with
      | Some (a, r') => RValue (CArr (map (fun x => CNum (CInt x)) a)) r'
      | None => RTruncated
      end
  end.
Proof. intro H. unfold ref_body. rewrite H. reflexivity. Qed.

Lemma ref_m3 f ib r : ib / 32 = 3 -> ref_body f ib r =
  match read_arg (ib mod 32) r with
  | ArgBad => RMalformed | ArgTrunc => RTruncated | ArgIndef _ => RUnsupported
  | ArgVal n r1 =>
      match take n r1 with
      | Some (a, r') => RValue (CStr a) r'
      | None => RTruncated
      end
  end.
Proof. intro H. unfold ref_body. rewrite H. reflexivity. Qed.

Lemma ref_m4 f ib r : ib / 32 = 4 -> ref_body f ib r =
  match read_arg (ib mod 32) r with
  | ArgBad => RMalformed | ArgTrunc => RTruncated
  | ArgIndef r1 => items_ind f f r1 []
  | ArgVal n r1 => items_def f f n r1 []
  end.
Proof. intro H. unfold ref_body. rewrite H. reflexivity. Qed.

Lemma ref_m5 f ib r : ib / 32 = 5 -> ref_body f ib r =
  match read_arg (ib mod 32) r with
  | ArgBad => RMalformed | ArgTrunc => RTruncated
  | ArgIndef r1 => pairs_ind f f r1 []
  | ArgVal n r1 => pairs_def f f n r1 []
  end.
Proof. intro H. unfold ref_body. rewrite H. reflexivity. Qed.

Lemma ref_m6 f ib r : ib / 32 = 6 -> ref_body f ib r = RUnsupported.
Proof. intro H. unfold ref_body. rewrite H. reflexivity. Qed.

Lemma ref_m7 f ib r : ib / 32 = 7 -> ref_body f ib r = ref_simple (ib mod 32) r.
Proof. intro H. unfold ref_body. rewrite H. reflexivity. Qed.

(* ====================================================================== *)
(* Part 5: dispatch lemmas for the machine                                  *)
(* ====================================================================== *)

Lemma exec_at_value p s b : c_major (p_cur p) = 2 -> exec_step p s b = step_value p s b.
Proof. intro H. unfold exec_step. rewrite H. reflexivity. Qed.
Lemma exec_at_len p s b : c_major (p_cur p) = 3 -> exec_step p s b = step_len p s b.
Proof. intro H. unfold exec_step. rewrite H. reflexivity. Qed.
Lemma exec_at_uint p s b : c_major (p_cur p) = 0 -> exec_step p s b = step_num false p s b.
Proof. intro H. unfold exec_step. rewrite H. reflexivity. Qed.
Lemma exec_at_neg p s b : c_major (p_cur p) = 32 -> exec_step p s b = step_num true p s b.
Proof. intro H. unfold exec_step. rewrite H. reflexivity. Qed.
Lemma exec_at_f32 p s b : c_major (p_cur p) = 250 -> exec_step p s b = step_float 4 p s b.
Proof. intro H. unfold exec_step. rewrite H. reflexivity. Qed.
Lemma exec_at_f64 p s b : c_major (p_cur p) = 251 -> exec_step p s b = step_float 8 p s b.
Proof. intro H. unfold exec_step. rewrite H. reflexivity. Qed.

Lemma exec_at_bytesx p s b : c_major (p_cur p) = 68 -> exec_step p s b =
    if p_lcur p =? 0 then
      let '(s1, err) := vis s (EArrStart 0 BByte) in
      if isnil err then
        let '(s2, err2) := vis s1 EArrEnd in
        let p1 := len_pop p in
        if isnil err2 then
          match pop_state p1 s2 with
          | Some (p2, s3, d, e) => SR p2 s3 b d e
          | None => Crash 97
          end
        else SR p1 s2 b false err2
      else SR p s1 b false err
    else
      let p1 := clear_startx p in
      if zlen b =? 0 then SR p1 s b false nilE else step_bytes p1 s b.
Proof. intro H. unfold exec_step. rewrite H. reflexivity. Qed.

Lemma exec_at_textx p s b : c_major (p_cur p) = 100 -> exec_step p s b =
    if p_lcur p =? 0 then
      let p1 := len_pop p in
      let '(s1, err) := vis s (EVal (SStr [])) in
      if isnil err then
        match pop_state p1 s1 with
        | Some (p2, s2, d, e) => SR p2 s2 b d e
        | None => Crash 98
        end
      else SR p1 s1 b false err
    else
      let p1 := clear_startx p in
      if zlen b =? 0 then SR p1 s b false nilE else step_text p1 s b.
Proof. intro H. unfold exec_step. rewrite H. reflexivity. Qed.

Lemma exec_at_arrx p s b : c_major (p_cur p) = 132 -> exec_step p s b =
    let '(s1, err) := vis s (EArrStart (p_lcur p) BAny) in
    if isnil err then step_array (st_pop p) s1 b else SR p s1 b false err.
Proof. intro H. unfold exec_step. rewrite H. reflexivity. Qed.

Lemma exec_at_arr p s b : c_major (p_cur p) = 128 -> exec_step p s b = step_array p s b.
Proof. intro H. unfold exec_step. rewrite H. reflexivity. Qed.

Definition indef_body (isarr : bool) (p1 : cparser) (s1 : sink) (b : bytes) : sres :=
  match b with
  | [] => Crash (if isarr then 11 else 12)
  | b0 :: r =>
      if b0 =? 255 then
        let '(s2, err2) := vis s1 (if isarr then EArrEnd else EObjEnd) in
        if isnil err2 then
          match pop_state p1 s2 with
          | Some (p2, s3, d, e) => SR p2 s3 r d e
          | None => Crash (if isarr then 99 else 100)
          end
        else SR p1 s2 r false err2
      else if isarr then step_value p1 s1 b else init_map_key p1 s1 b
  end.

Lemma exec_at_arrix p s b : c_major (p_cur p) = 133 -> exec_step p s b =
    let '(s1, err) := vis s (EArrStart (-1) BAny) in
    if negb (isnil err) then SR (if isnil err then st_pop p else p) s1 b false err
    else indef_body true (if isnil err then st_pop p else p) s1 b.
Proof.
  intro H. unfold exec_step. rewrite H. unfold indef_body.
  destruct (vis s (EArrStart (-1) BAny)) as [s1 err]. reflexivity.
Qed.

Lemma exec_at_arri p s b : c_major (p_cur p) = 129 -> exec_step p s b = indef_body true p s b.
Proof. intro H. unfold exec_step. rewrite H. reflexivity. Qed.

Lemma exec_at_mapx p s b : c_major (p_cur p) = 164 -> exec_step p s b =
    let '(s1, err) := vis s (EObjStart (p_lcur p) BAny) in
    if isnil err then step_map (st_pop p) s1 b else SR p s1 b false err.
Proof. intro H. unfold exec_step. rewrite H. reflexivity. Qed.

Lemma exec_at_map p s b : c_major (p_cur p) = 160 -> exec_step p s b = step_map p s b.
Proof. intro H. unfold exec_step. rewrite H. reflexivity. Qed.

Lemma exec_at_mapix p s b : c_major (p_cur p) = 165 -> exec_step p s b =
    let '(s1, err) := vis s (EObjStart (-1) BAny) in
    if negb (isnil err) then SR (if isnil err then st_pop p else p) s1 b false err
    else indef_body false (if isnil err then st_pop p else p) s1 b.
Proof.
  intro H. unfold exec_step. rewrite H. unfold indef_body.
  destruct (vis s (EObjStart (-1) BAny)) as [s1 err]. reflexivity.
Qed.

Lemma exec_at_mapi p s b : c_major (p_cur p) = 161 -> exec_step p s b = indef_body false p s b.
Proof. intro H. unfold exec_step. rewrite H. reflexivity. Qed.

Lemma exec_at_keyx p s b : c_major (p_cur p) = 172 -> exec_step p s b =
    if p_lcur p =? 0 then
      let '(s1, err) := vis s (EKey []) in
      if isnil err then SR (set_cur (len_pop p) (mkst stElem (c_minor (p_cur p)))) s1 b false nilE
      else SR p s1 b false err
    else step_key (clear_startx p) s b.
Proof. intro H. unfold exec_step. rewrite H. reflexivity. Qed.

Lemma exec_at_elem p s b : c_major (p_cur p) = 169 -> exec_step p s b = step_value (st_pop p) s b.
Proof. intro H. unfold exec_step. rewrite H. reflexivity. Qed.

(* step_value by major type of the initial byte *)
Lemma sv_m0 p s b0 r : b0 / 32 = 0 -> step_value p s (b0 :: r) =
  if b0 <? 24 then let '(s1, err) := vis s (EVal (SNum KUint8 b0)) in after_value p s1 r err
  else if b0 mod 32 >? 27 then SR p s [] false eInvalidCode
  else SR (st_push p (mkst 0 (b0 mod 32))) s r false nilE.
Proof. intro H. unfold step_value. rewrite H. reflexivity. Qed.

Lemma sv_m1 p s b0 r : b0 / 32 = 1 -> step_value p s (b0 :: r) =
  if b0 mod 32 <? 24 then let '(s1, err) := vis s (EVal (SNum KInt8 (-1 - b0 mod 32))) in after_value p s1 r err
  else if b0 mod 32 >? 27 then SR p s [] false eInvalidCode
  else SR (st_push p (mkst 32 (b0 mod 32))) s r false nilE.
Proof. intro H. unfold step_value. rewrite H. reflexivity. Qed.

Lemma sv_m2 p s b0 r : b0 / 32 = 2 -> step_value p s (b0 :: r) =
  if b0 mod 32 =? 31 then SR p s [] false eIndefByteSeq
  else init_byte_seq p s 64 (b0 mod 32) r.
Proof. intro H. unfold step_value. rewrite H. reflexivity. Qed.

Lemma sv_m3 p s b0 r : b0 / 32 = 3 -> step_value p s (b0 :: r) =
  if b0 mod 32 =? 31 then SR p s [] false eIndefByteSeq
  else init_byte_seq p s 96 (b0 mod 32) r.
Proof. intro H. unfold step_value. rewrite H. reflexivity. Qed.

Lemma sv_m4 p s b0 r : b0 / 32 = 4 -> step_value p s (b0 :: r) = init_sub p s 128 (b0 mod 32) r.
Proof. intro H. unfold step_value. rewrite H. reflexivity. Qed.

Lemma sv_m5 p s b0 r : b0 / 32 = 5 -> step_value p s (b0 :: r) = init_sub p s 160 (b0 mod 32) r.
Proof. intro H. unfold step_value. rewrite H. reflexivity. Qed.

Lemma sv_m6 p s b0 r : b0 / 32 = 6 -> step_value p s (b0 :: r) = SR p s [] false eUnsupported.
Proof. intro H. unfold step_value. rewrite H. reflexivity. Qed.

Lemma sv_m7 p s b0 r : b0 / 32 = 7 -> step_value p s (b0 :: r) =
  if b0 =? 244 then let '(s1, err) := vis s (EVal (SBool false)) in after_value p s1 r err
  else if b0 =? 245 then let '(s1, err) := vis s (EVal (SBool true)) in after_value p s1 r err
  else if (b0 =? 246) || (b0 =? 247) then let '(s1, err) := vis s (EVal SNil) in after_value p s1 r err
  else if b0 =? 249 then SR p s r false eUnsupported
  else if (b0 =? 250) || (b0 =? 251) then SR (st_push p (mkst b0 stStart)) s r false nilE
  else SR p s [] false eInvalidCode.
Proof. intro H. unfold step_value. rewrite H. reflexivity. Qed.

Lemma byte_split ib : is_byte ib = true ->
  0 <= ib mod 32 < 32 /\ ib = 32 * (ib / 32) + ib mod 32 /\
  (ib / 32 = 0 \/ ib / 32 = 1 \/ ib / 32 = 2 \/ ib / 32 = 3 \/
   ib / 32 = 4 \/ ib / 32 = 5 \/ ib / 32 = 6 \/ ib / 32 = 7).
Proof. unfold is_byte. intro H. lia. Qed.

(* ====================================================================== *)
(* Part 6: one value in any context - scalars                               *)
(* ====================================================================== *)

Definition value_goal (b : bytes) (v : cvalue) (rest : bytes) (p : cparser) (s : sink) : Prop :=
  exists t n, wf_tree t = true /\ cv (value_of t) = v /\
    ((n + 1 + 3 * length rest <= 3 * length b)%nat /\ all_bytes rest = true) /\
    reaches (step_value p s b) (after_value p (sadd s (flatten t)) rest nilE) n.

Lemma read_arg_cases minor r : 0 <= minor < 32 ->
  (minor < 24 /\ read_arg minor r = ArgVal minor r) \/
  (24 <= minor <= 27 /\ read_arg minor r =
     match take (2 ^ (minor - 24)) r with
     | Some (a, r') => ArgVal (be_dec a) r'
     | None => ArgTrunc
     end) \/
  (minor = 31 /\ read_arg minor r = ArgIndef r) \/
  (28 <= minor <= 30 /\ read_arg minor r = ArgBad).
Proof.
  intro H. unfold read_arg.
  destruct (minor <? 24) eqn:E1; [left; split; [lia|reflexivity]|].
  destruct (minor <=? 27) eqn:E2; [right; left; split; [lia|reflexivity]|].
  destruct (minor =? 31) eqn:E3; [right; right; left; split; [lia|reflexivity]|].
  right; right; right. split; [lia|reflexivity].
Qed.

Lemma read_arg_val minor r n r1 : 0 <= minor < 32 -> read_arg minor r = ArgVal n r1 ->
  (minor < 24 /\ n = minor /\ r1 = r) \/
  (24 <= minor <= 27 /\ exists a, take (2 ^ (minor - 24)) r = Some (a, r1) /\ n = be_dec a).
Proof.
  intros H E. destruct (read_arg_cases minor r H) as [[H1 H2]|[[H1 H2]|[[H1 H2]|[H1 H2]]]];
    rewrite H2 in E; try discriminate.
  - inversion E; subst. left. auto.
  - right. split; [exact H1|]. destruct (take (2 ^ (minor - 24)) r) as [[a r']|]; [|discriminate].
    inversion E; subst. exists a. auto.
Qed.

Lemma all_bytes_firstn n l : all_bytes l = true -> all_bytes (firstn n l) = true.
Proof.
  intro H. rewrite <- (firstn_skipn n l) in H. rewrite all_bytes_app in H.
  apply andb_true_iff in H. tauto.
Qed.
Lemma all_bytes_skipn n l : all_bytes l = true -> all_bytes (skipn n l) = true.
Proof.
  intro H. rewrite <- (firstn_skipn n l) in H. rewrite all_bytes_app in H.
  apply andb_true_iff in H. tauto.
Qed.

Lemma take_bytes k r a r' : take k r = Some (a, r') -> all_bytes r = true ->
  all_bytes a = true /\ all_bytes r' = true.
Proof.
  intros H Hb. apply take_some in H as (_ & _ & -> & -> & _ & _).
  unfold zfirstn, zskipn. split; [apply all_bytes_firstn | apply all_bytes_skipn]; exact Hb.
Qed.

Lemma take_len k r a r' : take k r = Some (a, r') ->
  (length r = Z.to_nat k + length r')%nat /\ 0 <= k.
Proof.
  intro H. apply take_some in H as (Hk & Hl & _ & _ & E & Ha).
  rewrite E at 1. rewrite app_length. unfold zlen in *. lia.
Qed.

Lemma arg_pow m : 24 <= m <= 27 -> 1 <= 2 ^ (m - 24) <= 8.
Proof.
  intro H. assert (m = 24 \/ m = 25 \/ m = 26 \/ m = 27) as [E|[E|[E|E]]] by lia; subst; cbn; lia.
Qed.

Lemma arg_bound m a : zlen a = 2 ^ (m - 24) -> all_bytes a = true ->
  (m = 24 -> 0 <= be_dec a < 256) /\ (m = 25 -> 0 <= be_dec a < 65536) /\
  (m = 26 -> 0 <= be_dec a < 4294967296) /\ (m = 27 -> 0 <= be_dec a < 18446744073709551616).
Proof.
  intros Hl Hb. pose proof (be_dec_bound a Hb) as B. unfold zlen in Hl.
  split; [|split; [|split]]; intros ->; rewrite Hl in B; exact B.
Qed.

Lemma contb_pos rest p : 0 < zlen rest -> contb rest p = true.
Proof. intro H. unfold contb. destruct (zlen rest =? 0) eqn:E; [lia|reflexivity]. Qed.

Lemma num_event_24 neg v : num_event neg 24 v <> None.
Proof. unfold num_event. destruct neg; cbn [negb]; [|discriminate].
  change (24 =? 24) with true. cbv iota. discriminate. Qed.

Lemma step_num_arg neg p s b m a r1 :
  c_minor (p_cur p) = m -> 24 <= m <= 27 -> p_buf p = [] ->
  take (2 ^ (m - 24)) b = Some (a, r1) ->
  step_num neg p s b =
    match num_event neg m (be_dec a) with
    | Some e => let '(s1, err) := vis s e in after_pop p s1 r1 err
    | None => after_pop p s r1 eIntRange
    end.
Proof.
  intros Hm Hr Hb Ht. unfold step_num. rewrite Hm. clear Hm.
  destruct (m =? 24) eqn:E24.
  - assert (m = 24) by lia. subst m. change (2 ^ (24 - 24)) with 1 in Ht.
    apply take_some in Ht as (_ & Hl & Ha & Hr1 & _ & _).
    destruct b as [|v r]; [rewrite zlen_nil in Hl; lia|].
    unfold zfirstn, zskipn in *. change (Z.to_nat 1) with 1%nat in *. cbn [firstn skipn] in Ha, Hr1. subst a r1.
    change (be_dec [v]) with (0 * 256 + v). replace (0 * 256 + v) with v by lia.
    pose proof (num_event_24 neg v). destruct (num_event neg 24 v); [reflexivity|congruence].
  - destruct ((m =? 25) || (m =? 26) || (m =? 27)) eqn:E; [|lia].
    unfold get_uint. pose proof (arg_pow m Hr).
    apply take_some in Ht as (_ & Hl & Ha & Hr1 & _ & _).
    rewrite collect_fast by (try assumption; lia). subst a r1. reflexivity.
Qed.

Lemma in_u_intro w z B : 2 ^ w = B -> 0 <= z < B -> in_u w z = true.
Proof. intros <- H. unfold in_u. lia. Qed.
Lemma in_s_intro w z B : 2 ^ (w - 1) = B -> - B <= z < B -> in_s w z = true.
Proof. intros <- H. unfold in_s. lia. Qed.

(* common end of every scalar: one event, then "that value completed" *)
Lemma vis_after p s e rest : s_fail s = None ->
  (let '(s1, err) := vis s e in after_value p s1 rest err) = after_value p (sadd s [e]) rest nilE.
Proof. intro H. rewrite vis_ok by exact H. reflexivity. Qed.

Lemma vis_after_pop p2 p s e rest : s_fail s = None -> st_pop p2 = p ->
  (let '(s1, err) := vis s e in after_pop p2 s1 rest err) = after_value p (sadd s [e]) rest nilE.
Proof. intros H Hp. rewrite vis_ok by exact H. apply after_pop_eq. exact Hp. Qed.

Lemma flatten_val_num k z : flatten (TVal (SNum k z) false) = [EVal (SNum k z)].
Proof. reflexivity. Qed.

Lemma value_uint ib r n r1 p s : is_byte ib = true -> all_bytes r = true -> ib / 32 = 0 ->
  read_arg (ib mod 32) r = ArgVal n r1 -> vctx p -> s_fail s = None ->
  value_goal (ib :: r) (CNum (CInt n)) r1 p s.
Proof.
  intros Hib Hr HM Ha [Hbuf Hcur] Hs.
  destruct (byte_split ib Hib) as (Hm & Hsplit & _).
  unfold value_goal. rewrite sv_m0 by exact HM.
  destruct (read_arg_val _ _ _ _ Hm Ha) as [(H1 & -> & ->)|(H1 & a & Ht & ->)].
  - exists (TVal (SNum KUint8 ib) false), 0%nat.
    destruct (ib <? 24) eqn:E; [|lia].
    split; [cbn [wf_tree scalar_ok nkind_ok]; apply (in_u_intro 8 _ 256); [reflexivity|unfold is_byte in Hib; lia]|].
    split; [cbn; f_equal; f_equal; lia|].
    split; [split; [cbn [length]; lia|assumption]|].
    apply reaches_eq. rewrite flatten_val_num. apply vis_after. exact Hs.
  - destruct (ib <? 24) eqn:E; [lia|]. destruct (ib mod 32 >? 27) eqn:E2; [lia|].
    set (m := ib mod 32) in *.
    pose proof (take_bytes _ _ _ _ Ht Hr) as [Hba Hbr1].
    pose proof (take_len _ _ _ _ Ht) as [Hlen _].
    pose proof (arg_pow m H1) as Hpow.
    pose proof (take_some _ _ _ _ Ht) as (_ & Hl & _ & _ & _ & Hza).
    pose proof (arg_bound m a Hza Hba) as (B24 & B25 & B26 & B27).
    set (K := if m =? 24 then KUint8 else if m =? 25 then KUint16 else if m =? 26 then KUint32 else KUint64).
    exists (TVal (SNum K (be_dec a)) false), 1%nat.
    split.
    { cbn [wf_tree scalar_ok]. unfold K.
      assert (m = 24 \/ m = 25 \/ m = 26 \/ m = 27) as [Em|[Em|[Em|Em]]] by lia; rewrite Em;
        cbn [Z.eqb Pos.eqb nkind_ok].
      - apply (in_u_intro 8 _ 256); [reflexivity|auto].
      - apply (in_u_intro 16 _ 65536); [reflexivity|auto].
      - apply (in_u_intro 32 _ 4294967296); [reflexivity|auto].
      - apply (in_u_intro 64 _ 18446744073709551616); [reflexivity|auto]. }
    split. { unfold K. destruct (m =? 24); [reflexivity|]. destruct (m =? 25); [reflexivity|].
             destruct (m =? 26); reflexivity. }
    split. { split; [cbn [length]; lia|assumption]. }
    change 1%nat with (1 + 0)%nat. eapply reaches_trans.
    { apply reaches_step. apply contb_pos. lia. }
    apply reaches_eq. rewrite exec_at_uint by reflexivity.
    rewrite (step_num_arg false _ s r m a r1) by (try reflexivity; assumption).
    unfold num_event. cbn [negb]. fold K. rewrite flatten_val_num.
    apply vis_after_pop; [exact Hs|]. apply pop_push. exact Hcur.
Qed.

Lemma neg_event m v :
  (m = 24 /\ 0 <= v < 256) \/ (m = 25 /\ 0 <= v < 65536) \/
  (m = 26 /\ 0 <= v < 4294967296) \/ (m = 27 /\ 0 <= v < 9223372036854775808) ->
  exists K, num_event true m v = Some (EVal (SNum K (-1 - v))) /\
            nkind_ok K (-1 - v) = true /\ canon_num K (-1 - v) = CInt (-1 - v).
Proof.
  intros [[-> B]|[[-> B]|[[-> B]|[-> B]]]]; unfold num_event; cbn [negb Z.eqb Pos.eqb].
  - destruct (v <=? 127) eqn:E.
    + exists KInt8. split; [reflexivity|]. split; [|reflexivity].
      apply (in_s_intro 8 _ 128); [reflexivity|lia].
    + exists KInt16. split; [reflexivity|]. split; [|reflexivity].
      apply (in_s_intro 16 _ 32768); [reflexivity|lia].
  - destruct (v <=? 32767) eqn:E.
    + exists KInt16. split; [reflexivity|]. split; [|reflexivity].
      apply (in_s_intro 16 _ 32768); [reflexivity|lia].
    + exists KInt32. split; [reflexivity|]. split; [|reflexivity].
      apply (in_s_intro 32 _ 2147483648); [reflexivity|lia].
  - destruct (v <=? 2147483647) eqn:E.
    + exists KInt32. split; [reflexivity|]. split; [|reflexivity].
      apply (in_s_intro 32 _ 2147483648); [reflexivity|lia].
    + exists KInt64. split; [reflexivity|]. split; [|reflexivity].
      apply (in_s_intro 64 _ 9223372036854775808); [reflexivity|lia].
  - destruct (v <=? 9223372036854775807) eqn:E; [|lia].
    exists KInt64. split; [reflexivity|]. split; [|reflexivity].
    apply (in_s_intro 64 _ 9223372036854775808); [reflexivity|lia].
Qed.

Lemma value_neg ib r n r1 p s : is_byte ib = true -> all_bytes r = true -> ib / 32 = 1 ->
  read_arg (ib mod 32) r = ArgVal n r1 -> n < 2 ^ 63 -> vctx p -> s_fail s = None ->
  value_goal (ib :: r) (CNum (CInt (-1 - n))) r1 p s.
Proof.
  intros Hib Hr HM Ha Hn [Hbuf Hcur] Hs.
  change (2 ^ 63) with 9223372036854775808 in Hn.
  destruct (byte_split ib Hib) as (Hm & Hsplit & _).
  unfold value_goal. rewrite sv_m1 by exact HM.
  destruct (read_arg_val _ _ _ _ Hm Ha) as [(H1 & -> & ->)|(H1 & a & Ht & ->)].
  - exists (TVal (SNum KInt8 (-1 - ib mod 32)) false), 0%nat.
    destruct (ib mod 32 <? 24) eqn:E; [|lia].
    split; [cbn [wf_tree scalar_ok nkind_ok]; apply (in_s_intro 8 _ 128); [reflexivity|lia]|].
    split; [reflexivity|].
    split; [split; [cbn [length]; lia|assumption]|].
    apply reaches_eq. rewrite flatten_val_num. apply vis_after. exact Hs.
  - destruct (ib mod 32 <? 24) eqn:E; [lia|]. destruct (ib mod 32 >? 27) eqn:E2; [lia|].
    set (m := ib mod 32) in *.
    pose proof (take_bytes _ _ _ _ Ht Hr) as [Hba Hbr1].
    pose proof (take_len _ _ _ _ Ht) as [Hlen _].
    pose proof (arg_pow m H1) as Hpow.
    pose proof (take_some _ _ _ _ Ht) as (_ & Hl & _ & _ & _ & Hza).
    pose proof (arg_bound m a Hza Hba) as (B24 & B25 & B26 & B27).
    destruct (neg_event m (be_dec a)) as (K & Hev & Hok & Hcn).
    { assert (m = 24 \/ m = 25 \/ m = 26 \/ m = 27) as [Em|[Em|[Em|Em]]] by lia.
      - left. auto. - right; left. auto. - right; right; left. auto.
      - right; right; right. split; [exact Em|]. specialize (B27 Em). lia. }
    exists (TVal (SNum K (-1 - be_dec a)) false), 1%nat.
    split; [exact Hok|].
    split; [cbn [value_of scalar_value cv]; rewrite Hcn; reflexivity|].
    split; [split; [cbn [length]; lia|assumption]|].
    change 1%nat with (1 + 0)%nat. eapply reaches_trans.
    { apply reaches_step. apply contb_pos. lia. }
    apply reaches_eq. rewrite exec_at_neg by reflexivity.
    rewrite (step_num_arg true _ s r m a r1) by (try reflexivity; assumption).
    rewrite Hev. rewrite flatten_val_num.
    apply vis_after_pop; [exact Hs|]. apply pop_push. exact Hcur.
Qed.

(* simple values and floats *)
Lemma step_float_ok w p s b a r1 : p_buf p = [] -> s_fail s = None -> take w b = Some (a, r1) ->
  step_float w p s b =
    after_value (st_pop p) (sadd s [EVal (SNum (if w =? 4 then KFloat32 else KFloat64) (be_dec a))]) r1 nilE.
Proof.
  intros Hb Hs Ht. unfold step_float, get_uint.
  apply take_some in Ht as (Hk & Hl & -> & -> & _ & _).
  rewrite collect_fast by assumption. rewrite vis_ok by exact Hs.
  change (isnil nilE) with true. cbv iota. apply pop_state_eq. reflexivity.
Qed.

Lemma value_simple ib r v r1 p s : is_byte ib = true -> all_bytes r = true -> ib / 32 = 7 ->
  ref_simple (ib mod 32) r = RValue v r1 -> vctx p -> s_fail s = None ->
  value_goal (ib :: r) v r1 p s.
Proof.
  intros Hib Hr HM Href [Hbuf Hcur] Hs.
  destruct (byte_split ib Hib) as (Hm & Hsplit & _).
  unfold value_goal. rewrite sv_m7 by exact HM.
  unfold ref_simple in Href.
  destruct (ib mod 32 =? 20) eqn:E20.
  { inversion Href; subst. destruct (ib =? 244) eqn:E; [|lia].
    exists (TVal (SBool false) false), 0%nat. split; [reflexivity|]. split; [reflexivity|].
    split; [split; [cbn [length]; lia|assumption]|]. apply reaches_eq. apply vis_after. exact Hs. }
  destruct (ib mod 32 =? 21) eqn:E21.
  { inversion Href; subst. destruct (ib =? 244) eqn:E; [lia|]. destruct (ib =? 245) eqn:E'; [|lia].
    exists (TVal (SBool true) false), 0%nat. split; [reflexivity|]. split; [reflexivity|].
    split; [split; [cbn [length]; lia|assumption]|]. apply reaches_eq. apply vis_after. exact Hs. }
  destruct (ib mod 32 =? 22) eqn:E22.
  { inversion Href; subst. destruct (ib =? 244) eqn:E; [lia|]. destruct (ib =? 245) eqn:E'; [lia|].
    destruct ((ib =? 246) || (ib =? 247)) eqn:E''; [|lia].
    exists (TVal SNil false), 0%nat. split; [reflexivity|]. split; [reflexivity|].
    split; [split; [cbn [length]; lia|assumption]|]. apply reaches_eq. apply vis_after. exact Hs. }
  destruct (ib mod 32 =? 23) eqn:E23.
  { inversion Href; subst. destruct (ib =? 244) eqn:E; [lia|]. destruct (ib =? 245) eqn:E'; [lia|].
    destruct ((ib =? 246) || (ib =? 247)) eqn:E''; [|lia].
    exists (TVal SNil false), 0%nat. split; [reflexivity|]. split; [reflexivity|].
    split; [split; [cbn [length]; lia|assumption]|]. apply reaches_eq. apply vis_after. exact Hs. }
  destruct (ib =? 244) eqn:E; [lia|]. destruct (ib =? 245) eqn:E'; [lia|].
  destruct ((ib =? 246) || (ib =? 247)) eqn:E''; [lia|].
  destruct (ib =? 249) eqn:E249.
  { destruct (ib mod 32 =? 26) eqn:E26; [lia|]. destruct (ib mod 32 =? 27) eqn:E27; [lia|].
    destruct (ib mod 32 =? 31); [discriminate|].
    destruct ((28 <=? ib mod 32) && (ib mod 32 <=? 30)); discriminate. }
  destruct (ib mod 32 =? 26) eqn:E26.
  { destruct (take 4 r) as [[a r']|] eqn:Ht; [|discriminate]. inversion Href; subst.
    destruct ((ib =? 250) || (ib =? 251)) eqn:Ef; [|lia].
    pose proof (take_bytes _ _ _ _ Ht Hr) as [Hba Hbr1].
    pose proof (take_len _ _ _ _ Ht) as [Hlen _].
    pose proof (take_some _ _ _ _ Ht) as (_ & Hl & _ & _ & _ & Hza).
    pose proof (be_dec_bound a Hba) as B. unfold zlen in Hza. rewrite Hza in B.
    exists (TVal (SNum KFloat32 (be_dec a)) false), 1%nat.
    split; [apply (in_u_intro 32 _ 4294967296); [reflexivity|exact B]|].
    split; [reflexivity|]. split; [split; [cbn [length]; lia|assumption]|].
    change 1%nat with (1 + 0)%nat. eapply reaches_trans.
    { apply reaches_step. apply contb_pos. lia. }
    apply reaches_eq. assert (ib = 250) as -> by lia. rewrite exec_at_f32 by reflexivity.
    rewrite (step_float_ok 4 _ s r a r1) by (try reflexivity; assumption).
    rewrite pop_push by exact Hcur. reflexivity. }
  destruct (ib mod 32 =? 27) eqn:E27.
  { destruct (take 8 r) as [[a r']|] eqn:Ht; [|discriminate]. inversion Href; subst.
    destruct ((ib =? 250) || (ib =? 251)) eqn:Ef; [|lia].
    pose proof (take_bytes _ _ _ _ Ht Hr) as [Hba Hbr1].
    pose proof (take_len _ _ _ _ Ht) as [Hlen _].
    pose proof (take_some _ _ _ _ Ht) as (_ & Hl & _ & _ & _ & Hza).
    pose proof (be_dec_bound a Hba) as B. unfold zlen in Hza. rewrite Hza in B.
    exists (TVal (SNum KFloat64 (be_dec a)) false), 1%nat.
    split; [apply (in_u_intro 64 _ 18446744073709551616); [reflexivity|exact B]|].
    split; [reflexivity|]. split; [split; [cbn [length]; lia|assumption]|].
    change 1%nat with (1 + 0)%nat. eapply reaches_trans.
    { apply reaches_step. apply contb_pos. lia. }
    apply reaches_eq. assert (ib = 251) as -> by lia. rewrite exec_at_f64 by reflexivity.
    rewrite (step_float_ok 8 _ s r a r1) by (try reflexivity; assumption).
    rewrite pop_push by exact Hcur. reflexivity. }
  destruct (ib mod 32 =? 31); [discriminate|].
  destruct ((28 <=? ib mod 32) && (ib mod 32 <=? 30)); discriminate.
Qed.

(* ---------- length headers of strings and containers ---------- *)
Definition hdr (p : cparser) (X n : Z) : cparser := len_push (st_push p (mkst (X + 4) 1)) n.

Lemma pop_lpush_push q L v : c_major (p_cur q) <> stFail ->
  st_pop (len_push (st_push q L) v) = len_push q v.
Proof. intro H. pdestruct q. rewrite (neq_eqb _ _ H). reflexivity. Qed.

Lemma step_len_arg p s b m a r1 :
  c_minor (p_cur p) = m -> 24 <= m <= 27 -> p_buf p = [] -> all_bytes b = true ->
  take (2 ^ (m - 24)) b = Some (a, r1) ->
  step_len p s b =
    if be_dec a >? 9223372036854775807 then SR p s [] false eLenRange
    else SR (st_pop (len_push p (be_dec a))) s r1 false nilE.
Proof.
  intros Hm Hr Hb Hall Ht. unfold step_len. rewrite Hm. clear Hm.
  destruct (m =? 24) eqn:E24.
  - assert (m = 24) by lia. subst m. change (2 ^ (24 - 24)) with 1 in Ht.
    apply take_some in Ht as (_ & Hl & Ha & Hr1 & _ & _).
    destruct b as [|v r]; [rewrite zlen_nil in Hl; lia|].
    unfold zfirstn, zskipn in *. change (Z.to_nat 1) with 1%nat in *.
    cbn [firstn skipn] in Ha, Hr1. subst a r1.
    change (be_dec [v]) with (0 * 256 + v). replace (0 * 256 + v) with v by lia.
    rewrite all_bytes_cons in Hall. apply andb_true_iff in Hall as [Hv _]. unfold is_byte in Hv.
    destruct (v >? 9223372036854775807) eqn:E; [lia|reflexivity].
  - destruct ((m =? 25) || (m =? 26) || (m =? 27)) eqn:E; [|lia].
    unfold get_uint. pose proof (arg_pow m Hr).
    apply take_some in Ht as (_ & Hl & Ha & Hr1 & _ & _).
    rewrite collect_fast by (try assumption; lia). subst a r1. reflexivity.
Qed.

Lemma byte_seq_hdr p s X m r n r1 :
  p_buf p = [] -> c_major (p_cur p) <> stFail -> X + 4 <> stFail ->
  0 <= m < 32 -> all_bytes r = true ->
  read_arg m r = ArgVal n r1 -> n <= 9223372036854775807 ->
  exists k, (k <= 1)%nat /\ (length r1 + k <= length r)%nat /\ all_bytes r1 = true /\ 0 <= n /\
    reaches (init_byte_seq p s X m r) (SR (hdr p X n) s r1 false nilE) k.
Proof.
  intros Hbuf Hcur HX Hm Hr Ha Hn. unfold init_byte_seq.
  destruct (read_arg_val _ _ _ _ Hm Ha) as [(H1 & -> & ->)|(H1 & a & Ht & ->)].
  - exists 0%nat. destruct (m <? 24) eqn:E; [|lia].
    split; [lia|]. split; [lia|]. split; [exact Hr|]. split; [lia|]. apply reaches_refl.
  - destruct (m <? 24) eqn:E; [lia|]. destruct (m >? 27) eqn:E2; [lia|].
    pose proof (take_bytes _ _ _ _ Ht Hr) as [Hba Hbr1].
    pose proof (take_len _ _ _ _ Ht) as [Hlen _].
    pose proof (arg_pow m H1) as Hpow.
    pose proof (be_dec_bound a Hba) as [B _].
    exists 1%nat. split; [lia|]. split; [lia|]. split; [exact Hbr1|]. split; [exact B|].
    change 1%nat with (1 + 0)%nat. eapply reaches_trans.
    { apply reaches_step. apply contb_pos. unfold zlen. lia. }
    apply reaches_eq. rewrite exec_at_len by reflexivity.
    rewrite (step_len_arg _ s r m a r1) by (try reflexivity; assumption).
    destruct (be_dec a >? 9223372036854775807) eqn:E3; [lia|].
    rewrite pop_lpush_push by exact HX. reflexivity.
Qed.

Lemma contb_startx rest p : Z.land (c_major (p_cur p)) 5 = 4 -> contb rest p = true.
Proof. intro H. unfold contb. change (stStartX + stIndef) with 5. rewrite H.
  change (4 =? stStartX) with true. apply orb_true_r. Qed.

Lemma pop_hdr p X n : c_major (p_cur p) <> stFail ->
  st_pop (len_pop (hdr p X n)) = p.
Proof. intro H. unfold hdr. rewrite lpop_lpush. apply pop_push. exact H. Qed.

Lemma pop_hdr_cur p X n c : c_major (p_cur p) <> stFail ->
  st_pop (len_pop (set_cur (hdr p X n) c)) = p.
Proof. intro H. unfold hdr. pdestruct p. rewrite (neq_eqb _ _ H). reflexivity. Qed.

(* ---------- text strings ---------- *)
Definition MaxInt64 := 9223372036854775807.

Lemma value_text ib r n r1 a r' p s : is_byte ib = true -> all_bytes r = true -> ib / 32 = 3 ->
  zlen r <= MaxInt64 ->
  read_arg (ib mod 32) r = ArgVal n r1 -> take n r1 = Some (a, r') ->
  vctx p -> s_fail s = None ->
  value_goal (ib :: r) (CStr a) r' p s.
Proof.
  intros Hib Hr HM Hsz Ha Ht [Hbuf Hcur] Hs. unfold MaxInt64 in Hsz.
  destruct (byte_split ib Hib) as (Hm & Hsplit & _).
  unfold value_goal. rewrite sv_m3 by exact HM.
  assert (Hm31 : (ib mod 32 =? 31) = false).
  { destruct (read_arg_cases (ib mod 32) r Hm) as [[H1 H2]|[[H1 H2]|[[H1 H2]|[H1 H2]]]]; try lia;
      rewrite H2 in Ha; discriminate. }
  rewrite Hm31.
  pose proof (take_some _ _ _ _ Ht) as (Hn0 & Hl & Hfa & Hsr & _ & Hza).
  pose proof (take_len _ _ _ _ Ht) as [Hlen _].
  pose proof (take_bytes _ _ _ _ Ht) as Htb.
  assert (HnM : n <= 9223372036854775807).
  { unfold zlen in *.
    assert (length r1 <= length r)%nat.
    { destruct (read_arg_val _ _ _ _ Hm Ha) as [(H1 & -> & ->)|(H1 & a0 & Ht0 & ->)]; [lia|].
      pose proof (take_len _ _ _ _ Ht0). lia. }
    lia. }
  destruct (byte_seq_hdr p s 96 (ib mod 32) r n r1 Hbuf Hcur ltac:(discriminate) Hm Hr Ha HnM)
    as (k & Hk & Hlk & Hbr1 & _ & Hreach).
  destruct (Htb Hbr1) as [Hba Hbr'].
  destruct (n =? 0) eqn:En.
  - (* empty text *)
    assert (N0 : n = 0) by lia.
    assert (A0 : a = []) by (destruct a; [reflexivity|rewrite zlen_cons in Hza; pose proof (zlen_nonneg a); lia]).
    clear Hza Hfa Hn0 Hl HnM En. subst n a. unfold zskipn in Hsr. cbn [Z.to_nat skipn] in Hsr. subst r'.
    exists (TVal (SStr []) false), (k + 1)%nat.
    split; [reflexivity|]. split; [reflexivity|]. split; [split; [cbn [length]; lia|assumption]|].
    eapply reaches_trans; [exact Hreach|].
    change 1%nat with (1 + 0)%nat. eapply reaches_trans.
    { apply reaches_step. apply contb_startx. reflexivity. }
    apply reaches_eq. rewrite exec_at_textx by reflexivity.
    change (p_lcur (hdr p 96 0) =? 0) with true. cbv iota zeta.
    rewrite vis_ok by exact Hs. change (isnil nilE) with true. cbv iota.
    apply pop_state_eq. apply pop_hdr. exact Hcur.
  - exists (TVal (SStr a) true), (k + 1)%nat.
    split; [exact Hba|]. split; [reflexivity|]. split; [split; [cbn [length]; lia|assumption]|].
    eapply reaches_trans; [exact Hreach|].
    change 1%nat with (1 + 0)%nat. eapply reaches_trans.
    { apply reaches_step. apply contb_startx. reflexivity. }
    apply reaches_eq. rewrite exec_at_textx by reflexivity.
    change (p_lcur (hdr p 96 n)) with n. rewrite En. cbv zeta.
    destruct (zlen r1 =? 0) eqn:Ez; [lia|].
    unfold step_text. change (p_lcur (clear_startx (hdr p 96 n))) with n.
    rewrite collect_fast by (try assumption; lia).
    rewrite vis_ok by exact Hs. change (isnil nilE) with true. cbv iota.
    rewrite <- Hfa, <- Hsr.
    apply pop_state_eq. apply pop_hdr_cur. exact Hcur.
Qed.

(* ---------- byte strings ---------- *)
Definition byte_tree (c : Z) : tree := TVal (SNum KByte c) false.

Lemma flatten_byte_trees a :
  flatten_elems (map byte_tree a) = map (fun c => EVal (SNum KByte c)) a.
Proof. induction a as [|c a IH]; [reflexivity|]. cbn [map]. rewrite flatten_elems_cons, IH. reflexivity. Qed.

Lemma wf_byte_trees n a : all_bytes a = true -> zlen a = n ->
  wf_tree (TArr n BByte (map byte_tree a)) = true.
Proof.
  intros Ha Hn. rewrite wf_arr. unfold len_ok. rewrite zlen_map.
  apply andb_true_iff. split; [apply andb_true_iff; split|].
  - lia.
  - rewrite forallb_map. apply forallb_forall. intros x _. reflexivity.
  - rewrite forallb_map. apply forallb_forall. intros x Hx.
    unfold all_bytes in Ha. rewrite forallb_forall in Ha. specialize (Ha x Hx).
    unfold is_byte in Ha. cbn [byte_tree wf_tree scalar_ok nkind_ok].
    apply (in_u_intro 8 _ 256); [reflexivity|lia].
Qed.

Lemma cv_byte_trees n a :
  cv (value_of (TArr n BByte (map byte_tree a))) = CArr (map (fun x => CNum (CInt x)) a).
Proof. cbn [value_of cv]. rewrite !map_map. reflexivity. Qed.

Lemma step_bytes_ok p s b n : c_minor (p_cur p) = 1 -> p_lcur p = n -> 0 <= n -> n <= zlen b ->
  s_fail s = None ->
  step_bytes p s b =
    after_value (st_pop (len_pop (set_cur p (mkst (c_major (p_cur p)) stCont))))
      (sadd s (EArrStart n BByte :: map (fun c => EVal (SNum KByte c)) (zfirstn n b) ++ [EArrEnd]))
      (zskipn n b) nilE.
Proof.
  intros Hmin Hl Hn0 Hn Hs. unfold step_bytes. rewrite Hmin. change (1 =? stStart) with true. cbv iota.
  rewrite vis_ok by exact Hs. change (isnil nilE) with true. cbv iota. cbn [negb].
  change (p_lcur (set_cur p (mkst (c_major (p_cur p)) stCont))) with (p_lcur p). rewrite Hl.
  destruct (zlen b >=? n) eqn:E; [|lia].
  destruct (n <? 0) eqn:E2; [lia|].
  rewrite emit_bytes_ok by (rewrite sadd_fail; exact Hs). cbn [negb]. cbv iota.
  rewrite sadd_app. rewrite vis_ok by (rewrite sadd_fail; exact Hs). rewrite sadd_app.
  change (isnil nilE) with true. cbn [negb]. cbv iota. cbn [app].
  apply pop_state_eq. reflexivity.
Qed.

Lemma value_bytes ib r n r1 a r' p s : is_byte ib = true -> all_bytes r = true -> ib / 32 = 2 ->
  zlen r <= MaxInt64 ->
  read_arg (ib mod 32) r = ArgVal n r1 -> take n r1 = Some (a, r') ->
  vctx p -> s_fail s = None ->
  value_goal (ib :: r) (CArr (map (fun x => CNum (CInt x)) a)) r' p s.
Proof.
  intros Hib Hr HM Hsz Ha Ht [Hbuf Hcur] Hs. unfold MaxInt64 in Hsz.
  destruct (byte_split ib Hib) as (Hm & Hsplit & _).
  unfold value_goal. rewrite sv_m2 by exact HM.
  assert (Hm31 : (ib mod 32 =? 31) = false).
  { destruct (read_arg_cases (ib mod 32) r Hm) as [[H1 H2]|[[H1 H2]|[[H1 H2]|[H1 H2]]]]; try lia;
      rewrite H2 in Ha; discriminate. }
  rewrite Hm31.
  pose proof (take_some _ _ _ _ Ht) as (Hn0 & Hl & Hfa & Hsr & _ & Hza).
  pose proof (take_len _ _ _ _ Ht) as [Hlen _].
  pose proof (take_bytes _ _ _ _ Ht) as Htb.
  assert (HnM : n <= 9223372036854775807).
  { unfold zlen in *.
    assert (length r1 <= length r)%nat.
    { destruct (read_arg_val _ _ _ _ Hm Ha) as [(H1 & -> & ->)|(H1 & a0 & Ht0 & ->)]; [lia|].
      pose proof (take_len _ _ _ _ Ht0). lia. }
    lia. }
  destruct (byte_seq_hdr p s 64 (ib mod 32) r n r1 Hbuf Hcur ltac:(discriminate) Hm Hr Ha HnM)
    as (k & Hk & Hlk & Hbr1 & _ & Hreach).
  destruct (Htb Hbr1) as [Hba Hbr'].
  exists (TArr n BByte (map byte_tree a)), (k + 1)%nat.
  split; [apply wf_byte_trees; assumption|]. split; [apply cv_byte_trees|].
  split; [split; [cbn [length]; lia|assumption]|].
  eapply reaches_trans; [exact Hreach|].
  change 1%nat with (1 + 0)%nat. eapply reaches_trans.
  { apply reaches_step. apply contb_startx. reflexivity. }
  apply reaches_eq. rewrite exec_at_bytesx by reflexivity.
  change (p_lcur (hdr p 64 n)) with n.
  rewrite flatten_arr, flatten_byte_trees.
  destruct (n =? 0) eqn:En.
  - assert (N0 : n = 0) by lia.
    assert (A0 : a = []) by (destruct a; [reflexivity|rewrite zlen_cons in Hza; pose proof (zlen_nonneg a); lia]).
    clear Hza Hfa Hn0 Hl HnM En. subst n a. unfold zskipn in Hsr.
    cbn [Z.to_nat skipn] in Hsr. subst r'.
    rewrite vis_ok by exact Hs. change (isnil nilE) with true. cbv iota.
    rewrite vis_ok by (rewrite sadd_fail; exact Hs). rewrite sadd_app. cbv iota zeta.
    apply pop_state_eq. apply pop_hdr. exact Hcur.
  - cbv zeta. destruct (zlen r1 =? 0) eqn:Ez; [lia|].
    rewrite (step_bytes_ok _ s r1 n) by (try reflexivity; assumption).
    rewrite <- Hfa, <- Hsr.
    replace (st_pop (len_pop (set_cur (clear_startx (hdr p 64 n))
               (mkst (c_major (p_cur (clear_startx (hdr p 64 n)))) stCont)))) with p; [reflexivity|].
    symmetry. unfold clear_startx. unfold hdr. pdestruct p. rewrite (neq_eqb _ _ Hcur). reflexivity.
Qed.

(* ====================================================================== *)
(* Part 7: containers                                                       *)
(* ====================================================================== *)

(* the parser inside an open container of major X (128 array, 160 map;
   129 / 161 indefinite) whose enclosing context is p *)
Definition sub_ctx (p : cparser) (X n : Z) : cparser :=
  {| p_cur := mkst X 1; p_stack := p_cur p :: p_stack p; p_lcur := n;
     p_lstack := p_lcur p :: p_lstack p; p_buf := p_buf p; p_err := p_err p |}.

Definition ind_ctx (p : cparser) (X : Z) : cparser :=
  {| p_cur := mkst X 1; p_stack := p_cur p :: p_stack p; p_lcur := p_lcur p;
     p_lstack := p_lstack p; p_buf := p_buf p; p_err := p_err p |}.

Lemma sub_ctx_vctx p X n : p_buf p = [] -> X <> stFail -> vctx (sub_ctx p X n).
Proof. intros H HX. split; [exact H|exact HX]. Qed.
Lemma ind_ctx_vctx p X : p_buf p = [] -> X <> stFail -> vctx (ind_ctx p X).
Proof. intros H HX. split; [exact H|exact HX]. Qed.

Lemma pop_hdr_sub p X n : c_major (p_cur p) <> stFail -> X <> stFail ->
  st_pop (hdr (st_push p (mkst X 1)) X n) = sub_ctx p X n.
Proof.
  intros H HX. unfold hdr, sub_ctx. pdestruct p. rewrite (neq_eqb _ _ H), (neq_eqb _ _ HX). reflexivity.
Qed.

Lemma init_sub_def p s X m r : m <> 31 -> m <= 27 ->
  init_sub p s X m r = init_byte_seq (st_push p (mkst X stStart)) s X m r.
Proof.
  intros H1 H2. unfold init_sub, init_byte_seq.
  destruct (m =? 31) eqn:E1; [lia|]. destruct (m <? 24) eqn:E2; [reflexivity|].
  destruct (m >? 27) eqn:E3; [lia|reflexivity].
Qed.

Definition end_event (X : Z) : event := if X =? 128 then EArrEnd else EObjEnd.

Lemma after_value_sub_more p X k s rest : X = 128 \/ X = 160 -> 1 < k ->
  after_value (sub_ctx p X k) s rest nilE = SR (sub_ctx p X (k - 1)) s rest false nilE.
Proof.
  intros HX Hk. unfold after_value. change (isnil nilE) with true. cbv iota.
  unfold depth_fuel. cbn [on_value sub_ctx p_cur c_major mkst set_lcur p_lcur].
  assert (E : (X =? mArr) || (X =? mMap) = true) by (unfold mArr, mMap; lia). rewrite E.
  destruct (k - 1 >? 0) eqn:E2; [|lia]. reflexivity.
Qed.

Lemma after_value_sub_last p X s rest : X = 128 \/ X = 160 -> s_fail s = None ->
  after_value (sub_ctx p X 1) s rest nilE = after_value p (sadd s [end_event X]) rest nilE.
Proof.
  intros HX Hs. unfold after_value at 1. change (isnil nilE) with true. cbv iota.
  unfold depth_fuel. cbn [on_value sub_ctx p_cur c_major mkst set_lcur p_lcur p_stack length].
  assert (E : (X =? mArr) || (X =? mMap) = true) by (unfold mArr, mMap; lia). rewrite E.
  change (1 - 1 >? 0) with false. cbv iota.
  change (X =? mArr) with (X =? 128). fold (end_event X).
  rewrite vis_ok by exact Hs. change (isnil nilE) with true. cbv iota.
  replace (st_pop (len_pop _)) with p by (pdestruct p; reflexivity).
  apply after_value_eq.
Qed.

Lemma after_value_ind p X s rest : X = 129 \/ X = 161 ->
  after_value (ind_ctx p X) s rest nilE = SR (ind_ctx p X) s rest false nilE.
Proof.
  intros HX. unfold after_value. change (isnil nilE) with true. cbv iota.
  unfold depth_fuel. cbn [on_value ind_ctx p_cur c_major mkst].
  assert (E : (X =? mArr) || (X =? mMap) = false) by (unfold mArr, mMap; lia). rewrite E.
  assert (E' : (X =? mArr + stIndef) || (X =? mMap + stIndef) = true)
    by (unfold mArr, mMap, stIndef; lia). rewrite E'. reflexivity.
Qed.

Lemma step_array_more p X k s b : 0 < k ->
  step_array (sub_ctx p X k) s b = step_value (sub_ctx p X k) s b.
Proof.
  intro H. unfold step_array, handle_len. cbn [sub_ctx p_lcur].
  destruct (k >? 0) eqn:E; [reflexivity|lia].
Qed.

(* fuel side conditions carried through the induction *)
Definition fuel_ok (f : nat) (b : bytes) : Prop :=
  (length b < f)%nat /\ Z.of_nat f <= 9223372036854775808.

Definition value_spec (f : nat) : Prop :=
  forall b v rest, cbor_ref f b = RValue v rest -> all_bytes b = true -> fuel_ok f b ->
  forall p s, vctx p -> s_fail s = None -> value_goal b v rest p s.

Lemma items_def_count f : forall g n b acc v rest,
  items_def f g n b acc = RValue v rest -> n <= Z.of_nat g \/ n <= 0.
Proof.
  induction g as [|g IH]; intros n b acc v rest H; rewrite items_def_eq in H.
  - destruct (n <=? 0) eqn:E; [lia|discriminate].
  - destruct (n <=? 0) eqn:E; [lia|].
    destruct (cbor_ref f b) as [v1 r1| | |]; try discriminate.
    apply IH in H. lia.
Qed.

Lemma flatten_elems_app a b : flatten_elems (a ++ b) = flatten_elems a ++ flatten_elems b.
Proof. unfold flatten_elems. apply flat_map_app. Qed.

Lemma arr_loop f : value_spec f -> forall g n b acc v rest,
  items_def f g n b acc = RValue v rest -> 0 < n -> all_bytes b = true -> fuel_ok f b ->
  forall p s, p_buf p = [] -> s_fail s = None ->
  exists ts m, v = CArr (rev acc ++ map (fun t => cv (value_of t)) ts) /\
    forallb wf_tree ts = true /\ zlen ts = n /\
    ((m + 3 * length rest <= 3 * length b)%nat /\ all_bytes rest = true) /\
    reaches (step_value (sub_ctx p 128 n) s b)
            (after_value p (sadd s (flatten_elems ts ++ [EArrEnd])) rest nilE) m.
Proof.
  intros IHv. induction g as [|g IH]; intros n b acc v rest H Hn Hb Hf p s Hbuf Hs;
    rewrite items_def_eq in H; destruct (n <=? 0) eqn:E; try lia; [discriminate|].
  destruct (cbor_ref f b) as [v1 r1| | |] eqn:Hv1; try discriminate.
  destruct (IHv b v1 r1 Hv1 Hb Hf (sub_ctx p 128 n) s (sub_ctx_vctx p 128 n Hbuf ltac:(discriminate)) Hs)
    as (t1 & n1 & Hwf1 & Hcv1 & (Hc1 & Hbr1) & Hreach1).
  destruct (n =? 1) eqn:En1.
  - assert (n = 1) by lia. subst n. rewrite items_def_eq in H. change (1 - 1 <=? 0) with true in H.
    cbv iota in H. inversion H; subst v rest. clear H.
    exists [t1], n1. split; [cbn [rev map]; rewrite Hcv1; reflexivity|].
    split; [cbn [forallb]; rewrite Hwf1; reflexivity|]. split; [reflexivity|].
    split; [split; [lia|exact Hbr1]|].
    replace n1 with (n1 + 0)%nat by lia. eapply reaches_trans; [exact Hreach1|].
    apply reaches_eq. rewrite after_value_sub_last by (auto; rewrite sadd_fail; exact Hs).
    rewrite sadd_app. cbn [flatten_elems flat_map]. rewrite app_nil_r. reflexivity.
  - assert (Hf1 : fuel_ok f r1) by (destruct Hf; split; [lia|assumption]).
    destruct (IH (n - 1) r1 (v1 :: acc) v rest H ltac:(lia) Hbr1 Hf1 p (sadd s (flatten t1)) Hbuf
                ltac:(rewrite sadd_fail; exact Hs))
      as (ts & m & Hv & Hwfs & Hlen & (Hc & Hbrest) & Hreach).
    exists (t1 :: ts), (n1 + (1 + m))%nat.
    split; [rewrite Hv; cbn [rev map]; rewrite <- app_assoc, Hcv1; reflexivity|].
    split; [cbn [forallb]; rewrite Hwf1, Hwfs; reflexivity|].
    split; [rewrite zlen_cons; lia|].
    split; [split; [lia|exact Hbrest]|].
    eapply reaches_trans; [exact Hreach1|].
    rewrite after_value_sub_more by (auto; lia).
    eapply reaches_trans.
    { apply reaches_step. apply contb_pos.
      destruct r1 as [|x r1']; [|rewrite zlen_cons; pose proof (zlen_nonneg r1'); lia].
      rewrite items_def_eq in H. destruct (n - 1 <=? 0) eqn:E'; [lia|].
      destruct g; [discriminate|]. rewrite cbor_ref_nil in H. discriminate. }
    rewrite exec_at_arr by reflexivity. rewrite step_array_more by lia.
    replace (sadd s (flatten_elems (t1 :: ts) ++ [EArrEnd]))
      with (sadd (sadd s (flatten t1)) (flatten_elems ts ++ [EArrEnd])).
    + exact Hreach.
    + rewrite sadd_app. rewrite flatten_elems_cons, app_assoc. reflexivity.
Qed.

(* matching on the break byte *)
Ltac not255 q H :=
  do 8 (destruct q as [q|q|]; try reflexivity); exfalso; apply H; reflexivity.

Lemma items_ind_other f g x r acc : x <> 255 ->
  items_ind f (S g) (x :: r) acc =
  match cbor_ref f (x :: r) with
  | RValue v r' => items_ind f g r' (v :: acc)
  | e => e
  end.
Proof.
  intro H. rewrite items_ind_S. destruct x as [|q|q]; try reflexivity. not255 q H.
Qed.

Lemma pairs_ind_other f g kb r acc : kb <> 255 ->
  pairs_ind f (S g) (kb :: r) acc =
  if negb (kb / 32 =? 3) then
    (if (kb / 32 =? 7) && negb (kb mod 32 <? 28) then RMalformed else RUnsupported)
  else
  match cbor_ref f (kb :: r) with
  | RValue (CStr k) r' =>
      match cbor_ref f r' with
      | RValue v r'' => pairs_ind f g r'' ((k, v) :: acc)
      | e => e
      end
  | RValue _ _ => RUnsupported
  | e => e
  end.
Proof.
  intro H. rewrite pairs_ind_S. destruct kb as [|q|q]; try reflexivity. not255 q H.
Qed.

Lemma pop_ind_ctx p X : st_pop (ind_ctx p X) = p.
Proof. pdestruct p. reflexivity. Qed.

Lemma pop_push2_ind p X Y : c_major (p_cur p) <> stFail -> X <> stFail ->
  st_pop (st_push (st_push p (mkst X 1)) Y) = ind_ctx p X.
Proof.
  intros H HX. unfold ind_ctx. pdestruct p. rewrite (neq_eqb _ _ H), (neq_eqb _ _ HX). reflexivity.
Qed.

Lemma arr_ind_loop f : value_spec f -> forall g b acc v rest,
  items_ind f g b acc = RValue v rest -> all_bytes b = true -> fuel_ok f b ->
  forall p s, p_buf p = [] -> s_fail s = None ->
  exists ts m, v = CArr (rev acc ++ map (fun t => cv (value_of t)) ts) /\
    forallb wf_tree ts = true /\
    ((m + 3 + 3 * length rest <= 3 * length b)%nat /\ all_bytes rest = true) /\
    reaches (indef_body true (ind_ctx p 129) s b)
            (after_value p (sadd s (flatten_elems ts ++ [EArrEnd])) rest nilE) m.
Proof.
  intros IHv. induction g as [|g IH]; intros b acc v rest H Hb Hf p s Hbuf Hs; [discriminate|].
  destruct b as [|x r]; [discriminate|].
  destruct (Z.eq_dec x 255) as [->|Hx].
  - rewrite items_ind_S in H. inversion H; subst v rest. clear H.
    exists [], 0%nat. split; [cbn [map]; rewrite app_nil_r; reflexivity|].
    split; [reflexivity|].
    rewrite all_bytes_cons in Hb. apply andb_true_iff in Hb as [_ Hb].
    split; [split; [cbn [length]; lia|exact Hb]|].
    apply reaches_eq. unfold indef_body. change (255 =? 255) with true. cbv iota.
    rewrite vis_ok by exact Hs. change (isnil nilE) with true. cbv iota.
    cbn [flatten_elems flat_map app].
    apply pop_state_eq. apply pop_ind_ctx.
  - rewrite items_ind_other in H by exact Hx.
    destruct (cbor_ref f (x :: r)) as [v1 r1| | |] eqn:Hv1; try discriminate.
    destruct (IHv _ v1 r1 Hv1 Hb Hf (ind_ctx p 129) s (ind_ctx_vctx p 129 Hbuf ltac:(discriminate)) Hs)
      as (t1 & n1 & Hwf1 & Hcv1 & (Hc1 & Hbr1) & Hreach1).
    assert (Hf1 : fuel_ok f r1) by (destruct Hf; split; [lia|assumption]).
    destruct (IH r1 (v1 :: acc) v rest H Hbr1 Hf1 p (sadd s (flatten t1)) Hbuf
                ltac:(rewrite sadd_fail; exact Hs))
      as (ts & m & Hv & Hwfs & (Hc & Hbrest) & Hreach).
    exists (t1 :: ts), (n1 + (1 + m))%nat.
    split; [rewrite Hv; cbn [rev map]; rewrite <- app_assoc, Hcv1; reflexivity|].
    split; [cbn [forallb]; rewrite Hwf1, Hwfs; reflexivity|].
    split; [split; [lia|exact Hbrest]|].
    unfold indef_body at 1. destruct (x =? 255) eqn:Ex; [lia|].
    eapply reaches_trans; [exact Hreach1|].
    rewrite after_value_ind by auto.
    eapply reaches_trans.
    { apply reaches_step. apply contb_pos.
      destruct r1 as [|y r1']; [|rewrite zlen_cons; pose proof (zlen_nonneg r1'); lia].
      destruct g; discriminate. }
    rewrite exec_at_arri by reflexivity.
    replace (sadd s (flatten_elems (t1 :: ts) ++ [EArrEnd]))
      with (sadd (sadd s (flatten t1)) (flatten_elems ts ++ [EArrEnd])).
    + exact Hreach.
    + rewrite sadd_app. rewrite flatten_elems_cons, app_assoc. reflexivity.
Qed.

Lemma wf_any_arr n ts : n < 0 \/ n = zlen ts -> forallb wf_tree ts = true ->
  wf_tree (TArr n BAny ts) = true.
Proof.
  intros Hn Hw. rewrite wf_arr, Hw. unfold len_ok.
  assert (forallb (tree_matches BAny) ts = true) as -> by (apply forallb_forall; reflexivity).
  destruct Hn; lia.
Qed.

Lemma value_arr f ib r v rest p s : value_spec f ->
  is_byte ib = true -> all_bytes r = true -> ib / 32 = 4 -> fuel_ok (S f) (ib :: r) ->
  ref_body f ib r = RValue v rest -> vctx p -> s_fail s = None ->
  value_goal (ib :: r) v rest p s.
Proof.
  intros IHv Hib Hr HM Hfuel Href [Hbuf Hcur] Hs.
  destruct (byte_split ib Hib) as (Hm & Hsplit & _).
  rewrite ref_m4 in Href by exact HM.
  unfold value_goal. rewrite sv_m4 by exact HM.
  destruct (read_arg (ib mod 32) r) as [n r1|r1| |] eqn:Ha; try discriminate.
  - (* definite *)
    assert (Hf : fuel_ok f r) by (destruct Hfuel as [H1 H2]; cbn [length] in H1; split; lia).
    assert (Hm27 : ib mod 32 <= 27 /\ ib mod 32 <> 31).
    { destruct (read_arg_cases (ib mod 32) r Hm) as [[H1 H2]|[[H1 H2]|[[H1 H2]|[H1 H2]]]]; try lia;
        rewrite H2 in Ha; discriminate. }
    rewrite init_sub_def by lia. change stStart with 1.
    assert (HnM : n <= 9223372036854775807).
    { pose proof (items_def_count _ _ _ _ _ _ _ Href). destruct Hfuel. lia. }
    destruct (byte_seq_hdr (st_push p (mkst 128 1)) s 128 (ib mod 32) r n r1 Hbuf
                ltac:(discriminate) ltac:(discriminate) Hm Hr Ha HnM)
      as (k & Hk & Hlk & Hbr1 & Hn0 & Hreach).
    destruct (n =? 0) eqn:En.
    + assert (n = 0) by lia. subst n. rewrite items_def_eq in Href.
      change (0 <=? 0) with true in Href. cbv iota in Href. inversion Href; subst v rest. clear Href.
      exists (TArr 0 BAny []), (k + 1)%nat.
      split; [reflexivity|]. split; [reflexivity|].
      split; [split; [cbn [length]; lia|exact Hbr1]|].
      eapply reaches_trans; [exact Hreach|].
      change 1%nat with (1 + 0)%nat. eapply reaches_trans.
      { apply reaches_step. apply contb_startx. reflexivity. }
      apply reaches_eq. rewrite exec_at_arrx by reflexivity.
      change (p_lcur (hdr (st_push p (mkst 128 1)) 128 0)) with 0.
      rewrite vis_ok by exact Hs. change (isnil nilE) with true. cbv iota.
      rewrite pop_hdr_sub by (auto; discriminate).
      unfold step_array, handle_len. cbn [sub_ctx p_lcur]. change (0 >? 0) with false. cbv iota.
      rewrite vis_ok by (rewrite sadd_fail; exact Hs). change (isnil nilE) with true. cbv iota.
      rewrite sadd_app. cbn [app].
      assert (E : st_pop (len_pop (sub_ctx p 128 0)) = p) by (pdestruct p; reflexivity).
      pose proof (pop_state_eq (len_pop (sub_ctx p 128 0)) p (sadd s [EArrStart 0 BAny; EArrEnd]) r1 95 E) as HH.
      destruct (pop_state (len_pop (sub_ctx p 128 0)) (sadd s [EArrStart 0 BAny; EArrEnd]))
        as [[[[p2 s2] d] e]|]; [|exfalso].
      * exact HH.
      * unfold after_value in HH. change (isnil nilE) with true in HH. cbv iota in HH.
        destruct (on_value (depth_fuel p) p (sadd s [EArrStart 0 BAny; EArrEnd])) as [[[[p2 s2] d] e]|];
          discriminate.
    + assert (Hfr1 : fuel_ok f r1) by (destruct Hf; split; [lia|assumption]).
      destruct (arr_loop f IHv f n r1 [] v rest Href ltac:(lia) Hbr1 Hfr1 p (sadd s [EArrStart n BAny]) Hbuf
                  ltac:(rewrite sadd_fail; exact Hs))
        as (ts & m & Hv & Hwfs & Hlen & (Hc & Hbrest) & Hloop).
      exists (TArr n BAny ts), (k + (1 + m))%nat.
      split; [apply wf_any_arr; [right; lia|exact Hwfs]|].
      split; [rewrite Hv; cbn [rev app value_of cv]; rewrite map_map; reflexivity|].
      split; [split; [cbn [length]; lia|exact Hbrest]|].
      eapply reaches_trans; [exact Hreach|].
      eapply reaches_trans.
      { apply reaches_step. apply contb_startx. reflexivity. }
      rewrite exec_at_arrx by reflexivity.
      change (p_lcur (hdr (st_push p (mkst 128 1)) 128 n)) with n.
      rewrite vis_ok by exact Hs. change (isnil nilE) with true. cbv iota.
      rewrite pop_hdr_sub by (auto; discriminate).
      rewrite step_array_more by lia.
      rewrite flatten_arr. 
      replace (sadd s (EArrStart n BAny :: flatten_elems ts ++ [EArrEnd]))
        with (sadd (sadd s [EArrStart n BAny]) (flatten_elems ts ++ [EArrEnd]))
        by (rewrite sadd_app; reflexivity).
      exact Hloop.
  - (* indefinite *)
    assert (Hm31 : ib mod 32 = 31 /\ r1 = r).
    { destruct (read_arg_cases (ib mod 32) r Hm) as [[H1 H2]|[[H1 H2]|[[H1 H2]|[H1 H2]]]];
        rewrite H2 in Ha; try discriminate.
      - destruct (take (2 ^ (ib mod 32 - 24)) r) as [[? ?]|]; discriminate.
      - inversion Ha. auto. }
    destruct Hm31 as [Hm31 ->]. rewrite Hm31.
    assert (Hf : fuel_ok f r) by (destruct Hfuel as [H1 H2]; cbn [length] in H1; split; lia).
    destruct (arr_ind_loop f IHv f r [] v rest Href Hr Hf p (sadd s [EArrStart (-1) BAny]) Hbuf
                ltac:(rewrite sadd_fail; exact Hs))
      as (ts & m & Hv & Hwfs & (Hc & Hbrest) & Hloop).
    exists (TArr (-1) BAny ts), (1 + m)%nat.
    split; [apply wf_any_arr; [left; lia|exact Hwfs]|].
    split; [rewrite Hv; cbn [rev app value_of cv]; rewrite map_map; reflexivity|].
    split; [split; [cbn [length]; lia|exact Hbrest]|].
    unfold init_sub. change (31 =? 31) with true. cbv iota.
    eapply reaches_trans.
    { apply reaches_step. apply contb_pos.
      destruct r as [|y r']; [|rewrite zlen_cons; pose proof (zlen_nonneg r'); lia].
      destruct f; discriminate. }
    rewrite exec_at_arrix by reflexivity.
    rewrite vis_ok by exact Hs. change (isnil nilE) with true. cbn [negb]. cbv iota.
    change (128 + stIndef) with 129. change stStart with 1.
    rewrite pop_push2_ind by (auto; discriminate).
    rewrite flatten_arr.
    replace (sadd s (EArrStart (-1) BAny :: flatten_elems ts ++ [EArrEnd]))
      with (sadd (sadd s [EArrStart (-1) BAny]) (flatten_elems ts ++ [EArrEnd]))
      by (rewrite sadd_app; reflexivity).
    exact Hloop.
Qed.

(* ---------- maps ---------- *)
Definition elem_st (C : cparser) : cparser := set_cur (st_push C (mkst 172 1)) (mkst 169 1).

Lemma elem_step C s b : c_major (p_cur C) <> stFail ->
  exec_step (elem_st C) s b = step_value C s b.
Proof.
  intro H. rewrite exec_at_elem by reflexivity. f_equal.
  unfold elem_st. pdestruct C. rewrite (neq_eqb _ _ H). reflexivity.
Qed.

Lemma ref_text_inv f kb r vk r' : is_byte kb = true -> kb / 32 = 3 ->
  cbor_ref f (kb :: r) = RValue vk r' ->
  exists f' n r1 a, f = S f' /\ read_arg (kb mod 32) r = ArgVal n r1 /\ take n r1 = Some (a, r') /\ vk = CStr a.
Proof.
  intros Hkb HM H. destruct f as [|f']; [discriminate|].
  rewrite cbor_ref_S, ref_m3 in H by exact HM.
  destruct (read_arg (kb mod 32) r) as [n r1|r1| |] eqn:Ha; try discriminate.
  destruct (take n r1) as [[a r'']|] eqn:Ht; [|discriminate].
  inversion H; subst. exists f', n, r1, a. auto.
Qed.

Lemma key_ok kb r n r1 a r' C s : is_byte kb = true -> all_bytes r = true -> kb / 32 = 3 ->
  zlen r <= MaxInt64 ->
  read_arg (kb mod 32) r = ArgVal n r1 -> take n r1 = Some (a, r') ->
  vctx C -> s_fail s = None ->
  exists byref j, all_bytes a = true /\
    ((j + 2 + 3 * length r' <= 3 * length (kb :: r))%nat /\ all_bytes r' = true) /\
    reaches (init_map_key C s (kb :: r)) (SR (elem_st C) (sadd s [key_event a byref]) r' false nilE) j.
Proof.
  intros Hib Hr HM Hsz Ha Ht [Hbuf Hcur] Hs. unfold MaxInt64 in Hsz.
  destruct (byte_split kb Hib) as (Hm & Hsplit & _).
  unfold init_map_key. rewrite HM. change (negb (3 * 32 =? mText)) with false. cbv iota.
  assert (Hm31 : (kb mod 32 =? 31) = false).
  { destruct (read_arg_cases (kb mod 32) r Hm) as [[H1 H2]|[[H1 H2]|[[H1 H2]|[H1 H2]]]]; try lia;
      rewrite H2 in Ha; discriminate. }
  rewrite Hm31.
  pose proof (take_some _ _ _ _ Ht) as (Hn0 & Hl & Hfa & Hsr & _ & Hza).
  pose proof (take_len _ _ _ _ Ht) as [Hlen _].
  pose proof (take_bytes _ _ _ _ Ht) as Htb.
  assert (HnM : n <= 9223372036854775807).
  { unfold zlen in *.
    assert (length r1 <= length r)%nat.
    { destruct (read_arg_val _ _ _ _ Hm Ha) as [(H1 & -> & ->)|(H1 & a0 & Ht0 & ->)]; [lia|].
      pose proof (take_len _ _ _ _ Ht0). lia. }
    lia. }
  destruct (byte_seq_hdr C s 168 (kb mod 32) r n r1 Hbuf Hcur ltac:(discriminate) Hm Hr Ha HnM)
    as (k & Hk & Hlk & Hbr1 & _ & Hreach).
  destruct (Htb Hbr1) as [Hba Hbr'].
  destruct (n =? 0) eqn:En.
  - assert (N0 : n = 0) by lia.
    assert (A0 : a = []) by (destruct a; [reflexivity|rewrite zlen_cons in Hza; pose proof (zlen_nonneg a); lia]).
    clear Hza Hfa Hn0 Hl HnM En. subst n a. unfold zskipn in Hsr.
    cbn [Z.to_nat skipn] in Hsr. subst r'.
    exists false, (k + 1)%nat. split; [reflexivity|].
    split; [split; [cbn [length]; lia|exact Hbr1]|].
    eapply reaches_trans; [exact Hreach|].
    change 1%nat with (1 + 0)%nat. eapply reaches_trans.
    { apply reaches_step. apply contb_startx. reflexivity. }
    apply reaches_eq. rewrite exec_at_keyx by reflexivity.
    change (p_lcur (hdr C 168 0) =? 0) with true. cbv iota.
    rewrite vis_ok by exact Hs. change (isnil nilE) with true. cbv iota.
    cbn [key_event]. reflexivity.
  - exists true, (k + 1)%nat. split; [exact Hba|].
    split; [split; [cbn [length]; lia|exact Hbr']|].
    eapply reaches_trans; [exact Hreach|].
    change 1%nat with (1 + 0)%nat. eapply reaches_trans.
    { apply reaches_step. apply contb_startx. reflexivity. }
    apply reaches_eq. rewrite exec_at_keyx by reflexivity.
    change (p_lcur (hdr C 168 n)) with n. rewrite En.
    unfold step_key. change (p_lcur (clear_startx (hdr C 168 n))) with n.
    rewrite collect_fast by (try assumption; lia).
    rewrite vis_ok by exact Hs. change (isnil nilE) with true. cbv iota.
    rewrite <- Hfa, <- Hsr. cbn [key_event]. reflexivity.
Qed.

Lemma fuel_ok_size f b : fuel_ok f b -> zlen b <= MaxInt64.
Proof. intros [H1 H2]. unfold zlen, MaxInt64. lia. Qed.

(* a key and its value inside an open map whose state is C *)
Lemma pair_ok f kb r vk r' v r'' C s : value_spec f ->
  all_bytes (kb :: r) = true -> kb / 32 = 3 -> fuel_ok f (kb :: r) ->
  cbor_ref f (kb :: r) = RValue vk r' -> cbor_ref f r' = RValue v r'' ->
  vctx C -> s_fail s = None ->
  exists k byref t j, vk = CStr k /\ all_bytes k = true /\ wf_tree t = true /\ cv (value_of t) = v /\
    ((j + 2 + 3 * length r'' <= 3 * length (kb :: r))%nat /\ all_bytes r'' = true /\
     (length r' <= length r)%nat) /\
    reaches (init_map_key C s (kb :: r))
            (after_value C (sadd s (key_event k byref :: flatten t)) r'' nilE) j.
Proof.
  intros IHv Hb HM Hf Hk Hv HC Hs.
  rewrite all_bytes_cons in Hb. apply andb_true_iff in Hb as [Hkb Hr].
  destruct (ref_text_inv _ _ _ _ _ Hkb HM Hk) as (f' & n & r1 & a & -> & Ha & Ht & ->).
  assert (Hsz : zlen r <= MaxInt64).
  { pose proof (fuel_ok_size _ _ Hf) as Hz. rewrite zlen_cons in Hz. lia. }
  destruct (key_ok kb r n r1 a r' C s Hkb Hr HM Hsz Ha Ht HC Hs)
    as (byref & j & Hba & (Hc & Hbr') & Hreach).
  assert (Hf' : fuel_ok (S f') r') by (destruct Hf as [H1 H2]; cbn [length] in *; split; lia).
  destruct (IHv r' v r'' Hv Hbr' Hf' C (sadd s [key_event a byref]) HC ltac:(rewrite sadd_fail; exact Hs))
    as (t & nv & Hwf & Hcv & (Hcv' & Hbr'') & Hreachv).
  exists a, byref, t, (j + (1 + nv))%nat.
  split; [reflexivity|]. split; [exact Hba|]. split; [exact Hwf|]. split; [exact Hcv|].
  split; [split; [lia|split; [exact Hbr''|cbn [length] in Hc; lia]]|].
  eapply reaches_trans; [exact Hreach|].
  eapply reaches_trans.
  { apply reaches_step. apply contb_pos.
    destruct r' as [|y r0]; [|rewrite zlen_cons; pose proof (zlen_nonneg r0); lia].
    rewrite cbor_ref_nil in Hv. discriminate. }
  rewrite elem_step by (destruct HC; assumption).
  rewrite sadd_app in Hreachv. exact Hreachv.
Qed.

Definition mval (m : bytes * bool * tree) : bytes * cvalue := (fst (fst m), cv (value_of (snd m))).
Definition mwf (m : bytes * bool * tree) : bool := all_bytes (fst (fst m)) && wf_tree (snd m).

Lemma pairs_def_count f : forall g n b acc v rest,
  pairs_def f g n b acc = RValue v rest -> n <= Z.of_nat g \/ n <= 0.
Proof.
  induction g as [|g IH]; intros n b acc v rest H; rewrite pairs_def_eq in H.
  - destruct (n <=? 0) eqn:E; [lia|discriminate].
  - destruct (n <=? 0) eqn:E; [lia|].
    destruct b as [|kb r]; [discriminate|].
    destruct (negb (kb / 32 =? 3)).
    { destruct ((kb / 32 =? 7) && negb (kb mod 32 <? 28)); discriminate. }
    destruct (cbor_ref f (kb :: r)) as [vk r'| | |]; try discriminate.
    destruct vk; try discriminate.
    destruct (cbor_ref f r') as [v1 r1| | |]; try discriminate.
    apply IH in H. lia.
Qed.

Lemma step_map_more p X k s b : 0 < k -> 0 < zlen b ->
  step_map (sub_ctx p X k) s b = init_map_key (sub_ctx p X k) s b.
Proof.
  intros H Hb. unfold step_map, handle_len. cbn [sub_ctx p_lcur].
  destruct (k >? 0) eqn:E; [|lia]. destruct (zlen b >? 0) eqn:E2; [reflexivity|lia].
Qed.

Lemma flatten_members_one k r e ms :
  flatten_members ((k, r, e) :: ms) = (key_event k r :: flatten e) ++ flatten_members ms.
Proof. reflexivity. Qed.

Lemma map_loop f : value_spec f -> forall g n b acc v rest,
  pairs_def f g n b acc = RValue v rest -> 0 < n -> all_bytes b = true -> fuel_ok f b ->
  forall p s, p_buf p = [] -> s_fail s = None ->
  exists ms m, v = CObj (rev acc ++ map mval ms) /\
    forallb mwf ms = true /\ zlen ms = n /\
    ((m + 3 * length rest <= 3 * length b)%nat /\ all_bytes rest = true) /\
    reaches (init_map_key (sub_ctx p 160 n) s b)
            (after_value p (sadd s (flatten_members ms ++ [EObjEnd])) rest nilE) m.
Proof.
  intros IHv. induction g as [|g IH]; intros n b acc v rest H Hn Hb Hf p s Hbuf Hs;
    rewrite pairs_def_eq in H; destruct (n <=? 0) eqn:E; try lia; [discriminate|].
  destruct b as [|kb r]; [discriminate|].
  destruct (kb / 32 =? 3) eqn:EM; cbn [negb] in H;
    [|destruct ((kb / 32 =? 7) && negb (kb mod 32 <? 28)); discriminate].
  assert (HM : kb / 32 = 3) by lia.
  destruct (cbor_ref f (kb :: r)) as [vk r'| | |] eqn:Hk; try discriminate.
  assert (Hkb : is_byte kb = true)
    by (rewrite all_bytes_cons in Hb; apply andb_true_iff in Hb; tauto).
  destruct (ref_text_inv _ _ _ _ _ Hkb HM Hk) as (f' & n0 & r1 & a & Ef & _ & _ & ->).
  destruct (cbor_ref f r') as [v1 r''| | |] eqn:Hv1; try discriminate.
  destruct (pair_ok f kb r (CStr a) r' v1 r'' (sub_ctx p 160 n) s IHv Hb HM Hf Hk Hv1
              (sub_ctx_vctx p 160 n Hbuf ltac:(discriminate)) Hs)
    as (k & byref & t & j & Hkeq & Hbk & Hwf & Hcv & (Hc & Hbr'' & Hlr') & Hreach).
  inversion Hkeq; subst k. clear Hkeq.
  destruct (n =? 1) eqn:En1.
  - assert (n = 1) by lia. subst n. rewrite pairs_def_eq in H. change (1 - 1 <=? 0) with true in H.
    cbv iota in H. inversion H; subst v rest. clear H.
    exists [(a, byref, t)], j.
    split; [cbn [rev map]; unfold mval; cbn [fst snd]; rewrite Hcv; reflexivity|].
    split; [cbn [forallb]; unfold mwf; cbn [fst snd]; rewrite Hbk, Hwf; reflexivity|].
    split; [reflexivity|].
    split; [split; [lia|exact Hbr'']|].
    replace j with (j + 0)%nat by lia. eapply reaches_trans; [exact Hreach|].
    apply reaches_eq. rewrite after_value_sub_last by (auto; rewrite sadd_fail; exact Hs).
    rewrite sadd_app. rewrite flatten_members_one. cbn [flatten_members flat_map].
    rewrite app_nil_r. reflexivity.
  - assert (Hf1 : fuel_ok f r'') by (destruct Hf; split; [lia|assumption]).
    destruct (IH (n - 1) r'' ((a, v1) :: acc) v rest H ltac:(lia) Hbr'' Hf1 p
                (sadd s (key_event a byref :: flatten t)) Hbuf ltac:(rewrite sadd_fail; exact Hs))
      as (ms & m & Hv & Hwfs & Hlen & (Hcm & Hbrest) & Hloop).
    exists ((a, byref, t) :: ms), (j + (1 + m))%nat.
    split; [rewrite Hv; cbn [rev map]; rewrite <- app_assoc; unfold mval at 2; cbn [fst snd app];
            rewrite Hcv; reflexivity|].
    split; [cbn [forallb]; unfold mwf at 1; cbn [fst snd]; rewrite Hbk, Hwf, Hwfs; reflexivity|].
    split; [rewrite zlen_cons; lia|].
    split; [split; [lia|exact Hbrest]|].
    eapply reaches_trans; [exact Hreach|].
    rewrite after_value_sub_more by (auto; lia).
    assert (Hne : 0 < zlen r'').
    { destruct r'' as [|x r0]; [|rewrite zlen_cons; pose proof (zlen_nonneg r0); lia].
      rewrite pairs_def_eq in H. destruct (n - 1 <=? 0) eqn:E'; [lia|].
      destruct g; discriminate. }
    eapply reaches_trans.
    { apply reaches_step. apply contb_pos. exact Hne. }
    rewrite exec_at_map by reflexivity. rewrite step_map_more by (try exact Hne; lia).
    replace (sadd s (flatten_members ((a, byref, t) :: ms) ++ [EObjEnd]))
      with (sadd (sadd s (key_event a byref :: flatten t)) (flatten_members ms ++ [EObjEnd])).
    + exact Hloop.
    + rewrite sadd_app. rewrite flatten_members_one, app_assoc. reflexivity.
Qed.

Lemma map_ind_loop f : value_spec f -> forall g b acc v rest,
  pairs_ind f g b acc = RValue v rest -> all_bytes b = true -> fuel_ok f b ->
  forall p s, p_buf p = [] -> s_fail s = None ->
  exists ms m, v = CObj (rev acc ++ map mval ms) /\
    forallb mwf ms = true /\
    ((m + 3 + 3 * length rest <= 3 * length b)%nat /\ all_bytes rest = true) /\
    reaches (indef_body false (ind_ctx p 161) s b)
            (after_value p (sadd s (flatten_members ms ++ [EObjEnd])) rest nilE) m.
Proof.
  intros IHv. induction g as [|g IH]; intros b acc v rest H Hb Hf p s Hbuf Hs; [discriminate|].
  destruct b as [|kb r]; [discriminate|].
  destruct (Z.eq_dec kb 255) as [->|Hx].
  - rewrite pairs_ind_S in H. inversion H; subst v rest. clear H.
    exists [], 0%nat. split; [cbn [map]; rewrite app_nil_r; reflexivity|].
    split; [reflexivity|].
    rewrite all_bytes_cons in Hb. apply andb_true_iff in Hb as [_ Hb].
    split; [split; [cbn [length]; lia|exact Hb]|].
    apply reaches_eq. unfold indef_body. change (255 =? 255) with true. cbv iota.
    rewrite vis_ok by exact Hs. change (isnil nilE) with true. cbv iota.
    cbn [flatten_members flat_map app].
    apply pop_state_eq. apply pop_ind_ctx.
  - rewrite pairs_ind_other in H by exact Hx.
    destruct (kb / 32 =? 3) eqn:EM; cbn [negb] in H;
      [|destruct ((kb / 32 =? 7) && negb (kb mod 32 <? 28)); discriminate].
    assert (HM : kb / 32 = 3) by lia.
    destruct (cbor_ref f (kb :: r)) as [vk r'| | |] eqn:Hk; try discriminate.
    assert (Hkb : is_byte kb = true)
      by (rewrite all_bytes_cons in Hb; apply andb_true_iff in Hb; tauto).
    destruct (ref_text_inv _ _ _ _ _ Hkb HM Hk) as (f' & n0 & r1 & a & Ef & _ & _ & ->).
    destruct (cbor_ref f r') as [v1 r''| | |] eqn:Hv1; try discriminate.
    destruct (pair_ok f kb r (CStr a) r' v1 r'' (ind_ctx p 161) s IHv Hb HM Hf Hk Hv1
                (ind_ctx_vctx p 161 Hbuf ltac:(discriminate)) Hs)
      as (k & byref & t & j & Hkeq & Hbk & Hwf & Hcv & (Hc & Hbr'' & Hlr') & Hreach).
    inversion Hkeq; subst k. clear Hkeq.
    assert (Hf1 : fuel_ok f r'') by (destruct Hf; split; [lia|assumption]).
    destruct (IH r'' ((a, v1) :: acc) v rest H Hbr'' Hf1 p
                (sadd s (key_event a byref :: flatten t)) Hbuf ltac:(rewrite sadd_fail; exact Hs))
      as (ms & m & Hv & Hwfs & (Hcm & Hbrest) & Hloop).
    exists ((a, byref, t) :: ms), (j + (1 + m))%nat.
    split; [rewrite Hv; cbn [rev map]; rewrite <- app_assoc; unfold mval at 2; cbn [fst snd app];
            rewrite Hcv; reflexivity|].
    split; [cbn [forallb]; unfold mwf at 1; cbn [fst snd]; rewrite Hbk, Hwf, Hwfs; reflexivity|].
    split; [split; [lia|exact Hbrest]|].
    unfold indef_body at 1. destruct (kb =? 255) eqn:Ex; [lia|].
    eapply reaches_trans; [exact Hreach|].
    rewrite after_value_ind by auto.
    eapply reaches_trans.
    { apply reaches_step. apply contb_pos.
      destruct r'' as [|y r0]; [|rewrite zlen_cons; pose proof (zlen_nonneg r0); lia].
      destruct g; discriminate. }
    rewrite exec_at_mapi by reflexivity.
    replace (sadd s (flatten_members ((a, byref, t) :: ms) ++ [EObjEnd]))
      with (sadd (sadd s (key_event a byref :: flatten t)) (flatten_members ms ++ [EObjEnd])).
    + exact Hloop.
    + rewrite sadd_app. rewrite flatten_members_one, app_assoc. reflexivity.
Qed.

Lemma wf_any_obj n ms : n < 0 \/ n = zlen ms -> forallb mwf ms = true ->
  wf_tree (TObj n BAny ms) = true.
Proof.
  intros Hn Hw. rewrite wf_obj. unfold mwf in Hw. rewrite Hw. unfold len_ok.
  assert (forallb (fun m : bytes * bool * tree => tree_matches BAny (snd m)) ms = true) as ->
    by (apply forallb_forall; reflexivity).
  destruct Hn; lia.
Qed.

Lemma cv_obj n ms : cv (value_of (TObj n BAny ms)) = CObj (map mval ms).
Proof. cbn [value_of cv]. rewrite map_map. reflexivity. Qed.

Lemma value_map f ib r v rest p s : value_spec f ->
  is_byte ib = true -> all_bytes r = true -> ib / 32 = 5 -> fuel_ok (S f) (ib :: r) ->
  ref_body f ib r = RValue v rest -> vctx p -> s_fail s = None ->
  value_goal (ib :: r) v rest p s.
Proof.
  intros IHv Hib Hr HM Hfuel Href [Hbuf Hcur] Hs.
  destruct (byte_split ib Hib) as (Hm & Hsplit & _).
  rewrite ref_m5 in Href by exact HM.
  unfold value_goal. rewrite sv_m5 by exact HM.
  assert (Hf : fuel_ok f r) by (destruct Hfuel as [H1 H2]; cbn [length] in H1; split; lia).
  destruct (read_arg (ib mod 32) r) as [n r1|r1| |] eqn:Ha; try discriminate.
  - (* definite *)
    assert (Hm27 : ib mod 32 <= 27 /\ ib mod 32 <> 31).
    { destruct (read_arg_cases (ib mod 32) r Hm) as [[H1 H2]|[[H1 H2]|[[H1 H2]|[H1 H2]]]]; try lia;
        rewrite H2 in Ha; discriminate. }
    rewrite init_sub_def by lia. change stStart with 1.
    assert (HnM : n <= 9223372036854775807).
    { pose proof (pairs_def_count _ _ _ _ _ _ _ Href). destruct Hfuel. lia. }
    destruct (byte_seq_hdr (st_push p (mkst 160 1)) s 160 (ib mod 32) r n r1 Hbuf
                ltac:(discriminate) ltac:(discriminate) Hm Hr Ha HnM)
      as (k & Hk & Hlk & Hbr1 & Hn0 & Hreach).
    destruct (n =? 0) eqn:En.
    + assert (n = 0) by lia. subst n. rewrite pairs_def_eq in Href.
      change (0 <=? 0) with true in Href. cbv iota in Href. inversion Href; subst v rest. clear Href.
      exists (TObj 0 BAny []), (k + 1)%nat.
      split; [reflexivity|]. split; [reflexivity|].
      split; [split; [cbn [length]; lia|exact Hbr1]|].
      eapply reaches_trans; [exact Hreach|].
      change 1%nat with (1 + 0)%nat. eapply reaches_trans.
      { apply reaches_step. apply contb_startx. reflexivity. }
      apply reaches_eq. rewrite exec_at_mapx by reflexivity.
      change (p_lcur (hdr (st_push p (mkst 160 1)) 160 0)) with 0.
      rewrite vis_ok by exact Hs. change (isnil nilE) with true. cbv iota.
      rewrite pop_hdr_sub by (auto; discriminate).
      unfold step_map, handle_len. cbn [sub_ctx p_lcur]. change (0 >? 0) with false. cbv iota.
      rewrite vis_ok by (rewrite sadd_fail; exact Hs). change (isnil nilE) with true. cbv iota.
      rewrite sadd_app. cbn [app].
      assert (E : st_pop (len_pop (sub_ctx p 160 0)) = p) by (pdestruct p; reflexivity).
      pose proof (pop_state_eq (len_pop (sub_ctx p 160 0)) p (sadd s [EObjStart 0 BAny; EObjEnd]) r1 95 E) as HH.
      destruct (pop_state (len_pop (sub_ctx p 160 0)) (sadd s [EObjStart 0 BAny; EObjEnd]))
        as [[[[p2 s2] d] e]|]; [|exfalso].
      * exact HH.
      * unfold after_value in HH. change (isnil nilE) with true in HH. cbv iota in HH.
        destruct (on_value (depth_fuel p) p (sadd s [EObjStart 0 BAny; EObjEnd])) as [[[[p2 s2] d] e]|];
          discriminate.
    + assert (Hfr1 : fuel_ok f r1) by (destruct Hf; split; [lia|assumption]).
      destruct (map_loop f IHv f n r1 [] v rest Href ltac:(lia) Hbr1 Hfr1 p (sadd s [EObjStart n BAny]) Hbuf
                  ltac:(rewrite sadd_fail; exact Hs))
        as (ms & m & Hv & Hwfs & Hlen & (Hc & Hbrest) & Hloop).
      exists (TObj n BAny ms), (k + (1 + m))%nat.
      split; [apply wf_any_obj; [right; lia|exact Hwfs]|].
      split; [rewrite Hv, cv_obj; reflexivity|].
      split; [split; [cbn [length]; lia|exact Hbrest]|].
      eapply reaches_trans; [exact Hreach|].
      assert (Hne : 0 < zlen r1).
      { destruct r1 as [|x r0]; [|rewrite zlen_cons; pose proof (zlen_nonneg r0); lia].
        rewrite pairs_def_eq in Href.
        destruct (n <=? 0) eqn:E'; [lia|]. destruct f; discriminate. }
      eapply reaches_trans.
      { apply reaches_step. apply contb_startx. reflexivity. }
      rewrite exec_at_mapx by reflexivity.
      change (p_lcur (hdr (st_push p (mkst 160 1)) 160 n)) with n.
      rewrite vis_ok by exact Hs. change (isnil nilE) with true. cbv iota.
      rewrite pop_hdr_sub by (auto; discriminate).
      rewrite step_map_more by (try exact Hne; lia).
      rewrite flatten_obj.
      replace (sadd s (EObjStart n BAny :: flatten_members ms ++ [EObjEnd]))
        with (sadd (sadd s [EObjStart n BAny]) (flatten_members ms ++ [EObjEnd]))
        by (rewrite sadd_app; reflexivity).
      exact Hloop.
  - (* indefinite *)
    assert (Hm31 : ib mod 32 = 31 /\ r1 = r).
    { destruct (read_arg_cases (ib mod 32) r Hm) as [[H1 H2]|[[H1 H2]|[[H1 H2]|[H1 H2]]]];
        rewrite H2 in Ha; try discriminate.
      - destruct (take (2 ^ (ib mod 32 - 24)) r) as [[? ?]|]; discriminate.
      - inversion Ha. auto. }
    destruct Hm31 as [Hm31 ->]. rewrite Hm31.
    destruct (map_ind_loop f IHv f r [] v rest Href Hr Hf p (sadd s [EObjStart (-1) BAny]) Hbuf
                ltac:(rewrite sadd_fail; exact Hs))
      as (ms & m & Hv & Hwfs & (Hc & Hbrest) & Hloop).
    exists (TObj (-1) BAny ms), (1 + m)%nat.
    split; [apply wf_any_obj; [left; lia|exact Hwfs]|].
    split; [rewrite Hv, cv_obj; reflexivity|].
    split; [split; [cbn [length]; lia|exact Hbrest]|].
    unfold init_sub. change (31 =? 31) with true. cbv iota.
    eapply reaches_trans.
    { apply reaches_step. apply contb_pos.
      destruct r as [|y r']; [|rewrite zlen_cons; pose proof (zlen_nonneg r'); lia].
      destruct f; discriminate. }
    rewrite exec_at_mapix by reflexivity.
    rewrite vis_ok by exact Hs. change (isnil nilE) with true. cbn [negb]. cbv iota.
    change (160 + stIndef) with 161. change stStart with 1.
    rewrite pop_push2_ind by (auto; discriminate).
    rewrite flatten_obj.
    replace (sadd s (EObjStart (-1) BAny :: flatten_members ms ++ [EObjEnd]))
      with (sadd (sadd s [EObjStart (-1) BAny]) (flatten_members ms ++ [EObjEnd]))
      by (rewrite sadd_app; reflexivity).
    exact Hloop.
Qed.

(* ---------- every item of the supported subset, in any context ---------- *)
Theorem value_ok : forall f, value_spec f.
Proof.
  induction f as [|f IH]; intros b v rest H Hb Hf p s Hp Hs; [discriminate|].
  destruct b as [|ib r]; [rewrite cbor_ref_nil in H; discriminate|].
  rewrite cbor_ref_S in H.
  pose proof Hb as Hb'. rewrite all_bytes_cons in Hb'. apply andb_true_iff in Hb' as [Hib Hr].
  assert (Hsz : zlen r <= MaxInt64).
  { pose proof (fuel_ok_size _ _ Hf) as Hz. rewrite zlen_cons in Hz. lia. }
  destruct (byte_split ib Hib) as (Hm & _ & [HM|[HM|[HM|[HM|[HM|[HM|[HM|HM]]]]]]]).
  - rewrite ref_m0 in H by exact HM.
    destruct (read_arg (ib mod 32) r) as [n r1|r1| |] eqn:Ha; try discriminate.
    inversion H; subst v rest. eapply value_uint; eassumption.
  - rewrite ref_m1 in H by exact HM.
    destruct (read_arg (ib mod 32) r) as [n r1|r1| |] eqn:Ha; try discriminate.
    destruct (n <? 2 ^ 63) eqn:En; [|discriminate].
    inversion H; subst v rest. eapply value_neg; try eassumption. lia.
  - rewrite ref_m2 in H by exact HM.
    destruct (read_arg (ib mod 32) r) as [n r1|r1| |] eqn:Ha; try discriminate.
    destruct (take n r1) as [[a r']|] eqn:Ht; [|discriminate].
    inversion H; subst v rest. eapply value_bytes; eassumption.
  - rewrite ref_m3 in H by exact HM.
    destruct (read_arg (ib mod 32) r) as [n r1|r1| |] eqn:Ha; try discriminate.
    destruct (take n r1) as [[a r']|] eqn:Ht; [|discriminate].
    inversion H; subst v rest. eapply value_text; eassumption.
  - eapply value_arr; eassumption.
  - eapply value_map; eassumption.
  - rewrite ref_m6 in H by exact HM. discriminate.
  - rewrite ref_m7 in H by exact HM. eapply value_simple; eassumption.
Qed.
Print Assumptions value_ok.

(* ====================================================================== *)
(* Part 8: whole-buffer Parse, accepted inputs (C05, C09)                   *)
(* ====================================================================== *)

Lemma feed_S f p s b : feed (S f) p s b =
  if zlen b >? 0 then
    match feed_until (feed_fuel b) p s b with
    | Ok (SR p1 s1 rest _ err) => if isnil err then feed f p1 s1 rest else Ok (p1, s1, err)
    | Ok (Crash w) => Panic w
    | Err e => Err e
    | Panic w => Panic w
    | OutOfFuel => OutOfFuel
    end
  else Ok (p, s, nilE).
Proof. reflexivity. Qed.

Lemma after_value_top s rest : after_value cparser0 s rest nilE = SR cparser0 s rest true nilE.
Proof. reflexivity. Qed.

Lemma top_feed_until b n Y : b <> [] -> (n + 1 <= 3 * length b)%nat ->
  reaches (step_value cparser0 (sink0 None) b) Y n ->
  exists f', feed_until (feed_fuel b) cparser0 (sink0 None) b = fu_cont f' Y.
Proof.
  intros Hne Hn Hreach. unfold feed_fuel.
  replace (8 * length b + 16)%nat with (S (n + (8 * length b + 15 - n)))%nat by lia.
  rewrite feed_until_S, exec_at_value by reflexivity. rewrite Hreach. eexists. reflexivity.
Qed.

Theorem C05_accept : forall b v, all_bytes b = true -> (zlen b <=? MaxInt64) = true ->
  cbor_decode b = RValue v [] ->
  exists evs t, run_parse None b = Ok (evs, nilE) /\ stream_tree evs = Some t /\
                wf_tree t = true /\ cv (value_of t) = v.
Proof.
  intros b v Hb Hsz H. unfold cbor_decode in H. unfold MaxInt64 in Hsz.
  assert (Hf : fuel_ok (S (length b)) b) by (unfold fuel_ok, zlen in *; split; lia).
  destruct (value_ok _ b v [] H Hb Hf cparser0 (sink0 None)) as (t & n & Hwf & Hcv & (Hc & _) & Hreach).
  { split; [reflexivity|discriminate]. }
  { reflexivity. }
  assert (Hne : b <> []) by (intros ->; rewrite cbor_ref_nil in H; discriminate).
  destruct (top_feed_until b n _ Hne ltac:(cbn [length] in Hc; lia) Hreach) as (f' & Hfu).
  exists (flatten t), (norm t).
  split.
  - unfold run_parse, p_parse.
    replace (2 * length b + 2)%nat with (S (S (2 * length b))) by lia.
    rewrite feed_S. destruct (zlen b >? 0) eqn:Ez.
    2:{ destruct b; [congruence|rewrite zlen_cons in Ez; pose proof (zlen_nonneg b); lia]. }
    rewrite Hfu. rewrite after_value_top. cbn [fu_cont orb].
    change (isnil nilE) with true. cbv iota. rewrite feed_S.
    change (zlen (@nil Z) >? 0) with false. cbv iota.
    change (isnil nilE) with true. cbv iota.
    change (finalize cparser0) with nilE.
    rewrite sadd_log. reflexivity.
  - split; [apply stream_tree_flatten|]. split; [rewrite wf_norm; exact Hwf|].
    rewrite value_of_norm. exact Hcv.
Qed.
Print Assumptions C05_accept.

(* ====================================================================== *)
(* Part 9: everything else is refused                                       *)
(* ====================================================================== *)

Definition is_value (r : ref_result) : bool := match r with RValue _ _ => true | _ => false end.

Definition incomplete (p : cparser) : Prop := finalize p <> nilE.

Definition bad_end (r : sres) : Prop :=
  match r with
  | SR p s rest d e => e <> nilE \/ (rest = [] /\ incomplete p)
  | Crash _ => False
  end.

Definition rejects (X : sres) (B : nat) : Prop :=
  exists n, (n <= B)%nat /\ forall f, exists Y, fu_cont (n + f) X = Ok Y /\ bad_end Y.

Lemma rejects_reach X Y k B B' : reaches X Y k -> rejects Y B -> (k + B <= B')%nat -> rejects X B'.
Proof.
  intros Hr (n & Hn & H) HB. exists (k + n)%nat. split; [lia|].
  intro f. rewrite <- Nat.add_assoc. rewrite Hr. apply H.
Qed.

Lemma rejects_weaken X B B' : rejects X B -> (B <= B')%nat -> rejects X B'.
Proof. intros (n & Hn & H) HB. exists n. split; [lia|exact H]. Qed.

Lemma rejects_err p s rest d e B : e <> nilE -> rejects (SR p s rest d e) B.
Proof.
  intro He. exists 0%nat. split; [lia|]. intro f. exists (SR p s rest d e). split.
  - cbn [Nat.add fu_cont]. unfold isnil. rewrite (neq_eqb _ _ He). cbn [negb].
    rewrite orb_true_r. reflexivity.
  - left. exact He.
Qed.

Lemma rejects_stop p s B : Z.land (c_major (p_cur p)) 5 <> 4 -> incomplete p ->
  rejects (SR p s [] false nilE) B.
Proof.
  intros Hl Hi. exists 0%nat. split; [lia|]. intro f. exists (SR p s [] false nilE). split.
  - cbn [Nat.add fu_cont orb]. change (isnil nilE) with true. cbn [negb]. unfold contb.
    change (zlen (@nil Z) =? 0) with true. cbn [negb orb]. change (stStartX + stIndef) with 5.
    change stStartX with 4. rewrite (neq_eqb _ _ Hl). reflexivity.
  - right. auto.
Qed.

Lemma incomplete_stack p : p_stack p <> [] -> incomplete p.
Proof.
  intro H. unfold incomplete, finalize. destruct (p_stack p) as [|c l]; [congruence|].
  rewrite zlen_cons. pose proof (zlen_nonneg l).
  destruct (1 + zlen l >? 0) eqn:E; [|lia]. cbn [orb]. discriminate.
Qed.

Lemma incomplete_push p A : c_major (p_cur p) <> stFail -> incomplete (st_push p A).
Proof.
  intro H. apply incomplete_stack. unfold st_push. cbn [p_stack]. rewrite (neq_eqb _ _ H). discriminate.
Qed.

Lemma incomplete_setbuf p b : incomplete p -> p_stack p <> [] -> incomplete (set_buf p b).
Proof. intros _ H. apply incomplete_stack. exact H. Qed.

Lemma stack_push p A : c_major (p_cur p) <> stFail -> p_stack (st_push p A) <> [].
Proof. intro H. unfold st_push. cbn [p_stack]. rewrite (neq_eqb _ _ H). discriminate. Qed.

(* a context in which a value is expected and where the loop stops on empty input *)
Definition rctx (p : cparser) : Prop := vctx p /\ Z.land (c_major (p_cur p)) 5 <> 4.

Definition reject_goal (b : bytes) (p : cparser) (s : sink) : Prop :=
  rejects (step_value p s b) (3 * length b).

(* an argument that is cut short: the state just pushed keeps waiting *)

Lemma take_short_24 r : take 1 r = None -> r = [].
Proof.
  intro H. apply take_none in H; [|lia]. destruct r; [reflexivity|].
  rewrite zlen_cons in H. pose proof (zlen_nonneg r). lia.
Qed.

Lemma step_num_short neg q s r m : c_minor (p_cur q) = m -> 24 <= m <= 27 -> p_buf q = [] ->
  r <> [] -> take (2 ^ (m - 24)) r = None ->
  step_num neg q s r = SR (set_buf q ([] ++ r)) s [] false nilE.
Proof.
  intros Hm Hr Hb Hne Ht. unfold step_num. rewrite Hm. clear Hm.
  destruct (m =? 24) eqn:E24.
  - assert (m = 24) by lia. subst m. change (2 ^ (24 - 24)) with 1 in Ht.
    apply take_short_24 in Ht. congruence.
  - destruct ((m =? 25) || (m =? 26) || (m =? 27)) eqn:E; [|lia].
    unfold get_uint. pose proof (arg_pow m Hr). apply take_none in Ht; [|lia].
    rewrite collect_short by (try assumption; lia). reflexivity.
Qed.

Lemma step_len_short q s r m : c_minor (p_cur q) = m -> 24 <= m <= 27 -> p_buf q = [] ->
  r <> [] -> take (2 ^ (m - 24)) r = None ->
  step_len q s r = SR (set_buf q ([] ++ r)) s [] false nilE.
Proof.
  intros Hm Hr Hb Hne Ht. unfold step_len. rewrite Hm. clear Hm.
  destruct (m =? 24) eqn:E24.
  - assert (m = 24) by lia. subst m. change (2 ^ (24 - 24)) with 1 in Ht.
    apply take_short_24 in Ht. congruence.
  - destruct ((m =? 25) || (m =? 26) || (m =? 27)) eqn:E; [|lia].
    unfold get_uint. pose proof (arg_pow m Hr). apply take_none in Ht; [|lia].
    rewrite collect_short by (try assumption; lia). reflexivity.
Qed.

Lemma step_float_short w q s r : 0 <= w -> p_buf q = [] -> take w r = None ->
  step_float w q s r = SR (set_buf q ([] ++ r)) s [] false nilE.
Proof.
  intros Hw Hb Ht. unfold step_float, get_uint. apply take_none in Ht; [|lia].
  rewrite collect_short by assumption. reflexivity.
Qed.

(* the generic "pushed a state that needs more bytes than there are" *)
Lemma rejects_pushed_short p A s r (stepf : cparser -> sink -> bytes -> sres) B :
  c_major (p_cur p) <> stFail -> Z.land (c_major A) 5 <> 4 ->
  (forall b, exec_step (st_push p A) s b = stepf (st_push p A) s b) ->
  (r <> [] -> stepf (st_push p A) s r = SR (set_buf (st_push p A) ([] ++ r)) s [] false nilE) ->
  (1 <= B)%nat ->
  rejects (SR (st_push p A) s r false nilE) B.
Proof.
  intros Hcur HA Hex Hst HB.
  destruct r as [|x r'].
  - apply rejects_stop; [exact HA|]. apply incomplete_push. exact Hcur.
  - eapply rejects_reach; [apply reaches_step; apply contb_nonempty| |].
    + rewrite Hex, Hst by discriminate.
      apply (rejects_stop _ _ 0); [exact HA|]. apply incomplete_stack. cbn [set_buf p_stack].
      apply stack_push. exact Hcur.
    + lia.
Qed.

(* ---------- refused scalars ---------- *)
Lemma eInvalid_ne : eInvalidCode <> nilE. Proof. discriminate. Qed.

Lemma reject_uint f ib r p s : is_byte ib = true -> all_bytes r = true -> ib / 32 = 0 ->
  is_value (ref_body f ib r) = false -> rctx p -> s_fail s = None ->
  reject_goal (ib :: r) p s.
Proof.
  intros Hib Hr HM Href [[Hbuf Hcur] Hland] Hs.
  destruct (byte_split ib Hib) as (Hm & Hsplit & _).
  rewrite ref_m0 in Href by exact HM.
  unfold reject_goal. rewrite sv_m0 by exact HM.
  destruct (read_arg_cases (ib mod 32) r Hm) as [[H1 H2]|[[H1 H2]|[[H1 H2]|[H1 H2]]]];
    rewrite H2 in Href; try discriminate.
  - destruct (take (2 ^ (ib mod 32 - 24)) r) as [[a r1]|] eqn:Ht; [discriminate|].
    destruct (ib <? 24) eqn:E; [lia|]. destruct (ib mod 32 >? 27) eqn:E2; [lia|].
    apply (rejects_pushed_short p (mkst 0 (ib mod 32)) s r (step_num false)); try assumption.
    + discriminate.
    + intro b. apply exec_at_uint. reflexivity.
    + intro Hne. apply (step_num_short false _ s r (ib mod 32)); try assumption; reflexivity.
    + cbn [length]. lia.
  - destruct (ib <? 24) eqn:E; [lia|]. destruct (ib mod 32 >? 27) eqn:E2; [|lia].
    apply rejects_err. discriminate.
  - destruct (ib <? 24) eqn:E; [lia|]. destruct (ib mod 32 >? 27) eqn:E2; [|lia].
    apply rejects_err. discriminate.
Qed.

Lemma num_event_neg_big v : 9223372036854775807 < v -> num_event true 27 v = None.
Proof.
  intro H. unfold num_event. cbn [negb Z.eqb Pos.eqb].
  destruct (v <=? 9223372036854775807) eqn:E; [lia|reflexivity].
Qed.

Lemma reject_neg f ib r p s : is_byte ib = true -> all_bytes r = true -> ib / 32 = 1 ->
  is_value (ref_body f ib r) = false -> rctx p -> s_fail s = None ->
  reject_goal (ib :: r) p s.
Proof.
  intros Hib Hr HM Href [[Hbuf Hcur] Hland] Hs.
  destruct (byte_split ib Hib) as (Hm & Hsplit & _).
  rewrite ref_m1 in Href by exact HM.
  unfold reject_goal. rewrite sv_m1 by exact HM.
  destruct (read_arg_cases (ib mod 32) r Hm) as [[H1 H2]|[[H1 H2]|[[H1 H2]|[H1 H2]]]];
    rewrite H2 in Href.
  - change (2 ^ 63) with 9223372036854775808 in Href.
    destruct (ib mod 32 <? 9223372036854775808) eqn:E; [discriminate|lia].
  - destruct (ib mod 32 <? 24) eqn:E; [lia|]. destruct (ib mod 32 >? 27) eqn:E2; [lia|].
    destruct (take (2 ^ (ib mod 32 - 24)) r) as [[a r1]|] eqn:Ht.
    + change (2 ^ 63) with 9223372036854775808 in Href.
      destruct (be_dec a <? 9223372036854775808) eqn:En; [discriminate|].
      pose proof (take_bytes _ _ _ _ Ht Hr) as [Hba Hbr1].
      pose proof (take_some _ _ _ _ Ht) as (_ & Hl & _ & _ & _ & Hza).
      pose proof (arg_pow _ H1) as Hpow.
      pose proof (arg_bound _ a Hza Hba) as (B24 & B25 & B26 & B27).
      assert (Em : ib mod 32 = 27) by lia.
      eapply rejects_reach; [apply reaches_step; apply contb_pos; lia| |].
      * rewrite exec_at_neg by reflexivity.
        rewrite (step_num_arg true _ s r (ib mod 32) a r1) by (try reflexivity; assumption).
        rewrite Em. rewrite num_event_neg_big by lia.
        unfold after_pop. change (isnil eIntRange) with false. cbv iota.
        apply (rejects_err _ _ _ _ _ 0). discriminate.
      * cbn [length]. lia.
    + apply (rejects_pushed_short p (mkst 32 (ib mod 32)) s r (step_num true)); try assumption.
      * discriminate.
      * intro b. apply exec_at_neg. reflexivity.
      * intro Hne. apply (step_num_short true _ s r (ib mod 32)); try assumption; reflexivity.
      * cbn [length]. lia.
  - destruct (ib mod 32 <? 24) eqn:E; [lia|]. destruct (ib mod 32 >? 27) eqn:E2; [|lia].
    apply rejects_err. discriminate.
  - destruct (ib mod 32 <? 24) eqn:E; [lia|]. destruct (ib mod 32 >? 27) eqn:E2; [|lia].
    apply rejects_err. discriminate.
Qed.

Lemma reject_tag ib r p s : ib / 32 = 6 -> reject_goal (ib :: r) p s.
Proof. intro HM. unfold reject_goal. rewrite sv_m6 by exact HM. apply rejects_err. discriminate. Qed.

Lemma reject_simple ib r p s : is_byte ib = true -> all_bytes r = true -> ib / 32 = 7 ->
  is_value (ref_simple (ib mod 32) r) = false -> rctx p -> s_fail s = None ->
  reject_goal (ib :: r) p s.
Proof.
  intros Hib Hr HM Href [[Hbuf Hcur] Hland] Hs.
  destruct (byte_split ib Hib) as (Hm & Hsplit & _).
  unfold reject_goal. rewrite sv_m7 by exact HM. unfold ref_simple in Href.
  destruct (ib mod 32 =? 20) eqn:E20; [discriminate|].
  destruct (ib mod 32 =? 21) eqn:E21; [discriminate|].
  destruct (ib mod 32 =? 22) eqn:E22; [discriminate|].
  destruct (ib mod 32 =? 23) eqn:E23; [discriminate|].
  destruct (ib =? 244) eqn:E; [lia|]. destruct (ib =? 245) eqn:E'; [lia|].
  destruct ((ib =? 246) || (ib =? 247)) eqn:E''; [lia|].
  destruct (ib =? 249) eqn:E249; [apply rejects_err; discriminate|].
  destruct (ib mod 32 =? 26) eqn:E26.
  { destruct ((ib =? 250) || (ib =? 251)) eqn:Ef; [|lia]. assert (ib = 250) as -> by lia.
    destruct (take 4 r) as [[a r1]|] eqn:Ht; [discriminate|].
    apply (rejects_pushed_short p (mkst 250 stStart) s r (step_float 4)); try assumption.
    - discriminate.
    - intro b. apply exec_at_f32. reflexivity.
    - intros _. apply step_float_short; [lia|assumption|assumption].
    - cbn [length]. lia. }
  destruct (ib mod 32 =? 27) eqn:E27.
  { destruct ((ib =? 250) || (ib =? 251)) eqn:Ef; [|lia]. assert (ib = 251) as -> by lia.
    destruct (take 8 r) as [[a r1]|] eqn:Ht; [discriminate|].
    apply (rejects_pushed_short p (mkst 251 stStart) s r (step_float 8)); try assumption.
    - discriminate.
    - intro b. apply exec_at_f64. reflexivity.
    - intros _. apply step_float_short; [lia|assumption|assumption].
    - cbn [length]. lia. }
  destruct ((ib =? 250) || (ib =? 251)) eqn:Ef; [lia|].
  apply rejects_err. discriminate.
Qed.

(* ---------- refused or cut-short length headers ---------- *)
Lemma hdr_rej p s X m r B : p_buf p = [] -> c_major (p_cur p) <> stFail -> X + 4 <> stFail ->
  0 <= m < 32 -> all_bytes r = true ->
  match read_arg m r with ArgVal n _ => 9223372036854775807 < n | _ => True end ->
  (1 <= B)%nat -> rejects (init_byte_seq p s X m r) B.
Proof.
  intros Hbuf Hcur HX Hm Hr Ha HB. unfold init_byte_seq.
  destruct (read_arg_cases m r Hm) as [[H1 H2]|[[H1 H2]|[[H1 H2]|[H1 H2]]]]; rewrite H2 in Ha.
  - lia.
  - destruct (m <? 24) eqn:E; [lia|]. destruct (m >? 27) eqn:E2; [lia|].
    destruct (take (2 ^ (m - 24)) r) as [[a r1]|] eqn:Ht.
    + pose proof (take_some _ _ _ _ Ht) as (_ & Hl & _ & _ & _ & Hza).
      pose proof (arg_pow _ H1) as Hpow.
      eapply rejects_reach; [apply reaches_step; apply contb_pos; lia| |].
      * rewrite exec_at_len by reflexivity.
        rewrite (step_len_arg _ s r m a r1) by (try reflexivity; assumption).
        destruct (be_dec a >? 9223372036854775807) eqn:E3; [|lia].
        apply (rejects_err _ _ _ _ _ 0). discriminate.
      * lia.
    + apply (rejects_pushed_short (st_push p (mkst (X + stStartX) stStart)) (mkst stLen m) s r step_len).
      * exact HX.
      * discriminate.
      * intro b. apply exec_at_len. reflexivity.
      * intro Hne. apply (step_len_short _ s r m); try assumption; reflexivity.
      * exact HB.
  - destruct (m <? 24) eqn:E; [lia|]. destruct (m >? 27) eqn:E2; [|lia].
    apply rejects_err. discriminate.
  - destruct (m <? 24) eqn:E; [lia|]. destruct (m >? 27) eqn:E2; [|lia].
    apply rejects_err. discriminate.
Qed.

(* classification of the header of a string or container *)
Lemma hdr_cases p s X m r : p_buf p = [] -> c_major (p_cur p) <> stFail -> X + 4 <> stFail ->
  0 <= m < 32 -> all_bytes r = true ->
  (forall B, (1 <= B)%nat -> rejects (init_byte_seq p s X m r) B) \/
  (exists n r1 k, read_arg m r = ArgVal n r1 /\ (k <= 1)%nat /\ (length r1 + k <= length r)%nat /\
     all_bytes r1 = true /\ 0 <= n <= 9223372036854775807 /\
     reaches (init_byte_seq p s X m r) (SR (hdr p X n) s r1 false nilE) k).
Proof.
  intros Hbuf Hcur HX Hm Hr.
  destruct (read_arg m r) as [n r1|r1| |] eqn:Ha.
  - destruct (n >? 9223372036854775807) eqn:En.
    + left. intros B HB. apply hdr_rej; try assumption. rewrite Ha. lia.
    + right. destruct (byte_seq_hdr p s X m r n r1 Hbuf Hcur HX Hm Hr Ha ltac:(lia))
        as (k & Hk & Hlk & Hbr1 & Hn0 & Hreach).
      exists n, r1, k. repeat split; try assumption; lia.
  - left. intros B HB. apply hdr_rej; try assumption. rewrite Ha. exact I.
  - left. intros B HB. apply hdr_rej; try assumption. rewrite Ha. exact I.
  - left. intros B HB. apply hdr_rej; try assumption. rewrite Ha. exact I.
Qed.

Lemma stack_hdr p X n : c_major (p_cur p) <> stFail -> p_stack (hdr p X n) <> [].
Proof. intro H. unfold hdr. cbn [len_push p_stack]. apply stack_push. exact H. Qed.

Lemma skipn_zlen (b : bytes) : zskipn (zlen b) b = [].
Proof. unfold zskipn, zlen. rewrite Nat2Z.id. apply skipn_all. Qed.

Lemma step_bytes_short p s b n : c_minor (p_cur p) = 1 -> p_lcur p = n -> zlen b < n ->
  s_fail s = None ->
  exists p' s', step_bytes p s b = SR p' s' [] false nilE /\ p_stack p' = p_stack p /\
                c_major (p_cur p') = c_major (p_cur p).
Proof.
  intros Hmin Hl Hn Hs. unfold step_bytes. rewrite Hmin. change (1 =? stStart) with true. cbv iota.
  rewrite vis_ok by exact Hs. change (isnil nilE) with true. cbv iota. cbn [negb].
  change (p_lcur (set_cur p (mkst (c_major (p_cur p)) stCont))) with (p_lcur p). rewrite Hl.
  destruct (zlen b >=? n) eqn:E; [lia|].
  pose proof (zlen_nonneg b). destruct (zlen b <? 0) eqn:E2; [lia|].
  rewrite emit_bytes_ok by (rewrite sadd_fail; exact Hs). cbn [negb]. cbv iota.
  change (isnil nilE) with true. cbn [negb]. cbv iota.
  rewrite skipn_zlen. eexists. eexists. split; [reflexivity|]. split; reflexivity.
Qed.

Lemma reject_text f ib r p s : is_byte ib = true -> all_bytes r = true -> ib / 32 = 3 ->
  is_value (ref_body f ib r) = false -> rctx p -> s_fail s = None ->
  reject_goal (ib :: r) p s.
Proof.
  intros Hib Hr HM Href [[Hbuf Hcur] Hland] Hs.
  destruct (byte_split ib Hib) as (Hm & Hsplit & _).
  rewrite ref_m3 in Href by exact HM.
  unfold reject_goal. rewrite sv_m3 by exact HM.
  destruct (ib mod 32 =? 31) eqn:E31; [apply rejects_err; discriminate|].
  destruct (hdr_cases p s 96 (ib mod 32) r Hbuf Hcur ltac:(discriminate) Hm Hr)
    as [Hrej|(n & r1 & k & Ha & Hk & Hlk & Hbr1 & Hn & Hreach)].
  - apply Hrej. cbn [length]. lia.
  - rewrite Ha in Href. destruct (take n r1) as [[a r']|] eqn:Ht; [discriminate|].
    apply take_none in Ht; [|lia].
    eapply rejects_reach; [exact Hreach| |].
    + eapply rejects_reach; [apply reaches_step; apply contb_startx; reflexivity| |].
      * rewrite exec_at_textx by reflexivity. change (p_lcur (hdr p 96 n)) with n.
        pose proof (zlen_nonneg r1).
        destruct (n =? 0) eqn:En; [lia|]. cbv zeta.
        destruct (zlen r1 =? 0) eqn:Ez.
        -- assert (r1 = []) by (destruct r1; [reflexivity|rewrite zlen_cons in Ez; pose proof (zlen_nonneg r1); lia]).
           subst r1. apply (rejects_stop _ _ 0); [discriminate|].
           apply incomplete_stack. apply stack_hdr. exact Hcur.
        -- unfold step_text. change (p_lcur (clear_startx (hdr p 96 n))) with n.
           rewrite collect_short by (try assumption; try reflexivity; lia).
           apply (rejects_stop _ _ 0); [discriminate|].
           apply incomplete_stack. apply stack_hdr. exact Hcur.
      * reflexivity.
    + cbn [length]. lia.
Qed.

Lemma reject_bytes f ib r p s : is_byte ib = true -> all_bytes r = true -> ib / 32 = 2 ->
  is_value (ref_body f ib r) = false -> rctx p -> s_fail s = None ->
  reject_goal (ib :: r) p s.
Proof.
  intros Hib Hr HM Href [[Hbuf Hcur] Hland] Hs.
  destruct (byte_split ib Hib) as (Hm & Hsplit & _).
  rewrite ref_m2 in Href by exact HM.
  unfold reject_goal. rewrite sv_m2 by exact HM.
  destruct (ib mod 32 =? 31) eqn:E31; [apply rejects_err; discriminate|].
  destruct (hdr_cases p s 64 (ib mod 32) r Hbuf Hcur ltac:(discriminate) Hm Hr)
    as [Hrej|(n & r1 & k & Ha & Hk & Hlk & Hbr1 & Hn & Hreach)].
  - apply Hrej. cbn [length]. lia.
  - rewrite Ha in Href. destruct (take n r1) as [[a r']|] eqn:Ht; [discriminate|].
    apply take_none in Ht; [|lia].
    eapply rejects_reach; [exact Hreach| |].
    + eapply rejects_reach; [apply reaches_step; apply contb_startx; reflexivity| |].
      * rewrite exec_at_bytesx by reflexivity. change (p_lcur (hdr p 64 n)) with n.
        pose proof (zlen_nonneg r1).
        destruct (n =? 0) eqn:En; [lia|]. cbv zeta.
        destruct (zlen r1 =? 0) eqn:Ez.
        -- assert (r1 = []) by (destruct r1; [reflexivity|rewrite zlen_cons in Ez; pose proof (zlen_nonneg r1); lia]).
           subst r1. apply (rejects_stop _ _ 0); [discriminate|].
           apply incomplete_stack. apply stack_hdr. exact Hcur.
        -- destruct (step_bytes_short (clear_startx (hdr p 64 n)) s r1 n) as (p' & s' & E & Est & Ecur);
             try reflexivity; try assumption.
           rewrite E. apply (rejects_stop _ _ 0).
           ++ rewrite Ecur. discriminate.
           ++ apply incomplete_stack. rewrite Est. apply stack_hdr. exact Hcur.
      * reflexivity.
    + cbn [length]. lia.
Qed.

(* ---------- refused containers ---------- *)
Definition reject_spec (f : nat) : Prop :=
  forall b, is_value (cbor_ref f b) = false -> all_bytes b = true -> fuel_ok f b ->
  forall p s, rctx p -> s_fail s = None -> (b = [] -> incomplete p) -> reject_goal b p s.

Lemma sub_ctx_rctx p X n : p_buf p = [] -> X = 128 \/ X = 160 -> rctx (sub_ctx p X n).
Proof. intros H [-> | ->]; (split; [split; [exact H|discriminate]|discriminate]). Qed.
Lemma ind_ctx_rctx p X : p_buf p = [] -> X = 129 \/ X = 161 -> rctx (ind_ctx p X).
Proof. intros H [-> | ->]; (split; [split; [exact H|discriminate]|discriminate]). Qed.
Lemma sub_ctx_incomplete p X n : incomplete (sub_ctx p X n).
Proof. apply incomplete_stack. discriminate. Qed.
Lemma ind_ctx_incomplete p X : incomplete (ind_ctx p X).
Proof. apply incomplete_stack. discriminate. Qed.

Lemma nonempty_zlen (r : bytes) : r <> [] -> 0 < zlen r.
Proof. destruct r as [|x r']; [congruence|]. intros _. rewrite zlen_cons. pose proof (zlen_nonneg r'). lia. Qed.

Lemma arr_loop_rej f : reject_spec f -> forall g n b acc,
  is_value (items_def f g n b acc) = false -> 0 < n -> all_bytes b = true -> fuel_ok f b ->
  (length b < g)%nat ->
  forall p s, p_buf p = [] -> s_fail s = None ->
  rejects (step_value (sub_ctx p 128 n) s b) (3 * length b).
Proof.
  intros Hrej. induction g as [|g IH]; intros n b acc H Hn Hb Hf Hg p s Hbuf Hs; [lia|].
  rewrite items_def_eq in H. destruct (n <=? 0) eqn:E; [lia|].
  destruct (cbor_ref f b) as [v1 r1| | |] eqn:Hv1.
  - destruct (value_ok f b v1 r1 Hv1 Hb Hf (sub_ctx p 128 n) s (sub_ctx_vctx p 128 n Hbuf ltac:(discriminate)) Hs)
      as (t1 & n1 & _ & _ & (Hc1 & Hbr1) & Hreach1).
    destruct (n =? 1) eqn:En1.
    { assert (n = 1) by lia. subst n. rewrite items_def_eq in H. discriminate. }
    apply (rejects_reach _ _ _ (1 + 3 * length r1) _ Hreach1); [|lia].
    rewrite after_value_sub_more by (auto; lia).
    destruct r1 as [|x r1'].
    + apply rejects_stop; [discriminate|apply sub_ctx_incomplete].
    + apply (rejects_reach _ _ 1 (3 * length (x :: r1')) _ (reaches_step _ _ _ (contb_nonempty _ _ _))); [|lia].
      rewrite exec_at_arr by reflexivity. rewrite step_array_more by lia.
      apply IH with (acc := v1 :: acc); try assumption; try lia;
        try (rewrite sadd_fail; exact Hs); try (destruct Hf; split; [lia|assumption]).
  - apply Hrej; try assumption.
    + rewrite Hv1. reflexivity.
    + apply sub_ctx_rctx; auto.
    + intros _. apply sub_ctx_incomplete.
  - apply Hrej; try assumption.
    + rewrite Hv1. reflexivity.
    + apply sub_ctx_rctx; auto.
    + intros _. apply sub_ctx_incomplete.
  - apply Hrej; try assumption.
    + rewrite Hv1. reflexivity.
    + apply sub_ctx_rctx; auto.
    + intros _. apply sub_ctx_incomplete.
Qed.

Lemma arr_ind_loop_rej f : reject_spec f -> forall g b acc,
  is_value (items_ind f g b acc) = false -> b <> [] -> all_bytes b = true -> fuel_ok f b ->
  (length b < g)%nat ->
  forall p s, p_buf p = [] -> s_fail s = None ->
  rejects (indef_body true (ind_ctx p 129) s b) (3 * length b).
Proof.
  intros Hrej. induction g as [|g IH]; intros b acc H Hne Hb Hf Hg p s Hbuf Hs; [lia|].
  destruct b as [|x r]; [congruence|].
  destruct (Z.eq_dec x 255) as [->|Hx]; [rewrite items_ind_S in H; discriminate|].
  rewrite items_ind_other in H by exact Hx.
  unfold indef_body. destruct (x =? 255) eqn:Ex; [lia|].
  destruct (cbor_ref f (x :: r)) as [v1 r1| | |] eqn:Hv1.
  - destruct (value_ok f _ v1 r1 Hv1 Hb Hf (ind_ctx p 129) s (ind_ctx_vctx p 129 Hbuf ltac:(discriminate)) Hs)
      as (t1 & n1 & _ & _ & (Hc1 & Hbr1) & Hreach1).
    apply (rejects_reach _ _ _ (1 + 3 * length r1) _ Hreach1); [|lia].
    rewrite after_value_ind by auto.
    destruct r1 as [|y r1'].
    + apply rejects_stop; [discriminate|apply ind_ctx_incomplete].
    + apply (rejects_reach _ _ 1 (3 * length (y :: r1')) _ (reaches_step _ _ _ (contb_nonempty _ _ _))); [|lia].
      rewrite exec_at_arri by reflexivity.
      apply IH with (acc := v1 :: acc); try assumption; try lia; try discriminate;
        try (rewrite sadd_fail; exact Hs); try (destruct Hf; split; [lia|assumption]).
  - apply Hrej; try assumption; [rewrite Hv1; reflexivity|apply ind_ctx_rctx; auto|discriminate].
  - apply Hrej; try assumption; [rewrite Hv1; reflexivity|apply ind_ctx_rctx; auto|discriminate].
  - apply Hrej; try assumption; [rewrite Hv1; reflexivity|apply ind_ctx_rctx; auto|discriminate].
Qed.

Lemma items_def_0 f g b acc : items_def f g 0 b acc = RValue (CArr (rev acc)) b.
Proof. rewrite items_def_eq. reflexivity. Qed.
Lemma pairs_def_0 f g b acc : pairs_def f g 0 b acc = RValue (CObj (rev acc)) b.
Proof. rewrite pairs_def_eq. reflexivity. Qed.

Lemma stack_push2 p A B : c_major A <> stFail -> p_stack (st_push (st_push p A) B) <> [].
Proof. intro H. apply stack_push. exact H. Qed.

Lemma reject_arr f ib r p s : reject_spec f ->
  is_byte ib = true -> all_bytes r = true -> ib / 32 = 4 -> fuel_ok (S f) (ib :: r) ->
  is_value (ref_body f ib r) = false -> rctx p -> s_fail s = None ->
  reject_goal (ib :: r) p s.
Proof.
  intros Hrej Hib Hr HM Hfuel Href [[Hbuf Hcur] Hland] Hs.
  destruct (byte_split ib Hib) as (Hm & Hsplit & _).
  rewrite ref_m4 in Href by exact HM.
  unfold reject_goal. rewrite sv_m4 by exact HM.
  assert (Hf : fuel_ok f r) by (destruct Hfuel as [H1 H2]; cbn [length] in H1; split; lia).
  destruct (Z.eq_dec (ib mod 32) 31) as [E31|E31].
  - (* indefinite *)
    rewrite E31 in *. change (read_arg 31 r) with (ArgIndef r) in Href.
    unfold init_sub. change (31 =? 31) with true. cbv iota.
    change (128 + stIndef) with 129. change (128 + stStartX + stIndef) with 133. change stStart with 1.
    destruct r as [|y r'].
    + apply rejects_stop; [discriminate|]. apply incomplete_stack. apply stack_push2. discriminate.
    + eapply rejects_reach; [apply reaches_step; apply contb_nonempty| |].
      * rewrite exec_at_arrix by reflexivity.
        rewrite vis_ok by exact Hs. change (isnil nilE) with true. cbn [negb]. cbv iota.
        rewrite pop_push2_ind by (auto; discriminate).
        apply (arr_ind_loop_rej f Hrej f (y :: r') []); try assumption; try discriminate;
          try (destruct Hf; assumption); try (rewrite sadd_fail; exact Hs).
      * cbn [length]. lia.
  - destruct (ib mod 32 >? 27) eqn:E27.
    + unfold init_sub. destruct (ib mod 32 =? 31) eqn:E; [lia|].
      destruct (ib mod 32 <? 24) eqn:E'; [lia|]. rewrite E27. apply rejects_err. discriminate.
    + rewrite init_sub_def by lia. change stStart with 1.
      destruct (hdr_cases (st_push p (mkst 128 1)) s 128 (ib mod 32) r Hbuf ltac:(discriminate)
                  ltac:(discriminate) Hm Hr)
        as [Hr'|(n & r1 & k & Ha & Hk & Hlk & Hbr1 & Hn & Hreach)].
      * apply Hr'. cbn [length]. lia.
      * rewrite Ha in Href.
        destruct (n =? 0) eqn:En.
        { assert (n = 0) by lia. subst n. rewrite items_def_0 in Href. discriminate. }
        eapply rejects_reach; [exact Hreach| |].
        -- eapply rejects_reach; [apply reaches_step; apply contb_startx; reflexivity| |].
           ++ rewrite exec_at_arrx by reflexivity.
              change (p_lcur (hdr (st_push p (mkst 128 1)) 128 n)) with n.
              rewrite vis_ok by exact Hs. change (isnil nilE) with true. cbv iota.
              rewrite pop_hdr_sub by (auto; discriminate).
              rewrite step_array_more by lia.
              apply (arr_loop_rej f Hrej f n r1 []); try assumption; try lia;
                try (destruct Hf; split; [lia|assumption]); try (destruct Hf; lia);
                try (rewrite sadd_fail; exact Hs).
           ++ reflexivity.
        -- cbn [length]. lia.
Qed.

(* ---------- refused map keys and pairs ---------- *)
Lemma key_rej f kb r C s B : is_byte kb = true -> all_bytes r = true -> kb / 32 = 3 ->
  is_value (ref_body f kb r) = false -> vctx C -> s_fail s = None -> (3 <= B)%nat ->
  rejects (init_map_key C s (kb :: r)) B.
Proof.
  intros Hib Hr HM Href [Hbuf Hcur] Hs HB.
  destruct (byte_split kb Hib) as (Hm & Hsplit & _).
  rewrite ref_m3 in Href by exact HM.
  unfold init_map_key. rewrite HM. change (negb (3 * 32 =? mText)) with false. cbv iota.
  destruct (kb mod 32 =? 31) eqn:E31; [apply rejects_err; discriminate|].
  destruct (hdr_cases C s 168 (kb mod 32) r Hbuf Hcur ltac:(discriminate) Hm Hr)
    as [Hrej|(n & r1 & k & Ha & Hk & Hlk & Hbr1 & Hn & Hreach)].
  - apply Hrej. lia.
  - rewrite Ha in Href. destruct (take n r1) as [[a r']|] eqn:Ht; [discriminate|].
    apply take_none in Ht; [|lia].
    apply (rejects_reach _ _ _ 1 _ Hreach); [|lia].
    apply (rejects_reach _ _ 1 0 _ (reaches_step (hdr C 168 n) s r1 (contb_startx r1 (hdr C 168 n) eq_refl))); [|lia].
    rewrite exec_at_keyx by reflexivity. change (p_lcur (hdr C 168 n)) with n.
    pose proof (zlen_nonneg r1).
    destruct (n =? 0) eqn:En; [lia|].
    unfold step_key. change (p_lcur (clear_startx (hdr C 168 n))) with n.
    rewrite collect_short by (try assumption; try reflexivity; lia).
    apply rejects_stop; [discriminate|].
    apply incomplete_stack. apply stack_hdr. exact Hcur.
Qed.

Lemma pair_cases f kb r C s : reject_spec f ->
  all_bytes (kb :: r) = true -> fuel_ok f (kb :: r) ->
  rctx C -> p_stack C <> [] -> s_fail s = None ->
  rejects (init_map_key C s (kb :: r)) (3 * length (kb :: r)) \/
  (kb / 32 = 3 /\ exists a r' v r'' ev j,
      cbor_ref f (kb :: r) = RValue (CStr a) r' /\ cbor_ref f r' = RValue v r'' /\
      (j + 2 + 3 * length r'' <= 3 * length (kb :: r))%nat /\ all_bytes r'' = true /\
      reaches (init_map_key C s (kb :: r)) (after_value C (sadd s ev) r'' nilE) j).
Proof.
  intros Hrej Hb Hf [HC Hland] Hst Hs.
  pose proof Hb as Hb'. rewrite all_bytes_cons in Hb'. apply andb_true_iff in Hb' as [Hkb Hr].
  destruct (Z.eq_dec (kb / 32) 3) as [HM|HM].
  2:{ left. unfold init_map_key.
      assert (E : negb (kb / 32 * 32 =? mText) = true) by (unfold mText; lia).
      rewrite E. apply rejects_err. discriminate. }
  destruct f as [|f']; [destruct Hf; lia|].
  destruct (cbor_ref (S f') (kb :: r)) as [vk r'| | |] eqn:Hk.
  - destruct (ref_text_inv _ _ _ _ _ Hkb HM Hk) as (f0 & n & r1 & a & Ef & Ha & Ht & ->).
    assert (Hsz : zlen r <= MaxInt64).
    { pose proof (fuel_ok_size _ _ Hf) as Hz. rewrite zlen_cons in Hz. lia. }
    destruct (key_ok kb r n r1 a r' C s Hkb Hr HM Hsz Ha Ht HC Hs)
      as (byref & j & Hba & (Hc & Hbr') & Hreach).
    assert (Hf' : fuel_ok (S f') r') by (destruct Hf as [H1 H2]; cbn [length] in *; split; lia).
    destruct (cbor_ref (S f') r') as [v r''| | |] eqn:Hv.
    + right. split; [exact HM|].
      destruct (value_ok _ r' v r'' Hv Hbr' Hf' C (sadd s [key_event a byref]) HC
                  ltac:(rewrite sadd_fail; exact Hs))
        as (t & nv & _ & _ & (Hcv' & Hbr'') & Hreachv).
      exists a, r', v, r'', ([key_event a byref] ++ flatten t), (j + (1 + nv))%nat.
      split; [first [reflexivity|exact Hk]|]. split; [first [reflexivity|exact Hv]|]. split; [lia|]. split; [exact Hbr''|].
      eapply reaches_trans; [exact Hreach|].
      eapply reaches_trans.
      { apply reaches_step. apply contb_pos.
        destruct r' as [|y r0]; [|rewrite zlen_cons; pose proof (zlen_nonneg r0); lia].
        rewrite cbor_ref_nil in Hv. discriminate. }
      rewrite elem_step by (destruct HC; assumption).
      rewrite sadd_app in Hreachv. exact Hreachv.
    + left. apply (rejects_reach _ _ _ (1 + 3 * length r') _ Hreach); [|lia].
      assert (Hel : incomplete (elem_st C)).
      { apply incomplete_stack. unfold elem_st. cbn [set_cur p_stack]. apply stack_push.
        destruct HC; assumption. }
      destruct r' as [|y r0].
      * apply rejects_stop; [discriminate|exact Hel].
      * apply (rejects_reach _ _ 1 (3 * length (y :: r0)) _ (reaches_step _ _ _ (contb_nonempty _ _ _))); [|lia].
        rewrite elem_step by (destruct HC; assumption).
        apply Hrej; try assumption; try discriminate; try (rewrite Hv; reflexivity);
          try (split; assumption); try (rewrite sadd_fail; exact Hs).
    + left. apply (rejects_reach _ _ _ (1 + 3 * length r') _ Hreach); [|lia].
      assert (Hel : incomplete (elem_st C)).
      { apply incomplete_stack. unfold elem_st. cbn [set_cur p_stack]. apply stack_push.
        destruct HC; assumption. }
      destruct r' as [|y r0].
      * apply rejects_stop; [discriminate|exact Hel].
      * apply (rejects_reach _ _ 1 (3 * length (y :: r0)) _ (reaches_step _ _ _ (contb_nonempty _ _ _))); [|lia].
        rewrite elem_step by (destruct HC; assumption).
        apply Hrej; try assumption; try discriminate; try (rewrite Hv; reflexivity);
          try (split; assumption); try (rewrite sadd_fail; exact Hs).
    + left. apply (rejects_reach _ _ _ (1 + 3 * length r') _ Hreach); [|lia].
      assert (Hel : incomplete (elem_st C)).
      { apply incomplete_stack. unfold elem_st. cbn [set_cur p_stack]. apply stack_push.
        destruct HC; assumption. }
      destruct r' as [|y r0].
      * apply rejects_stop; [discriminate|exact Hel].
      * apply (rejects_reach _ _ 1 (3 * length (y :: r0)) _ (reaches_step _ _ _ (contb_nonempty _ _ _))); [|lia].
        rewrite elem_step by (destruct HC; assumption).
        apply Hrej; try assumption; try discriminate; try (rewrite Hv; reflexivity);
          try (split; assumption); try (rewrite sadd_fail; exact Hs).
  - left. rewrite cbor_ref_S in Hk. apply (key_rej f'); try assumption.
    + rewrite Hk. reflexivity.
    + cbn [length]. lia.
  - left. rewrite cbor_ref_S in Hk. apply (key_rej f'); try assumption.
    + rewrite Hk. reflexivity.
    + cbn [length]. lia.
  - left. rewrite cbor_ref_S in Hk. apply (key_rej f'); try assumption.
    + rewrite Hk. reflexivity.
    + cbn [length]. lia.
Qed.

Lemma step_map_empty p X k s : 0 < k ->
  step_map (sub_ctx p X k) s [] = SR (sub_ctx p X k) s [] false nilE.
Proof.
  intro H. unfold step_map, handle_len. cbn [sub_ctx p_lcur].
  destruct (k >? 0) eqn:E; [reflexivity|lia].
Qed.

Lemma map_loop_rej f : reject_spec f -> forall g n b acc,
  is_value (pairs_def f g n b acc) = false -> 0 < n -> all_bytes b = true -> fuel_ok f b ->
  (length b < g)%nat ->
  forall p s, p_buf p = [] -> s_fail s = None ->
  rejects (step_map (sub_ctx p 160 n) s b) (3 * length b).
Proof.
  intros Hrej. induction g as [|g IH]; intros n b acc H Hn Hb Hf Hg p s Hbuf Hs; [lia|].
  destruct b as [|kb r].
  { rewrite step_map_empty by exact Hn. apply rejects_stop; [discriminate|apply sub_ctx_incomplete]. }
  rewrite step_map_more by (try exact Hn; rewrite zlen_cons; pose proof (zlen_nonneg r); lia).
  destruct (pair_cases f kb r (sub_ctx p 160 n) s Hrej Hb Hf (sub_ctx_rctx p 160 n Hbuf ltac:(auto))
              ltac:(discriminate) Hs)
    as [Hr|(HM & a & r' & v & r'' & ev & j & Hk & Hv & Hc & Hbr'' & Hreach)]; [exact Hr|].
  rewrite pairs_def_eq in H. destruct (n <=? 0) eqn:E; [lia|].
  rewrite HM in H. change (negb (3 =? 3)) with false in H. cbv iota in H.
  rewrite Hk, Hv in H.
  destruct (n =? 1) eqn:En1.
  { assert (n = 1) by lia. subst n. rewrite pairs_def_0 in H. discriminate. }
  apply (rejects_reach _ _ _ (1 + 3 * length r'') _ Hreach); [|lia].
  rewrite after_value_sub_more by (auto; lia).
  destruct r'' as [|x r0].
  - apply rejects_stop; [discriminate|apply sub_ctx_incomplete].
  - apply (rejects_reach _ _ 1 (3 * length (x :: r0)) _ (reaches_step _ _ _ (contb_nonempty _ _ _))); [|lia].
    rewrite exec_at_map by reflexivity.
    apply IH with (acc := (a, v) :: acc); try assumption; try lia;
      try (rewrite sadd_fail; exact Hs); try (destruct Hf; split; [lia|assumption]).
Qed.

Lemma map_ind_loop_rej f : reject_spec f -> forall g b acc,
  is_value (pairs_ind f g b acc) = false -> b <> [] -> all_bytes b = true -> fuel_ok f b ->
  (length b < g)%nat ->
  forall p s, p_buf p = [] -> s_fail s = None ->
  rejects (indef_body false (ind_ctx p 161) s b) (3 * length b).
Proof.
  intros Hrej. induction g as [|g IH]; intros b acc H Hne Hb Hf Hg p s Hbuf Hs; [lia|].
  destruct b as [|kb r]; [congruence|].
  destruct (Z.eq_dec kb 255) as [->|Hx]; [rewrite pairs_ind_S in H; discriminate|].
  rewrite pairs_ind_other in H by exact Hx.
  unfold indef_body. destruct (kb =? 255) eqn:Ex; [lia|].
  destruct (pair_cases f kb r (ind_ctx p 161) s Hrej Hb Hf (ind_ctx_rctx p 161 Hbuf ltac:(auto))
              ltac:(discriminate) Hs)
    as [Hr|(HM & a & r' & v & r'' & ev & j & Hk & Hv & Hc & Hbr'' & Hreach)]; [exact Hr|].
  rewrite HM in H. change (negb (3 =? 3)) with false in H. cbv iota in H.
  rewrite Hk, Hv in H.
  apply (rejects_reach _ _ _ (1 + 3 * length r'') _ Hreach); [|lia].
  rewrite after_value_ind by auto.
  destruct r'' as [|x r0].
  - apply rejects_stop; [discriminate|apply ind_ctx_incomplete].
  - apply (rejects_reach _ _ 1 (3 * length (x :: r0)) _ (reaches_step _ _ _ (contb_nonempty _ _ _))); [|lia].
    rewrite exec_at_mapi by reflexivity.
    apply IH with (acc := (a, v) :: acc); try assumption; try lia; try discriminate;
      try (rewrite sadd_fail; exact Hs); try (destruct Hf; split; [lia|assumption]).
Qed.

Lemma reject_map f ib r p s : reject_spec f ->
  is_byte ib = true -> all_bytes r = true -> ib / 32 = 5 -> fuel_ok (S f) (ib :: r) ->
  is_value (ref_body f ib r) = false -> rctx p -> s_fail s = None ->
  reject_goal (ib :: r) p s.
Proof.
  intros Hrej Hib Hr HM Hfuel Href [[Hbuf Hcur] Hland] Hs.
  destruct (byte_split ib Hib) as (Hm & Hsplit & _).
  rewrite ref_m5 in Href by exact HM.
  unfold reject_goal. rewrite sv_m5 by exact HM.
  assert (Hf : fuel_ok f r) by (destruct Hfuel as [H1 H2]; cbn [length] in H1; split; lia).
  destruct (Z.eq_dec (ib mod 32) 31) as [E31|E31].
  - rewrite E31 in *. change (read_arg 31 r) with (ArgIndef r) in Href.
    unfold init_sub. change (31 =? 31) with true. cbv iota.
    change (160 + stIndef) with 161. change (160 + stStartX + stIndef) with 165. change stStart with 1.
    destruct r as [|y r'].
    + apply rejects_stop; [discriminate|]. apply incomplete_stack. apply stack_push2. discriminate.
    + apply (rejects_reach _ _ 1 (3 * length (y :: r')) _ (reaches_step _ _ _ (contb_nonempty _ _ _)));
        [|cbn [length]; lia].
      rewrite exec_at_mapix by reflexivity.
      rewrite vis_ok by exact Hs. change (isnil nilE) with true. cbn [negb]. cbv iota.
      rewrite pop_push2_ind by (auto; discriminate).
      apply (map_ind_loop_rej f Hrej f (y :: r') []); try assumption; try discriminate;
        try (destruct Hf; assumption); try (rewrite sadd_fail; exact Hs).
  - destruct (ib mod 32 >? 27) eqn:E27.
    + unfold init_sub. destruct (ib mod 32 =? 31) eqn:E; [lia|].
      destruct (ib mod 32 <? 24) eqn:E'; [lia|]. rewrite E27. apply rejects_err. discriminate.
    + rewrite init_sub_def by lia. change stStart with 1.
      destruct (hdr_cases (st_push p (mkst 160 1)) s 160 (ib mod 32) r Hbuf ltac:(discriminate)
                  ltac:(discriminate) Hm Hr)
        as [Hr'|(n & r1 & k & Ha & Hk & Hlk & Hbr1 & Hn & Hreach)].
      * apply Hr'. cbn [length]. lia.
      * rewrite Ha in Href.
        destruct (n =? 0) eqn:En.
        { assert (n = 0) by lia. subst n. rewrite pairs_def_0 in Href. discriminate. }
        apply (rejects_reach _ _ _ (1 + 3 * length r1) _ Hreach); [|cbn [length]; lia].
        apply (rejects_reach _ _ 1 (3 * length r1) _ (reaches_step (hdr (st_push p (mkst 160 1)) 160 n) s r1 (contb_startx r1 (hdr (st_push p (mkst 160 1)) 160 n) eq_refl))); [|lia].
        rewrite exec_at_mapx by reflexivity.
        change (p_lcur (hdr (st_push p (mkst 160 1)) 160 n)) with n.
        rewrite vis_ok by exact Hs. change (isnil nilE) with true. cbv iota.
        rewrite pop_hdr_sub by (auto; discriminate).
        apply (map_loop_rej f Hrej f n r1 []); try assumption; try lia;
          try (destruct Hf; split; [lia|assumption]); try (destruct Hf; lia);
          try (rewrite sadd_fail; exact Hs).
Qed.

(* ---------- everything that is not a value of the subset is refused, in any context ---------- *)
Theorem reject_ok : forall f, reject_spec f.
Proof.
  induction f as [|f IH]; intros b H Hb Hf p s Hp Hs Hemp; [destruct Hf; lia|].
  destruct b as [|ib r].
  { unfold reject_goal. cbn [step_value]. destruct Hp as [_ Hl].
    apply rejects_stop; [exact Hl|]. apply Hemp. reflexivity. }
  rewrite cbor_ref_S in H.
  pose proof Hb as Hb'. rewrite all_bytes_cons in Hb'. apply andb_true_iff in Hb' as [Hib Hr].
  destruct (byte_split ib Hib) as (Hm & _ & [HM|[HM|[HM|[HM|[HM|[HM|[HM|HM]]]]]]]).
  - eapply reject_uint; eassumption.
  - eapply reject_neg; eassumption.
  - eapply reject_bytes; eassumption.
  - eapply reject_text; eassumption.
  - eapply reject_arr; eassumption.
  - eapply reject_map; eassumption.
  - apply reject_tag. exact HM.
  - rewrite ref_m7 in H by exact HM. eapply reject_simple; eassumption.
Qed.
Print Assumptions reject_ok.

(* whole-buffer Parse on a refused input *)
Lemma parse_rejects b : b <> [] ->
  rejects (step_value cparser0 (sink0 None) b) (3 * length b) ->
  exists evs e, run_parse None b = Ok (evs, e) /\ e <> nilE.
Proof.
  intros Hne (n & Hn & H).
  unfold run_parse, p_parse.
  replace (2 * length b + 2)%nat with (S (S (2 * length b))) by lia.
  rewrite feed_S. destruct (zlen b >? 0) eqn:Ez.
  2:{ destruct b; [congruence|rewrite zlen_cons in Ez; pose proof (zlen_nonneg b); lia]. }
  unfold feed_fuel.
  replace (8 * length b + 16)%nat with (S (n + (8 * length b + 15 - n)))%nat by lia.
  rewrite feed_until_S, exec_at_value by reflexivity.
  destruct (H (8 * length b + 15 - n)%nat) as (Y & HY & Hbad). rewrite HY.
  destruct Y as [p1 s1 rest d e|w]; [|destruct Hbad].
  cbn [bad_end] in Hbad.
  destruct (Z.eq_dec e nilE) as [->|He].
  - destruct Hbad as [Hbad|[-> Hinc]]; [congruence|].
    change (isnil nilE) with true. cbv iota. rewrite feed_S.
    change (zlen (@nil Z) >? 0) with false. cbv iota.
    change (isnil nilE) with true. cbv iota.
    eexists. eexists. split; [reflexivity|]. exact Hinc.
  - unfold isnil. rewrite (neq_eqb _ _ He).
    eexists. eexists. split; [reflexivity|]. unfold isnil. rewrite (neq_eqb _ _ He). exact He.
Qed.

Lemma decode_fuel_ok b : (zlen b <=? MaxInt64) = true -> fuel_ok (S (length b)) b.
Proof. unfold MaxInt64, fuel_ok, zlen. intro H. split; lia. Qed.

Lemma rctx_top : rctx cparser0.
Proof. split; [split; [reflexivity|discriminate]|discriminate]. Qed.

Theorem C05_refuse : forall b, all_bytes b = true -> (zlen b <=? MaxInt64) = true ->
  cbor_decode b = RUnsupported ->
  exists evs e, run_parse None b = Ok (evs, e) /\ e <> nilE.
Proof.
  intros b Hb Hsz H. unfold cbor_decode in H.
  assert (Hne : b <> []) by (intros ->; rewrite cbor_ref_nil in H; discriminate).
  apply parse_rejects; [exact Hne|].
  apply (reject_ok (S (length b)) b); try assumption.
  - rewrite H. reflexivity.
  - apply decode_fuel_ok. exact Hsz.
  - apply rctx_top.
  - reflexivity.
  - intro. congruence.
Qed.
Print Assumptions C05_refuse.

(* input ending inside a value is an error (finalize).  The empty input is
   the one exception: the reference calls it truncated, Parse accepts it as
   "no value" - see C03_empty_input. *)
Theorem C03_cbor_trunc : forall b, all_bytes b = true -> (zlen b <=? MaxInt64) = true -> b <> [] ->
  cbor_decode b = RTruncated ->
  exists evs e, run_parse None b = Ok (evs, e) /\ e <> nilE.
Proof.
  intros b Hb Hsz Hne H. unfold cbor_decode in H.
  apply parse_rejects; [exact Hne|].
  apply (reject_ok (S (length b)) b); try assumption.
  - rewrite H. reflexivity.
  - apply decode_fuel_ok. exact Hsz.
  - apply rctx_top.
  - reflexivity.
  - intro. congruence.
Qed.
Print Assumptions C03_cbor_trunc.

Theorem C03_empty_input :
  cbor_decode [] = RTruncated /\ run_parse None [] = Ok ([], nilE).
Proof. split; reflexivity. Qed.
Print Assumptions C03_empty_input.

(* not asked for, but free: malformed input is refused as well *)
Theorem C05_malformed : forall b, all_bytes b = true -> (zlen b <=? MaxInt64) = true ->
  cbor_decode b = RMalformed ->
  exists evs e, run_parse None b = Ok (evs, e) /\ e <> nilE.
Proof.
  intros b Hb Hsz H. unfold cbor_decode in H.
  assert (Hne : b <> []) by (intros ->; rewrite cbor_ref_nil in H; discriminate).
  apply parse_rejects; [exact Hne|].
  apply (reject_ok (S (length b)) b); try assumption.
  - rewrite H. reflexivity.
  - apply decode_fuel_ok. exact Hsz.
  - apply rctx_top.
  - reflexivity.
  - intro. congruence.
Qed.
Print Assumptions C05_malformed.

(* C09 for the parser on accepted inputs, in terms of the contract monitor *)
Corollary C09_cbor_parser : forall b v, all_bytes b = true -> (zlen b <=? MaxInt64) = true ->
  cbor_decode b = RValue v [] ->
  exists evs, run_parse None b = Ok (evs, nilE) /\ contract_ok evs = true.
Proof.
  intros b v Hb Hsz H. destruct (C05_accept b v Hb Hsz H) as (evs & t & Hrun & Hst & Hwf & _).
  exists evs. split; [exact Hrun|]. unfold contract_ok. rewrite Hst. exact Hwf.
Qed.
Print Assumptions C09_cbor_parser.
