(* L1: the CBOR encoder, cborl/visitor.go (after the fix: On*Array return a
   failed header write).  Every w.write of the Go code is one [wwrite]. *)
From SF Require Import Base.Prelude Core.Events.
Open Scope Z_scope.

(* cborl/stack.go lengthStack *)
Record lstack := { ls_cur : Z; ls_stack : list Z (* top first *) }.
Definition ls_init : lstack := {| ls_cur := 0; ls_stack := [] |}.
Definition ls_push (s : lstack) (l : Z) : lstack :=
  {| ls_cur := l; ls_stack := ls_cur s :: ls_stack s |}.
Definition ls_pop (s : lstack) : lstack * Z :=
  match ls_stack s with
  | [] => ({| ls_cur := -1; ls_stack := [] |}, -1)
  | x :: r => ({| ls_cur := x; ls_stack := r |}, ls_cur s)
  end.

Record cenc := { ce_w : wsink; ce_len : lstack }.
Definition cenc0 (f : option nat) : cenc := {| ce_w := wsink0 f; ce_len := ls_init |}.

Definition majorUint := 0.
Definition majorNeg := 32.
Definition majorBytes := 64.
Definition majorText := 96.
Definition majorArr := 128.
Definition majorMap := 160.
Definition codeBreak := 255.

Definition cw (e : cenc) (b : bytes) : cenc * bool :=
  let '(w, ok) := wwrite (ce_w e) b in ({| ce_w := w; ce_len := ce_len e |}, ok).

(* vs.uint8/uint16/uint32/uint64(major, v): minimal-width head *)
Definition cb_head (major v : Z) : bytes :=
  if v <? 24 then [major + v]
  else if v <=? 255 then [major + 24; v]
  else if v <=? 65535 then (major + 25) :: be_enc 2 v
  else if v <=? 4294967295 then (major + 26) :: be_enc 4 v
  else (major + 27) :: be_enc 8 v.

Definition cb_int (z : Z) : bytes :=
  if z <? 0 then cb_head majorNeg (-1 - z) else cb_head majorUint z.

(* vs.bytes(major, buf): head, then the payload as a second write *)
Definition cb_bytes (e : cenc) (major : Z) (s : bytes) : cenc * bool :=
  let '(e1, ok) := cw e (cb_head major (zlen s)) in
  if ok then cw e1 s else (e1, false).

Definition cb_scalar (e : cenc) (s : scalar) : cenc * bool :=
  match s with
  | SNil => cw e [246]
  | SBool true => cw e [245]
  | SBool false => cw e [244]
  | SStr s => cb_bytes e majorText s
  | SNum KFloat32 z => cw e (250 :: be_enc 4 z)
  | SNum KFloat64 z => cw e (251 :: be_enc 8 z)
  | SNum (KInt8 | KInt16 | KInt32 | KInt64 | KInt) z => cw e (cb_int z)
  | SNum _ z => cw e (cb_head majorUint z)
  end.

Definition cb_optlen (e : cenc) (major len : Z) : cenc * bool :=
  if len <? 0 then cw e [major + 31] else cw e (cb_head major len).

Definition cb_start (e : cenc) (major len : Z) : cenc * bool :=
  let '(e1, ok) := cb_optlen e major len in
  if ok then ({| ce_w := ce_w e1; ce_len := ls_push (ce_len e1) len |}, true) else (e1, false).

Definition cb_finish (e : cenc) : cenc * bool :=
  let '(ls, old) := ls_pop (ce_len e) in
  let e1 := {| ce_w := ce_w e; ce_len := ls |} in
  if old <? 0 then cw e1 [codeBreak] else (e1, true).

Fixpoint cb_scalars (e : cenc) (l : list scalar) : cenc * bool :=
  match l with
  | [] => (e, true)
  | s :: r => let '(e1, ok) := cb_scalar e s in if ok then cb_scalars e1 r else (e1, false)
  end.

Fixpoint cb_members (e : cenc) (l : list (bytes * scalar)) : cenc * bool :=
  match l with
  | [] => (e, true)
  | (k, s) :: r =>
      let '(e1, ok) := cb_bytes e majorText k in
      if negb ok then (e1, false) else
      let '(e2, ok2) := cb_scalar e1 s in
      if ok2 then cb_members e2 r else (e2, false)
  end.

(* one Visitor / ArrayValueVisitor / StringRefVisitor call; typed maps arrive
   through structform.extObjVisitor because *Visitor has no ObjectValueVisitor *)
Definition cbor_on (e : cenc) (ev : event) : cenc * bool :=
  match ev with
  | EVal s => cb_scalar e s
  | EStrRef s => cb_bytes e majorText s
  | EKey k | EKeyRef k => cb_bytes e majorText k
  | EArrStart len _ => cb_start e majorArr len
  | EObjStart len _ => cb_start e majorMap len
  | EArrEnd | EObjEnd => cb_finish e
  | EXArr (BByte | BUint8) es =>
      cb_bytes e majorBytes (map (fun s => match s with SNum _ z => z | _ => 0 end) es)
  | EXArr _ es =>
      let '(e1, ok) := cw e (cb_head majorArr (zlen es)) in
      if ok then cb_scalars e1 es else (e1, false)
  | EXObj _ ms =>
      let '(e1, ok) := cb_start e majorMap (zlen ms) in
      if negb ok then (e1, false) else
      let '(e2, ok2) := cb_members e1 ms in
      if negb ok2 then (e2, false) else cb_finish e2
  end.

(* a call sequence: stops at the first call that returns an error;
   result = final state and the index of the failing call, if any *)
Fixpoint cbor_run (e : cenc) (evs : list event) (i : nat) : cenc * option nat :=
  match evs with
  | [] => (e, None)
  | ev :: r => let '(e1, ok) := cbor_on e ev in if ok then cbor_run e1 r (S i) else (e1, Some i)
  end.

Definition cbor_encode (evs : list event) : option bytes :=
  match cbor_run (cenc0 None) evs 0 with
  | (e, None) => Some (w_bytes (ce_w e))
  | _ => None
  end.
