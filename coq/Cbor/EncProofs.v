(* Proofs about the CBOR encoder model (Cbor/Enc.v) against the reference
   decoder (Cbor/Spec.v): head round trip, C16, C17 and C07 for CBOR. *)
From SF Require Import Base.Prelude Base.PreludeProofs Core.Events Core.EventsProofs Cbor.Spec Cbor.Enc.
From Coq Require Import ZifyBool ZifyNat ZifyN.
Open Scope Z_scope.

Ltac Zify.zify_post_hook ::= Z.div_mod_to_equations.

(* ====================================================================== *)
(* 1. Head round trip                                                      *)
(* ====================================================================== *)

Lemma take_app (a rest : bytes) : take (zlen a) (a ++ rest) = Some (a, rest).
Proof.
  unfold take, zlen.
  destruct (Z.of_nat (length a) <? 0) eqn:E1; [lia|].
  rewrite app_length.
  destruct (Z.of_nat (length a + length rest) <? Z.of_nat (length a)) eqn:E2; [lia|].
  rewrite Nat2Z.id.
  rewrite firstn_app, skipn_app, Nat.sub_diag, firstn_all, skipn_all.
  cbn [firstn skipn app]. rewrite app_nil_r. reflexivity.
Qed.

Lemma take_be k v rest n : n = Z.of_nat k ->
  take n (be_enc k v ++ rest) = Some (be_enc k v, rest).
Proof.
  intros ->. rewrite <- (be_enc_length k v) at 1. apply take_app.
Qed.

Lemma read_arg_small m r : 0 <= m < 24 -> read_arg m r = ArgVal m r.
Proof. intro H. unfold read_arg. destruct (m <? 24) eqn:E; [reflexivity | lia]. Qed.

Lemma read_arg_24 r : read_arg 24 r =
  match take 1 r with Some (a, r') => ArgVal (be_dec a) r' | None => ArgTrunc end.
Proof. reflexivity. Qed.
Lemma read_arg_25 r : read_arg 25 r =
  match take 2 r with Some (a, r') => ArgVal (be_dec a) r' | None => ArgTrunc end.
Proof. reflexivity. Qed.
Lemma read_arg_26 r : read_arg 26 r =
  match take 4 r with Some (a, r') => ArgVal (be_dec a) r' | None => ArgTrunc end.
Proof. reflexivity. Qed.
Lemma read_arg_27 r : read_arg 27 r =
  match take 8 r with Some (a, r') => ArgVal (be_dec a) r' | None => ArgTrunc end.
Proof. reflexivity. Qed.

Lemma be_enc_1 v : 0 <= v < 256 -> be_enc 1 v = [v].
Proof.
  intro H. cbn [be_enc]. change (256 ^ Z.of_nat 0) with 1.
  rewrite Z.div_1_r, Z.mod_small by lia. reflexivity.
Qed.

Lemma major_cases major : In major [0;32;64;96;128;160] ->
  exists q, major = 32 * q /\ 0 <= q <= 5.
Proof.
  intro H. cbn [In] in H.
  destruct H as [H|[H|[H|[H|[H|[H|[]]]]]]]; subst major;
    [exists 0|exists 1|exists 2|exists 3|exists 4|exists 5]; lia.
Qed.

Lemma head_roundtrip : forall major v rest,
  In major [0;32;64;96;128;160] -> 0 <= v < 2^64 ->
  exists ib r, cb_head major v ++ rest = ib :: r /\ ib / 32 = major / 32 /\
               read_arg (ib mod 32) r = ArgVal v rest.
Proof.
  intros major v rest Hm Hv.
  destruct (major_cases major Hm) as (q & -> & Hq).
  unfold cb_head.
  destruct (v <? 24) eqn:E1.
  { exists (32 * q + v), rest. split; [reflexivity|]. split; [lia|].
    replace ((32 * q + v) mod 32) with v by lia. apply read_arg_small. lia. }
  destruct (v <=? 255) eqn:E2.
  { exists (32 * q + 24), (v :: rest). split; [reflexivity|]. split; [lia|].
    replace ((32 * q + 24) mod 32) with 24 by lia. rewrite read_arg_24.
    change (v :: rest) with ([v] ++ rest). rewrite <- (be_enc_1 v) by lia.
    rewrite (take_be 1 v rest 1 eq_refl). rewrite be_dec_enc; [reflexivity|].
    change (256 ^ Z.of_nat 1) with 256. lia. }
  destruct (v <=? 65535) eqn:E3.
  { exists (32 * q + 25), (be_enc 2 v ++ rest). split; [reflexivity|]. split; [lia|].
    replace ((32 * q + 25) mod 32) with 25 by lia. rewrite read_arg_25.
    rewrite (take_be 2 v rest 2 eq_refl). rewrite be_dec_enc; [reflexivity|].
    change (256 ^ Z.of_nat 2) with 65536. lia. }
  destruct (v <=? 4294967295) eqn:E4.
  { exists (32 * q + 26), (be_enc 4 v ++ rest). split; [reflexivity|]. split; [lia|].
    replace ((32 * q + 26) mod 32) with 26 by lia. rewrite read_arg_26.
    rewrite (take_be 4 v rest 4 eq_refl). rewrite be_dec_enc; [reflexivity|].
    change (256 ^ Z.of_nat 4) with 4294967296. lia. }
  exists (32 * q + 27), (be_enc 8 v ++ rest). split; [reflexivity|]. split; [lia|].
  replace ((32 * q + 27) mod 32) with 27 by lia. rewrite read_arg_27.
  rewrite (take_be 8 v rest 8 eq_refl). rewrite be_dec_enc; [reflexivity|].
  change (256 ^ Z.of_nat 8) with (2 ^ 64). lia.
Qed.
Print Assumptions head_roundtrip.

(* ====================================================================== *)
(* 4. C16 for the encoder: no write error is lost                          *)
(* ====================================================================== *)

Definition winv (k : nat) (e : cenc) : Prop :=
  w_fail (ce_w e) = Some k /\ (w_n (ce_w e) <= k)%nat.

Lemma cw_winv k e b e1 : winv k e -> cw e b = (e1, true) -> winv k e1.
Proof.
  intros [Hf Hn] H. unfold cw, wwrite in H. rewrite Hf in H.
  inversion H as [[He Hok]]. unfold winv. cbn [ce_w w_fail w_n].
  split; [reflexivity|]. apply Nat.ltb_lt in Hok. lia.
Qed.

Lemma cb_bytes_winv k e major s e1 : winv k e -> cb_bytes e major s = (e1, true) -> winv k e1.
Proof.
  intros Hi H. unfold cb_bytes in H.
  destruct (cw e (cb_head major (zlen s))) as [e0 ok] eqn:E0.
  destruct ok; [|discriminate].
  eapply cw_winv; [|exact H]. eapply cw_winv; eassumption.
Qed.

Lemma cb_scalar_winv k e s e1 : winv k e -> cb_scalar e s = (e1, true) -> winv k e1.
Proof.
  intros Hi H. destruct s as [|b|s|kd z]; cbn [cb_scalar] in H.
  - eapply cw_winv; eassumption.
  - destruct b; eapply cw_winv; eassumption.
  - eapply cb_bytes_winv; eassumption.
  - destruct kd; eapply cw_winv; eassumption.
Qed.

Lemma cb_optlen_winv k e major len e1 : winv k e -> cb_optlen e major len = (e1, true) -> winv k e1.
Proof.
  intros Hi H. unfold cb_optlen in H.
  destruct (len <? 0); eapply cw_winv; eassumption.
Qed.

Lemma cb_start_winv k e major len e1 : winv k e -> cb_start e major len = (e1, true) -> winv k e1.
Proof.
  intros Hi H. unfold cb_start in H.
  destruct (cb_optlen e major len) as [e0 ok] eqn:E0.
  destruct ok; [|discriminate]. inversion H; subst e1.
  apply (cb_optlen_winv k) in E0; [|exact Hi]. exact E0.
Qed.

Lemma cb_finish_winv k e e1 : winv k e -> cb_finish e = (e1, true) -> winv k e1.
Proof.
  intros Hi H. unfold cb_finish in H.
  destruct (ls_pop (ce_len e)) as [ls old].
  destruct (old <? 0).
  - eapply cw_winv; [|exact H]. exact Hi.
  - inversion H; subst e1. exact Hi.
Qed.

Lemma cb_scalars_winv k l : forall e e1, winv k e -> cb_scalars e l = (e1, true) -> winv k e1.
Proof.
  induction l as [|s r IH]; intros e e1 Hi H; cbn [cb_scalars] in H.
  - inversion H; subst e1. exact Hi.
  - destruct (cb_scalar e s) as [e0 ok] eqn:E0. destruct ok; [|discriminate].
    eapply IH; [|exact H]. eapply cb_scalar_winv; eassumption.
Qed.

Lemma cb_members_winv k l : forall e e1, winv k e -> cb_members e l = (e1, true) -> winv k e1.
Proof.
  induction l as [|[key s] r IH]; intros e e1 Hi H; cbn [cb_members] in H.
  - inversion H; subst e1. exact Hi.
  - destruct (cb_bytes e majorText key) as [e0 ok] eqn:E0.
    destruct ok; cbn [negb] in H; [|discriminate].
    destruct (cb_scalar e0 s) as [e2 ok2] eqn:E2. destruct ok2; [|discriminate].
    eapply IH; [|exact H]. eapply cb_scalar_winv; [|exact E2].
    eapply cb_bytes_winv; eassumption.
Qed.

Definition is_bytes_bt (bt : btype) : bool :=
  match bt with BByte | BUint8 => true | _ => false end.
Definition xbyte (s : scalar) : Z := match s with SNum _ z => z | _ => 0 end.

Lemma cbor_on_xarr e bt es :
  cbor_on e (EXArr bt es) =
  if is_bytes_bt bt then cb_bytes e majorBytes (map xbyte es)
  else let '(e1, ok) := cw e (cb_head majorArr (zlen es)) in
       if ok then cb_scalars e1 es else (e1, false).
Proof. destruct bt; reflexivity. Qed.

Lemma cbor_on_winv k e ev e1 : winv k e -> cbor_on e ev = (e1, true) -> winv k e1.
Proof.
  intros Hi H.
  destruct ev as [s|s|len bt| |len bt| |key|key|bt es|bt ms].
  - eapply cb_scalar_winv; eassumption.
  - eapply cb_bytes_winv; eassumption.
  - eapply cb_start_winv; eassumption.
  - eapply cb_finish_winv; eassumption.
  - eapply cb_start_winv; eassumption.
  - eapply cb_finish_winv; eassumption.
  - eapply cb_bytes_winv; eassumption.
  - eapply cb_bytes_winv; eassumption.
  - rewrite cbor_on_xarr in H. destruct (is_bytes_bt bt).
    + eapply cb_bytes_winv; eassumption.
    + destruct (cw e (cb_head majorArr (zlen es))) as [e0 ok] eqn:E0.
      destruct ok; [|discriminate].
      eapply cb_scalars_winv; [|exact H]. eapply cw_winv; eassumption.
  - cbn [cbor_on] in H.
    destruct (cb_start e majorMap (zlen ms)) as [e0 ok] eqn:E0.
    destruct ok; cbn [negb] in H; [|discriminate].
    destruct (cb_members e0 ms) as [e2 ok2] eqn:E2.
    destruct ok2; cbn [negb] in H; [|discriminate].
    eapply cb_finish_winv; [|exact H]. eapply cb_members_winv; [|exact E2].
    eapply cb_start_winv; eassumption.
Qed.

Lemma cbor_run_winv k evs : forall e i e',
  winv k e -> cbor_run e evs i = (e', None) -> winv k e'.
Proof.
  induction evs as [|ev r IH]; intros e i e' Hi H; cbn [cbor_run] in H.
  - inversion H; subst e'. exact Hi.
  - destruct (cbor_on e ev) as [e1 ok] eqn:E1. destruct ok; [|discriminate].
    eapply IH; [|exact H]. eapply cbor_on_winv; eassumption.
Qed.

Theorem C16_cbor_enc : forall evs e i e' k,
  w_fail (ce_w e) = Some k -> (w_n (ce_w e) <= k)%nat ->
  cbor_run e evs i = (e', None) -> (w_n (ce_w e') <= k)%nat.
Proof.
  intros evs e i e' k Hf Hn H.
  destruct (cbor_run_winv k evs e i e' (conj Hf Hn) H) as [_ H']. exact H'.
Qed.
Print Assumptions C16_cbor_enc.

(* from a fresh encoder the side condition holds trivially *)
Corollary C16_cbor_enc0 : forall evs e' k,
  cbor_run (cenc0 (Some k)) evs 0 = (e', None) -> (w_n (ce_w e') <= k)%nat.
Proof.
  intros evs e' k H. eapply C16_cbor_enc; [| |exact H]; cbn; [reflexivity|lia].
Qed.
Print Assumptions C16_cbor_enc0.
