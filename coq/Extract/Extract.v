(* Extraction of the executable models and oracles to OCaml.
   Only ExtrOcamlBasic: bool/option/list/prod/unit/sumbool map to OCaml natives;
   positive/N/Z/nat stay the extracted inductives. No Extract Constant / Inductive
   directives of our own. *)
Require Extraction.
Require Import ExtrOcamlBasic.
From SF Require Import Base.Prelude Gotype.Lru.
Extraction Language OCaml.
Extraction "sfmodel.ml" lru_init lru_run spec_run.
