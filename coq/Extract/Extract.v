(* Extraction of the executable models and oracles to OCaml.
   Only ExtrOcamlBasic: bool/option/list/prod/unit/sumbool map to OCaml natives;
   positive/N/Z/nat stay the extracted inductives. No Extract Constant / Inductive
   directives of our own. *)
Require Extraction.
Require Import ExtrOcamlBasic.
From SF Require Import Base.Prelude Core.Events Core.Visitors Cbor.Spec Cbor.Enc Cbor.Parse Ubjson.Spec Ubjson.Enc Ubjson.Img Ubjson.Parse Base.Utf8 Json.Enc Json.Parse Json.Spec Gotype.Lru Gotype.Types Gotype.Fold Gotype.FoldSpec Gotype.Conv Gotype.Unfold Gotype.UnfoldSpec.
Definition nonfinite_b (w bits : Z) : Z := if nonfinite w bits then 1 else 0.
Extraction Language OCaml.
Extraction "sfmodel.ml"
  lru_init lru_run spec_run json_decode json_decode_all fold_value emit_all spec_fold spec_supported unfold_value zero_of conv conv_defined ucc_type generic omit_view deep_eq
  eo_observe
  stream_tree parse_tree wf_tree value_of cv cvalue_eqb contract_ok expand adapter sink0 s_log btype_code
  cbor_decode cbor_decode_all cbor_run cenc0 w_chunks
  run_parse run_chunks dec_next cparser0
  json_run jenc0 jrun_parse jrun_chunks jdec_next jparser0 sanitize utf8_valid nonfinite_b
  p_parse p_write finalize up_parse up_write ufin jp_parse jp_write with_final
  ubj_img ubj_decode ubj_run uenc0 urun_parse urun_chunks udec_next uparser0 scalar_value.
