(* L0: reference decoder for UBJSON draft 12, written from the specification
   (value markers, lengths, plain / counted / typed-and-counted containers),
   not from ubjson/parse.go.  Decisions where the draft is silent are noted. *)
From SF Require Import Base.Prelude Core.Events.
Open Scope Z_scope.

Definition mZ := 90.  Definition mN := 78.  Definition mT := 84.  Definition mF := 70.
Definition mi := 105. Definition mU := 85.  Definition mI := 73.  Definition ml := 108.
Definition mL := 76.  Definition md := 100. Definition mD := 68.  Definition mH := 72.
Definition mC := 67.  Definition mS := 83.
Definition mObjS := 123. Definition mObjE := 125. Definition mArrS := 91. Definition mArrE := 93.
Definition mCount := 35. Definition mType := 36.

Inductive lres := LVal (n : Z) (rest : bytes) | LTrunc | LBad.

(* a length: an integer value (marker i U I l L), non-negative *)
Definition ubj_len (b : bytes) : lres :=
  match b with
  | [] => LTrunc
  | m :: r =>
      let fixed (k : Z) (signed : bool) :=
        match take k r with
        | Some (a, r') =>
            let v := if signed then wraps (8 * k) (be_dec a) else be_dec a in
            if v <? 0 then LBad else LVal v r'
        | None => LTrunc
        end in
      if m =? mi then fixed 1 true
      else if m =? mU then fixed 1 false
      else if m =? mI then fixed 2 true
      else if m =? ml then fixed 4 true
      else if m =? mL then fixed 8 true
      else LBad
  end.

Definition is_value_marker (m : Z) : bool :=
  existsb (Z.eqb m) [mZ; mT; mF; mi; mU; mI; ml; mL; md; mD; mH; mC; mS; mObjS; mArrS].

(* payload of a value whose marker [m] has already been read *)
Fixpoint ubj_payload (fuel : nat) (m : Z) (b : bytes) : ref_result :=
  match fuel with
  | O => RTruncated
  | S f =>
      let int (k : Z) (signed : bool) :=
        match take k b with
        | Some (a, r) => RValue (CNum (CInt (if signed then wraps (8 * k) (be_dec a) else be_dec a))) r
        | None => RTruncated
        end in
      let str :=
        match ubj_len b with
        | LVal n r => match take n r with Some (a, r') => RValue (CStr a) r' | None => RTruncated end
        | LTrunc => RTruncated
        | LBad => RMalformed
        end in
      (* a full value: no-ops skipped, marker, payload *)
      let value :=
        (fix value (g : nat) (b : bytes) : ref_result :=
           match g with
           | O => RTruncated
           | S g' =>
               match b with
               | [] => RTruncated
               | m' :: r => if m' =? mN then value g' r
                            else if is_value_marker m' then ubj_payload f m' r else RMalformed
               end
           end) in
      let key (b : bytes) : option (bytes * bytes) + ref_result :=
        match ubj_len b with
        | LVal n r => match take n r with Some (a, r') => inl (Some (a, r')) | None => inr RTruncated end
        | LTrunc => inr RTruncated
        | LBad => inr RMalformed
        end in
      if m =? mZ then RValue CNil b
      else if m =? mT then RValue (CBool true) b
      else if m =? mF then RValue (CBool false) b
      else if m =? mi then int 1 true
      else if m =? mU then int 1 false
      else if m =? mI then int 2 true
      else if m =? ml then int 4 true
      else if m =? mL then int 8 true
      else if m =? mC then            (* char: 0..127 (draft 12) *)
        match b with
        | c :: r => if c >? 127 then RMalformed else RValue (CNum (CInt c)) r
        | [] => RTruncated
        end
      else if m =? md then match take 4 b with Some (a, r) => RValue (CNum (CF32 (be_dec a))) r | None => RTruncated end
      else if m =? mD then match take 8 b with Some (a, r) => RValue (CNum (CF64 (be_dec a))) r | None => RTruncated end
      else if (m =? mH) || (m =? mS) then str
      else if m =? mArrS then
        match b with
        | [] => RTruncated
        | h :: r =>
            if h =? mType then
              match r with
              | [] => RTruncated
              | t :: r1 =>
                  if negb (is_value_marker t) then RMalformed else
                  match r1 with
                  | [] => RTruncated
                  | c :: r2 =>
                      if negb (c =? mCount) then RMalformed else
                      match ubj_len r2 with
                      | LTrunc => RTruncated
                      | LBad => RMalformed
                      | LVal n r3 =>
                          if (100000 <? n) && ((t =? mZ) || (t =? mT) || (t =? mF)) then RMalformed (* resource limit of this reference *) else
                          (fix elems (g : nat) (n : Z) (b : bytes) (acc : list cvalue) : ref_result :=
                             if n <=? 0 then RValue (CArr (rev acc)) b else
                             match g with
                             | O => RTruncated
                             | S g' => match ubj_payload f t b with
                                       | RValue v r' => elems g' (n - 1) r' (v :: acc)
                                       | e => e
                                       end
                             end) (f + Z.to_nat (Z.min n 100001))%nat n r3 []
                      end
                  end
              end
            else if h =? mCount then
              match ubj_len r with
              | LTrunc => RTruncated
              | LBad => RMalformed
              | LVal n r1 =>
                  (fix elems (g : nat) (n : Z) (b : bytes) (acc : list cvalue) : ref_result :=
                     if n <=? 0 then RValue (CArr (rev acc)) b else
                     match g with
                     | O => RTruncated
                     | S g' => match value f b with
                               | RValue v r' => elems g' (n - 1) r' (v :: acc)
                               | e => e
                               end
                     end) f n r1 []
              end
            else
              (fix elems (g : nat) (b : bytes) (acc : list cvalue) : ref_result :=
                 match g with
                 | O => RTruncated
                 | S g' =>
                     match b with
                     | [] => RTruncated
                     | h :: r' =>
                         if h =? mArrE then RValue (CArr (rev acc)) r'
                         else if h =? mN then elems g' r' acc
                         else match value f b with
                              | RValue v r'' => elems g' r'' (v :: acc)
                              | e => e
                              end
                     end
                 end) f b []
        end
      else if m =? mObjS then
        match b with
        | [] => RTruncated
        | h :: r =>
            if h =? mType then
              match r with
              | [] => RTruncated
              | t :: r1 =>
                  if negb (is_value_marker t) then RMalformed else
                  match r1 with
                  | [] => RTruncated
                  | c :: r2 =>
                      if negb (c =? mCount) then RMalformed else
                      match ubj_len r2 with
                      | LTrunc => RTruncated
                      | LBad => RMalformed
                      | LVal n r3 =>
                          (fix mems (g : nat) (n : Z) (b : bytes) (acc : list (bytes * cvalue)) : ref_result :=
                             if n <=? 0 then RValue (CObj (rev acc)) b else
                             match g with
                             | O => RTruncated
                             | S g' =>
                                 match key b with
                                 | inr e => e
                                 | inl None => RMalformed
                                 | inl (Some (k, r')) =>
                                     match ubj_payload f t r' with
                                     | RValue v r'' => mems g' (n - 1) r'' ((k, v) :: acc)
                                     | e => e
                                     end
                                 end
                             end) (f + Z.to_nat (Z.min n 100001))%nat n r3 []
                      end
                  end
              end
            else if h =? mCount then
              match ubj_len r with
              | LTrunc => RTruncated
              | LBad => RMalformed
              | LVal n r1 =>
                  (fix mems (g : nat) (n : Z) (b : bytes) (acc : list (bytes * cvalue)) : ref_result :=
                     if n <=? 0 then RValue (CObj (rev acc)) b else
                     match g with
                     | O => RTruncated
                     | S g' =>
                         match key b with
                         | inr e => e
                         | inl None => RMalformed
                         | inl (Some (k, r')) =>
                             match value f r' with
                             | RValue v r'' => mems g' (n - 1) r'' ((k, v) :: acc)
                             | e => e
                             end
                         end
                     end) f n r1 []
              end
            else
              (fix mems (g : nat) (b : bytes) (acc : list (bytes * cvalue)) : ref_result :=
                 match g with
                 | O => RTruncated
                 | S g' =>
                     match b with
                     | [] => RTruncated
                     | h :: r' =>
                         if h =? mObjE then RValue (CObj (rev acc)) r'
                         else
                           match key b with
                           | inr e => e
                           | inl None => RMalformed
                           | inl (Some (k, r'')) =>
                               match value f r'' with
                               | RValue v r3 => mems g' r3 ((k, v) :: acc)
                               | e => e
                               end
                           end
                     end
                 end) f b []
        end
      else RMalformed
  end.

(* a top-level value: leading no-ops skipped *)
Fixpoint ubj_value (fuel : nat) (b : bytes) : ref_result :=
  match fuel with
  | O => RTruncated
  | S f =>
      match b with
      | [] => RTruncated
      | m :: r => if m =? mN then ubj_value f r
                  else if is_value_marker m then ubj_payload (S (length b)) m r else RMalformed
      end
  end.

Definition ubj_decode (b : bytes) : ref_result := ubj_value (S (length b)) b.
