(* C06 (and C09 for the UBJSON parser on accepted inputs): the UBJSON parser
   model reads every valid draft-12 value with exactly the value the reference
   decoder (Ubjson/Spec.v) assigns, emitting a well-formed event stream
   (whole-buffer Parse, visitor never fails). *)
From Coq Require Import List NArith ZArith Bool Lia.
From Coq Require Import ZifyBool ZifyNat ZifyN.
From SF Require Import Base.Prelude Base.PreludeProofs Core.Events Core.EventsProofs
  Core.AdapterProofs Ubjson.Spec Ubjson.Parse Ubjson.RoundtripProofs.
Import ListNotations.
Open Scope Z_scope.

Ltac Zify.zify_post_hook ::= Z.div_mod_to_equations.

(* ====================================================================== *)
(* Part 0: generic helpers                                                  *)
(* ====================================================================== *)

Lemma all_bytes_app a b : all_bytes (a ++ b) = all_bytes a && all_bytes b.
Proof. unfold all_bytes. apply forallb_app. Qed.

Lemma all_bytes_cons x l : all_bytes (x :: l) = is_byte x && all_bytes l.
Proof. reflexivity. Qed.

Lemma zlen_cons {A} (x : A) l : zlen (x :: l) = 1 + zlen l.
Proof. unfold zlen. cbn [length]. lia. Qed.

Lemma zlen_nil {A} : zlen (@nil A) = 0.
Proof. reflexivity. Qed.

Lemma zlen_nonneg {A} (l : list A) : 0 <= zlen l.
Proof. unfold zlen. lia. Qed.

Lemma zlen_app {A} (a b : list A) : zlen (a ++ b) = zlen a + zlen b.
Proof. unfold zlen. rewrite app_length. lia. Qed.

Lemma take_some k r a r' : take k r = Some (a, r') ->
  0 <= k /\ k <= zlen r /\ a = uzfirstn k r /\ r' = uzskipn k r /\ r = a ++ r' /\ zlen a = k.
Proof.
  unfold take. destruct (k <? 0) eqn:E1; [discriminate|].
  destruct (zlen r <? k) eqn:E2; [discriminate|].
  intro H. inversion H; subst. unfold uzfirstn, uzskipn.
  repeat split; try lia.
  - symmetry. apply firstn_skipn.
  - unfold zlen in *. rewrite firstn_length. lia.
Qed.

Lemma all_bytes_firstn n l : all_bytes l = true -> all_bytes (firstn n l) = true.
Proof.
  intro H. rewrite <- (firstn_skipn n l) in H. rewrite all_bytes_app in H.
  apply andb_true_iff in H. tauto.
Qed.
Lemma all_bytes_skipn n l : all_bytes l = true -> all_bytes (skipn n l) = true.
Proof.
  intro H. rewrite <- (firstn_skipn n l) in H. rewrite all_bytes_app in H.
  apply andb_true_iff in H. tauto.
Qed.

Lemma take_bytes k r a r' : take k r = Some (a, r') -> all_bytes r = true ->
  all_bytes a = true /\ all_bytes r' = true.
Proof.
  intros H Hb. apply take_some in H as (_ & _ & -> & -> & _ & _).
  unfold uzfirstn, uzskipn. split; [apply all_bytes_firstn | apply all_bytes_skipn]; exact Hb.
Qed.

Lemma take_len k r a r' : take k r = Some (a, r') ->
  (length r = Z.to_nat k + length r')%nat /\ 0 <= k.
Proof.
  intro H. apply take_some in H as (Hk & Hl & _ & _ & E & Ha).
  rewrite E at 1. rewrite app_length. unfold zlen in *. lia.
Qed.

Lemma take_1_inv b a r : take 1 b = Some (a, r) -> exists x, b = x :: r /\ a = [x].
Proof.
  intro H. apply take_some in H as (_ & Hl & Ha & Hr & _ & _).
  destruct b as [|x b']; [rewrite zlen_nil in Hl; lia|].
  exists x. unfold uzfirstn, uzskipn in *. change (Z.to_nat 1) with 1%nat in *.
  cbn [firstn skipn] in *. subst. auto.
Qed.

Lemma be_dec_1 x : be_dec [x] = x.
Proof. unfold be_dec. cbn [be_dec_acc]. lia. Qed.

Lemma neq_eqb a b : a <> b -> (a =? b) = false.
Proof. intro H. apply Z.eqb_neq. exact H. Qed.

(* ====================================================================== *)
(* Part 1: sinks that never fail                                            *)
(* ====================================================================== *)

Definition sadd (s : sink) (evs : list event) : sink :=
  {| s_rlog := rev evs ++ s_rlog s; s_n := length evs + s_n s; s_fail := s_fail s |}.

Lemma sadd_fail s evs : s_fail (sadd s evs) = s_fail s.
Proof. reflexivity. Qed.

Lemma sadd_app s a b : sadd (sadd s a) b = sadd s (a ++ b).
Proof.
  unfold sadd. cbn [s_rlog s_n s_fail]. f_equal.
  - rewrite rev_app_distr, app_assoc. reflexivity.
  - rewrite app_length. lia.
Qed.

Lemma sadd_nil s : sadd s [] = s.
Proof. destruct s. reflexivity. Qed.

Lemma sadd_log s evs : s_log (sadd s evs) = s_log s ++ evs.
Proof.
  unfold s_log, sadd. cbn [s_rlog]. rewrite rev_app_distr, rev_involutive. reflexivity.
Qed.

Lemma uvis_ok s e : s_fail s = None -> uvis s e = (sadd s [e], unilE).
Proof.
  intro H. unfold uvis, emit. rewrite H. unfold sadd. cbn [rev app length]. rewrite H.
  reflexivity.
Qed.

Lemma unil_nil : unil unilE = true.
Proof. reflexivity. Qed.

(* ====================================================================== *)
(* Part 2: the feed loop without its fuel                                   *)
(* ====================================================================== *)

Definition ucontb (rest : bytes) (p1 : uparser) : bool :=
  negb ((zlen rest =? 0) && negb (can_step_without_input p1)).

Definition ufu_cont (f : nat) (r : ures) : res ures :=
  match r with
  | UCrash w => Panic w
  | UR p1 s1 rest done err =>
      if done || negb (unil err) then Ok (UR p1 s1 rest done err)
      else if (zlen rest =? 0) && negb (can_step_without_input p1) then Ok (UR p1 s1 rest done err)
      else ufeed_until f p1 s1 rest
  end.

Lemma ufeed_until_S f p s b : ufeed_until (S f) p s b = ufu_cont f (uexec_step p s b).
Proof. reflexivity. Qed.

Definition reaches (X Y : ures) (n : nat) : Prop :=
  forall f, ufu_cont (n + f) X = ufu_cont f Y.

Lemma reaches_refl X : reaches X X 0.
Proof. intro f. reflexivity. Qed.

Lemma reaches_eq X Y : X = Y -> reaches X Y 0.
Proof. intros ->. apply reaches_refl. Qed.

Lemma reaches_trans X Y Z n m : reaches X Y n -> reaches Y Z m -> reaches X Z (n + m).
Proof.
  intros H1 H2 f. rewrite <- Nat.add_assoc. rewrite H1. apply H2.
Qed.

Lemma reaches_step p s rest : ucontb rest p = true ->
  reaches (UR p s rest false unilE) (uexec_step p s rest) 1.
Proof.
  intros H f. cbn [Nat.add ufu_cont orb]. rewrite unil_nil. cbn [negb].
  unfold ucontb in H. apply negb_true_iff in H. rewrite H. apply ufeed_until_S.
Qed.

Lemma ucontb_nonempty x r p : ucontb (x :: r) p = true.
Proof. unfold ucontb. rewrite zlen_cons. pose proof (zlen_nonneg r).
  destruct (1 + zlen r =? 0) eqn:E; [lia|]. reflexivity. Qed.

Lemma ucontb_pos rest p : 0 < zlen rest -> ucontb rest p = true.
Proof. intro H. unfold ucontb. destruct (zlen rest =? 0) eqn:E; [lia|reflexivity]. Qed.

Lemma ucontb_can rest p : can_step_without_input p = true -> ucontb rest p = true.
Proof. intro H. unfold ucontb. rewrite H. cbn [negb]. rewrite andb_false_r. reflexivity. Qed.

(* one more step, then the rest *)
Lemma reaches_step_then p s rest Y n : ucontb rest p = true ->
  reaches (uexec_step p s rest) Y n -> reaches (UR p s rest false unilE) Y (1 + n).
Proof. intros H1 H2. eapply reaches_trans; [apply reaches_step; exact H1|exact H2]. Qed.

(* ====================================================================== *)
(* Part 3: execStep, one level unfolded                                     *)
(* ====================================================================== *)

Definition ubody (rec : uparser -> sink -> bytes -> ures) (p : uparser) (s : sink) (b : bytes) : ures :=
  let t := u_t (up_cur p) in
  let step := u_s (up_cur p) in
  let r :=
    if t =? tFail then UR p s b false (if up_err p =? 0 then unilE else up_err p)
    else if t =? tNext then ustep_value p s b
    else if t =? tFixed then ustep_fixed p s b
    else if (t =? tHighPrec) || (t =? tString) then ustep_string p s b
    else if t =? tArray then
      match b with
      | [] => UCrash 14
      | x :: r =>
          if x =? mCount then UR (uset_type p tArrayCount) s r false unilE
          else if x =? mType then UR (uset_type p tArrayTyped) s r false unilE
          else let '(s1, e) := uvis s (EArrStart (-1) BAny) in UR (uset_type p tArrayDyn) s1 b false e
      end
    else if t =? tArrayDyn then
      match b with
      | [] => UCrash 15
      | x :: r =>
          if x =? mArrE then
            let '(s1, e) := uvis s EArrEnd in
            if unil e then let '(p1, d) := upop_state p in UR p1 s1 r d unilE else UR p s1 r true e
          else
            let p1 := if step =? sStart then uset_step p sCont else p in
            value_nodone (ustep_value p1 s b)
      end
    else if t =? tArrayCount then
      if step =? sStart then of_ul (ustep_len p b (with_step (up_cur p) sWithLen)) s
      else
        let l := up_lcur p in
        let '(p1, s1, e0) :=
          if step =? sWithLen then let '(s1, e) := uvis s (EArrStart l BAny) in (uset_step p sCont, s1, e)
          else (p, s, unilE) in
        if negb (unil e0) then UR p1 s1 b false e0
        else if l =? 0 then
          let '(s2, e) := uvis s1 EArrEnd in
          if unil e then let '(p2, d) := upop_len_state p1 in UR p2 s2 b d unilE else UR p1 s2 b true e
        else
          match b with
          | [] => UCrash 16
          | x :: r =>
              if x =? mN then UR p1 s1 r false unilE
              else value_nodone (ustep_value (uset_lcur p1 (up_lcur p1 - 1)) s1 b)
          end
    else if t =? tArrayTyped then
      if (step =? sStart) || (step =? sWithType0) || (step =? sWithType1) then of_ul (ustep_header p b) s
      else
        let l := up_lcur p in
        let '(p1, s1, e0) :=
          if step =? sWithLen then let '(s1, e) := uvis s (EArrStart l (up_vtype p)) in (uset_step p sCont, s1, e)
          else (p, s, unilE) in
        if negb (unil e0) then UR p1 s1 b false e0
        else if l =? 0 then
          let '(s2, e) := uvis s1 EArrEnd in
          if unil e then let '(p2, d) := upop_len_state (v_pop p1) in UR p2 s2 b d unilE else UR p1 s2 b true e
        else
          let p2 := uset_lcur p1 (up_lcur p1 - 1) in
          value_nodone (rec (u_push p2 (up_vcur p2)) s1 b)
    else if t =? tObject then
      match b with
      | [] => UCrash 17
      | x :: r =>
          if x =? mCount then UR (uset_type p tObjectCount) s r false unilE
          else if x =? mType then UR (uset_type p tObjectTyped) s r false unilE
          else let '(s1, e) := uvis s (EObjStart (-1) BAny) in UR (uset_type p tObjectDyn) s1 b false e
      end
    else if (t =? tObjectDyn) && (step =? sFieldNameLen) && (up_lcur p =? 0) then
      let p2 := ul_pop p in
      let '(s1, e) := uvis s (EKeyRef []) in
      UR (uset_step p2 sCont) s1 b false e
    else if t =? tObjectDyn then
      match b with
      | [] => UCrash 18
      | x :: r =>
          if (step =? sStart) && (up_marker p =? 0) && (x =? mObjE) then
            let '(s1, e) := uvis s EObjEnd in
            if unil e then let '(p1, d) := upop_state p in UR p1 s1 r d unilE else UR p s1 r true e
          else if step =? sStart then of_ul (ustep_len p b (with_step (up_cur p) sFieldNameLen)) s
          else if step =? sFieldNameLen then
            match ucollect p b (up_lcur p) with
            | UCC => UCrash 19
            | UC p1 rest None => UR p1 s rest false unilE
            | UC p1 rest (Some tmp) =>
                let p2 := ul_pop p1 in
                let '(s1, e) := uvis s (EKeyRef tmp) in
                UR (uset_step p2 sCont) s1 rest false e
            end
          else if step =? sCont then
            if x =? mN then UR p s r false unilE
            else value_nodone (ustep_value (uset_step p sStart) s b)
          else UR p s b false unilE
      end
    else if t =? tObjectCount then
      if step =? sStart then of_ul (ustep_len p b (with_step (up_cur p) sWithLen)) s
      else
        match ustep_obj_content p s b false with
        | OCC w => UCrash w
        | OC fin p1 s1 rest err =>
            if fin && unil err then let '(p2, d) := upop_len_state p1 in UR p2 s1 rest d unilE
            else UR p1 s1 rest fin err
        end
    else if t =? tObjectTyped then
      if (step =? sStart) || (step =? sWithType0) || (step =? sWithType1) then of_ul (ustep_header p b) s
      else
        match ustep_obj_content p s b true with
        | OCC w => UCrash w
        | OC fin p1 s1 rest err =>
            if fin && unil err then let '(p2, d) := upop_len_state (v_pop p1) in UR p2 s1 rest d unilE
            else UR p1 s1 rest fin err
        end
    else UR p s b false ueInvalidState in
  (* "if err != nil { p.err = err }" *)
  match r with
  | UR p1 s1 rest d err => if unil err then r else UR (uset_err p1 err) s1 rest d err
  | c => c
  end.

Lemma uexec_S f p s b : uexec (S f) p s b = ubody (uexec f) p s b.
Proof. reflexivity. Qed.

Definition ufix (r : ures) : ures :=
  match r with
  | UR p1 s1 rest d err => if unil err then r else UR (uset_err p1 err) s1 rest d err
  | c => c
  end.

Lemma ufix_ok p s rest d : ufix (UR p s rest d unilE) = UR p s rest d unilE.
Proof. reflexivity. Qed.

Lemma uexec_step_eq p s b : uexec_step p s b = ubody (uexec 2) p s b.
Proof. reflexivity. Qed.

Lemma ex_next rec p s b : u_t (up_cur p) = tNext -> ubody rec p s b = ufix (ustep_value p s b).
Proof. intro H. unfold ubody. rewrite H. reflexivity. Qed.
Lemma ex_fixed rec p s b : u_t (up_cur p) = tFixed -> ubody rec p s b = ufix (ustep_fixed p s b).
Proof. intro H. unfold ubody. rewrite H. reflexivity. Qed.
Lemma ex_high rec p s b : u_t (up_cur p) = tHighPrec -> ubody rec p s b = ufix (ustep_string p s b).
Proof. intro H. unfold ubody. rewrite H. reflexivity. Qed.
Lemma ex_string rec p s b : u_t (up_cur p) = tString -> ubody rec p s b = ufix (ustep_string p s b).
Proof. intro H. unfold ubody. rewrite H. reflexivity. Qed.

(* ---------- parser state algebra ---------- *)
Definition uset_vtype (p : uparser) (vt : btype) : uparser :=
  {| up_cur := up_cur p; up_stack := up_stack p; up_vcur := up_vcur p; up_vstack := up_vstack p; up_lcur := up_lcur p;
     up_lstack := up_lstack p; up_buf := up_buf p; up_marker := up_marker p; up_vtype := vt; up_err := up_err p |}.

Definition vinv (p : uparser) : Prop :=
  u_t (up_vcur p) = tFail -> up_vcur p = mku tFail sStart /\ up_vstack p = [].

Definition uctx (p : uparser) : Prop :=
  up_buf p = [] /\ up_marker p = 0 /\ u_t (up_cur p) <> tFail /\ vinv p.

Definition after_val (p : uparser) (s : sink) (rest : bytes) : ures :=
  UR p s rest (zlen (up_stack p) =? 0) unilE.

Ltac pdestruct p :=
  destruct p as [[?ct ?cs] ?stk [?vt ?vs] ?vstk ?lc ?ls ?bf ?mk ?vty ?er];
  unfold uctx, vinv, uset_vtype, u_push, u_pop, v_push, v_pop, ul_push, ul_pop, uset_cur, uset_buf, uset_lcur,
    uset_marker, uset_err, uset_step, uset_type, with_step, mku in *;
  cbn [up_cur up_stack up_vcur up_vstack up_lcur up_lstack up_buf up_marker up_vtype up_err u_t u_s] in *.

Lemma vtype_id p : uset_vtype p (up_vtype p) = p.
Proof. pdestruct p. reflexivity. Qed.

Lemma vtype_vtype p a b : uset_vtype (uset_vtype p a) b = uset_vtype p b.
Proof. reflexivity. Qed.

Lemma uctx_vtype p vt : uctx p -> uctx (uset_vtype p vt).
Proof. intro H. exact H. Qed.

Lemma stack_vtype p vt : up_stack (uset_vtype p vt) = up_stack p.
Proof. reflexivity. Qed.

Lemma pop_push p st : u_t (up_cur p) <> tFail -> u_pop (u_push p st) = p.
Proof. intro H. pdestruct p. rewrite (neq_eqb _ _ H). reflexivity. Qed.

Lemma upop_state_push p st : u_t (up_cur p) <> tFail ->
  upop_state (u_push p st) = (p, zlen (up_stack p) =? 0).
Proof. intro H. unfold upop_state. rewrite pop_push by exact H. reflexivity. Qed.

(* collect on an empty buffer with the whole token available *)
Lemma ucollect_fast p b k : up_buf p = [] -> 0 <= k -> k <= zlen b ->
  ucollect p b k = UC p (uzskipn k b) (Some (uzfirstn k b)).
Proof.
  intros Hb Hk Hl. unfold ucollect. rewrite Hb. change (zlen [] >? 0) with false. cbv iota.
  destruct (k <? 0) eqn:E1; [lia|].
  destruct (zlen b >=? k) eqn:E2; [reflexivity|lia].
Qed.

Lemma ucollect_take p b k a r : up_buf p = [] -> take k b = Some (a, r) ->
  ucollect p b k = UC p r (Some a).
Proof.
  intros Hb Ht. apply take_some in Ht as (Hk & Hl & -> & -> & _ & _).
  apply ucollect_fast; assumption.
Qed.

(* ====================================================================== *)
(* Part 4: the resource guard and the goal for one value                    *)
(* ====================================================================== *)

(* Typed arrays of zero-sized elements ([$Z#n, [$T#n, [$F#n) cost the parser one
   loop iteration per element without consuming input.  [ztc b] is the sum of the
   counts announced by all byte sequences "$" ("Z"|"T"|"F") "#" <length> occurring
   anywhere in b (an over-approximation: also inside strings). *)
Definition zt_local (b : bytes) : Z :=
  match b with
  | d :: t :: c :: r =>
      if (d =? mType) && ((t =? mZ) || (t =? mT) || (t =? mF)) && (c =? mCount)
      then match ubj_len r with LVal n _ => n | _ => 0 end
      else 0
  | _ => 0
  end.

Fixpoint ztc (b : bytes) : Z :=
  match b with
  | [] => 0
  | x :: r => zt_local (x :: r) + ztc r
  end.

Definition no_huge_zero_typed (b : bytes) : bool := ztc b <=? 5 * zlen b + 8000.

Lemma ubj_len_nonneg b n r : ubj_len b = LVal n r -> 0 <= n.
Proof.
  unfold ubj_len. destruct b as [|m r0]; [discriminate|].
  assert (H : forall (k : Z) (sg : bool), match take k r0 with
            | Some (a, r') => let v := if sg then wraps (8 * k) (be_dec a) else be_dec a in
                              if v <? 0 then LBad else LVal v r'
            | None => LTrunc end = LVal n r -> 0 <= n).
  { intros k sg. destruct (take k r0) as [[a r']|]; [|discriminate]. cbv zeta.
    set (v := if sg then wraps (8 * k) (be_dec a) else be_dec a).
    destruct (v <? 0) eqn:E; [discriminate|].
    intro H. inversion H. subst n. lia. }
  destruct (m =? mi); [apply (H 1 true)|]. destruct (m =? mU); [apply (H 1 false)|].
  destruct (m =? mI); [apply (H 2 true)|].
  destruct (m =? ml); [apply (H 4 true)|]. destruct (m =? mL); [apply (H 8 true)|]. discriminate.
Qed.

Lemma zt_local_nonneg b : 0 <= zt_local b.
Proof.
  unfold zt_local. destruct b as [|d [|t [|c r]]]; try lia.
  destruct ((d =? mType) && ((t =? mZ) || (t =? mT) || (t =? mF)) && (c =? mCount)); [|lia].
  destruct (ubj_len r) as [n r'| |] eqn:E; try lia. eapply ubj_len_nonneg; exact E.
Qed.

Lemma ztc_nonneg b : 0 <= ztc b.
Proof. induction b as [|x r IH]; cbn [ztc]; [lia|]. pose proof (zt_local_nonneg (x :: r)). lia. Qed.

Lemma ztc_cons x r : ztc (x :: r) = zt_local (x :: r) + ztc r.
Proof. reflexivity. Qed.

Lemma ztc_cons_ge x r : ztc r <= ztc (x :: r).
Proof. rewrite ztc_cons. pose proof (zt_local_nonneg (x :: r)). lia. Qed.

Lemma ztc_app_ge a r : ztc r <= ztc (a ++ r).
Proof. induction a as [|x a IH]; cbn [app]; [lia|]. pose proof (ztc_cons_ge x (a ++ r)). lia. Qed.

Lemma ztc_take k b a r : take k b = Some (a, r) -> ztc r <= ztc b.
Proof. intro H. apply take_some in H as (_ & _ & _ & _ & -> & _). apply ztc_app_ge. Qed.

#[local] Opaque ztc.

(* n loop iterations are paid for by the bytes consumed (3 per byte) and by [ztc] *)
Definition budget (n : nat) (b rest : bytes) : Prop :=
  Z.of_nat n + 3 * zlen rest + ztc rest <= 3 * zlen b + ztc b.

Lemma budget_take n k b a r : take k b = Some (a, r) -> Z.of_nat n <= 3 * k -> budget n b r.
Proof.
  intros H Hn. unfold budget. pose proof (ztc_take _ _ _ _ H).
  apply take_some in H as (_ & _ & _ & _ & -> & Hl). rewrite zlen_app. lia.
Qed.

(* the payload of a value whose marker m has been read and whose start state st is pushed *)
Definition pgoal (m : Z) (st : ustate) (b : bytes) (v : cvalue) (rest : bytes) (p : uparser) (s : sink) : Prop :=
  exists t n vt, wf_tree t = true /\ tree_matches (marker_btype m) t = true /\ cv (value_of t) = v /\
    budget n b rest /\ all_bytes rest = true /\
    reaches (uexec_step (u_push p st) s b) (after_val (uset_vtype p vt) (sadd s (flatten t)) rest) n.

(* ====================================================================== *)
(* Part 5: fixed-size scalars                                               *)
(* ====================================================================== *)

Definition fixed_tab (stp : Z) : option (Z * (Z -> event)) :=
  if stp =? sInt8 then Some (1, fun v => EVal (SNum KInt8 (wraps 8 v)))
  else if stp =? sUInt8 then Some (1, fun v => EVal (SNum KUint8 v))
  else if stp =? sChar then Some (1, fun v => EVal (SNum KByte v))
  else if stp =? sInt16 then Some (2, fun v => EVal (SNum KInt16 (wraps 16 v)))
  else if stp =? sInt32 then Some (4, fun v => EVal (SNum KInt32 (wraps 32 v)))
  else if stp =? sInt64 then Some (8, fun v => EVal (SNum KInt64 (wraps 64 v)))
  else if stp =? sFloat32 then Some (4, fun v => EVal (SNum KFloat32 v))
  else if stp =? sFloat64 then Some (8, fun v => EVal (SNum KFloat64 v))
  else None.

Ltac kred := cbn [Z.eqb Pos.eqb sStart sNil sNoop sTrue sFalse sInt8 sUInt8 sInt16 sInt32 sInt64 sFloat32
                  sFloat64 sChar sWithLen sWithType0 sWithType1 sCont sFieldName sFieldNameLen
                  tFail tNext tFixed tHighPrec tString tArray tArrayDyn tArrayCount tArrayTyped tObject
                  tObjectDyn tObjectCount tObjectTyped andb orb negb].

Lemma ustep_fixed_ok q s b stp k mk a r :
  u_s (up_cur q) = stp -> fixed_tab stp = Some (k, mk) -> up_buf q = [] -> s_fail s = None ->
  take k b = Some (a, r) ->
  ustep_fixed q s b = let '(p1, d) := upop_state q in UR p1 (sadd s [mk (be_dec a)]) r d unilE.
Proof.
  intros Hst Htab Hbuf Hs Ht. unfold fixed_tab in Htab.
  destruct (stp =? sInt8) eqn:E1.
  { assert (stp = sInt8) by lia. subst stp. inversion Htab; subst k mk. clear Htab.
    apply take_1_inv in Ht as (x & -> & ->). rewrite be_dec_1.
    unfold ustep_fixed. rewrite H. kred. rewrite uvis_ok by exact Hs. kred. rewrite unil_nil. reflexivity. }
  destruct (stp =? sUInt8) eqn:E2.
  { assert (stp = sUInt8) by lia. subst stp. inversion Htab; subst k mk. clear Htab.
    apply take_1_inv in Ht as (x & -> & ->). rewrite be_dec_1.
    unfold ustep_fixed. rewrite H. kred. rewrite uvis_ok by exact Hs. kred. rewrite unil_nil. reflexivity. }
  destruct (stp =? sChar) eqn:E3.
  { assert (stp = sChar) by lia. subst stp. inversion Htab; subst k mk. clear Htab.
    unfold ustep_fixed. rewrite H. kred. rewrite (ucollect_take _ _ _ _ _ Hbuf Ht).
    rewrite uvis_ok by exact Hs. kred. rewrite unil_nil. reflexivity. }
  destruct (stp =? sInt16) eqn:E4.
  { assert (stp = sInt16) by lia. subst stp. inversion Htab; subst k mk. clear Htab.
    unfold ustep_fixed. rewrite H. kred. rewrite (ucollect_take _ _ _ _ _ Hbuf Ht).
    rewrite uvis_ok by exact Hs. kred. rewrite unil_nil. reflexivity. }
  destruct (stp =? sInt32) eqn:E5.
  { assert (stp = sInt32) by lia. subst stp. inversion Htab; subst k mk. clear Htab.
    unfold ustep_fixed. rewrite H. kred. rewrite (ucollect_take _ _ _ _ _ Hbuf Ht).
    rewrite uvis_ok by exact Hs. kred. rewrite unil_nil. reflexivity. }
  destruct (stp =? sInt64) eqn:E6.
  { assert (stp = sInt64) by lia. subst stp. inversion Htab; subst k mk. clear Htab.
    unfold ustep_fixed. rewrite H. kred. rewrite (ucollect_take _ _ _ _ _ Hbuf Ht).
    rewrite uvis_ok by exact Hs. kred. rewrite unil_nil. reflexivity. }
  destruct (stp =? sFloat32) eqn:E7.
  { assert (stp = sFloat32) by lia. subst stp. inversion Htab; subst k mk. clear Htab.
    unfold ustep_fixed. rewrite H. kred. rewrite (ucollect_take _ _ _ _ _ Hbuf Ht).
    rewrite uvis_ok by exact Hs. kred. rewrite unil_nil. reflexivity. }
  destruct (stp =? sFloat64) eqn:E8; [|discriminate].
  { assert (stp = sFloat64) by lia. subst stp. inversion Htab; subst k mk. clear Htab.
    unfold ustep_fixed. rewrite H. kred. rewrite (ucollect_take _ _ _ _ _ Hbuf Ht).
    rewrite uvis_ok by exact Hs. kred. rewrite unil_nil. reflexivity. }
Qed.

Definition frow (m stp k : Z) (K : nkind) (g : Z -> Z) : Prop :=
  marker_state m = Some (mku tFixed stp) /\
  fixed_tab stp = Some (k, fun v => EVal (SNum K (g v))) /\
  (forall f b, ubj_payload (S f) m b =
     match take k b with Some (a, r) => RValue (CNum (canon_num K (g (be_dec a)))) r | None => RTruncated end) /\
  (forall a, zlen a = k -> all_bytes a = true -> nkind_ok K (g (be_dec a)) = true) /\
  (forall z, scalar_matches (marker_btype m) (SNum K z) = true) /\ 1 <= k.

Lemma tm_val bt s r : tree_matches bt (TVal s r) = scalar_matches bt s.
Proof. destruct bt; reflexivity. Qed.

Lemma fixed_goal m stp k K g f b v rest p s : frow m stp k K g ->
  ubj_payload (S f) m b = RValue v rest -> all_bytes b = true -> uctx p -> s_fail s = None ->
  pgoal m (mku tFixed stp) b v rest p s.
Proof.
  intros (Hms & Htab & Href & Hok & Hmat & Hk) H Hb (Hbuf & Hmk & Hcur & Hv) Hs.
  rewrite Href in H. destruct (take k b) as [[a r]|] eqn:Ht; [|discriminate].
  inversion H; subst v rest. clear H.
  destruct (take_bytes _ _ _ _ Ht Hb) as [Hba Hbr].
  pose proof (take_some _ _ _ _ Ht) as (_ & _ & _ & _ & _ & Hza).
  exists (TVal (SNum K (g (be_dec a))) false), 0%nat, (up_vtype p).
  split; [apply Hok; assumption|]. split; [rewrite tm_val; apply Hmat|]. split; [reflexivity|].
  split; [eapply budget_take; [exact Ht|lia]|]. split; [exact Hbr|].
  apply reaches_eq. rewrite uexec_step_eq, ex_fixed by reflexivity.
  rewrite (ustep_fixed_ok _ s b stp k (fun v => EVal (SNum K (g v))) a r) by (try reflexivity; assumption).
  rewrite upop_state_push by exact Hcur. rewrite vtype_id. reflexivity.
Qed.

Lemma wraps_in_s_8 z : in_s 8 (wraps 8 z) = true.
Proof. unfold in_s, wraps. change (2 ^ 8) with 256. change (2 ^ (8 - 1)) with 128.
  destruct (z mod 256 <? 128) eqn:E; lia. Qed.
Lemma wraps_in_s_16 z : in_s 16 (wraps 16 z) = true.
Proof. unfold in_s, wraps. change (2 ^ 16) with 65536. change (2 ^ (16 - 1)) with 32768.
  destruct (z mod 65536 <? 32768) eqn:E; lia. Qed.
Lemma wraps_in_s_32 z : in_s 32 (wraps 32 z) = true.
Proof. unfold in_s, wraps. change (2 ^ 32) with 4294967296. change (2 ^ (32 - 1)) with 2147483648.
  destruct (z mod 4294967296 <? 2147483648) eqn:E; lia. Qed.
Lemma wraps_in_s_64 z : in_s 64 (wraps 64 z) = true.
Proof. unfold in_s, wraps. change (2 ^ 64) with 18446744073709551616.
  change (2 ^ (64 - 1)) with 9223372036854775808.
  destruct (z mod 18446744073709551616 <? 9223372036854775808) eqn:E; lia. Qed.

Lemma be_dec_in_u a k w B : zlen a = Z.of_nat k -> all_bytes a = true ->
  256 ^ Z.of_nat k = B -> 2 ^ w = B -> in_u w (be_dec a) = true.
Proof.
  intros Hl Hb HB Hw. pose proof (be_dec_bound a Hb) as Bd. unfold zlen in Hl.
  replace (length a) with k in Bd by lia. rewrite HB in Bd. unfold in_u. rewrite Hw. lia.
Qed.

Lemma row_i : frow mi sInt8 1 KInt8 (wraps 8).
Proof. repeat split; try reflexivity; try lia. intros a _ _. apply wraps_in_s_8. Qed.
Lemma row_U : frow mU sUInt8 1 KUint8 (fun v => v).
Proof. repeat split; try reflexivity; try lia. intros a Hl Hb.
  apply (be_dec_in_u a 1 8 256); auto. Qed.
Lemma row_C : frow mC sChar 1 KByte (fun v => v).
Proof. repeat split; try reflexivity; try lia. intros a Hl Hb.
  apply (be_dec_in_u a 1 8 256); auto. Qed.
Lemma row_I : frow mI sInt16 2 KInt16 (wraps 16).
Proof. repeat split; try reflexivity; try lia. intros a _ _. apply wraps_in_s_16. Qed.
Lemma row_l : frow ml sInt32 4 KInt32 (wraps 32).
Proof. repeat split; try reflexivity; try lia. intros a _ _. apply wraps_in_s_32. Qed.
Lemma row_L : frow mL sInt64 8 KInt64 (wraps 64).
Proof. repeat split; try reflexivity; try lia. intros a _ _. apply wraps_in_s_64. Qed.
Lemma row_d : frow md sFloat32 4 KFloat32 (fun v => v).
Proof. repeat split; try reflexivity; try lia. intros a Hl Hb.
  apply (be_dec_in_u a 4 32 4294967296); auto. Qed.
Lemma row_D : frow mD sFloat64 8 KFloat64 (fun v => v).
Proof. repeat split; try reflexivity; try lia. intros a Hl Hb.
  apply (be_dec_in_u a 8 64 18446744073709551616); auto. Qed.

(* zero-sized scalars as elements of a typed container *)
Lemma zero_goal m stp t0 b v rest p s :
  marker_state m = Some (mku tFixed stp) ->
  (m = mZ /\ stp = sNil /\ t0 = TVal SNil false /\ v = CNil) \/
  (m = mT /\ stp = sTrue /\ t0 = TVal (SBool true) false /\ v = CBool true) \/
  (m = mF /\ stp = sFalse /\ t0 = TVal (SBool false) false /\ v = CBool false) ->
  b = rest -> all_bytes b = true -> uctx p -> s_fail s = None ->
  pgoal m (mku tFixed stp) b v rest p s.
Proof.
  intros Hms Hc <- Hb (Hbuf & Hmk & Hcur & Hv) Hs.
  exists t0, 0%nat, (up_vtype p).
  assert (Hstep : ustep_fixed (u_push p (mku tFixed stp)) s b =
                  after_val p (sadd s (flatten t0)) b).
  { unfold ustep_fixed. change (u_s (up_cur (u_push p (mku tFixed stp)))) with stp.
    destruct Hc as [(-> & -> & -> & ->)|[(-> & -> & -> & ->)|(-> & -> & -> & ->)]]; kred;
      rewrite uvis_ok by exact Hs; kred; rewrite unil_nil; cbv iota;
      rewrite upop_state_push by exact Hcur; reflexivity. }
  split; [destruct Hc as [(-> & -> & -> & ->)|[(-> & -> & -> & ->)|(-> & -> & -> & ->)]]; reflexivity|].
  split; [destruct Hc as [(-> & -> & -> & ->)|[(-> & -> & -> & ->)|(-> & -> & -> & ->)]]; reflexivity|].
  split; [destruct Hc as [(-> & -> & -> & ->)|[(-> & -> & -> & ->)|(-> & -> & -> & ->)]]; reflexivity|].
  split; [unfold budget; lia|]. split; [exact Hb|].
  apply reaches_eq. rewrite uexec_step_eq, ex_fixed by reflexivity. rewrite Hstep, vtype_id. reflexivity.
Qed.

(* ====================================================================== *)
(* Part 6: lengths, strings                                                 *)
(* ====================================================================== *)

Lemma marker_id p : up_marker p = 0 -> forall m, uset_marker (uset_marker p m) 0 = p.
Proof. intros H m. pdestruct p. subst. reflexivity. Qed.

Lemma ustep_len_ok p b cont n r1 : up_buf p = [] -> up_marker p = 0 ->
  ubj_len b = LVal n r1 ->
  ustep_len p b cont = UL (ul_push (uset_cur p cont) n) r1 unilE.
Proof.
  intros Hbuf Hmk H. destruct b as [|m r]; [discriminate|].
  unfold ustep_len. rewrite Hmk. change (0 =? 0) with true. cbv iota.
  unfold ubj_len in H.
  change (up_marker (uset_marker p m)) with m.
  assert (Hc : forall k a r', take k r = Some (a, r') -> 1 <= k -> (zlen r =? 0) = false).
  { intros k a r' Ht Hk. apply take_some in Ht as (_ & Hl & _). lia. }
  destruct (m =? mi) eqn:E1.
  { destruct (take 1 r) as [[a r']|] eqn:Ht; [|discriminate].
    rewrite (Hc _ _ _ Ht) by lia.
    apply take_1_inv in Ht as (x & -> & ->). rewrite be_dec_1 in H. change (8 * 1) with 8 in H.
    destruct (wraps 8 x <? 0) eqn:E; [discriminate|]. inversion H; subst n r1.
    cbn [orb negb]. rewrite marker_id by exact Hmk. reflexivity. }
  destruct (m =? mU) eqn:E2.
  { destruct (take 1 r) as [[a r']|] eqn:Ht; [|discriminate].
    rewrite (Hc _ _ _ Ht) by lia.
    apply take_1_inv in Ht as (x & -> & ->). rewrite be_dec_1 in H.
    destruct (x <? 0) eqn:E; [discriminate|]. inversion H; subst n r1.
    cbn [orb negb]. rewrite marker_id by exact Hmk. reflexivity. }
  destruct (m =? mI) eqn:E3.
  { destruct (take 2 r) as [[a r']|] eqn:Ht; [|discriminate].
    rewrite (Hc _ _ _ Ht) by lia.
    rewrite (ucollect_take (uset_marker p m) _ _ _ _ Hbuf Ht).
    destruct (wraps (8 * 2) (be_dec a) <? 0) eqn:E; [discriminate|]. inversion H; subst n r1.
    cbn [orb negb]. rewrite marker_id by exact Hmk. reflexivity. }
  destruct (m =? ml) eqn:E4.
  { destruct (take 4 r) as [[a r']|] eqn:Ht; [|discriminate].
    rewrite (Hc _ _ _ Ht) by lia.
    rewrite (ucollect_take (uset_marker p m) _ _ _ _ Hbuf Ht).
    destruct (wraps (8 * 4) (be_dec a) <? 0) eqn:E; [discriminate|]. inversion H; subst n r1.
    cbn [orb negb]. rewrite marker_id by exact Hmk. reflexivity. }
  destruct (m =? mL) eqn:E5; [|discriminate].
  { destruct (take 8 r) as [[a r']|] eqn:Ht; [|discriminate].
    rewrite (Hc _ _ _ Ht) by lia.
    rewrite (ucollect_take (uset_marker p m) _ _ _ _ Hbuf Ht).
    destruct (wraps (8 * 8) (be_dec a) <? 0) eqn:E; [discriminate|]. inversion H; subst n r1.
    cbn [orb negb]. rewrite marker_id by exact Hmk. reflexivity. }
Qed.

Lemma ubj_len_rest b n r1 : ubj_len b = LVal n r1 -> exists pre, b = pre ++ r1 /\ 2 <= zlen pre.
Proof.
  unfold ubj_len. destruct b as [|m r0]; [discriminate|].
  assert (H : forall (k : Z) (sg : bool), 1 <= k -> match take k r0 with
            | Some (a, r') => let v := if sg then wraps (8 * k) (be_dec a) else be_dec a in
                              if v <? 0 then LBad else LVal v r'
            | None => LTrunc end = LVal n r1 -> exists pre, m :: r0 = pre ++ r1 /\ 2 <= zlen pre).
  { intros k sg Hk. destruct (take k r0) as [[a r']|] eqn:Ht; [|discriminate]. cbv zeta.
    set (v := if sg then wraps (8 * k) (be_dec a) else be_dec a).
    destruct (v <? 0) eqn:E; [discriminate|].
    intro H. inversion H. subst r'. apply take_some in Ht as (_ & _ & _ & _ & -> & Hl).
    exists (m :: a). split; [reflexivity|]. rewrite zlen_cons. lia. }
  destruct (m =? mi); [apply (H 1 true); lia|]. destruct (m =? mU); [apply (H 1 false); lia|].
  destruct (m =? mI); [apply (H 2 true); lia|].
  destruct (m =? ml); [apply (H 4 true); lia|]. destruct (m =? mL); [apply (H 8 true); lia|]. discriminate.
Qed.

Lemma ubj_len_facts b n r1 : ubj_len b = LVal n r1 -> all_bytes b = true ->
  all_bytes r1 = true /\ 0 <= n /\ zlen r1 + 2 <= zlen b /\ ztc r1 <= ztc b.
Proof.
  intros H Hb. pose proof (ubj_len_nonneg _ _ _ H) as Hn.
  apply ubj_len_rest in H as (pre & -> & Hl). rewrite all_bytes_app in Hb.
  apply andb_true_iff in Hb as [_ Hb]. rewrite zlen_app. pose proof (ztc_app_ge pre r1).
  repeat split; try assumption; lia.
Qed.

Lemma lpop_lpush p n : ul_pop (ul_push p n) = p.
Proof. pdestruct p. reflexivity. Qed.

Lemma zlen_zero_nil {A} (l : list A) : zlen l = 0 -> l = [].
Proof. destruct l; [reflexivity|]. rewrite zlen_cons. pose proof (zlen_nonneg l). lia. Qed.

Lemma string_goal m T f b v rest p s :
  (m = mS /\ T = tString) \/ (m = mH /\ T = tHighPrec) ->
  ubj_payload (S f) m b = RValue v rest -> all_bytes b = true -> uctx p -> s_fail s = None ->
  pgoal m (mku T sStart) b v rest p s.
Proof.
  intros Hm H Hb (Hbuf & Hmk & Hcur & Hv) Hs.
  assert (H' : ustr b = RValue v rest) by (destruct Hm as [[-> _]|[-> _]]; exact H). clear H.
  unfold ustr in H'. destruct (ubj_len b) as [n r1| |] eqn:Hl; try discriminate.
  destruct (take n r1) as [[a r']|] eqn:Ht; [|discriminate]. inversion H'; subst v rest. clear H'.
  destruct (ubj_len_facts _ _ _ Hl Hb) as (Hbr1 & Hn0 & Hlen & Hz).
  destruct (take_bytes _ _ _ _ Ht Hbr1) as [Hba Hbr'].
  pose proof (take_some _ _ _ _ Ht) as (_ & Hnl & _ & _ & Hr1 & Hza).
  pose proof (ztc_take _ _ _ _ Ht) as Hz2.
  set (q := u_push p (mku T sStart)).
  assert (Hlenstep : ustep_len q b (with_step (up_cur q) sWithLen) =
            UL (ul_push (u_push p (mku T sWithLen)) n) r1 unilE).
  { rewrite (ustep_len_ok q b _ n r1) by assumption. reflexivity. }
  assert (Hpop : upop_len_state (ul_push (u_push p (mku T sWithLen)) n) = (p, zlen (up_stack p) =? 0)).
  { unfold upop_len_state. rewrite lpop_lpush. apply upop_state_push. exact Hcur. }
  assert (HT : uexec_step q s b = ufix (ustep_string q s b)).
  { rewrite uexec_step_eq. destruct Hm as [[_ ->]|[_ ->]]; [apply ex_string|apply ex_high]; reflexivity. }
  assert (Hmat : forall x r0, tree_matches (marker_btype m) (TVal (SStr x) r0) = true).
  { intros x r0. destruct Hm as [[-> _]|[-> _]]; reflexivity. }
  assert (Hbud : budget 0 b r').
  { unfold budget. rewrite Hr1 in Hlen. rewrite zlen_app in Hlen. pose proof (zlen_nonneg a). lia. }
  destruct (n =? 0) eqn:En.
  - assert (Ha0 : a = []) by (apply zlen_zero_nil; lia). assert (N0 : n = 0) by lia.
    clear Hza. subst a. subst n. cbn [app] in Hr1. subst r'.
    exists (TVal (SStr []) false), 0%nat, (up_vtype p).
    split; [reflexivity|]. split; [apply Hmat|]. split; [reflexivity|]. split; [exact Hbud|].
    split; [exact Hbr1|].
    apply reaches_eq. fold q. rewrite HT. unfold ustep_string.
    change (u_s (up_cur q)) with sStart. kred. rewrite Hlenstep. rewrite unil_nil. kred.
    change (up_lcur (ul_push (u_push p (mku T sWithLen)) 0)) with 0. kred.
    rewrite uvis_ok by exact Hs. rewrite unil_nil. kred. rewrite Hpop, vtype_id. reflexivity.
  - exists (TVal (SStr a) true), 0%nat, (up_vtype p).
    split; [exact Hba|]. split; [apply Hmat|]. split; [reflexivity|]. split; [exact Hbud|].
    split; [exact Hbr'|].
    apply reaches_eq. fold q. rewrite HT. unfold ustep_string.
    change (u_s (up_cur q)) with sStart. kred. rewrite Hlenstep. rewrite unil_nil. kred.
    change (up_lcur (ul_push (u_push p (mku T sWithLen)) n)) with n. rewrite En.
    change (u_s (up_cur (ul_push (u_push p (mku T sWithLen)) n))) with sWithLen. kred.
    rewrite (ucollect_take (ul_push (u_push p (mku T sWithLen)) n) _ _ _ _ Hbuf Ht).
    rewrite uvis_ok by exact Hs. rewrite unil_nil. kred. rewrite Hpop, vtype_id.
    destruct a as [|a0 a']; [rewrite zlen_nil in Hza; lia|]. reflexivity.
Qed.
