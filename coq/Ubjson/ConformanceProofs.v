(* C06 (and C09 for the UBJSON parser on accepted inputs): the UBJSON parser
   model reads every valid draft-12 value with exactly the value the reference
   decoder (Ubjson/Spec.v) assigns, emitting a well-formed event stream
   (whole-buffer Parse, visitor never fails). *)
From Coq Require Import List NArith ZArith Bool Lia.
From Coq Require Import ZifyBool ZifyNat ZifyN.
From SF Require Import Base.Prelude Base.PreludeProofs Core.Events Core.EventsProofs
  Core.AdapterProofs Ubjson.Spec Ubjson.Parse Ubjson.RoundtripProofs.
Import ListNotations.
Open Scope Z_scope.

Ltac Zify.zify_post_hook ::= Z.div_mod_to_equations.

(* ====================================================================== *)
(* Part 0: generic helpers                                                  *)
(* ====================================================================== *)

Lemma all_bytes_app a b : all_bytes (a ++ b) = all_bytes a && all_bytes b.
Proof. unfold all_bytes. apply forallb_app. Qed.

Lemma all_bytes_cons x l : all_bytes (x :: l) = is_byte x && all_bytes l.
Proof. reflexivity. Qed.

Lemma zlen_cons {A} (x : A) l : zlen (x :: l) = 1 + zlen l.
Proof. unfold zlen. cbn [length]. lia. Qed.

Lemma zlen_nil {A} : zlen (@nil A) = 0.
Proof. reflexivity. Qed.

Lemma zlen_nonneg {A} (l : list A) : 0 <= zlen l.
Proof. unfold zlen. lia. Qed.

Lemma zlen_app {A} (a b : list A) : zlen (a ++ b) = zlen a + zlen b.
Proof. unfold zlen. rewrite app_length. lia. Qed.

Lemma take_some k r a r' : take k r = Some (a, r') ->
  0 <= k /\ k <= zlen r /\ a = uzfirstn k r /\ r' = uzskipn k r /\ r = a ++ r' /\ zlen a = k.
Proof.
  unfold take. destruct (k <? 0) eqn:E1; [discriminate|].
  destruct (zlen r <? k) eqn:E2; [discriminate|].
  intro H. inversion H; subst. unfold uzfirstn, uzskipn.
  repeat split; try lia.
  - symmetry. apply firstn_skipn.
  - unfold zlen in *. rewrite firstn_length. lia.
Qed.

Lemma all_bytes_firstn n l : all_bytes l = true -> all_bytes (firstn n l) = true.
Proof.
  intro H. rewrite <- (firstn_skipn n l) in H. rewrite all_bytes_app in H.
  apply andb_true_iff in H. tauto.
Qed.
Lemma all_bytes_skipn n l : all_bytes l = true -> all_bytes (skipn n l) = true.
Proof.
  intro H. rewrite <- (firstn_skipn n l) in H. rewrite all_bytes_app in H.
  apply andb_true_iff in H. tauto.
Qed.

Lemma take_bytes k r a r' : take k r = Some (a, r') -> all_bytes r = true ->
  all_bytes a = true /\ all_bytes r' = true.
Proof.
  intros H Hb. apply take_some in H as (_ & _ & -> & -> & _ & _).
  unfold uzfirstn, uzskipn. split; [apply all_bytes_firstn | apply all_bytes_skipn]; exact Hb.
Qed.

Lemma take_len k r a r' : take k r = Some (a, r') ->
  (length r = Z.to_nat k + length r')%nat /\ 0 <= k.
Proof.
  intro H. apply take_some in H as (Hk & Hl & _ & _ & E & Ha).
  rewrite E at 1. rewrite app_length. unfold zlen in *. lia.
Qed.

Lemma take_1_inv b a r : take 1 b = Some (a, r) -> exists x, b = x :: r /\ a = [x].
Proof.
  intro H. apply take_some in H as (_ & Hl & Ha & Hr & _ & _).
  destruct b as [|x b']; [rewrite zlen_nil in Hl; lia|].
  exists x. unfold uzfirstn, uzskipn in *. change (Z.to_nat 1) with 1%nat in *.
  cbn [firstn skipn] in *. subst. auto.
Qed.

Lemma be_dec_1 x : be_dec [x] = x.
Proof. unfold be_dec. cbn [be_dec_acc]. lia. Qed.

Lemma neq_eqb a b : a <> b -> (a =? b) = false.
Proof. intro H. apply Z.eqb_neq. exact H. Qed.

(* ====================================================================== *)
(* Part 1: sinks that never fail                                            *)
(* ====================================================================== *)

Definition sadd (s : sink) (evs : list event) : sink :=
  {| s_rlog := rev evs ++ s_rlog s; s_n := length evs + s_n s; s_fail := s_fail s |}.

Lemma sadd_fail s evs : s_fail (sadd s evs) = s_fail s.
Proof. reflexivity. Qed.

Lemma sadd_app s a b : sadd (sadd s a) b = sadd s (a ++ b).
Proof.
  unfold sadd. cbn [s_rlog s_n s_fail]. f_equal.
  - rewrite rev_app_distr, app_assoc. reflexivity.
  - rewrite app_length. lia.
Qed.

Lemma sadd_nil s : sadd s [] = s.
Proof. destruct s. reflexivity. Qed.

Lemma sadd_log s evs : s_log (sadd s evs) = s_log s ++ evs.
Proof.
  unfold s_log, sadd. cbn [s_rlog]. rewrite rev_app_distr, rev_involutive. reflexivity.
Qed.

Lemma uvis_ok s e : s_fail s = None -> uvis s e = (sadd s [e], unilE).
Proof.
  intro H. unfold uvis, emit. rewrite H. unfold sadd. cbn [rev app length]. rewrite H.
  reflexivity.
Qed.

Lemma unil_nil : unil unilE = true.
Proof. reflexivity. Qed.

(* ====================================================================== *)
(* Part 2: the feed loop without its fuel                                   *)
(* ====================================================================== *)

Definition ucontb (rest : bytes) (p1 : uparser) : bool :=
  negb ((zlen rest =? 0) && negb (can_step_without_input p1)).

Definition ufu_cont (f : nat) (r : ures) : res ures :=
  match r with
  | UCrash w => Panic w
  | UR p1 s1 rest done err =>
      if done || negb (unil err) then Ok (UR p1 s1 rest done err)
      else if (zlen rest =? 0) && negb (can_step_without_input p1) then Ok (UR p1 s1 rest done err)
      else ufeed_until f p1 s1 rest
  end.

Lemma ufeed_until_S f p s b : ufeed_until (S f) p s b = ufu_cont f (uexec_step p s b).
Proof. reflexivity. Qed.

Definition reaches (X Y : ures) (n : nat) : Prop :=
  forall f, ufu_cont (n + f) X = ufu_cont f Y.

Lemma reaches_refl X : reaches X X 0.
Proof. intro f. reflexivity. Qed.

Lemma reaches_eq X Y : X = Y -> reaches X Y 0.
Proof. intros ->. apply reaches_refl. Qed.

Lemma reaches_trans X Y Z n m : reaches X Y n -> reaches Y Z m -> reaches X Z (n + m).
Proof.
  intros H1 H2 f. rewrite <- Nat.add_assoc. rewrite H1. apply H2.
Qed.

Lemma reaches_step p s rest : ucontb rest p = true ->
  reaches (UR p s rest false unilE) (uexec_step p s rest) 1.
Proof.
  intros H f. cbn [Nat.add ufu_cont orb]. rewrite unil_nil. cbn [negb].
  unfold ucontb in H. apply negb_true_iff in H. rewrite H. apply ufeed_until_S.
Qed.

Lemma ucontb_nonempty x r p : ucontb (x :: r) p = true.
Proof. unfold ucontb. rewrite zlen_cons. pose proof (zlen_nonneg r).
  destruct (1 + zlen r =? 0) eqn:E; [lia|]. reflexivity. Qed.

Lemma ucontb_pos rest p : 0 < zlen rest -> ucontb rest p = true.
Proof. intro H. unfold ucontb. destruct (zlen rest =? 0) eqn:E; [lia|reflexivity]. Qed.

Lemma ucontb_can rest p : can_step_without_input p = true -> ucontb rest p = true.
Proof. intro H. unfold ucontb. rewrite H. cbn [negb]. rewrite andb_false_r. reflexivity. Qed.

Lemma reaches_ufix X p s rest d n : reaches X (UR p s rest d unilE) n ->
  match X with UR p1 s1 r1 d1 e1 => if unil e1 then X else UR (uset_err p1 e1) s1 r1 d1 e1 | c => c end = X.
Proof.
  intro H. destruct X as [p1 s1 r1 d1 e1|w]; [|reflexivity].
  destruct (unil e1) eqn:E; [reflexivity|]. exfalso.
  specialize (H 0%nat). cbn [ufu_cont] in H. rewrite E in H. cbn [negb] in H. rewrite orb_true_r in H.
  rewrite unil_nil in H. cbn [negb] in H. rewrite orb_false_r in H.
  destruct d.
  - inversion H. subst e1. discriminate E.
  - destruct ((zlen rest =? 0) && negb (can_step_without_input p)).
    + inversion H. subst e1. discriminate E.
    + cbn [ufeed_until] in H. discriminate H.
Qed.

(* one more step, then the rest *)
Lemma reaches_step_then p s rest Y n : ucontb rest p = true ->
  reaches (uexec_step p s rest) Y n -> reaches (UR p s rest false unilE) Y (1 + n).
Proof. intros H1 H2. eapply reaches_trans; [apply reaches_step; exact H1|exact H2]. Qed.

(* ====================================================================== *)
(* Part 3: execStep, one level unfolded                                     *)
(* ====================================================================== *)

Definition ubody (rec : uparser -> sink -> bytes -> ures) (p : uparser) (s : sink) (b : bytes) : ures :=
  let t := u_t (up_cur p) in
  let step := u_s (up_cur p) in
  let r :=
    if t =? tFail then UR p s b false (if up_err p =? 0 then unilE else up_err p)
    else if t =? tNext then ustep_value p s b
    else if t =? tFixed then ustep_fixed p s b
    else if (t =? tHighPrec) || (t =? tString) then ustep_string p s b
    else if t =? tArray then
      match b with
      | [] => UCrash 14
      | x :: r =>
          if x =? mCount then UR (uset_type p tArrayCount) s r false unilE
          else if x =? mType then UR (uset_type p tArrayTyped) s r false unilE
          else let '(s1, e) := uvis s (EArrStart (-1) BAny) in UR (uset_type p tArrayDyn) s1 b false e
      end
    else if t =? tArrayDyn then
      match b with
      | [] => UCrash 15
      | x :: r =>
          if x =? mArrE then
            let '(s1, e) := uvis s EArrEnd in
            if unil e then let '(p1, d) := upop_state p in UR p1 s1 r d unilE else UR p s1 r true e
          else
            let p1 := if step =? sStart then uset_step p sCont else p in
            value_nodone (ustep_value p1 s b)
      end
    else if t =? tArrayCount then
      if step =? sStart then of_ul (ustep_len p b (with_step (up_cur p) sWithLen)) s
      else
        let l := up_lcur p in
        let '(p1, s1, e0) :=
          if step =? sWithLen then let '(s1, e) := uvis s (EArrStart l BAny) in (uset_step p sCont, s1, e)
          else (p, s, unilE) in
        if negb (unil e0) then UR p1 s1 b false e0
        else if l =? 0 then
          let '(s2, e) := uvis s1 EArrEnd in
          if unil e then let '(p2, d) := upop_len_state p1 in UR p2 s2 b d unilE else UR p1 s2 b true e
        else
          match b with
          | [] => UCrash 16
          | x :: r =>
              if x =? mN then UR p1 s1 r false unilE
              else value_nodone (ustep_value (uset_lcur p1 (up_lcur p1 - 1)) s1 b)
          end
    else if t =? tArrayTyped then
      if (step =? sStart) || (step =? sWithType0) || (step =? sWithType1) then of_ul (ustep_header p b) s
      else
        let l := up_lcur p in
        let '(p1, s1, e0) :=
          if step =? sWithLen then let '(s1, e) := uvis s (EArrStart l (up_vtype p)) in (uset_step p sCont, s1, e)
          else (p, s, unilE) in
        if negb (unil e0) then UR p1 s1 b false e0
        else if l =? 0 then
          let '(s2, e) := uvis s1 EArrEnd in
          if unil e then let '(p2, d) := upop_len_state (v_pop p1) in UR p2 s2 b d unilE else UR p1 s2 b true e
        else
          let p2 := uset_lcur p1 (up_lcur p1 - 1) in
          value_nodone (rec (u_push p2 (up_vcur p2)) s1 b)
    else if t =? tObject then
      match b with
      | [] => UCrash 17
      | x :: r =>
          if x =? mCount then UR (uset_type p tObjectCount) s r false unilE
          else if x =? mType then UR (uset_type p tObjectTyped) s r false unilE
          else let '(s1, e) := uvis s (EObjStart (-1) BAny) in UR (uset_type p tObjectDyn) s1 b false e
      end
    else if (t =? tObjectDyn) && (step =? sFieldNameLen) && (up_lcur p =? 0) then
      let p2 := ul_pop p in
      let '(s1, e) := uvis s (EKeyRef []) in
      UR (uset_step p2 sCont) s1 b false e
    else if t =? tObjectDyn then
      match b with
      | [] => UCrash 18
      | x :: r =>
          if (step =? sStart) && (up_marker p =? 0) && (x =? mObjE) then
            let '(s1, e) := uvis s EObjEnd in
            if unil e then let '(p1, d) := upop_state p in UR p1 s1 r d unilE else UR p s1 r true e
          else if step =? sStart then of_ul (ustep_len p b (with_step (up_cur p) sFieldNameLen)) s
          else if step =? sFieldNameLen then
            match ucollect p b (up_lcur p) with
            | UCC => UCrash 19
            | UC p1 rest None => UR p1 s rest false unilE
            | UC p1 rest (Some tmp) =>
                let p2 := ul_pop p1 in
                let '(s1, e) := uvis s (EKeyRef tmp) in
                UR (uset_step p2 sCont) s1 rest false e
            end
          else if step =? sCont then
            if x =? mN then UR p s r false unilE
            else value_nodone (ustep_value (uset_step p sStart) s b)
          else UR p s b false unilE
      end
    else if t =? tObjectCount then
      if step =? sStart then of_ul (ustep_len p b (with_step (up_cur p) sWithLen)) s
      else
        match ustep_obj_content p s b false with
        | OCC w => UCrash w
        | OC fin p1 s1 rest err =>
            if fin && unil err then let '(p2, d) := upop_len_state p1 in UR p2 s1 rest d unilE
            else UR p1 s1 rest fin err
        end
    else if t =? tObjectTyped then
      if (step =? sStart) || (step =? sWithType0) || (step =? sWithType1) then of_ul (ustep_header p b) s
      else
        match ustep_obj_content p s b true with
        | OCC w => UCrash w
        | OC fin p1 s1 rest err =>
            if fin && unil err then let '(p2, d) := upop_len_state (v_pop p1) in UR p2 s1 rest d unilE
            else UR p1 s1 rest fin err
        end
    else UR p s b false ueInvalidState in
  (* "if err != nil { p.err = err }" *)
  match r with
  | UR p1 s1 rest d err => if unil err then r else UR (uset_err p1 err) s1 rest d err
  | c => c
  end.

Lemma uexec_S f p s b : uexec (S f) p s b = ubody (uexec f) p s b.
Proof. reflexivity. Qed.

Definition ufix (r : ures) : ures :=
  match r with
  | UR p1 s1 rest d err => if unil err then r else UR (uset_err p1 err) s1 rest d err
  | c => c
  end.

Lemma ufix_ok p s rest d : ufix (UR p s rest d unilE) = UR p s rest d unilE.
Proof. reflexivity. Qed.

Lemma ufix_reaches X p s rest d n : reaches X (UR p s rest d unilE) n -> ufix X = X.
Proof. apply reaches_ufix. Qed.

Lemma uexec_step_eq p s b : uexec_step p s b = ubody (uexec 2) p s b.
Proof. reflexivity. Qed.

Lemma ex_next rec p s b : u_t (up_cur p) = tNext -> ubody rec p s b = ufix (ustep_value p s b).
Proof. intro H. unfold ubody. rewrite H. reflexivity. Qed.
Lemma ex_fixed rec p s b : u_t (up_cur p) = tFixed -> ubody rec p s b = ufix (ustep_fixed p s b).
Proof. intro H. unfold ubody. rewrite H. reflexivity. Qed.
Lemma ex_high rec p s b : u_t (up_cur p) = tHighPrec -> ubody rec p s b = ufix (ustep_string p s b).
Proof. intro H. unfold ubody. rewrite H. reflexivity. Qed.
Lemma ex_string rec p s b : u_t (up_cur p) = tString -> ubody rec p s b = ufix (ustep_string p s b).
Proof. intro H. unfold ubody. rewrite H. reflexivity. Qed.

(* ---------- parser state algebra ---------- *)
Definition uset_vtype (p : uparser) (vt : btype) : uparser :=
  {| up_cur := up_cur p; up_stack := up_stack p; up_vcur := up_vcur p; up_vstack := up_vstack p; up_lcur := up_lcur p;
     up_lstack := up_lstack p; up_buf := up_buf p; up_marker := up_marker p; up_vtype := vt; up_err := up_err p |}.

Definition vinv (p : uparser) : Prop :=
  u_t (up_vcur p) = tFail -> up_vcur p = mku tFail sStart /\ up_vstack p = [].

Definition uctx (p : uparser) : Prop :=
  up_buf p = [] /\ up_marker p = 0 /\ u_t (up_cur p) <> tFail /\ vinv p.

Definition after_val (p : uparser) (s : sink) (rest : bytes) : ures :=
  UR p s rest (zlen (up_stack p) =? 0) unilE.

Ltac pdestruct p :=
  destruct p as [[?ct ?cs] ?stk [?vt ?vs] ?vstk ?lc ?ls ?bf ?mk ?vty ?er];
  unfold uctx, vinv, uset_vtype, u_push, u_pop, v_push, v_pop, ul_push, ul_pop, uset_cur, uset_buf, uset_lcur,
    uset_marker, uset_err, uset_step, uset_type, with_step, mku in *;
  cbn [up_cur up_stack up_vcur up_vstack up_lcur up_lstack up_buf up_marker up_vtype up_err u_t u_s] in *.

Lemma vtype_id p : uset_vtype p (up_vtype p) = p.
Proof. pdestruct p. reflexivity. Qed.

Lemma vtype_vtype p a b : uset_vtype (uset_vtype p a) b = uset_vtype p b.
Proof. reflexivity. Qed.

Lemma uctx_vtype p vt : uctx p -> uctx (uset_vtype p vt).
Proof. intro H. exact H. Qed.

Lemma stack_vtype p vt : up_stack (uset_vtype p vt) = up_stack p.
Proof. reflexivity. Qed.

Lemma pop_push p st : u_t (up_cur p) <> tFail -> u_pop (u_push p st) = p.
Proof. intro H. pdestruct p. rewrite (neq_eqb _ _ H). reflexivity. Qed.

Lemma upop_state_push p st : u_t (up_cur p) <> tFail ->
  upop_state (u_push p st) = (p, zlen (up_stack p) =? 0).
Proof. intro H. unfold upop_state. rewrite pop_push by exact H. reflexivity. Qed.

(* collect on an empty buffer with the whole token available *)
Lemma ucollect_fast p b k : up_buf p = [] -> 0 <= k -> k <= zlen b ->
  ucollect p b k = UC p (uzskipn k b) (Some (uzfirstn k b)).
Proof.
  intros Hb Hk Hl. unfold ucollect. rewrite Hb. change (zlen [] >? 0) with false. cbv iota.
  destruct (k <? 0) eqn:E1; [lia|].
  destruct (zlen b >=? k) eqn:E2; [reflexivity|lia].
Qed.

Lemma ucollect_take p b k a r : up_buf p = [] -> take k b = Some (a, r) ->
  ucollect p b k = UC p r (Some a).
Proof.
  intros Hb Ht. apply take_some in Ht as (Hk & Hl & -> & -> & _ & _).
  apply ucollect_fast; assumption.
Qed.

(* ====================================================================== *)
(* Part 4: the resource guard and the goal for one value                    *)
(* ====================================================================== *)

(* Typed arrays of zero-sized elements ([$Z#n, [$T#n, [$F#n) cost the parser one
   loop iteration per element without consuming input.  [ztc b] is the sum of the
   counts announced by all byte sequences "$" ("Z"|"T"|"F") "#" <length> occurring
   anywhere in b (an over-approximation: also inside strings). *)
Definition zt_local (b : bytes) : Z :=
  match b with
  | d :: t :: c :: r =>
      if (d =? mType) && ((t =? mZ) || (t =? mT) || (t =? mF)) && (c =? mCount)
      then match ubj_len r with LVal n _ => n | _ => 0 end
      else 0
  | _ => 0
  end.

Fixpoint ztc (b : bytes) : Z :=
  match b with
  | [] => 0
  | x :: r => zt_local (x :: r) + ztc r
  end.

Definition no_huge_zero_typed (b : bytes) : bool := ztc b <=? 5 * zlen b + 8000.

Lemma ubj_len_nonneg b n r : ubj_len b = LVal n r -> 0 <= n.
Proof.
  unfold ubj_len. destruct b as [|m r0]; [discriminate|].
  assert (H : forall (k : Z) (sg : bool), match take k r0 with
            | Some (a, r') => let v := if sg then wraps (8 * k) (be_dec a) else be_dec a in
                              if v <? 0 then LBad else LVal v r'
            | None => LTrunc end = LVal n r -> 0 <= n).
  { intros k sg. destruct (take k r0) as [[a r']|]; [|discriminate]. cbv zeta.
    set (v := if sg then wraps (8 * k) (be_dec a) else be_dec a).
    destruct (v <? 0) eqn:E; [discriminate|].
    intro H. inversion H. subst n. lia. }
  destruct (m =? mi); [apply (H 1 true)|]. destruct (m =? mU); [apply (H 1 false)|].
  destruct (m =? mI); [apply (H 2 true)|].
  destruct (m =? ml); [apply (H 4 true)|]. destruct (m =? mL); [apply (H 8 true)|]. discriminate.
Qed.

Lemma zt_local_nonneg b : 0 <= zt_local b.
Proof.
  unfold zt_local. destruct b as [|d [|t [|c r]]]; try lia.
  destruct ((d =? mType) && ((t =? mZ) || (t =? mT) || (t =? mF)) && (c =? mCount)); [|lia].
  destruct (ubj_len r) as [n r'| |] eqn:E; try lia. eapply ubj_len_nonneg; exact E.
Qed.

Lemma ztc_nonneg b : 0 <= ztc b.
Proof. induction b as [|x r IH]; cbn [ztc]; [lia|]. pose proof (zt_local_nonneg (x :: r)). lia. Qed.

Lemma ztc_nil : ztc [] = 0.
Proof. reflexivity. Qed.

Lemma ztc_cons x r : ztc (x :: r) = zt_local (x :: r) + ztc r.
Proof. reflexivity. Qed.

Lemma ztc_cons_ge x r : ztc r <= ztc (x :: r).
Proof. rewrite ztc_cons. pose proof (zt_local_nonneg (x :: r)). lia. Qed.

Lemma ztc_app_ge a r : ztc r <= ztc (a ++ r).
Proof. induction a as [|x a IH]; cbn [app]; [lia|]. pose proof (ztc_cons_ge x (a ++ r)). lia. Qed.

Lemma ztc_take k b a r : take k b = Some (a, r) -> ztc r <= ztc b.
Proof. intro H. apply take_some in H as (_ & _ & _ & _ & -> & _). apply ztc_app_ge. Qed.

#[local] Opaque ztc.

(* n loop iterations are paid for by the bytes consumed (3 per byte) and by [ztc] *)
Definition budget (n : nat) (b rest : bytes) : Prop :=
  Z.of_nat n + 3 * zlen rest + ztc rest <= 3 * zlen b + ztc b.

Lemma budget_take n k b a r : take k b = Some (a, r) -> Z.of_nat n <= 3 * k -> budget n b r.
Proof.
  intros H Hn. unfold budget. pose proof (ztc_take _ _ _ _ H).
  apply take_some in H as (_ & _ & _ & _ & -> & Hl). rewrite zlen_app. lia.
Qed.

(* elements of typed containers of zero-sized values consume no input *)
Definition zpay (m : Z) : nat := if (m =? mZ) || (m =? mT) || (m =? mF) then 0%nat else 2%nat.

Definition vwrap (p : uparser) (r : ures) : ures :=
  if zlen (up_stack p) =? 0 then r else value_nodone r.

Lemma vwrap_nd p q s rest e : vwrap p (UR q s rest false e) = UR q s rest false e.
Proof. unfold vwrap. destruct (zlen (up_stack p) =? 0); reflexivity. Qed.

Lemma vwrap_after p vt s rest : vwrap p (after_val (uset_vtype p vt) s rest) = after_val (uset_vtype p vt) s rest.
Proof. unfold vwrap, after_val. rewrite stack_vtype. destruct (zlen (up_stack p) =? 0); reflexivity. Qed.

Lemma vwrap_done p s rest : vwrap p (UR p s rest true unilE) = after_val p s rest.
Proof. unfold vwrap, after_val. destruct (zlen (up_stack p) =? 0); reflexivity. Qed.

(* the payload of a value whose marker m has been read and whose start state st is pushed *)
Definition pgoal (m : Z) (st : ustate) (b : bytes) (v : cvalue) (rest : bytes) (p : uparser) (s : sink) : Prop :=
  exists t n vt, wf_tree t = true /\ tree_matches (marker_btype m) t = true /\ cv (value_of t) = v /\
    budget (n + zpay m) b rest /\ all_bytes rest = true /\
    vwrap p (uexec_step (u_push p st) s b) = uexec_step (u_push p st) s b /\
    reaches (uexec_step (u_push p st) s b) (after_val (uset_vtype p vt) (sadd s (flatten t)) rest) n.

(* ====================================================================== *)
(* Part 5: fixed-size scalars                                               *)
(* ====================================================================== *)

Definition fixed_tab (stp : Z) : option (Z * (Z -> event)) :=
  if stp =? sInt8 then Some (1, fun v => EVal (SNum KInt8 (wraps 8 v)))
  else if stp =? sUInt8 then Some (1, fun v => EVal (SNum KUint8 v))
  else if stp =? sChar then Some (1, fun v => EVal (SNum KByte v))
  else if stp =? sInt16 then Some (2, fun v => EVal (SNum KInt16 (wraps 16 v)))
  else if stp =? sInt32 then Some (4, fun v => EVal (SNum KInt32 (wraps 32 v)))
  else if stp =? sInt64 then Some (8, fun v => EVal (SNum KInt64 (wraps 64 v)))
  else if stp =? sFloat32 then Some (4, fun v => EVal (SNum KFloat32 v))
  else if stp =? sFloat64 then Some (8, fun v => EVal (SNum KFloat64 v))
  else None.

Ltac kred := cbn [Z.eqb Pos.eqb sStart sNil sNoop sTrue sFalse sInt8 sUInt8 sInt16 sInt32 sInt64 sFloat32
                  sFloat64 sChar sWithLen sWithType0 sWithType1 sCont sFieldName sFieldNameLen
                  tFail tNext tFixed tHighPrec tString tArray tArrayDyn tArrayCount tArrayTyped tObject
                  tObjectDyn tObjectCount tObjectTyped andb orb negb].

Lemma ustep_fixed_ok q s b stp k mk a r :
  u_s (up_cur q) = stp -> fixed_tab stp = Some (k, mk) -> up_buf q = [] -> s_fail s = None ->
  take k b = Some (a, r) ->
  ustep_fixed q s b = let '(p1, d) := upop_state q in UR p1 (sadd s [mk (be_dec a)]) r d unilE.
Proof.
  intros Hst Htab Hbuf Hs Ht. unfold fixed_tab in Htab.
  destruct (stp =? sInt8) eqn:E1.
  { assert (stp = sInt8) by lia. subst stp. inversion Htab; subst k mk. clear Htab.
    apply take_1_inv in Ht as (x & -> & ->). rewrite be_dec_1.
    unfold ustep_fixed. rewrite H. kred. rewrite uvis_ok by exact Hs. kred. rewrite unil_nil. reflexivity. }
  destruct (stp =? sUInt8) eqn:E2.
  { assert (stp = sUInt8) by lia. subst stp. inversion Htab; subst k mk. clear Htab.
    apply take_1_inv in Ht as (x & -> & ->). rewrite be_dec_1.
    unfold ustep_fixed. rewrite H. kred. rewrite uvis_ok by exact Hs. kred. rewrite unil_nil. reflexivity. }
  destruct (stp =? sChar) eqn:E3.
  { assert (stp = sChar) by lia. subst stp. inversion Htab; subst k mk. clear Htab.
    unfold ustep_fixed. rewrite H. kred. rewrite (ucollect_take _ _ _ _ _ Hbuf Ht).
    rewrite uvis_ok by exact Hs. kred. rewrite unil_nil. reflexivity. }
  destruct (stp =? sInt16) eqn:E4.
  { assert (stp = sInt16) by lia. subst stp. inversion Htab; subst k mk. clear Htab.
    unfold ustep_fixed. rewrite H. kred. rewrite (ucollect_take _ _ _ _ _ Hbuf Ht).
    rewrite uvis_ok by exact Hs. kred. rewrite unil_nil. reflexivity. }
  destruct (stp =? sInt32) eqn:E5.
  { assert (stp = sInt32) by lia. subst stp. inversion Htab; subst k mk. clear Htab.
    unfold ustep_fixed. rewrite H. kred. rewrite (ucollect_take _ _ _ _ _ Hbuf Ht).
    rewrite uvis_ok by exact Hs. kred. rewrite unil_nil. reflexivity. }
  destruct (stp =? sInt64) eqn:E6.
  { assert (stp = sInt64) by lia. subst stp. inversion Htab; subst k mk. clear Htab.
    unfold ustep_fixed. rewrite H. kred. rewrite (ucollect_take _ _ _ _ _ Hbuf Ht).
    rewrite uvis_ok by exact Hs. kred. rewrite unil_nil. reflexivity. }
  destruct (stp =? sFloat32) eqn:E7.
  { assert (stp = sFloat32) by lia. subst stp. inversion Htab; subst k mk. clear Htab.
    unfold ustep_fixed. rewrite H. kred. rewrite (ucollect_take _ _ _ _ _ Hbuf Ht).
    rewrite uvis_ok by exact Hs. kred. rewrite unil_nil. reflexivity. }
  destruct (stp =? sFloat64) eqn:E8; [|discriminate].
  { assert (stp = sFloat64) by lia. subst stp. inversion Htab; subst k mk. clear Htab.
    unfold ustep_fixed. rewrite H. kred. rewrite (ucollect_take _ _ _ _ _ Hbuf Ht).
    rewrite uvis_ok by exact Hs. kred. rewrite unil_nil. reflexivity. }
Qed.

(* third clause: whatever the reference reads under [m] is the k-byte big-endian value (an
   implication, not an equation: the reference may refuse payloads the parser reads - a char
   above 127 is malformed for the reference, the lenient parser delivers it) *)
Definition frow (m stp k : Z) (K : nkind) (g : Z -> Z) : Prop :=
  marker_state m = Some (mku tFixed stp) /\
  fixed_tab stp = Some (k, fun v => EVal (SNum K (g v))) /\
  (forall f b v rest, ubj_payload (S f) m b = RValue v rest ->
     exists a, take k b = Some (a, rest) /\ v = CNum (canon_num K (g (be_dec a)))) /\
  (forall a, zlen a = k -> all_bytes a = true -> nkind_ok K (g (be_dec a)) = true) /\
  (forall z, scalar_matches (marker_btype m) (SNum K z) = true) /\ 1 <= k /\ zpay m = 2%nat.

(* the rows whose reference payload IS the k-byte read *)
Definition frow_eq (m stp k : Z) (K : nkind) (g : Z -> Z) : Prop :=
  marker_state m = Some (mku tFixed stp) /\
  fixed_tab stp = Some (k, fun v => EVal (SNum K (g v))) /\
  (forall f b, ubj_payload (S f) m b =
     match take k b with Some (a, r) => RValue (CNum (canon_num K (g (be_dec a)))) r | None => RTruncated end) /\
  (forall a, zlen a = k -> all_bytes a = true -> nkind_ok K (g (be_dec a)) = true) /\
  (forall z, scalar_matches (marker_btype m) (SNum K z) = true) /\ 1 <= k /\ zpay m = 2%nat.

Lemma frow_of_eq m stp k K g : frow_eq m stp k K g -> frow m stp k K g.
Proof.
  intros (H1 & H2 & H3 & H4). split; [exact H1|]. split; [exact H2|]. split; [|exact H4].
  intros f b v rest H. rewrite H3 in H. destruct (take k b) as [[a r]|]; [|discriminate].
  inversion H; subst v rest. exists a. split; reflexivity.
Qed.

Lemma tm_val bt s r : tree_matches bt (TVal s r) = scalar_matches bt s.
Proof. destruct bt; reflexivity. Qed.

Lemma fixed_goal m stp k K g f b v rest p s : frow m stp k K g ->
  ubj_payload (S f) m b = RValue v rest -> all_bytes b = true -> uctx p -> s_fail s = None ->
  pgoal m (mku tFixed stp) b v rest p s.
Proof.
  intros (Hms & Htab & Href & Hok & Hmat & Hk & Hzp) H Hb (Hbuf & Hmk & Hcur & Hv) Hs.
  destruct (Href _ _ _ _ H) as (a & Ht & ->). clear H. rename rest into r.
  destruct (take_bytes _ _ _ _ Ht Hb) as [Hba Hbr].
  pose proof (take_some _ _ _ _ Ht) as (_ & _ & _ & _ & _ & Hza).
  exists (TVal (SNum K (g (be_dec a))) false), 0%nat, (up_vtype p).
  split; [apply Hok; assumption|]. split; [rewrite tm_val; apply Hmat|]. split; [reflexivity|].
  split; [eapply budget_take; [exact Ht|lia]|]. split; [exact Hbr|].
  assert (HX : uexec_step (u_push p (mku tFixed stp)) s b =
          after_val (uset_vtype p (up_vtype p)) (sadd s (flatten (TVal (SNum K (g (be_dec a))) false))) r).
  { rewrite uexec_step_eq, ex_fixed by reflexivity.
    rewrite (ustep_fixed_ok _ s b stp k (fun v => EVal (SNum K (g v))) a r) by (try reflexivity; assumption).
    rewrite upop_state_push by exact Hcur. rewrite vtype_id. reflexivity. }
  rewrite HX. split; [apply vwrap_after|]. apply reaches_refl.
Qed.

Lemma wraps_in_s_8 z : in_s 8 (wraps 8 z) = true.
Proof. unfold in_s, wraps. change (2 ^ 8) with 256. change (2 ^ (8 - 1)) with 128.
  destruct (z mod 256 <? 128) eqn:E; lia. Qed.
Lemma wraps_in_s_16 z : in_s 16 (wraps 16 z) = true.
Proof. unfold in_s, wraps. change (2 ^ 16) with 65536. change (2 ^ (16 - 1)) with 32768.
  destruct (z mod 65536 <? 32768) eqn:E; lia. Qed.
Lemma wraps_in_s_32 z : in_s 32 (wraps 32 z) = true.
Proof. unfold in_s, wraps. change (2 ^ 32) with 4294967296. change (2 ^ (32 - 1)) with 2147483648.
  destruct (z mod 4294967296 <? 2147483648) eqn:E; lia. Qed.
Lemma wraps_in_s_64 z : in_s 64 (wraps 64 z) = true.
Proof. unfold in_s, wraps. change (2 ^ 64) with 18446744073709551616.
  change (2 ^ (64 - 1)) with 9223372036854775808.
  destruct (z mod 18446744073709551616 <? 9223372036854775808) eqn:E; lia. Qed.

Lemma be_dec_in_u a k w B : zlen a = Z.of_nat k -> all_bytes a = true ->
  256 ^ Z.of_nat k = B -> 2 ^ w = B -> in_u w (be_dec a) = true.
Proof.
  intros Hl Hb HB Hw. pose proof (be_dec_bound a Hb) as Bd. unfold zlen in Hl.
  replace (length a) with k in Bd by lia. rewrite HB in Bd. unfold in_u. rewrite Hw. lia.
Qed.

Lemma row_i : frow mi sInt8 1 KInt8 (wraps 8).
Proof. apply frow_of_eq. repeat split; try reflexivity; try lia. intros a _ _. apply wraps_in_s_8. Qed.
Lemma row_U : frow mU sUInt8 1 KUint8 (fun v => v).
Proof. apply frow_of_eq. repeat split; try reflexivity; try lia. intros a Hl Hb.
  apply (be_dec_in_u a 1 8 256); auto. Qed.
Lemma row_C : frow mC sChar 1 KByte (fun v => v).
Proof.
  split; [reflexivity|]. split; [reflexivity|]. split.
  { intros f b v rest H. rewrite pl_C in H. destruct b as [|c r]; [discriminate|].
    destruct (c >? 127); [discriminate|]. inversion H; subst v rest.
    exists [c]. rewrite take_1, be_dec_1. split; reflexivity. }
  repeat split; try reflexivity; try lia. intros a Hl Hb.
  apply (be_dec_in_u a 1 8 256); auto.
Qed.
Lemma row_I : frow mI sInt16 2 KInt16 (wraps 16).
Proof. apply frow_of_eq. repeat split; try reflexivity; try lia. intros a _ _. apply wraps_in_s_16. Qed.
Lemma row_l : frow ml sInt32 4 KInt32 (wraps 32).
Proof. apply frow_of_eq. repeat split; try reflexivity; try lia. intros a _ _. apply wraps_in_s_32. Qed.
Lemma row_L : frow mL sInt64 8 KInt64 (wraps 64).
Proof. apply frow_of_eq. repeat split; try reflexivity; try lia. intros a _ _. apply wraps_in_s_64. Qed.
Lemma row_d : frow md sFloat32 4 KFloat32 (fun v => v).
Proof. apply frow_of_eq. repeat split; try reflexivity; try lia. intros a Hl Hb.
  apply (be_dec_in_u a 4 32 4294967296); auto. Qed.
Lemma row_D : frow mD sFloat64 8 KFloat64 (fun v => v).
Proof. apply frow_of_eq. repeat split; try reflexivity; try lia. intros a Hl Hb.
  apply (be_dec_in_u a 8 64 18446744073709551616); auto. Qed.

(* zero-sized scalars as elements of a typed container *)
Lemma zero_goal m stp t0 b v rest p s :
  marker_state m = Some (mku tFixed stp) ->
  (m = mZ /\ stp = sNil /\ t0 = TVal SNil false /\ v = CNil) \/
  (m = mT /\ stp = sTrue /\ t0 = TVal (SBool true) false /\ v = CBool true) \/
  (m = mF /\ stp = sFalse /\ t0 = TVal (SBool false) false /\ v = CBool false) ->
  b = rest -> all_bytes b = true -> uctx p -> s_fail s = None ->
  pgoal m (mku tFixed stp) b v rest p s.
Proof.
  intros Hms Hc <- Hb (Hbuf & Hmk & Hcur & Hv) Hs.
  exists t0, 0%nat, (up_vtype p).
  assert (Hstep : ustep_fixed (u_push p (mku tFixed stp)) s b =
                  after_val p (sadd s (flatten t0)) b).
  { unfold ustep_fixed. change (u_s (up_cur (u_push p (mku tFixed stp)))) with stp.
    destruct Hc as [(-> & -> & -> & ->)|[(-> & -> & -> & ->)|(-> & -> & -> & ->)]]; kred;
      rewrite uvis_ok by exact Hs; kred; rewrite unil_nil; cbv iota;
      rewrite upop_state_push by exact Hcur; reflexivity. }
  split; [destruct Hc as [(-> & -> & -> & ->)|[(-> & -> & -> & ->)|(-> & -> & -> & ->)]]; reflexivity|].
  split; [destruct Hc as [(-> & -> & -> & ->)|[(-> & -> & -> & ->)|(-> & -> & -> & ->)]]; reflexivity|].
  split; [destruct Hc as [(-> & -> & -> & ->)|[(-> & -> & -> & ->)|(-> & -> & -> & ->)]]; reflexivity|].
  assert (Hzp : zpay m = 0%nat) by (destruct Hc as [(-> & _)|[(-> & _)|(-> & _)]]; reflexivity).
  split; [rewrite Hzp; unfold budget; lia|]. split; [exact Hb|].
  assert (HX : uexec_step (u_push p (mku tFixed stp)) s b =
          after_val (uset_vtype p (up_vtype p)) (sadd s (flatten t0)) b).
  { rewrite uexec_step_eq, ex_fixed by reflexivity. rewrite Hstep, vtype_id. reflexivity. }
  rewrite HX. split; [apply vwrap_after|]. apply reaches_refl.
Qed.

(* ====================================================================== *)
(* Part 6: lengths, strings                                                 *)
(* ====================================================================== *)

Lemma marker_id p : up_marker p = 0 -> forall m, uset_marker (uset_marker p m) 0 = p.
Proof. intros H m. pdestruct p. subst. reflexivity. Qed.

Lemma ustep_len_ok p b cont n r1 : up_buf p = [] -> up_marker p = 0 ->
  ubj_len b = LVal n r1 ->
  ustep_len p b cont = UL (ul_push (uset_cur p cont) n) r1 unilE.
Proof.
  intros Hbuf Hmk H. destruct b as [|m r]; [discriminate|].
  unfold ustep_len. rewrite Hmk. change (0 =? 0) with true. cbv iota.
  unfold ubj_len in H.
  change (up_marker (uset_marker p m)) with m.
  assert (Hc : forall k a r', take k r = Some (a, r') -> 1 <= k -> (zlen r =? 0) = false).
  { intros k a r' Ht Hk. apply take_some in Ht as (_ & Hl & _). lia. }
  destruct (m =? mi) eqn:E1.
  { destruct (take 1 r) as [[a r']|] eqn:Ht; [|discriminate].
    rewrite (Hc _ _ _ Ht) by lia.
    apply take_1_inv in Ht as (x & -> & ->). rewrite be_dec_1 in H. change (8 * 1) with 8 in H.
    destruct (wraps 8 x <? 0) eqn:E; [discriminate|]. inversion H; subst n r1.
    cbn [orb negb]. rewrite marker_id by exact Hmk. reflexivity. }
  destruct (m =? mU) eqn:E2.
  { destruct (take 1 r) as [[a r']|] eqn:Ht; [|discriminate].
    rewrite (Hc _ _ _ Ht) by lia.
    apply take_1_inv in Ht as (x & -> & ->). rewrite be_dec_1 in H.
    destruct (x <? 0) eqn:E; [discriminate|]. inversion H; subst n r1.
    cbn [orb negb]. rewrite marker_id by exact Hmk. reflexivity. }
  destruct (m =? mI) eqn:E3.
  { destruct (take 2 r) as [[a r']|] eqn:Ht; [|discriminate].
    rewrite (Hc _ _ _ Ht) by lia.
    rewrite (ucollect_take (uset_marker p m) _ _ _ _ Hbuf Ht).
    destruct (wraps (8 * 2) (be_dec a) <? 0) eqn:E; [discriminate|]. inversion H; subst n r1.
    cbn [orb negb]. rewrite marker_id by exact Hmk. reflexivity. }
  destruct (m =? ml) eqn:E4.
  { destruct (take 4 r) as [[a r']|] eqn:Ht; [|discriminate].
    rewrite (Hc _ _ _ Ht) by lia.
    rewrite (ucollect_take (uset_marker p m) _ _ _ _ Hbuf Ht).
    destruct (wraps (8 * 4) (be_dec a) <? 0) eqn:E; [discriminate|]. inversion H; subst n r1.
    cbn [orb negb]. rewrite marker_id by exact Hmk. reflexivity. }
  destruct (m =? mL) eqn:E5; [|discriminate].
  { destruct (take 8 r) as [[a r']|] eqn:Ht; [|discriminate].
    rewrite (Hc _ _ _ Ht) by lia.
    rewrite (ucollect_take (uset_marker p m) _ _ _ _ Hbuf Ht).
    destruct (wraps (8 * 8) (be_dec a) <? 0) eqn:E; [discriminate|]. inversion H; subst n r1.
    cbn [orb negb]. rewrite marker_id by exact Hmk. reflexivity. }
Qed.

Lemma ubj_len_rest b n r1 : ubj_len b = LVal n r1 -> exists pre, b = pre ++ r1 /\ 2 <= zlen pre.
Proof.
  unfold ubj_len. destruct b as [|m r0]; [discriminate|].
  assert (H : forall (k : Z) (sg : bool), 1 <= k -> match take k r0 with
            | Some (a, r') => let v := if sg then wraps (8 * k) (be_dec a) else be_dec a in
                              if v <? 0 then LBad else LVal v r'
            | None => LTrunc end = LVal n r1 -> exists pre, m :: r0 = pre ++ r1 /\ 2 <= zlen pre).
  { intros k sg Hk. destruct (take k r0) as [[a r']|] eqn:Ht; [|discriminate]. cbv zeta.
    set (v := if sg then wraps (8 * k) (be_dec a) else be_dec a).
    destruct (v <? 0) eqn:E; [discriminate|].
    intro H. inversion H. subst r'. apply take_some in Ht as (_ & _ & _ & _ & -> & Hl).
    exists (m :: a). split; [reflexivity|]. rewrite zlen_cons. lia. }
  destruct (m =? mi); [apply (H 1 true); lia|]. destruct (m =? mU); [apply (H 1 false); lia|].
  destruct (m =? mI); [apply (H 2 true); lia|].
  destruct (m =? ml); [apply (H 4 true); lia|]. destruct (m =? mL); [apply (H 8 true); lia|]. discriminate.
Qed.

Lemma ubj_len_facts b n r1 : ubj_len b = LVal n r1 -> all_bytes b = true ->
  all_bytes r1 = true /\ 0 <= n /\ zlen r1 + 2 <= zlen b /\ ztc r1 <= ztc b.
Proof.
  intros H Hb. pose proof (ubj_len_nonneg _ _ _ H) as Hn.
  apply ubj_len_rest in H as (pre & -> & Hl). rewrite all_bytes_app in Hb.
  apply andb_true_iff in Hb as [_ Hb]. rewrite zlen_app. pose proof (ztc_app_ge pre r1).
  repeat split; try assumption; lia.
Qed.

Lemma lpop_lpush p n : ul_pop (ul_push p n) = p.
Proof. pdestruct p. reflexivity. Qed.

Lemma zlen_zero_nil {A} (l : list A) : zlen l = 0 -> l = [].
Proof. destruct l; [reflexivity|]. rewrite zlen_cons. pose proof (zlen_nonneg l). lia. Qed.

Lemma string_goal m T f b v rest p s :
  (m = mS /\ T = tString) \/ (m = mH /\ T = tHighPrec) ->
  ubj_payload (S f) m b = RValue v rest -> all_bytes b = true -> uctx p -> s_fail s = None ->
  pgoal m (mku T sStart) b v rest p s.
Proof.
  intros Hm H Hb (Hbuf & Hmk & Hcur & Hv) Hs.
  assert (H' : ustr b = RValue v rest) by (destruct Hm as [[-> _]|[-> _]]; exact H). clear H.
  unfold ustr in H'. destruct (ubj_len b) as [n r1| |] eqn:Hl; try discriminate.
  destruct (take n r1) as [[a r']|] eqn:Ht; [|discriminate]. inversion H'; subst v rest. clear H'.
  destruct (ubj_len_facts _ _ _ Hl Hb) as (Hbr1 & Hn0 & Hlen & Hz).
  destruct (take_bytes _ _ _ _ Ht Hbr1) as [Hba Hbr'].
  pose proof (take_some _ _ _ _ Ht) as (_ & Hnl & _ & _ & Hr1 & Hza).
  pose proof (ztc_take _ _ _ _ Ht) as Hz2.
  set (q := u_push p (mku T sStart)).
  assert (Hlenstep : ustep_len q b (with_step (up_cur q) sWithLen) =
            UL (ul_push (u_push p (mku T sWithLen)) n) r1 unilE).
  { rewrite (ustep_len_ok q b _ n r1) by assumption. reflexivity. }
  assert (Hpop : upop_len_state (ul_push (u_push p (mku T sWithLen)) n) = (p, zlen (up_stack p) =? 0)).
  { unfold upop_len_state. rewrite lpop_lpush. apply upop_state_push. exact Hcur. }
  assert (HT : uexec_step q s b = ufix (ustep_string q s b)).
  { rewrite uexec_step_eq. destruct Hm as [[_ ->]|[_ ->]]; [apply ex_string|apply ex_high]; reflexivity. }
  assert (Hmat : forall x r0, tree_matches (marker_btype m) (TVal (SStr x) r0) = true).
  { intros x r0. destruct Hm as [[-> _]|[-> _]]; reflexivity. }
  assert (Hzp : zpay m = 2%nat) by (destruct Hm as [[-> _]|[-> _]]; reflexivity).
  assert (Hbud : budget (0 + zpay m) b r').
  { rewrite Hzp. unfold budget. rewrite Hr1 in Hlen. rewrite zlen_app in Hlen. pose proof (zlen_nonneg a). lia. }
  destruct (n =? 0) eqn:En.
  - assert (Ha0 : a = []) by (apply zlen_zero_nil; lia). assert (N0 : n = 0) by lia.
    clear Hza. subst a. subst n. cbn [app] in Hr1. subst r'.
    exists (TVal (SStr []) false), 0%nat, (up_vtype p).
    split; [reflexivity|]. split; [apply Hmat|]. split; [reflexivity|]. split; [exact Hbud|].
    split; [exact Hbr1|].
    match goal with |- _ /\ reaches ?X ?Y _ => assert (HX : X = Y) end; [|rewrite HX; split; [apply vwrap_after|apply reaches_refl]].
    fold q. rewrite HT. unfold ustep_string.
    change (u_s (up_cur q)) with sStart. kred. rewrite Hlenstep. rewrite unil_nil. kred.
    change (up_lcur (ul_push (u_push p (mku T sWithLen)) 0)) with 0. kred.
    rewrite uvis_ok by exact Hs. rewrite unil_nil. kred. rewrite Hpop, vtype_id. reflexivity.
  - exists (TVal (SStr a) true), 0%nat, (up_vtype p).
    split; [exact Hba|]. split; [apply Hmat|]. split; [reflexivity|]. split; [exact Hbud|].
    split; [exact Hbr'|].
    match goal with |- _ /\ reaches ?X ?Y _ => assert (HX : X = Y) end; [|rewrite HX; split; [apply vwrap_after|apply reaches_refl]].
    fold q. rewrite HT. unfold ustep_string.
    change (u_s (up_cur q)) with sStart. kred. rewrite Hlenstep. rewrite unil_nil. kred.
    change (up_lcur (ul_push (u_push p (mku T sWithLen)) n)) with n. rewrite En.
    change (u_s (up_cur (ul_push (u_push p (mku T sWithLen)) n))) with sWithLen. kred.
    rewrite (ucollect_take (ul_push (u_push p (mku T sWithLen)) n) _ _ _ _ Hbuf Ht).
    rewrite uvis_ok by exact Hs. rewrite unil_nil. kred. rewrite Hpop, vtype_id.
    destruct a as [|a0 a']; [rewrite zlen_nil in Hza; lia|]. reflexivity.
Qed.

(* ====================================================================== *)
(* Part 7: one value in any context, given its payload                      *)
(* ====================================================================== *)

Lemma uexec_fuel q s b : u_t (up_cur q) <> tArrayTyped -> uexec 2 q s b = uexec_step q s b.
Proof.
  intro H. unfold uexec_step. rewrite !uexec_S. unfold ubody.
  destruct (u_t (up_cur q) =? tArrayTyped) eqn:E; [lia|]. reflexivity.
Qed.

Lemma value_marker_cases m : is_value_marker m = true ->
  m = mZ \/ m = mT \/ m = mF \/ m = mi \/ m = mU \/ m = mI \/ m = ml \/ m = mL \/ m = md \/ m = mD \/
  m = mH \/ m = mC \/ m = mS \/ m = mObjS \/ m = mArrS.
Proof.
  unfold is_value_marker. cbn [existsb]. rewrite !orb_true_iff, !Z.eqb_eq. intro H. repeat (destruct H as [H|H]; [tauto|]). discriminate.
Qed.

Definition payload_spec (f : nat) : Prop :=
  forall m st b v rest, ubj_payload f m b = RValue v rest -> is_value_marker m = true ->
    marker_state m = Some st -> all_bytes b = true ->
    forall p s, uctx p -> s_fail s = None -> pgoal m st b v rest p s.

(* a value (marker m, then r) read by stepValue in the context p *)
Definition vgoal (m : Z) (r : bytes) (v : cvalue) (rest : bytes) (p : uparser) (s : sink) : Prop :=
  exists t n vt, wf_tree t = true /\ tree_matches (marker_btype m) t = true /\ cv (value_of t) = v /\
    budget (n + 2) (m :: r) rest /\ all_bytes rest = true /\
    reaches (vwrap p (ustep_value p s (m :: r))) (after_val (uset_vtype p vt) (sadd s (flatten t)) rest) n.

Lemma payload_nonempty f m v rest : ubj_payload f m [] = RValue v rest -> is_value_marker m = true ->
  zpay m = 0%nat.
Proof.
  intros H Hm. destruct f as [|f]; [discriminate|].
  apply value_marker_cases in Hm.
  repeat (destruct Hm as [->|Hm]; [try reflexivity; discriminate H|]). subst m. discriminate H.
Qed.

Lemma ustep_value_push p s m r st : marker_state m = Some st ->
  (u_s st =? sNil) = false -> (u_s st =? sNoop) = false -> (u_s st =? sTrue) = false ->
  (u_s st =? sFalse) = false ->
  ustep_value p s (m :: r) = UR (u_push p st) s r false unilE.
Proof. intros H H1 H2 H3 H4. unfold ustep_value. rewrite H, H1, H2, H3, H4. reflexivity. Qed.

Lemma vgoal_pushed f m st r v rest p s : payload_spec f ->
  ubj_payload f m r = RValue v rest -> is_value_marker m = true -> marker_state m = Some st ->
  (u_s st =? sNil) = false -> (u_s st =? sNoop) = false -> (u_s st =? sTrue) = false ->
  (u_s st =? sFalse) = false -> zpay m = 2%nat ->
  all_bytes r = true -> uctx p -> s_fail s = None -> vgoal m r v rest p s.
Proof.
  intros Hspec H Hm Hst H1 H2 H3 H4 Hzp Hb Hp Hs.
  destruct (Hspec m st r v rest H Hm Hst Hb p s Hp Hs) as (t & n & vt & Hwf & Hmat & Hcv & Hbud & Hbr & _ & Hreach).
  exists t, (1 + n)%nat, vt. split; [exact Hwf|]. split; [exact Hmat|]. split; [exact Hcv|].
  split.
  { unfold budget in *. rewrite zlen_cons. pose proof (ztc_cons_ge m r). rewrite Hzp in Hbud. lia. }
  split; [exact Hbr|].
  rewrite (ustep_value_push p s m r st Hst H1 H2 H3 H4), vwrap_nd.
  apply reaches_step_then; [|exact Hreach].
  apply ucontb_pos. destruct r as [|x r']; [|rewrite zlen_cons; pose proof (zlen_nonneg r'); lia].
  pose proof (payload_nonempty _ _ _ _ H Hm). lia.
Qed.

Lemma value_of_payload f m r v rest p s : payload_spec f ->
  ubj_payload f m r = RValue v rest -> is_value_marker m = true ->
  all_bytes r = true -> uctx p -> s_fail s = None -> vgoal m r v rest p s.
Proof.
  intros Hspec H Hm Hb Hp Hs.
  pose proof (value_marker_cases m Hm) as Hc.
  assert (HZ : forall t0 e, (m = mZ \/ m = mT \/ m = mF) ->
             ustep_value p s (m :: r) = UR p (sadd s [e]) r true unilE -> flatten t0 = [e] ->
             wf_tree t0 = true -> tree_matches (marker_btype m) t0 = true -> cv (value_of t0) = v -> rest = r ->
             vgoal m r v rest p s).
  { intros t0 e Hz Hstep Hfl Hwf Hmat Hcv ->. exists t0, 0%nat, (up_vtype p).
    split; [exact Hwf|]. split; [exact Hmat|]. split; [exact Hcv|].
    split; [unfold budget; rewrite zlen_cons; pose proof (ztc_cons_ge m r); lia|]. split; [exact Hb|].
    rewrite Hstep, vwrap_done, vtype_id, Hfl. apply reaches_refl. }
  destruct Hc as [->|Hc].
  { destruct f as [|f]; [discriminate|]. rewrite pl_Z in H. inversion H; subst v rest.
    apply (HZ (TVal SNil false) (EVal SNil)); auto.
    unfold ustep_value. change (marker_state mZ) with (Some (mku tFixed sNil)). cbn [u_s u_t mku]. kred.
    rewrite uvis_ok by exact Hs. reflexivity. }
  destruct Hc as [->|Hc].
  { destruct f as [|f]; [discriminate|]. rewrite pl_T in H. inversion H; subst v rest.
    apply (HZ (TVal (SBool true) false) (EVal (SBool true))); auto.
    unfold ustep_value. change (marker_state mT) with (Some (mku tFixed sTrue)). cbn [u_s u_t mku]. kred.
    rewrite uvis_ok by exact Hs. reflexivity. }
  destruct Hc as [->|Hc].
  { destruct f as [|f]; [discriminate|]. rewrite pl_F in H. inversion H; subst v rest.
    apply (HZ (TVal (SBool false) false) (EVal (SBool false))); auto.
    unfold ustep_value. change (marker_state mF) with (Some (mku tFixed sFalse)). cbn [u_s u_t mku]. kred.
    rewrite uvis_ok by exact Hs. reflexivity. }
  repeat (destruct Hc as [->|Hc];
    [eapply vgoal_pushed; try eassumption; reflexivity|]).
  subst m. eapply vgoal_pushed; try eassumption; reflexivity.
Qed.

(* ====================================================================== *)
(* Part 8: arrays                                                           *)
(* ====================================================================== *)

Lemma ex_array rec p s b : u_t (up_cur p) = tArray -> ubody rec p s b = ufix
  match b with
  | [] => UCrash 14
  | x :: r =>
      if x =? mCount then UR (uset_type p tArrayCount) s r false unilE
      else if x =? mType then UR (uset_type p tArrayTyped) s r false unilE
      else let '(s1, e) := uvis s (EArrStart (-1) BAny) in UR (uset_type p tArrayDyn) s1 b false e
  end.
Proof. intro H. unfold ubody. rewrite H. reflexivity. Qed.

Lemma ex_arrdyn rec p s b : u_t (up_cur p) = tArrayDyn -> ubody rec p s b = ufix
  match b with
  | [] => UCrash 15
  | x :: r =>
      if x =? mArrE then
        let '(s1, e) := uvis s EArrEnd in
        if unil e then let '(p1, d) := upop_state p in UR p1 s1 r d unilE else UR p s1 r true e
      else
        let p1 := if u_s (up_cur p) =? sStart then uset_step p sCont else p in
        value_nodone (ustep_value p1 s b)
  end.
Proof. intro H. unfold ubody. rewrite H. reflexivity. Qed.

(* the parser inside an open plain array whose enclosing context is p *)
Definition dyn (p : uparser) (stp : Z) : uparser := u_push p (mku tArrayDyn stp).

Lemma push_uctx p st : uctx p -> u_t st <> tFail -> uctx (u_push p st).
Proof. intros (H1 & H2 & H3 & H4) H. split; [exact H1|]. split; [exact H2|]. split; [exact H|exact H4]. Qed.

Lemma dyn_uctx p stp : uctx p -> uctx (dyn p stp).
Proof. intro H. apply push_uctx; [exact H|discriminate]. Qed.

Lemma push_stack_nonempty p st : u_t (up_cur p) <> tFail -> (zlen (up_stack (u_push p st)) =? 0) = false.
Proof. intro H. unfold u_push. cbn [up_stack]. rewrite (neq_eqb _ _ H). rewrite zlen_cons.
  pose proof (zlen_nonneg (up_stack p)). lia. Qed.

Lemma vwrap_push p st r : u_t (up_cur p) <> tFail -> vwrap (u_push p st) r = value_nodone r.
Proof. intro H. unfold vwrap. rewrite push_stack_nonempty by exact H. reflexivity. Qed.

Lemma after_val_push p st s rest : u_t (up_cur p) <> tFail ->
  after_val (u_push p st) s rest = UR (u_push p st) s rest false unilE.
Proof. intro H. unfold after_val. rewrite push_stack_nonempty by exact H. reflexivity. Qed.

Lemma push_vtype p st vt : uset_vtype (u_push p st) vt = u_push (uset_vtype p vt) st.
Proof. reflexivity. Qed.

Lemma nonempty_pos {A} (l : list A) : l <> [] -> 0 < zlen l.
Proof. destruct l; [congruence|]. rewrite zlen_cons. pose proof (zlen_nonneg l). lia. Qed.

Lemma arr_plain_nonempty val g b acc v rest : arr_plain val g b acc = RValue v rest -> b <> [].
Proof. destruct g; [discriminate|]. destruct b; [discriminate|]. discriminate. Qed.

Lemma uvalue_marker f g x r v rest : uvalue f g (x :: r) = RValue v rest -> (x =? mN) = false ->
  is_value_marker x = true /\ ubj_payload f x r = RValue v rest.
Proof.
  destruct g as [|g]; [discriminate|]. rewrite uvalue_S. intros H E. rewrite E in H.
  destruct (is_value_marker x); [auto|discriminate].
Qed.

Lemma ustep_value_noop p s r : ustep_value p s (mN :: r) = UR p s r false unilE.
Proof. reflexivity. Qed.

Lemma arr_plain_loop f : payload_spec f -> forall g b acc v rest,
  arr_plain (uvalue f f) g b acc = RValue v rest -> all_bytes b = true ->
  forall p s stp, uctx p -> s_fail s = None -> stp = sStart \/ stp = sCont ->
  exists ts n vt, v = CArr (rev acc ++ map (fun t => cv (value_of t)) ts) /\
    forallb wf_tree ts = true /\ budget (n + 3) b rest /\ all_bytes rest = true /\
    reaches (uexec_step (dyn p stp) s b)
            (after_val (uset_vtype p vt) (sadd s (flatten_elems ts ++ [EArrEnd])) rest) n.
Proof.
  intros Hspec. induction g as [|g IH]; intros b acc v rest H Hb p s stp Hp Hs Hstp; [discriminate|].
  destruct b as [|h r]; [discriminate|]. rewrite arr_plain_S in H.
  pose proof Hb as Hb'. rewrite all_bytes_cons in Hb'. apply andb_true_iff in Hb' as [_ Hbr].
  pose proof Hp as (Hbuf & Hmk & Hcur & Hv).
  assert (Hstep : uexec_step (dyn p stp) s (h :: r) =
    ufix (if h =? mArrE then
        let '(s1, e) := uvis s EArrEnd in
        if unil e then let '(p1, d) := upop_state (dyn p stp) in UR p1 s1 r d unilE else UR (dyn p stp) s1 r true e
      else value_nodone (ustep_value (dyn p sCont) s (h :: r)))).
  { rewrite uexec_step_eq, ex_arrdyn by reflexivity.
    destruct Hstp as [->| ->]; reflexivity. }
  rewrite Hstep. clear Hstep.
  destruct (h =? mArrE) eqn:Eend.
  - inversion H; subst v rest. clear H. exists [], 0%nat, (up_vtype p).
    split; [cbn [map]; rewrite app_nil_r; reflexivity|]. split; [reflexivity|].
    split; [unfold budget; rewrite zlen_cons; pose proof (ztc_cons_ge h r); lia|]. split; [exact Hbr|].
    apply reaches_eq. rewrite uvis_ok by exact Hs. rewrite unil_nil.
    unfold dyn. rewrite upop_state_push by exact Hcur. rewrite vtype_id. reflexivity.
  - destruct (h =? mN) eqn:EN.
    + assert (h = mN) by lia. subst h. rewrite ustep_value_noop. cbn [value_nodone]. rewrite ufix_ok.
      destruct (IH r acc v rest H Hbr p s sCont Hp Hs (or_intror eq_refl))
        as (ts & n & vt & Hv' & Hwf & Hbud & Hbrest & Hreach).
      exists ts, (1 + n)%nat, vt. split; [exact Hv'|]. split; [exact Hwf|].
      split; [unfold budget in *; rewrite zlen_cons; pose proof (ztc_cons_ge mN r); lia|].
      split; [exact Hbrest|].
      apply reaches_step_then; [|exact Hreach].
      apply ucontb_pos, nonempty_pos. eapply arr_plain_nonempty; exact H.
    + destruct (uvalue f f (h :: r)) as [v1 r1| | |] eqn:Hv1; try discriminate.
      destruct (uvalue_marker _ _ _ _ _ _ Hv1 EN) as [Hm Hpl].
      destruct (value_of_payload f h r v1 r1 (dyn p sCont) s Hspec Hpl Hm Hbr (dyn_uctx p sCont Hp) Hs)
        as (t1 & n1 & vt1 & Hwf1 & _ & Hcv1 & Hbud1 & Hbr1 & Hreach1).
      destruct (IH r1 (v1 :: acc) v rest H Hbr1 (uset_vtype p vt1) (sadd s (flatten t1)) sCont
                  (uctx_vtype p vt1 Hp) ltac:(rewrite sadd_fail; exact Hs) (or_intror eq_refl))
        as (ts & n & vt & Hv' & Hwf & Hbud & Hbrest & Hreach).
      exists (t1 :: ts), (n1 + (1 + n))%nat, vt.
      split; [rewrite Hv'; cbn [rev map]; rewrite <- app_assoc, Hcv1; reflexivity|].
      split; [cbn [forallb]; rewrite Hwf1, Hwf; reflexivity|].
      split; [unfold budget in *; lia|]. split; [exact Hbrest|].
      unfold dyn in Hreach1 |- *. rewrite vwrap_push in Hreach1 by exact Hcur.
      unfold after_val in Hreach1. rewrite (ufix_reaches _ _ _ _ _ _ Hreach1).
      eapply reaches_trans; [exact Hreach1|]. fold (after_val (uset_vtype (u_push p (mku tArrayDyn sCont)) vt1) (sadd s (flatten t1)) r1).
      rewrite push_vtype, after_val_push by exact Hcur.
      replace (sadd s (flatten_elems (t1 :: ts) ++ [EArrEnd]))
        with (sadd (sadd s (flatten t1)) (flatten_elems ts ++ [EArrEnd]))
        by (rewrite sadd_app, flatten_elems_cons, app_assoc; reflexivity).
      apply reaches_step_then; [|exact Hreach].
      apply ucontb_pos, nonempty_pos. eapply arr_plain_nonempty; exact H.
Qed.

(* ---------- counted arrays ---------- *)
Definition acount_body (p : uparser) (s : sink) (b : bytes) : ures :=
  let l := up_lcur p in
  let '(p1, s1, e0) :=
    if u_s (up_cur p) =? sWithLen then let '(s1, e) := uvis s (EArrStart l BAny) in (uset_step p sCont, s1, e)
    else (p, s, unilE) in
  if negb (unil e0) then UR p1 s1 b false e0
  else if l =? 0 then
    let '(s2, e) := uvis s1 EArrEnd in
    if unil e then let '(p2, d) := upop_len_state p1 in UR p2 s2 b d unilE else UR p1 s2 b true e
  else
    match b with
    | [] => UCrash 16
    | x :: r =>
        if x =? mN then UR p1 s1 r false unilE
        else value_nodone (ustep_value (uset_lcur p1 (up_lcur p1 - 1)) s1 b)
    end.

Lemma ex_arrcount rec p s b : u_t (up_cur p) = tArrayCount -> (u_s (up_cur p) =? sStart) = false ->
  ubody rec p s b = ufix (acount_body p s b).
Proof. intros H H2. unfold ubody. rewrite H, H2. reflexivity. Qed.

Lemma ex_arrcount_start rec p s b : u_t (up_cur p) = tArrayCount -> u_s (up_cur p) = sStart ->
  ubody rec p s b = ufix (of_ul (ustep_len p b (with_step (up_cur p) sWithLen)) s).
Proof. intros H H2. unfold ubody. rewrite H, H2. reflexivity. Qed.

Definition cnt (p : uparser) (n : Z) : uparser := ul_push (u_push p (mku tArrayCount sCont)) n.

Lemma vwrap_ne p r : (zlen (up_stack p) =? 0) = false -> vwrap p r = value_nodone r.
Proof. intro H. unfold vwrap. rewrite H. reflexivity. Qed.

Lemma after_val_ne p s rest : (zlen (up_stack p) =? 0) = false ->
  after_val p s rest = UR p s rest false unilE.
Proof. intro H. unfold after_val. rewrite H. reflexivity. Qed.

Lemma cnt_stack p n : u_t (up_cur p) <> tFail -> (zlen (up_stack (cnt p n)) =? 0) = false.
Proof. intro H. exact (push_stack_nonempty p (mku tArrayCount sCont) H). Qed.

Lemma cnt_uctx p n : uctx p -> uctx (cnt p n).
Proof. intros (H1 & H2 & H3 & H4). split; [exact H1|]. split; [exact H2|]. split; [discriminate|exact H4]. Qed.

Lemma cnt_vtype p n vt : uset_vtype (cnt p n) vt = cnt (uset_vtype p vt) n.
Proof. reflexivity. Qed.

Lemma acount_noop p n s r : (n =? 0) = false ->
  acount_body (cnt p n) s (mN :: r) = UR (cnt p n) s r false unilE.
Proof.
  intro H. unfold acount_body. change (u_s (up_cur (cnt p n))) with sCont.
  change (up_lcur (cnt p n)) with n. kred. rewrite unil_nil, H. reflexivity.
Qed.

Lemma acount_value p n s x r : (n =? 0) = false -> (x =? mN) = false ->
  acount_body (cnt p n) s (x :: r) = value_nodone (ustep_value (cnt p (n - 1)) s (x :: r)).
Proof.
  intros H Hx. unfold acount_body. change (u_s (up_cur (cnt p n))) with sCont.
  change (up_lcur (cnt p n)) with n. kred. rewrite unil_nil, H, Hx. reflexivity.
Qed.

Lemma acount_close p s b : u_t (up_cur p) <> tFail -> s_fail s = None ->
  acount_body (cnt p 0) s b = after_val p (sadd s [EArrEnd]) b.
Proof.
  intros Hc Hs. unfold acount_body. change (u_s (up_cur (cnt p 0))) with sCont.
  change (up_lcur (cnt p 0)) with 0. kred. rewrite unil_nil. kred.
  rewrite uvis_ok by exact Hs. rewrite unil_nil.
  unfold upop_len_state, cnt. rewrite lpop_lpush, upop_state_push by exact Hc. reflexivity.
Qed.

Lemma acount_withlen p n s b : s_fail s = None ->
  acount_body (ul_push (u_push p (mku tArrayCount sWithLen)) n) s b =
  acount_body (cnt p n) (sadd s [EArrStart n BAny]) b.
Proof.
  intro Hs. unfold acount_body.
  change (u_s (up_cur (ul_push (u_push p (mku tArrayCount sWithLen)) n))) with sWithLen.
  change (u_s (up_cur (cnt p n))) with sCont.
  change (up_lcur (ul_push (u_push p (mku tArrayCount sWithLen)) n)) with n.
  change (up_lcur (cnt p n)) with n. kred. rewrite uvis_ok by exact Hs. reflexivity.
Qed.

Lemma uexec_cnt p n s b : uexec_step (cnt p n) s b = ufix (acount_body (cnt p n) s b).
Proof. rewrite uexec_step_eq. apply ex_arrcount; reflexivity. Qed.

Lemma uvalue_nonempty f g v rest : uvalue f g [] = RValue v rest -> False.
Proof. destruct g; discriminate. Qed.

(* the reference decoder's "value" skips no-ops; so does every container loop of the parser *)
Lemma skip_noops f q : (forall s r, uexec_step q s (mN :: r) = UR q s r false unilE) ->
  forall g b v1 r1, uvalue f g b = RValue v1 r1 -> all_bytes b = true ->
  exists k m r, is_value_marker m = true /\ ubj_payload f m r = RValue v1 r1 /\ all_bytes r = true /\
    Z.of_nat k + 3 * zlen (m :: r) + ztc (m :: r) <= 3 * zlen b + ztc b /\
    forall s, reaches (uexec_step q s b) (uexec_step q s (m :: r)) k.
Proof.
  intros Hq. induction g as [|g IH]; intros b v1 r1 H Hb; [discriminate|].
  destruct b as [|x r0]; [discriminate|].
  pose proof Hb as Hb'. rewrite all_bytes_cons in Hb'. apply andb_true_iff in Hb' as [_ Hbr].
  destruct (x =? mN) eqn:EN.
  - assert (x = mN) by lia. subst x. rewrite uvalue_S in H. change (mN =? mN) with true in H. cbv iota in H.
    destruct (IH r0 v1 r1 H Hbr) as (k & m & r & Hm & Hpl & Hbr' & Hbud & Hreach).
    exists (S k), m, r. split; [exact Hm|]. split; [exact Hpl|]. split; [exact Hbr'|].
    split; [rewrite (zlen_cons mN r0); pose proof (ztc_cons_ge mN r0); lia|].
    intro s. rewrite Hq. apply (reaches_step_then q s r0 _ k); [|apply Hreach].
    apply ucontb_pos, nonempty_pos. intros ->. eapply uvalue_nonempty; exact H.
  - destruct (uvalue_marker _ _ _ _ _ _ H EN) as [Hm Hpl].
    exists 0%nat, x, r0. split; [exact Hm|]. split; [exact Hpl|]. split; [exact Hbr|].
    split; [lia|]. intro s. apply reaches_refl.
Qed.

Lemma arr_n_nonempty pl g n acc v rest : 0 < n -> arr_n pl g n [] acc = RValue v rest ->
  (forall v r, pl [] <> RValue v r) -> False.
Proof.
  intros Hn H Hpl. destruct g; [rewrite arr_n_O in H|rewrite arr_n_S in H];
    (destruct (n <=? 0) eqn:E; [lia|]); [discriminate|].
  destruct (pl []) eqn:E1; try discriminate. exact (Hpl _ _ eq_refl).
Qed.

Lemma arr_n_zero pl g b acc : arr_n pl g 0 b acc = RValue (CArr (rev acc)) b.
Proof. destruct g; reflexivity. Qed.

Lemma value_marker_not_noop m : is_value_marker m = true -> (m =? mN) = false.
Proof. intro H. apply value_marker_not in H. tauto. Qed.

Lemma arr_cnt_loop f : payload_spec f -> forall g n b acc v rest,
  arr_n (uvalue f f) g n b acc = RValue v rest -> 0 < n -> all_bytes b = true ->
  forall p s, uctx p -> s_fail s = None ->
  exists ts m vt, v = CArr (rev acc ++ map (fun t => cv (value_of t)) ts) /\
    forallb wf_tree ts = true /\ zlen ts = n /\ budget (m + 1) b rest /\ all_bytes rest = true /\
    reaches (uexec_step (cnt p n) s b)
            (after_val (uset_vtype p vt) (sadd s (flatten_elems ts ++ [EArrEnd])) rest) m.
Proof.
  intros Hspec. induction g as [|g IH]; intros n b acc v rest H Hn Hb p s Hp Hs.
  { rewrite arr_n_O in H. destruct (n <=? 0) eqn:E; [lia|discriminate]. }
  rewrite arr_n_S in H. destruct (n <=? 0) eqn:E; [lia|]. clear E.
  destruct (uvalue f f b) as [v1 r1| | |] eqn:Hv1; try discriminate.
  pose proof Hp as (Hbuf & Hmk & Hcur & Hv).
  assert (En : (n =? 0) = false) by lia.
  destruct (skip_noops f (cnt p n)
              ltac:(intros s0 r0; rewrite uexec_cnt, acount_noop by exact En; reflexivity)
              f b v1 r1 Hv1 Hb) as (k & m & r & Hm & Hpl & Hbr & Hbudk & Hskip).
  destruct (value_of_payload f m r v1 r1 (cnt p (n - 1)) s Hspec Hpl Hm Hbr (cnt_uctx p (n - 1) Hp) Hs)
    as (t1 & n1 & vt1 & Hwf1 & _ & Hcv1 & Hbud1 & Hbr1 & Hreach1).
  rewrite vwrap_ne in Hreach1 by (apply cnt_stack; exact Hcur).
  rewrite cnt_vtype, after_val_ne in Hreach1 by (apply cnt_stack; exact Hcur).
  assert (Hfirst : reaches (uexec_step (cnt p n) s b)
            (UR (cnt (uset_vtype p vt1) (n - 1)) (sadd s (flatten t1)) r1 false unilE) (k + n1)).
  { eapply reaches_trans; [apply Hskip|].
    rewrite uexec_cnt, acount_value by (try exact En; apply value_marker_not_noop; exact Hm).
    rewrite (ufix_reaches _ _ _ _ _ _ Hreach1). exact Hreach1. }
  destruct (n - 1 =? 0) eqn:En1.
  - assert (n = 1) by lia. subst n. change (1 - 1) with 0 in *.
    rewrite arr_n_zero in H. inversion H; subst v rest; clear H.
    exists [t1], ((k + n1) + (1 + 0))%nat, vt1.
    split; [cbn [rev map]; rewrite Hcv1; reflexivity|].
    split; [cbn [forallb]; rewrite Hwf1; reflexivity|]. split; [reflexivity|].
    split; [unfold budget in *; lia|]. split; [exact Hbr1|].
    eapply reaches_trans; [exact Hfirst|].
    apply reaches_step_then; [apply ucontb_can; reflexivity|].
    apply reaches_eq. rewrite uexec_cnt, acount_close by (try exact Hcur; rewrite sadd_fail; exact Hs).
    rewrite sadd_app. cbn [flatten_elems flat_map]. rewrite app_nil_r. reflexivity.
  - destruct (IH (n - 1) r1 (v1 :: acc) v rest H ltac:(lia) Hbr1 (uset_vtype p vt1) (sadd s (flatten t1))
                (uctx_vtype p vt1 Hp) ltac:(rewrite sadd_fail; exact Hs))
      as (ts & m' & vt & Hv' & Hwf & Hlen & Hbud & Hbrest & Hreach).
    exists (t1 :: ts), ((k + n1) + (1 + m'))%nat, vt.
    split; [rewrite Hv'; cbn [rev map]; rewrite <- app_assoc, Hcv1; reflexivity|].
    split; [cbn [forallb]; rewrite Hwf1, Hwf; reflexivity|]. split; [rewrite zlen_cons; lia|].
    split; [unfold budget in *; lia|]. split; [exact Hbrest|].
    eapply reaches_trans; [exact Hfirst|].
    replace (sadd s (flatten_elems (t1 :: ts) ++ [EArrEnd]))
      with (sadd (sadd s (flatten t1)) (flatten_elems ts ++ [EArrEnd]))
      by (rewrite sadd_app, flatten_elems_cons, app_assoc; reflexivity).
    apply reaches_step_then; [|exact Hreach].
    apply ucontb_pos, nonempty_pos. intros ->.
    eapply (arr_n_nonempty (uvalue f f) g (n - 1)); [lia|exact H|].
    intros v0 r0 Hx. eapply uvalue_nonempty; exact Hx.
Qed.

(* ---------- the header of optimized (typed) containers ---------- *)
Lemma ex_arrtyped_hdr rec p s b : u_t (up_cur p) = tArrayTyped ->
  (u_s (up_cur p) =? sStart) || (u_s (up_cur p) =? sWithType0) || (u_s (up_cur p) =? sWithType1) = true ->
  ubody rec p s b = ufix (of_ul (ustep_header p b) s).
Proof. intros H H2. unfold ubody. rewrite H, H2. reflexivity. Qed.

Lemma ex_objtyped_hdr rec p s b : u_t (up_cur p) = tObjectTyped ->
  (u_s (up_cur p) =? sStart) || (u_s (up_cur p) =? sWithType0) || (u_s (up_cur p) =? sWithType1) = true ->
  ubody rec p s b = ufix (of_ul (ustep_header p b) s).
Proof. intros H H2. unfold ubody. rewrite H, H2. reflexivity. Qed.

Lemma ex_hdr T p s b : T = tArrayTyped \/ T = tObjectTyped -> u_t (up_cur p) = T ->
  (u_s (up_cur p) =? sStart) || (u_s (up_cur p) =? sWithType0) || (u_s (up_cur p) =? sWithType1) = true ->
  uexec_step p s b = ufix (of_ul (ustep_header p b) s).
Proof.
  intros [-> | ->] H H2; rewrite uexec_step_eq; [apply ex_arrtyped_hdr|apply ex_objtyped_hdr]; assumption.
Qed.

Definition hdr (p : uparser) (T stp : Z) (st : ustate) (bt : btype) : uparser :=
  v_push (u_push p (mku T stp)) st bt.

Lemma typed_header T p s t r2 n r3 st : T = tArrayTyped \/ T = tObjectTyped -> uctx p ->
  is_value_marker t = true -> marker_state t = Some st -> ubj_len r2 = LVal n r3 ->
  reaches (UR (u_push p (mku T sStart)) s (t :: mCount :: r2) false unilE)
          (UR (ul_push (hdr p T sWithLen st (marker_btype t)) n) s r3 false unilE) 3.
Proof.
  intros HT (Hbuf & Hmk & Hcur & Hv) Hm Hst Hl.
  change 3%nat with (1 + (1 + (1 + 0)))%nat.
  apply reaches_step_then; [apply ucontb_nonempty|].
  rewrite (ex_hdr T) by (try exact HT; reflexivity).
  unfold ustep_header. change (u_s (up_cur (u_push p (mku T sStart)))) with sStart. kred.
  unfold ustep_type. rewrite Hst. rewrite (value_marker_not_noop t Hm).
  cbn [of_ul]. rewrite ufix_ok.
  change (v_push (uset_cur (u_push p (mku T sStart)) (with_step (up_cur (u_push p (mku T sStart))) sWithType0)) st
            (marker_btype t)) with (hdr p T sWithType0 st (marker_btype t)).
  apply reaches_step_then; [apply ucontb_nonempty|].
  rewrite (ex_hdr T) by (try exact HT; reflexivity).
  unfold ustep_header. change (u_s (up_cur (hdr p T sWithType0 st (marker_btype t)))) with sWithType0. kred.
  change (mCount =? mCount) with true. kred. cbn [of_ul]. rewrite ufix_ok.
  change (uset_cur (hdr p T sWithType0 st (marker_btype t))
            (with_step (up_cur (hdr p T sWithType0 st (marker_btype t))) sWithType1))
    with (hdr p T sWithType1 st (marker_btype t)).
  apply reaches_step_then.
  { apply ucontb_pos. destruct (ubj_len_rest _ _ _ Hl) as (pre & -> & Hp). rewrite zlen_app.
    pose proof (zlen_nonneg r3). lia. }
  apply reaches_eq.
  rewrite (ex_hdr T) by (try exact HT; reflexivity).
  unfold ustep_header. change (u_s (up_cur (hdr p T sWithType1 st (marker_btype t)))) with sWithType1. kred.
  rewrite (ustep_len_ok _ r2 _ n r3) by assumption. reflexivity.
Qed.

Lemma marker_state_type t st : marker_state t = Some st ->
  u_t st = tFixed \/ u_t st = tHighPrec \/ u_t st = tString \/ u_t st = tObject \/ u_t st = tArray.
Proof.
  unfold marker_state. intro H.
  repeat match type of H with
  | (if ?c then _ else _) = _ => destruct c; [inversion H; subst st; cbn [u_t mku]; tauto|]
  end. discriminate.
Qed.

Lemma zero_sized_marker t st : zpay t = 0%nat -> marker_state t = Some st -> is_zero_sized st = true.
Proof.
  unfold zpay. intros H Hst. destruct ((t =? mZ) || (t =? mT) || (t =? mF)) eqn:E; [|discriminate].
  assert (t = mZ \/ t = mT \/ t = mF) as [->|[->| ->]] by lia; inversion Hst; reflexivity.
Qed.

(* ---------- typed arrays ---------- *)
Definition atyped_body (rec : uparser -> sink -> bytes -> ures) (p : uparser) (s : sink) (b : bytes) : ures :=
  let l := up_lcur p in
  let '(p1, s1, e0) :=
    if u_s (up_cur p) =? sWithLen then let '(s1, e) := uvis s (EArrStart l (up_vtype p)) in (uset_step p sCont, s1, e)
    else (p, s, unilE) in
  if negb (unil e0) then UR p1 s1 b false e0
  else if l =? 0 then
    let '(s2, e) := uvis s1 EArrEnd in
    if unil e then let '(p2, d) := upop_len_state (v_pop p1) in UR p2 s2 b d unilE else UR p1 s2 b true e
  else
    let p2 := uset_lcur p1 (up_lcur p1 - 1) in
    value_nodone (rec (u_push p2 (up_vcur p2)) s1 b).

Lemma ex_arrtyped rec p s b : u_t (up_cur p) = tArrayTyped ->
  (u_s (up_cur p) =? sStart) || (u_s (up_cur p) =? sWithType0) || (u_s (up_cur p) =? sWithType1) = false ->
  ubody rec p s b = ufix (atyped_body rec p s b).
Proof. intros H H2. unfold ubody. rewrite H, H2. reflexivity. Qed.

(* inside an open typed array: enclosing context p, n elements to go, element state st *)
Definition tarr (p : uparser) (n : Z) (st : ustate) (bt : btype) : uparser :=
  ul_push (hdr p tArrayTyped sCont st bt) n.

Lemma tarr_stack p n st bt : u_t (up_cur p) <> tFail -> (zlen (up_stack (tarr p n st bt)) =? 0) = false.
Proof. intro H. exact (push_stack_nonempty p (mku tArrayTyped sCont) H). Qed.

Lemma tarr_uctx p n st bt : uctx p -> u_t st <> tFail -> uctx (tarr p n st bt).
Proof.
  intros (H1 & H2 & H3 & H4) Hst. split; [exact H1|]. split; [exact H2|]. split; [discriminate|].
  intro H. exfalso. apply Hst. exact H.
Qed.

Lemma tarr_vtype p n st bt vt : uset_vtype (tarr p n st bt) vt = tarr p n st vt.
Proof. reflexivity. Qed.

Lemma vpop_vpush p st bt : vinv p -> v_pop (v_push p st bt) = uset_vtype p bt.
Proof.
  intro H. pdestruct p. destruct (vt =? tFail) eqn:E.
  - assert (vt = tFail) by lia. destruct (H H0) as [H1 H2]. inversion H1. subst. reflexivity.
  - reflexivity.
Qed.

Lemma typed_close p T stp st bt : uctx p ->
  upop_len_state (v_pop (ul_push (hdr p T stp st bt) 0)) = (uset_vtype p bt, zlen (up_stack p) =? 0).
Proof.
  intros (Hbuf & Hmk & Hcur & Hv). unfold upop_len_state, hdr.
  replace (v_pop (ul_push (v_push (u_push p (mku T stp)) st bt) 0))
    with (ul_push (v_pop (v_push (u_push p (mku T stp)) st bt)) 0).
  - rewrite vpop_vpush by exact Hv. rewrite lpop_lpush. rewrite push_vtype.
    rewrite upop_state_push by exact Hcur. reflexivity.
  - pdestruct p. destruct (vt =? tFail); [destruct vstk|]; reflexivity.
Qed.

Lemma atyped_close rec p st bt s b : uctx p -> s_fail s = None ->
  atyped_body rec (tarr p 0 st bt) s b = after_val (uset_vtype p bt) (sadd s [EArrEnd]) b.
Proof.
  intros Hp Hs. unfold atyped_body. change (u_s (up_cur (tarr p 0 st bt))) with sCont.
  change (up_lcur (tarr p 0 st bt)) with 0. kred. rewrite unil_nil. kred.
  rewrite uvis_ok by exact Hs. rewrite unil_nil. unfold tarr. rewrite typed_close by exact Hp. reflexivity.
Qed.

Lemma atyped_elem rec p n st bt s b : (n =? 0) = false ->
  atyped_body rec (tarr p n st bt) s b = value_nodone (rec (u_push (tarr p (n - 1) st bt) st) s b).
Proof.
  intro H. unfold atyped_body. change (u_s (up_cur (tarr p n st bt))) with sCont.
  change (up_lcur (tarr p n st bt)) with n. kred. rewrite unil_nil, H. reflexivity.
Qed.

Lemma atyped_withlen rec p n st bt s b : s_fail s = None ->
  atyped_body rec (ul_push (hdr p tArrayTyped sWithLen st bt) n) s b =
  atyped_body rec (tarr p n st bt) (sadd s [EArrStart n bt]) b.
Proof.
  intro Hs. unfold atyped_body.
  change (u_s (up_cur (ul_push (hdr p tArrayTyped sWithLen st bt) n))) with sWithLen.
  change (u_s (up_cur (tarr p n st bt))) with sCont.
  change (up_lcur (ul_push (hdr p tArrayTyped sWithLen st bt) n)) with n.
  change (up_lcur (tarr p n st bt)) with n.
  change (up_vtype (ul_push (hdr p tArrayTyped sWithLen st bt) n)) with bt.
  kred. rewrite uvis_ok by exact Hs. reflexivity.
Qed.

Lemma uexec_tarr p n st bt s b : uexec_step (tarr p n st bt) s b = ufix (atyped_body (uexec 2) (tarr p n st bt) s b).
Proof. rewrite uexec_step_eq. apply ex_arrtyped; reflexivity. Qed.

Definition zcost (t n : Z) : Z := if (zpay t =? 0)%nat then n else 0.

Lemma arr_typed_loop f t st : payload_spec f -> is_value_marker t = true -> marker_state t = Some st ->
  forall g n b acc v rest,
  arr_n (ubj_payload f t) g n b acc = RValue v rest -> 0 < n -> all_bytes b = true ->
  forall p s bt, uctx p -> s_fail s = None ->
  exists ts m vt, v = CArr (rev acc ++ map (fun t => cv (value_of t)) ts) /\
    forallb wf_tree ts = true /\ forallb (tree_matches (marker_btype t)) ts = true /\ zlen ts = n /\
    Z.of_nat m + 3 * zlen rest + ztc rest <= 3 * zlen b + ztc b + zcost t n /\ all_bytes rest = true /\
    reaches (uexec_step (tarr p n st bt) s b)
            (after_val (uset_vtype p vt) (sadd s (flatten_elems ts ++ [EArrEnd])) rest) m.
Proof.
  intros Hspec Hm Hst.
  assert (Hstt : u_t st <> tFail /\ u_t st <> tArrayTyped).
  { destruct (marker_state_type _ _ Hst) as [E|[E|[E|[E|E]]]]; rewrite E; split; discriminate. }
  destruct Hstt as [Hst1 Hst2].
  induction g as [|g IH]; intros n b acc v rest H Hn Hb p s bt Hp Hs.
  { rewrite arr_n_O in H. destruct (n <=? 0) eqn:E; [lia|discriminate]. }
  rewrite arr_n_S in H. destruct (n <=? 0) eqn:E; [lia|]. clear E.
  destruct (ubj_payload f t b) as [v1 r1| | |] eqn:Hv1; try discriminate.
  pose proof Hp as (Hbuf & Hmk & Hcur & Hv).
  assert (En : (n =? 0) = false) by lia.
  set (C := tarr p (n - 1) st bt).
  assert (HC : uctx C) by (apply tarr_uctx; assumption).
  destruct (Hspec t st b v1 r1 Hv1 Hm Hst Hb C s HC Hs)
    as (t1 & n1 & vt1 & Hwf1 & Hmat1 & Hcv1 & Hbud1 & Hbr1 & Hnd1 & Hreach1).
  rewrite vwrap_ne in Hnd1 by (apply tarr_stack; exact Hcur).
  unfold C in Hreach1. rewrite tarr_vtype, after_val_ne in Hreach1 by (apply tarr_stack; exact Hcur).
  assert (Hfirst : reaches (uexec_step (tarr p n st bt) s b)
            (UR (tarr p (n - 1) st vt1) (sadd s (flatten t1)) r1 false unilE) n1).
  { rewrite uexec_tarr, atyped_elem by exact En. rewrite uexec_fuel by exact Hst2.
    fold C. rewrite Hnd1. unfold C. rewrite (ufix_reaches _ _ _ _ _ _ Hreach1). exact Hreach1. }
  destruct (n - 1 =? 0) eqn:En1.
  - assert (n = 1) by lia. subst n. change (1 - 1) with 0 in *.
    rewrite arr_n_zero in H. inversion H; subst v rest; clear H.
    exists [t1], (n1 + (1 + 0))%nat, vt1.
    split; [cbn [rev map]; rewrite Hcv1; reflexivity|].
    split; [cbn [forallb]; rewrite Hwf1; reflexivity|].
    split; [cbn [forallb]; rewrite Hmat1; reflexivity|]. split; [reflexivity|].
    split. { unfold budget, zcost, zpay in *. destruct ((t =? mZ) || (t =? mT) || (t =? mF)); cbn [Nat.eqb] in *; lia. }
    split; [exact Hbr1|].
    eapply reaches_trans; [exact Hfirst|].
    apply reaches_step_then; [apply ucontb_can; reflexivity|].
    apply reaches_eq. rewrite uexec_tarr, atyped_close by (try exact Hp; rewrite sadd_fail; exact Hs).
    rewrite sadd_app. cbn [flatten_elems flat_map]. rewrite app_nil_r. reflexivity.
  - destruct (IH (n - 1) r1 (v1 :: acc) v rest H ltac:(lia) Hbr1 p (sadd s (flatten t1)) vt1
                Hp ltac:(rewrite sadd_fail; exact Hs))
      as (ts & m' & vt & Hv' & Hwf & Hmat & Hlen & Hbud & Hbrest & Hreach).
    exists (t1 :: ts), (n1 + (1 + m'))%nat, vt.
    split; [rewrite Hv'; cbn [rev map]; rewrite <- app_assoc, Hcv1; reflexivity|].
    split; [cbn [forallb]; rewrite Hwf1, Hwf; reflexivity|].
    split; [cbn [forallb]; rewrite Hmat1, Hmat; reflexivity|]. split; [rewrite zlen_cons; lia|].
    split. { unfold budget, zcost, zpay in *. destruct ((t =? mZ) || (t =? mT) || (t =? mF)); cbn [Nat.eqb] in *; lia. }
    split; [exact Hbrest|].
    eapply reaches_trans; [exact Hfirst|].
    replace (sadd s (flatten_elems (t1 :: ts) ++ [EArrEnd]))
      with (sadd (sadd s (flatten t1)) (flatten_elems ts ++ [EArrEnd]))
      by (rewrite sadd_app, flatten_elems_cons, app_assoc; reflexivity).
    apply reaches_step_then; [|exact Hreach].
    destruct (zpay t) as [|z] eqn:Ez.
    + apply ucontb_can. unfold can_step_without_input.
      change (u_t (up_cur (tarr p (n - 1) st vt1))) with tArrayTyped.
      change (u_s (up_cur (tarr p (n - 1) st vt1))) with sCont.
      change (up_vcur (tarr p (n - 1) st vt1)) with st. kred.
      rewrite (zero_sized_marker t st Ez Hst). apply orb_true_r.
    + apply ucontb_pos, nonempty_pos. intros ->.
      eapply (arr_n_nonempty (ubj_payload f t) g (n - 1)); [lia|exact H|].
      intros v0 r0 Hx. pose proof (payload_nonempty _ _ _ _ Hx Hm). lia.
Qed.

(* ---------- the array payload ---------- *)
Lemma pl_arr_typed' f t c r2 :
  ubj_payload (S f) mArrS (mType :: t :: c :: r2) =
  if negb (is_value_marker t) then RMalformed else
  if negb (c =? mCount) then RMalformed else
  match ubj_len r2 with
  | LTrunc => RTruncated
  | LBad => RMalformed
  | LVal n r3 =>
      if (100000 <? n) && ((t =? mZ) || (t =? mT) || (t =? mF)) then RMalformed else
      arr_n (ubj_payload f t) (f + Z.to_nat (Z.min n 100001))%nat n r3 []
  end.
Proof. reflexivity. Qed.

Lemma wf_arr_intro n bt ts : n < 0 \/ n = zlen ts -> forallb (tree_matches bt) ts = true ->
  forallb wf_tree ts = true -> wf_tree (TArr n bt ts) = true.
Proof.
  intros Hn Hm Hw. rewrite wf_arr, Hw, Hm. unfold len_ok. destruct Hn; lia.
Qed.

Lemma matches_any ts : forallb (tree_matches BAny) ts = true.
Proof. apply forallb_forall. reflexivity. Qed.

Lemma cv_arr n bt ts : cv (value_of (TArr n bt ts)) = CArr (map (fun t => cv (value_of t)) ts).
Proof. cbn [value_of cv]. rewrite map_map. reflexivity. Qed.

Lemma marker_state_value t : is_value_marker t = true -> exists st, marker_state t = Some st.
Proof.
  intro H. apply value_marker_cases in H.
  repeat (destruct H as [->|H]; [eexists; reflexivity|]). subst t. eexists; reflexivity.
Qed.

Lemma zt_local_typed t r2 n r3 : zpay t = 0%nat -> ubj_len r2 = LVal n r3 ->
  zt_local (mType :: t :: mCount :: r2) = n.
Proof.
  intros Hz Hl. unfold zt_local. rewrite Hl. unfold zpay in Hz.
  destruct ((t =? mZ) || (t =? mT) || (t =? mF)); [reflexivity|discriminate].
Qed.

Lemma array_goal f b v rest p s : payload_spec f ->
  ubj_payload (S f) mArrS b = RValue v rest -> all_bytes b = true -> uctx p -> s_fail s = None ->
  pgoal mArrS (mku tArray sStart) b v rest p s.
Proof.
  intros Hspec H Hb Hp Hs. pose proof Hp as (Hbuf & Hmk & Hcur & Hv).
  destruct b as [|h r]; [discriminate|].
  pose proof Hb as Hb'. rewrite all_bytes_cons in Hb'. apply andb_true_iff in Hb' as [_ Hbr].
  set (q0 := u_push p (mku tArray sStart)).
  assert (Hq0 : forall s0 b0, uexec_step q0 s0 b0 = ufix
    match b0 with
    | [] => UCrash 14
    | x :: r =>
        if x =? mCount then UR (u_push p (mku tArrayCount sStart)) s0 r false unilE
        else if x =? mType then UR (u_push p (mku tArrayTyped sStart)) s0 r false unilE
        else let '(s1, e) := uvis s0 (EArrStart (-1) BAny) in UR (dyn p sStart) s1 b0 false e
    end).
  { intros s0 b0. rewrite uexec_step_eq, ex_array by reflexivity. reflexivity. }
  unfold pgoal. fold q0. rewrite Hq0. change (zpay mArrS) with 2%nat.
  destruct (h =? mType) eqn:Ety.
  { (* typed *)
    assert (h = mType) by lia. subst h. change (mType =? mCount) with false. cbv iota.
    destruct r as [|t [|c r2]]; try discriminate H.
    { exfalso. revert H. change (ubj_payload (S f) mArrS [mType; t]) with
        (if negb (is_value_marker t) then RMalformed else RTruncated).
      destruct (negb (is_value_marker t)); discriminate. }
    rewrite pl_arr_typed' in H.
    destruct (is_value_marker t) eqn:Hm; [|discriminate]. cbn [negb] in H.
    destruct (c =? mCount) eqn:Ec; [|discriminate]. cbn [negb] in H.
    assert (c = mCount) by lia. subst c.
    destruct (ubj_len r2) as [n r3| |] eqn:Hl; try discriminate.
    destruct ((100000 <? n) && ((t =? mZ) || (t =? mT) || (t =? mF))) eqn:Ebig; [discriminate|].
    destruct (marker_state_value t Hm) as (st & Hst).
    assert (Hbr2 : all_bytes r2 = true).
    { rewrite !all_bytes_cons in Hbr. apply andb_true_iff in Hbr as [_ Hbr].
      apply andb_true_iff in Hbr as [_ Hbr]. exact Hbr. }
    destruct (ubj_len_facts _ _ _ Hl Hbr2) as (Hbr3 & Hn0 & Hlen & Hz).
    pose proof (typed_header tArrayTyped p s t r2 n r3 st (or_introl eq_refl) Hp Hm Hst Hl) as Hhdr.
    set (bt := marker_btype t) in *.
    assert (Hztc : ztc r3 + zcost t n <= ztc (mType :: t :: mCount :: r2)).
    { rewrite ztc_cons. pose proof (ztc_cons_ge t (mCount :: r2)). pose proof (ztc_cons_ge mCount r2).
      unfold zcost. destruct (zpay t =? 0)%nat eqn:Ez.
      - rewrite (zt_local_typed t r2 n r3) by (try exact Hl; apply Nat.eqb_eq; exact Ez). lia.
      - pose proof (zt_local_nonneg (mType :: t :: mCount :: r2)). lia. }
    assert (Hzc : 0 <= zcost t n) by (unfold zcost; destruct (zpay t =? 0)%nat; lia).
    assert (Hexec : uexec_step (ul_push (hdr p tArrayTyped sWithLen st bt) n) s r3 =
              ufix (atyped_body (uexec 2) (tarr p n st bt) (sadd s [EArrStart n bt]) r3)).
    { rewrite uexec_step_eq, ex_arrtyped by reflexivity. rewrite atyped_withlen by exact Hs. reflexivity. }
    destruct (n =? 0) eqn:En.
    - assert (n = 0) by lia. subst n. rewrite arr_n_zero in H. inversion H; subst v rest; clear H.
      exists (TArr 0 bt []), (3 + (1 + 0))%nat, bt.
      split; [reflexivity|]. split; [reflexivity|]. split; [reflexivity|].
      split; [unfold budget; rewrite !zlen_cons; lia|]. split; [exact Hbr3|].
      rewrite ufix_ok. split; [apply vwrap_nd|].
      eapply reaches_trans; [exact Hhdr|].
      apply reaches_step_then; [apply ucontb_can; reflexivity|].
      apply reaches_eq. rewrite Hexec, atyped_close by (try exact Hp; rewrite sadd_fail; exact Hs).
      rewrite sadd_app. reflexivity.
    - destruct (arr_typed_loop f t st Hspec Hm Hst _ n r3 [] v rest H ltac:(lia) Hbr3 p
                  (sadd s [EArrStart n bt]) bt Hp ltac:(rewrite sadd_fail; exact Hs))
        as (ts & m & vt & Hv' & Hwf & Hmat & Hlen' & Hbud & Hbrest & Hreach).
      exists (TArr n bt ts), (3 + (1 + m))%nat, vt.
      split; [apply wf_arr_intro; [right; lia|exact Hmat|exact Hwf]|]. split; [reflexivity|].
      split; [rewrite cv_arr, Hv'; reflexivity|].
      split; [unfold budget; rewrite !zlen_cons; lia|]. split; [exact Hbrest|].
      rewrite ufix_ok. split; [apply vwrap_nd|].
      eapply reaches_trans; [exact Hhdr|].
      rewrite flatten_arr.
      replace (sadd s (EArrStart n bt :: flatten_elems ts ++ [EArrEnd]))
        with (sadd (sadd s [EArrStart n bt]) (flatten_elems ts ++ [EArrEnd]))
        by (rewrite sadd_app; reflexivity).
      apply reaches_step_then; [|rewrite Hexec, <- uexec_tarr; exact Hreach].
      destruct (zpay t) as [|z] eqn:Ez.
      + apply ucontb_can. unfold can_step_without_input.
        change (u_t (up_cur (ul_push (hdr p tArrayTyped sWithLen st bt) n))) with tArrayTyped.
        change (u_s (up_cur (ul_push (hdr p tArrayTyped sWithLen st bt) n))) with sWithLen.
        change (up_vcur (ul_push (hdr p tArrayTyped sWithLen st bt) n)) with st. kred.
        rewrite (zero_sized_marker t st Ez Hst). apply orb_true_r.
      + apply ucontb_pos, nonempty_pos. intros ->.
        eapply (arr_n_nonempty (ubj_payload f t) _ n); [lia|exact H|].
        intros v0 r0 Hx. pose proof (payload_nonempty _ _ _ _ Hx Hm). lia. }
  destruct (h =? mCount) eqn:Ecn.
  { (* counted *)
    assert (h = mCount) by lia. subst h. rewrite pl_arr_counted in H.
    destruct (ubj_len r) as [n r1| |] eqn:Hl; try discriminate.
    destruct (ubj_len_facts _ _ _ Hl Hbr) as (Hbr1 & Hn0 & Hlen & Hz).
    assert (Hlenstep : uexec_step (u_push p (mku tArrayCount sStart)) s r =
              UR (ul_push (u_push p (mku tArrayCount sWithLen)) n) s r1 false unilE).
    { rewrite uexec_step_eq, ex_arrcount_start by reflexivity.
      rewrite (ustep_len_ok _ r _ n r1) by assumption. reflexivity. }
    assert (Hexec : uexec_step (ul_push (u_push p (mku tArrayCount sWithLen)) n) s r1 =
              ufix (acount_body (cnt p n) (sadd s [EArrStart n BAny]) r1)).
    { rewrite uexec_step_eq, ex_arrcount by reflexivity. rewrite acount_withlen by exact Hs. reflexivity. }
    assert (Hr : 0 < zlen r).
    { destruct (ubj_len_rest _ _ _ Hl) as (pre & -> & Hpre). rewrite zlen_app. pose proof (zlen_nonneg r1). lia. }
    rewrite ufix_ok.
    destruct (n =? 0) eqn:En.
    - assert (n = 0) by lia. subst n. rewrite arr_n_zero in H. inversion H; subst v rest; clear H.
      exists (TArr 0 BAny []), (1 + (1 + 0))%nat, (up_vtype p).
      split; [reflexivity|]. split; [reflexivity|]. split; [reflexivity|].
      split; [unfold budget; rewrite !zlen_cons; pose proof (ztc_cons_ge mCount r); lia|]. split; [exact Hbr1|].
      split; [apply vwrap_nd|].
      apply reaches_step_then; [apply ucontb_pos; exact Hr|]. rewrite Hlenstep.
      apply reaches_step_then; [apply ucontb_can; reflexivity|].
      apply reaches_eq. rewrite Hexec, acount_close by (try exact Hcur; rewrite sadd_fail; exact Hs).
      rewrite sadd_app, vtype_id. reflexivity.
    - destruct (arr_cnt_loop f Hspec f n r1 [] v rest H ltac:(lia) Hbr1 p
                  (sadd s [EArrStart n BAny]) Hp ltac:(rewrite sadd_fail; exact Hs))
        as (ts & m & vt & Hv' & Hwf & Hlen' & Hbud & Hbrest & Hreach).
      exists (TArr n BAny ts), (1 + (1 + m))%nat, vt.
      split; [apply wf_arr_intro; [right; lia|apply matches_any|exact Hwf]|]. split; [reflexivity|].
      split; [rewrite cv_arr, Hv'; reflexivity|].
      split; [unfold budget in *; rewrite !zlen_cons; pose proof (ztc_cons_ge mCount r); lia|].
      split; [exact Hbrest|]. split; [apply vwrap_nd|].
      apply reaches_step_then; [apply ucontb_pos; exact Hr|]. rewrite Hlenstep.
      rewrite flatten_arr.
      replace (sadd s (EArrStart n BAny :: flatten_elems ts ++ [EArrEnd]))
        with (sadd (sadd s [EArrStart n BAny]) (flatten_elems ts ++ [EArrEnd]))
        by (rewrite sadd_app; reflexivity).
      apply reaches_step_then; [|rewrite Hexec, <- uexec_cnt; exact Hreach].
      apply ucontb_pos, nonempty_pos. intros ->.
      eapply (arr_n_nonempty (uvalue f f) f n); [lia|exact H|].
      intros v0 r0 Hx. eapply uvalue_nonempty; exact Hx. }
  (* plain *)
  rewrite pl_arr_plain in H by assumption.
  destruct (arr_plain_loop f Hspec f (h :: r) [] v rest H Hb p (sadd s [EArrStart (-1) BAny]) sStart Hp
              ltac:(rewrite sadd_fail; exact Hs) (or_introl eq_refl))
    as (ts & n & vt & Hv' & Hwf & Hbud & Hbrest & Hreach).
  exists (TArr (-1) BAny ts), (1 + n)%nat, vt.
  split; [apply wf_arr_intro; [left; lia|apply matches_any|exact Hwf]|]. split; [reflexivity|].
  split; [rewrite cv_arr, Hv'; reflexivity|].
  split; [unfold budget in *; lia|]. split; [exact Hbrest|].
  rewrite uvis_ok by exact Hs. rewrite ufix_ok. split; [apply vwrap_nd|].
  rewrite flatten_arr.
  replace (sadd s (EArrStart (-1) BAny :: flatten_elems ts ++ [EArrEnd]))
    with (sadd (sadd s [EArrStart (-1) BAny]) (flatten_elems ts ++ [EArrEnd]))
    by (rewrite sadd_app; reflexivity).
  apply reaches_step_then; [apply ucontb_nonempty|exact Hreach].
Qed.

(* ====================================================================== *)
(* Part 9: objects                                                          *)
(* ====================================================================== *)

Lemma ex_object rec p s b : u_t (up_cur p) = tObject -> ubody rec p s b = ufix
  match b with
  | [] => UCrash 17
  | x :: r =>
      if x =? mCount then UR (uset_type p tObjectCount) s r false unilE
      else if x =? mType then UR (uset_type p tObjectTyped) s r false unilE
      else let '(s1, e) := uvis s (EObjStart (-1) BAny) in UR (uset_type p tObjectDyn) s1 b false e
  end.
Proof. intro H. unfold ubody. rewrite H. reflexivity. Qed.

Lemma ex_objdyn_emptykey rec p s b : u_t (up_cur p) = tObjectDyn -> u_s (up_cur p) = sFieldNameLen ->
  up_lcur p = 0 -> ubody rec p s b = ufix
    (let p2 := ul_pop p in
     let '(s1, e) := uvis s (EKeyRef []) in
     UR (uset_step p2 sCont) s1 b false e).
Proof. intros H H2 H3. unfold ubody. rewrite H, H2, H3. reflexivity. Qed.

Lemma ex_objdyn rec p s b : u_t (up_cur p) = tObjectDyn ->
  (u_s (up_cur p) =? sFieldNameLen) && (up_lcur p =? 0) = false -> ubody rec p s b = ufix
  match b with
  | [] => UCrash 18
  | x :: r =>
      if (u_s (up_cur p) =? sStart) && (up_marker p =? 0) && (x =? mObjE) then
        let '(s1, e) := uvis s EObjEnd in
        if unil e then let '(p1, d) := upop_state p in UR p1 s1 r d unilE else UR p s1 r true e
      else if u_s (up_cur p) =? sStart then of_ul (ustep_len p b (with_step (up_cur p) sFieldNameLen)) s
      else if u_s (up_cur p) =? sFieldNameLen then
        match ucollect p b (up_lcur p) with
        | UCC => UCrash 19
        | UC p1 rest None => UR p1 s rest false unilE
        | UC p1 rest (Some tmp) =>
            let p2 := ul_pop p1 in
            let '(s1, e) := uvis s (EKeyRef tmp) in
            UR (uset_step p2 sCont) s1 rest false e
        end
      else if u_s (up_cur p) =? sCont then
        if x =? mN then UR p s r false unilE
        else value_nodone (ustep_value (uset_step p sStart) s b)
      else UR p s b false unilE
  end.
Proof. intros H H2. unfold ubody. rewrite H. cbn [tObjectDyn]. kred.
  change (10 =? 10) with true. cbv iota. cbn [andb]. rewrite H2. reflexivity. Qed.

Definition odyn (p : uparser) (stp : Z) : uparser := u_push p (mku tObjectDyn stp).

Lemma odyn_uctx p stp : uctx p -> uctx (odyn p stp).
Proof. intro H. apply push_uctx; [exact H|discriminate]. Qed.

Lemma ukey_inv b k r2 : ukey b = inl (Some (k, r2)) ->
  exists klen r1, ubj_len b = LVal klen r1 /\ take klen r1 = Some (k, r2).
Proof.
  unfold ukey. destruct (ubj_len b) as [n r| |]; try discriminate.
  destruct (take n r) as [[a r']|] eqn:E; [|discriminate].
  intro H. inversion H; subst. eauto.
Qed.

Lemma ukey_cases b : (exists k r2, ukey b = inl (Some (k, r2))) \/ (exists e, ukey b = inr e /\ forall v r, e <> RValue v r).
Proof.
  unfold ukey. destruct (ubj_len b) as [n r| |].
  - destruct (take n r) as [[a r']|]; [left; eauto|right; eexists; split; [reflexivity|discriminate]].
  - right; eexists; split; [reflexivity|discriminate].
  - right; eexists; split; [reflexivity|discriminate].
Qed.

Lemma odyn_end p s r : up_marker p = 0 -> u_t (up_cur p) <> tFail -> s_fail s = None ->
  uexec_step (odyn p sStart) s (mObjE :: r) = after_val p (sadd s [EObjEnd]) r.
Proof.
  intros Hmk Hcur Hs. rewrite uexec_step_eq, ex_objdyn by reflexivity.
  change (u_s (up_cur (odyn p sStart))) with sStart. change (up_marker (odyn p sStart)) with (up_marker p).
  rewrite Hmk. kred. change (mObjE =? mObjE) with true. cbv iota.
  rewrite uvis_ok by exact Hs. rewrite unil_nil. unfold odyn. rewrite upop_state_push by exact Hcur. reflexivity.
Qed.

Lemma odyn_keylen p s h r klen r1 : up_buf p = [] -> up_marker p = 0 -> (h =? mObjE) = false ->
  ubj_len (h :: r) = LVal klen r1 ->
  uexec_step (odyn p sStart) s (h :: r) = UR (ul_push (odyn p sFieldNameLen) klen) s r1 false unilE.
Proof.
  intros Hbuf Hmk Hh Hl. rewrite uexec_step_eq, ex_objdyn by reflexivity.
  change (u_s (up_cur (odyn p sStart))) with sStart. rewrite Hh. kred. rewrite andb_false_r.
  rewrite (ustep_len_ok _ _ _ klen r1) by assumption. reflexivity.
Qed.

Lemma odyn_key p s klen r1 key r2 : up_buf p = [] -> s_fail s = None ->
  take klen r1 = Some (key, r2) ->
  uexec_step (ul_push (odyn p sFieldNameLen) klen) s r1 = UR (odyn p sCont) (sadd s [EKeyRef key]) r2 false unilE.
Proof.
  intros Hbuf Hs Ht. destruct (klen =? 0) eqn:Ek.
  - assert (klen = 0) by lia. subst klen.
    pose proof (take_some _ _ _ _ Ht) as (_ & _ & _ & _ & Hr1 & Hza).
    apply zlen_zero_nil in Hza. subst key. cbn [app] in Hr1. subst r2.
    rewrite uexec_step_eq, ex_objdyn_emptykey by reflexivity.
    cbv zeta. rewrite uvis_ok by exact Hs. rewrite lpop_lpush. reflexivity.
  - rewrite uexec_step_eq, ex_objdyn
      by (try reflexivity; change (up_lcur (ul_push (odyn p sFieldNameLen) klen)) with klen; rewrite Ek; apply andb_false_r).
    pose proof (take_some _ _ _ _ Ht) as (Hk0 & Hl & _ & _ & _ & _).
    destruct r1 as [|x r1']; [rewrite zlen_nil in Hl; lia|].
    change (u_s (up_cur (ul_push (odyn p sFieldNameLen) klen))) with sFieldNameLen. kred.
    change (up_lcur (ul_push (odyn p sFieldNameLen) klen)) with klen.
    rewrite (ucollect_take (ul_push (odyn p sFieldNameLen) klen) _ _ _ _ Hbuf Ht).
    cbv zeta. rewrite uvis_ok by exact Hs. rewrite lpop_lpush. reflexivity.
Qed.

Lemma odyn_noop p s r : uexec_step (odyn p sCont) s (mN :: r) = UR (odyn p sCont) s r false unilE.
Proof. rewrite uexec_step_eq, ex_objdyn by reflexivity. reflexivity. Qed.

Lemma odyn_value p s x r : (x =? mN) = false ->
  uexec_step (odyn p sCont) s (x :: r) = ufix (value_nodone (ustep_value (odyn p sStart) s (x :: r))).
Proof.
  intro Hx. rewrite uexec_step_eq, ex_objdyn by reflexivity.
  change (u_s (up_cur (odyn p sCont))) with sCont. kred. rewrite Hx. reflexivity.
Qed.

Lemma odyn_emptykey_can p klen : klen = 0 ->
  can_step_without_input (ul_push (odyn p sFieldNameLen) klen) = true.
Proof. intros ->. reflexivity. Qed.

Definition mval (m : bytes * bool * tree) : bytes * cvalue := (fst (fst m), cv (value_of (snd m))).
Definition mwf (m : bytes * bool * tree) : bool := all_bytes (fst (fst m)) && wf_tree (snd m).

Lemma obj_plain_nonempty val g b acc v rest : obj_plain val g b acc = RValue v rest -> b <> [].
Proof. destruct g; [discriminate|]. destruct b; [discriminate|]. discriminate. Qed.

Lemma obj_plain_loop f : payload_spec f -> forall g b acc v rest,
  obj_plain (uvalue f f) g b acc = RValue v rest -> all_bytes b = true ->
  forall p s, uctx p -> s_fail s = None ->
  exists ms n vt, v = CObj (rev acc ++ map mval ms) /\
    forallb mwf ms = true /\ budget (n + 3) b rest /\ all_bytes rest = true /\
    reaches (uexec_step (odyn p sStart) s b)
            (after_val (uset_vtype p vt) (sadd s (flatten_members ms ++ [EObjEnd])) rest) n.
Proof.
  intros Hspec. induction g as [|g IH]; intros b acc v rest H Hb p s Hp Hs; [discriminate|].
  destruct b as [|h r]; [discriminate|]. rewrite obj_plain_S in H.
  pose proof Hb as Hb'. rewrite all_bytes_cons in Hb'. apply andb_true_iff in Hb' as [_ Hbr].
  pose proof Hp as (Hbuf & Hmk & Hcur & Hv).
  destruct (h =? mObjE) eqn:Eend.
  - assert (h = mObjE) by lia. subst h. inversion H; subst v rest. clear H.
    exists [], 0%nat, (up_vtype p).
    split; [cbn [map]; rewrite app_nil_r; reflexivity|]. split; [reflexivity|].
    split; [unfold budget; rewrite zlen_cons; pose proof (ztc_cons_ge mObjE r); lia|]. split; [exact Hbr|].
    apply reaches_eq. rewrite odyn_end by assumption. rewrite vtype_id. reflexivity.
  - destruct (ukey_cases (h :: r)) as [(k & r2 & Hk)|(e & Hk & He)];
      rewrite Hk in H; [|exfalso; destruct e; try discriminate; eapply He; reflexivity].
    destruct (ukey_inv _ _ _ Hk) as (klen & r1 & Hl & Ht).
    destruct (uvalue f f r2) as [v1 r3| | |] eqn:Hv1; try discriminate.
    destruct (ubj_len_facts _ _ _ Hl Hb) as (Hbr1 & Hk0 & Hlen & Hz).
    destruct (take_bytes _ _ _ _ Ht Hbr1) as [Hbk Hbr2].
    pose proof (take_some _ _ _ _ Ht) as (_ & _ & _ & _ & Hr1 & Hzk).
    pose proof (ztc_take _ _ _ _ Ht) as Hz2.
    destruct (skip_noops f (odyn p sCont) (odyn_noop p) f r2 v1 r3 Hv1 Hbr2)
      as (kn & m & rv & Hm & Hpl & Hbrv & Hbudk & Hskip).
    destruct (value_of_payload f m rv v1 r3 (odyn p sStart) (sadd s [EKeyRef k]) Hspec Hpl Hm Hbrv
                (odyn_uctx p sStart Hp) ltac:(rewrite sadd_fail; exact Hs))
      as (t1 & n1 & vt1 & Hwf1 & _ & Hcv1 & Hbud1 & Hbr3 & Hreach1).
    unfold odyn in Hreach1. rewrite vwrap_push in Hreach1 by exact Hcur.
    rewrite push_vtype, after_val_push in Hreach1 by exact Hcur.
    destruct (IH r3 ((k, v1) :: acc) v rest H Hbr3 (uset_vtype p vt1) (sadd (sadd s [EKeyRef k]) (flatten t1))
                (uctx_vtype p vt1 Hp) ltac:(rewrite !sadd_fail; exact Hs))
      as (ms & n & vt & Hv' & Hwf & Hbud & Hbrest & Hreach).
    exists ((k, true, t1) :: ms), (1 + (1 + (kn + (n1 + (1 + n)))))%nat, vt.
    split; [rewrite Hv'; cbn [rev map]; rewrite <- app_assoc; unfold mval at 2; cbn [fst snd]; rewrite Hcv1; reflexivity|].
    split; [cbn [forallb]; unfold mwf at 1; cbn [fst snd]; rewrite Hbk, Hwf1, Hwf; reflexivity|].
    split.
    { unfold budget in *. rewrite Hr1 in Hlen. rewrite zlen_app in Hlen. rewrite zlen_cons in *.
      pose proof (zlen_nonneg k). lia. }
    split; [exact Hbrest|].
    rewrite (odyn_keylen p s h r klen r1) by assumption.
    apply reaches_step_then.
    { destruct (klen =? 0) eqn:Ek.
      - apply ucontb_can. apply odyn_emptykey_can. lia.
      - apply ucontb_pos. pose proof (take_some _ _ _ _ Ht) as (_ & Hl' & _). lia. }
    rewrite (odyn_key p s klen r1 k r2) by assumption.
    apply reaches_step_then.
    { apply ucontb_pos, nonempty_pos. intros ->. eapply uvalue_nonempty; exact Hv1. }
    eapply reaches_trans; [apply Hskip|].
    rewrite odyn_value by (apply value_marker_not_noop; exact Hm). unfold odyn.
    rewrite (ufix_reaches _ _ _ _ _ _ Hreach1).
    eapply reaches_trans; [exact Hreach1|].
    replace (sadd s (flatten_members ((k, true, t1) :: ms) ++ [EObjEnd]))
      with (sadd (sadd (sadd s [EKeyRef k]) (flatten t1)) (flatten_members ms ++ [EObjEnd])).
    2:{ rewrite !sadd_app, flatten_members_cons. cbn [key_event app]. rewrite <- app_assoc. reflexivity. }
    apply reaches_step_then; [|exact Hreach].
    apply ucontb_pos, nonempty_pos. eapply obj_plain_nonempty; exact H.
Qed.

(* ---------- counted and typed objects: stepObjectCountedContent ---------- *)
Definition ocwrap (typed : bool) (r : ocres) : ures :=
  match r with
  | OCC w => UCrash w
  | OC fin p1 s1 rest err =>
      if fin && unil err then
        let '(p2, d) := upop_len_state (if typed then v_pop p1 else p1) in UR p2 s1 rest d unilE
      else UR p1 s1 rest fin err
  end.

Lemma ex_objcount rec p s b : u_t (up_cur p) = tObjectCount -> (u_s (up_cur p) =? sStart) = false ->
  ubody rec p s b = ufix (ocwrap false (ustep_obj_content p s b false)).
Proof. intros H H2. unfold ubody. rewrite H, H2. reflexivity. Qed.

Lemma ex_objcount_start rec p s b : u_t (up_cur p) = tObjectCount -> u_s (up_cur p) = sStart ->
  ubody rec p s b = ufix (of_ul (ustep_len p b (with_step (up_cur p) sWithLen)) s).
Proof. intros H H2. unfold ubody. rewrite H, H2. reflexivity. Qed.

Lemma ex_objtyped rec p s b : u_t (up_cur p) = tObjectTyped ->
  (u_s (up_cur p) =? sStart) || (u_s (up_cur p) =? sWithType0) || (u_s (up_cur p) =? sWithType1) = false ->
  ubody rec p s b = ufix (ocwrap true (ustep_obj_content p s b true)).
Proof. intros H H2. unfold ubody. rewrite H, H2. reflexivity. Qed.

Lemma oc_fieldname Q s b typed klen r1 : up_buf Q = [] -> up_marker Q = 0 ->
  u_s (up_cur Q) = sFieldName -> (up_lcur Q =? 0) = false -> ubj_len b = LVal klen r1 ->
  ustep_obj_content Q s b typed = OC false (ul_push (uset_step Q sFieldNameLen) klen) s r1 unilE.
Proof.
  intros Hbuf Hmk Hst Hl Hlen. unfold ustep_obj_content. rewrite Hst. kred. rewrite Hl.
  rewrite (ustep_len_ok _ _ _ klen r1) by assumption. reflexivity.
Qed.

Lemma oc_close Q s b typed : u_s (up_cur Q) = sFieldName -> up_lcur Q = 0 -> s_fail s = None ->
  ustep_obj_content Q s b typed = OC true Q (sadd s [EObjEnd]) b unilE.
Proof.
  intros Hst Hl Hs. unfold ustep_obj_content. rewrite Hst. kred. rewrite Hl. kred.
  rewrite uvis_ok by exact Hs. reflexivity.
Qed.

Lemma oc_fieldnamelen Q s b typed key r2 : up_buf Q = [] ->
  u_s (up_cur Q) = sFieldNameLen -> take (up_lcur Q) b = Some (key, r2) -> s_fail s = None ->
  ustep_obj_content Q s b typed = OC false (uset_step (ul_pop Q) sCont) (sadd s [EKeyRef key]) r2 unilE.
Proof.
  intros Hbuf Hst Ht Hs. unfold ustep_obj_content. rewrite Hst. kred.
  destruct (up_lcur Q =? 0) eqn:Ek.
  - assert (Hk : up_lcur Q = 0) by lia. rewrite Hk in Ht.
    pose proof (take_some _ _ _ _ Ht) as (_ & _ & _ & _ & Hr1 & Hza).
    apply zlen_zero_nil in Hza. subst key. cbn [app] in Hr1. subst r2.
    rewrite uvis_ok by exact Hs. reflexivity.
  - rewrite (ucollect_take Q _ _ _ _ Hbuf Ht). rewrite uvis_ok by exact Hs. reflexivity.
Qed.

Lemma oc_withlen Q s b typed : u_s (up_cur Q) = sWithLen -> (up_lcur Q =? 0) = false -> s_fail s = None ->
  ustep_obj_content Q s b typed =
  ustep_obj_content (uset_step Q sFieldName) (sadd s [EObjStart (up_lcur Q) BAny]) b typed.
Proof.
  intros Hst Hl Hs. unfold ustep_obj_content at 1. rewrite Hst. kred.
  rewrite uvis_ok by exact Hs. rewrite unil_nil. kred. rewrite Hl.
  unfold ustep_obj_content. change (u_s (up_cur (uset_step Q sFieldName))) with sFieldName. kred.
  reflexivity.
Qed.

Lemma oc_withlen_zero Q s b typed : u_s (up_cur Q) = sWithLen -> up_lcur Q = 0 -> s_fail s = None ->
  ustep_obj_content Q s b typed = OC true Q (sadd s [EObjStart 0 BAny; EObjEnd]) b unilE.
Proof.
  intros Hst Hl Hs. unfold ustep_obj_content. rewrite Hst. kred. rewrite Hl.
  rewrite uvis_ok by exact Hs. rewrite unil_nil. kred.
  rewrite uvis_ok by (rewrite sadd_fail; exact Hs). rewrite sadd_app. reflexivity.
Qed.

Lemma oc_noop Q s r : u_s (up_cur Q) = sCont ->
  ustep_obj_content Q s (mN :: r) false = OC false Q s r unilE.
Proof. intro Hst. unfold ustep_obj_content. rewrite Hst. reflexivity. Qed.

Lemma oc_value Q s x r : u_s (up_cur Q) = sCont -> (x =? mN) = false ->
  ustep_obj_content Q s (x :: r) false =
  match value_nodone (ustep_value (uset_step (uset_lcur Q (up_lcur Q - 1)) sFieldName) s (x :: r)) with
  | UCrash w => OCC w
  | UR p2 s2 rest _ err => OC false p2 s2 rest err
  end.
Proof. intros Hst Hx. unfold ustep_obj_content. rewrite Hst. kred. rewrite Hx. reflexivity. Qed.

Lemma oc_push Q s b : u_s (up_cur Q) = sCont ->
  ustep_obj_content Q s b true =
  OC false (u_push (uset_step (uset_lcur Q (up_lcur Q - 1)) sFieldName) (up_vcur Q)) s b unilE.
Proof. intro Hst. unfold ustep_obj_content. rewrite Hst. kred. destruct b; reflexivity. Qed.

Definition ocnt (p : uparser) (n : Z) (stp : Z) : uparser := ul_push (u_push p (mku tObjectCount stp)) n.

Lemma ocnt_stack p n stp : u_t (up_cur p) <> tFail -> (zlen (up_stack (ocnt p n stp)) =? 0) = false.
Proof. intro H. exact (push_stack_nonempty p (mku tObjectCount stp) H). Qed.

Lemma ocnt_uctx p n stp : uctx p -> uctx (ocnt p n stp).
Proof. intros (H1 & H2 & H3 & H4). split; [exact H1|]. split; [exact H2|]. split; [discriminate|exact H4]. Qed.

Lemma uexec_ocnt p n stp s b : (stp =? sStart) = false ->
  uexec_step (ocnt p n stp) s b = ufix (ocwrap false (ustep_obj_content (ocnt p n stp) s b false)).
Proof. intro H. rewrite uexec_step_eq. apply ex_objcount; [reflexivity|exact H]. Qed.

Lemma ocnt_fieldname p n s b klen r1 : up_buf p = [] -> up_marker p = 0 -> (n =? 0) = false ->
  ubj_len b = LVal klen r1 ->
  uexec_step (ocnt p n sFieldName) s b = UR (ul_push (ocnt p n sFieldNameLen) klen) s r1 false unilE.
Proof.
  intros Hbuf Hmk Hn Hl. rewrite uexec_ocnt by reflexivity.
  rewrite (oc_fieldname _ s b false klen r1) by (try reflexivity; assumption). reflexivity.
Qed.

Lemma ocnt_key p n s klen r1 key r2 : up_buf p = [] -> s_fail s = None -> take klen r1 = Some (key, r2) ->
  uexec_step (ul_push (ocnt p n sFieldNameLen) klen) s r1 =
  UR (ocnt p n sCont) (sadd s [EKeyRef key]) r2 false unilE.
Proof.
  intros Hbuf Hs Ht. rewrite uexec_step_eq, ex_objcount by reflexivity.
  rewrite (oc_fieldnamelen _ s r1 false key r2) by (try reflexivity; assumption).
  cbn [ocwrap andb]. rewrite lpop_lpush. reflexivity.
Qed.

Lemma ocnt_noop p n s r : uexec_step (ocnt p n sCont) s (mN :: r) = UR (ocnt p n sCont) s r false unilE.
Proof. rewrite uexec_ocnt by reflexivity. rewrite oc_noop by reflexivity. reflexivity. Qed.

Lemma ocwrap_value X : ocwrap false
  match value_nodone X with
  | UCrash w => OCC w
  | UR p2 s2 rest _ err => OC false p2 s2 rest err
  end = value_nodone X.
Proof. destruct X; reflexivity. Qed.

Lemma ocnt_value p n s x r : (x =? mN) = false ->
  uexec_step (ocnt p n sCont) s (x :: r) =
  ufix (value_nodone (ustep_value (ocnt p (n - 1) sFieldName) s (x :: r))).
Proof.
  intro Hx. rewrite uexec_ocnt by reflexivity. rewrite oc_value by (try reflexivity; exact Hx).
  rewrite ocwrap_value. reflexivity.
Qed.

Lemma ocnt_close p s b : u_t (up_cur p) <> tFail -> s_fail s = None ->
  uexec_step (ocnt p 0 sFieldName) s b = after_val p (sadd s [EObjEnd]) b.
Proof.
  intros Hcur Hs. rewrite uexec_ocnt by reflexivity. rewrite oc_close by (try reflexivity; exact Hs).
  cbn [ocwrap andb]. rewrite unil_nil. unfold upop_len_state, ocnt.
  rewrite lpop_lpush, upop_state_push by exact Hcur. reflexivity.
Qed.

Lemma obj_n_zero pl g b acc : obj_n pl g 0 b acc = RValue (CObj (rev acc)) b.
Proof. destruct g; reflexivity. Qed.

Lemma obj_n_nonempty pl g n acc v rest : 0 < n -> obj_n pl g n [] acc = RValue v rest -> False.
Proof.
  intros Hn H. destruct g; [rewrite obj_n_O in H|rewrite obj_n_S in H];
    (destruct (n <=? 0) eqn:E; [lia|]); discriminate.
Qed.

Lemma obj_cnt_loop f : payload_spec f -> forall g n b acc v rest,
  obj_n (uvalue f f) g n b acc = RValue v rest -> 0 < n -> all_bytes b = true ->
  forall p s, uctx p -> s_fail s = None ->
  exists ms m vt, v = CObj (rev acc ++ map mval ms) /\
    forallb mwf ms = true /\ zlen ms = n /\ budget (m + 1) b rest /\ all_bytes rest = true /\
    reaches (uexec_step (ocnt p n sFieldName) s b)
            (after_val (uset_vtype p vt) (sadd s (flatten_members ms ++ [EObjEnd])) rest) m.
Proof.
  intros Hspec. induction g as [|g IH]; intros n b acc v rest H Hn Hb p s Hp Hs.
  { rewrite obj_n_O in H. destruct (n <=? 0) eqn:E; [lia|discriminate]. }
  rewrite obj_n_S in H. destruct (n <=? 0) eqn:E; [lia|]. clear E.
  pose proof Hp as (Hbuf & Hmk & Hcur & Hv).
  assert (En : (n =? 0) = false) by lia.
  destruct (ukey_cases b) as [(k & r2 & Hk)|(e & Hk & He)];
    rewrite Hk in H; [|exfalso; destruct e; try discriminate; eapply He; reflexivity].
  destruct (ukey_inv _ _ _ Hk) as (klen & r1 & Hl & Ht).
  destruct (uvalue f f r2) as [v1 r3| | |] eqn:Hv1; try discriminate.
  destruct (ubj_len_facts _ _ _ Hl Hb) as (Hbr1 & Hk0 & Hlen & Hz).
  destruct (take_bytes _ _ _ _ Ht Hbr1) as [Hbk Hbr2].
  pose proof (take_some _ _ _ _ Ht) as (_ & Hkl & _ & _ & Hr1 & _).
  pose proof (ztc_take _ _ _ _ Ht) as Hz2.
  destruct (skip_noops f (ocnt p n sCont) (ocnt_noop p n) f r2 v1 r3 Hv1 Hbr2)
    as (kn & m & rv & Hm & Hpl & Hbrv & Hbudk & Hskip).
  destruct (value_of_payload f m rv v1 r3 (ocnt p (n - 1) sFieldName) (sadd s [EKeyRef k]) Hspec Hpl Hm Hbrv
              (ocnt_uctx p (n - 1) sFieldName Hp) ltac:(rewrite sadd_fail; exact Hs))
    as (t1 & n1 & vt1 & Hwf1 & _ & Hcv1 & Hbud1 & Hbr3 & Hreach1).
  rewrite vwrap_ne in Hreach1 by (apply ocnt_stack; exact Hcur).
  change (uset_vtype (ocnt p (n - 1) sFieldName) vt1) with (ocnt (uset_vtype p vt1) (n - 1) sFieldName) in Hreach1.
  rewrite after_val_ne in Hreach1 by (apply ocnt_stack; exact Hcur).
  assert (Hfirst : reaches (uexec_step (ocnt p n sFieldName) s b)
            (UR (ocnt (uset_vtype p vt1) (n - 1) sFieldName) (sadd (sadd s [EKeyRef k]) (flatten t1)) r3 false unilE)
            (1 + (1 + (kn + n1)))).
  { rewrite (ocnt_fieldname p n s b klen r1) by assumption.
    apply reaches_step_then.
    { destruct (klen =? 0) eqn:Ek.
      - apply ucontb_can. assert (klen = 0) as -> by lia. reflexivity.
      - apply ucontb_pos. lia. }
    rewrite (ocnt_key p n s klen r1 k r2) by assumption.
    apply reaches_step_then.
    { apply ucontb_pos, nonempty_pos. intros ->. eapply uvalue_nonempty; exact Hv1. }
    eapply reaches_trans; [apply Hskip|].
    rewrite ocnt_value by (apply value_marker_not_noop; exact Hm).
    rewrite (ufix_reaches _ _ _ _ _ _ Hreach1). exact Hreach1. }
  assert (Hbytes : zlen r2 + 2 <= zlen b).
  { rewrite Hr1 in Hlen. rewrite zlen_app in Hlen. pose proof (zlen_nonneg k). lia. }
  destruct (n - 1 =? 0) eqn:En1.
  - assert (n = 1) by lia. subst n. change (1 - 1) with 0 in *.
    rewrite obj_n_zero in H. inversion H; subst v rest; clear H.
    exists [(k, true, t1)], ((1 + (1 + (kn + n1))) + (1 + 0))%nat, vt1.
    split; [cbn [rev map]; unfold mval; cbn [fst snd]; rewrite Hcv1; reflexivity|].
    split; [cbn [forallb]; unfold mwf; cbn [fst snd]; rewrite Hbk, Hwf1; reflexivity|]. split; [reflexivity|].
    split; [unfold budget in *; rewrite zlen_cons in *; lia|]. split; [exact Hbr3|].
    eapply reaches_trans; [exact Hfirst|].
    apply reaches_step_then; [apply ucontb_can; reflexivity|].
    apply reaches_eq. rewrite ocnt_close by (try exact Hcur; rewrite !sadd_fail; exact Hs).
    rewrite !sadd_app, flatten_members_cons. cbn [key_event flatten_members flat_map app].
    rewrite app_nil_r. reflexivity.
  - destruct (IH (n - 1) r3 ((k, v1) :: acc) v rest H ltac:(lia) Hbr3 (uset_vtype p vt1)
                (sadd (sadd s [EKeyRef k]) (flatten t1))
                (uctx_vtype p vt1 Hp) ltac:(rewrite !sadd_fail; exact Hs))
      as (ms & m' & vt & Hv' & Hwf & Hlen' & Hbud & Hbrest & Hreach).
    exists ((k, true, t1) :: ms), ((1 + (1 + (kn + n1))) + (1 + m'))%nat, vt.
    split; [rewrite Hv'; cbn [rev map]; rewrite <- app_assoc; unfold mval at 2; cbn [fst snd]; rewrite Hcv1; reflexivity|].
    split; [cbn [forallb]; unfold mwf at 1; cbn [fst snd]; rewrite Hbk, Hwf1, Hwf; reflexivity|].
    split; [rewrite zlen_cons; lia|].
    split; [unfold budget in *; rewrite zlen_cons in *; lia|]. split; [exact Hbrest|].
    eapply reaches_trans; [exact Hfirst|].
    replace (sadd s (flatten_members ((k, true, t1) :: ms) ++ [EObjEnd]))
      with (sadd (sadd (sadd s [EKeyRef k]) (flatten t1)) (flatten_members ms ++ [EObjEnd])).
    2:{ rewrite !sadd_app, flatten_members_cons. cbn [key_event app]. rewrite <- app_assoc. reflexivity. }
    apply reaches_step_then; [|exact Hreach].
    apply ucontb_pos, nonempty_pos. intros ->.
    eapply (obj_n_nonempty (uvalue f f) g (n - 1)); [|exact H]. lia.
Qed.

(* ---------- typed objects ---------- *)
Definition tobj (p : uparser) (n : Z) (stp : Z) (st : ustate) (bt : btype) : uparser :=
  ul_push (hdr p tObjectTyped stp st bt) n.

Lemma tobj_stack p n stp st bt : u_t (up_cur p) <> tFail -> (zlen (up_stack (tobj p n stp st bt)) =? 0) = false.
Proof. intro H. exact (push_stack_nonempty p (mku tObjectTyped stp) H). Qed.

Lemma tobj_uctx p n stp st bt : uctx p -> u_t st <> tFail -> uctx (tobj p n stp st bt).
Proof.
  intros (H1 & H2 & H3 & H4) Hst. split; [exact H1|]. split; [exact H2|]. split; [discriminate|].
  intro H. exfalso. apply Hst. exact H.
Qed.

Lemma uexec_tobj p n stp st bt s b :
  (stp =? sStart) || (stp =? sWithType0) || (stp =? sWithType1) = false ->
  uexec_step (tobj p n stp st bt) s b = ufix (ocwrap true (ustep_obj_content (tobj p n stp st bt) s b true)).
Proof. intro H. rewrite uexec_step_eq. apply ex_objtyped; [reflexivity|exact H]. Qed.

Lemma tobj_fieldname p n st bt s b klen r1 : up_buf p = [] -> up_marker p = 0 -> (n =? 0) = false ->
  ubj_len b = LVal klen r1 ->
  uexec_step (tobj p n sFieldName st bt) s b = UR (ul_push (tobj p n sFieldNameLen st bt) klen) s r1 false unilE.
Proof.
  intros Hbuf Hmk Hn Hl. rewrite uexec_tobj by reflexivity.
  rewrite (oc_fieldname _ s b true klen r1) by (try reflexivity; assumption). reflexivity.
Qed.

Lemma tobj_key p n st bt s klen r1 key r2 : up_buf p = [] -> s_fail s = None -> take klen r1 = Some (key, r2) ->
  uexec_step (ul_push (tobj p n sFieldNameLen st bt) klen) s r1 =
  UR (tobj p n sCont st bt) (sadd s [EKeyRef key]) r2 false unilE.
Proof.
  intros Hbuf Hs Ht. rewrite uexec_step_eq, ex_objtyped by reflexivity.
  rewrite (oc_fieldnamelen _ s r1 true key r2) by (try reflexivity; assumption).
  cbn [ocwrap andb]. rewrite lpop_lpush. reflexivity.
Qed.

Lemma tobj_push p n st bt s b :
  uexec_step (tobj p n sCont st bt) s b = UR (u_push (tobj p (n - 1) sFieldName st bt) st) s b false unilE.
Proof. rewrite uexec_tobj by reflexivity. rewrite oc_push by reflexivity. reflexivity. Qed.

Lemma tobj_close p st bt s b : uctx p -> s_fail s = None ->
  uexec_step (tobj p 0 sFieldName st bt) s b = after_val (uset_vtype p bt) (sadd s [EObjEnd]) b.
Proof.
  intros Hp Hs. rewrite uexec_tobj by reflexivity. rewrite oc_close by (try reflexivity; exact Hs).
  cbn [ocwrap andb]. rewrite unil_nil. unfold tobj. rewrite typed_close by exact Hp. reflexivity.
Qed.

Lemma obj_typed_loop f t st : payload_spec f -> is_value_marker t = true -> marker_state t = Some st ->
  forall g n b acc v rest,
  obj_n (ubj_payload f t) g n b acc = RValue v rest -> 0 < n -> all_bytes b = true ->
  forall p s bt, uctx p -> s_fail s = None ->
  exists ms m vt, v = CObj (rev acc ++ map mval ms) /\
    forallb mwf ms = true /\ zlen ms = n /\ budget (m + 1) b rest /\ all_bytes rest = true /\
    reaches (uexec_step (tobj p n sFieldName st bt) s b)
            (after_val (uset_vtype p vt) (sadd s (flatten_members ms ++ [EObjEnd])) rest) m.
Proof.
  intros Hspec Hm Hst.
  assert (Hst1 : u_t st <> tFail).
  { destruct (marker_state_type _ _ Hst) as [E|[E|[E|[E|E]]]]; rewrite E; discriminate. }
  induction g as [|g IH]; intros n b acc v rest H Hn Hb p s bt Hp Hs.
  { rewrite obj_n_O in H. destruct (n <=? 0) eqn:E; [lia|discriminate]. }
  rewrite obj_n_S in H. destruct (n <=? 0) eqn:E; [lia|]. clear E.
  pose proof Hp as (Hbuf & Hmk & Hcur & Hv).
  assert (En : (n =? 0) = false) by lia.
  destruct (ukey_cases b) as [(k & r2 & Hk)|(e & Hk & He)];
    rewrite Hk in H; [|exfalso; destruct e; try discriminate; eapply He; reflexivity].
  destruct (ukey_inv _ _ _ Hk) as (klen & r1 & Hl & Ht).
  destruct (ubj_payload f t r2) as [v1 r3| | |] eqn:Hv1; try discriminate.
  destruct (ubj_len_facts _ _ _ Hl Hb) as (Hbr1 & Hk0 & Hlen & Hz).
  destruct (take_bytes _ _ _ _ Ht Hbr1) as [Hbk Hbr2].
  pose proof (take_some _ _ _ _ Ht) as (_ & Hkl & _ & _ & Hr1 & _).
  pose proof (ztc_take _ _ _ _ Ht) as Hz2.
  set (C := tobj p (n - 1) sFieldName st bt).
  assert (HC : uctx C) by (apply tobj_uctx; assumption).
  destruct (Hspec t st r2 v1 r3 Hv1 Hm Hst Hbr2 C (sadd s [EKeyRef k]) HC ltac:(rewrite sadd_fail; exact Hs))
    as (t1 & n1 & vt1 & Hwf1 & _ & Hcv1 & Hbud1 & Hbr3 & _ & Hreach1).
  unfold C in Hreach1.
  change (uset_vtype (tobj p (n - 1) sFieldName st bt) vt1) with (tobj p (n - 1) sFieldName st vt1) in Hreach1.
  rewrite after_val_ne in Hreach1 by (apply tobj_stack; exact Hcur).
  assert (Hfirst : reaches (uexec_step (tobj p n sFieldName st bt) s b)
            (UR (tobj p (n - 1) sFieldName st vt1) (sadd (sadd s [EKeyRef k]) (flatten t1)) r3 false unilE)
            (1 + (1 + (1 + n1)))).
  { rewrite (tobj_fieldname p n st bt s b klen r1) by assumption.
    apply reaches_step_then.
    { destruct (klen =? 0) eqn:Ek.
      - apply ucontb_can. assert (klen = 0) as -> by lia. reflexivity.
      - apply ucontb_pos. lia. }
    rewrite (tobj_key p n st bt s klen r1 k r2) by assumption.
    apply reaches_step_then; [apply ucontb_can; reflexivity|].
    rewrite tobj_push.
    apply reaches_step_then; [|exact Hreach1].
    destruct (zpay t) as [|z] eqn:Ez.
    - apply ucontb_can.
      assert (Hz0 : is_zero_sized st = true) by (apply (zero_sized_marker t); assumption).
      unfold can_step_without_input. change (up_cur (u_push (tobj p (n - 1) sFieldName st bt) st)) with st.
      unfold is_zero_sized in Hz0. apply andb_true_iff in Hz0 as [Hz1 Hz2']. rewrite Hz1.
      unfold is_zero_sized. rewrite Hz1, Hz2'. reflexivity.
    - apply ucontb_pos, nonempty_pos. intros ->. pose proof (payload_nonempty _ _ _ _ Hv1 Hm). lia. }
  assert (Hbytes : zlen r2 + 2 <= zlen b).
  { rewrite Hr1 in Hlen. rewrite zlen_app in Hlen. pose proof (zlen_nonneg k). lia. }
  destruct (n - 1 =? 0) eqn:En1.
  - assert (n = 1) by lia. subst n. change (1 - 1) with 0 in *.
    rewrite obj_n_zero in H. inversion H; subst v rest; clear H.
    exists [(k, true, t1)], ((1 + (1 + (1 + n1))) + (1 + 0))%nat, vt1.
    split; [cbn [rev map]; unfold mval; cbn [fst snd]; rewrite Hcv1; reflexivity|].
    split; [cbn [forallb]; unfold mwf; cbn [fst snd]; rewrite Hbk, Hwf1; reflexivity|]. split; [reflexivity|].
    split; [unfold budget in *; lia|]. split; [exact Hbr3|].
    eapply reaches_trans; [exact Hfirst|].
    apply reaches_step_then; [apply ucontb_can; reflexivity|].
    apply reaches_eq. rewrite tobj_close by (try exact Hp; rewrite !sadd_fail; exact Hs).
    rewrite !sadd_app, flatten_members_cons. cbn [key_event flatten_members flat_map app].
    rewrite app_nil_r. reflexivity.
  - destruct (IH (n - 1) r3 ((k, v1) :: acc) v rest H ltac:(lia) Hbr3 p
                (sadd (sadd s [EKeyRef k]) (flatten t1)) vt1
                Hp ltac:(rewrite !sadd_fail; exact Hs))
      as (ms & m' & vt & Hv' & Hwf & Hlen' & Hbud & Hbrest & Hreach).
    exists ((k, true, t1) :: ms), ((1 + (1 + (1 + n1))) + (1 + m'))%nat, vt.
    split; [rewrite Hv'; cbn [rev map]; rewrite <- app_assoc; unfold mval at 2; cbn [fst snd]; rewrite Hcv1; reflexivity|].
    split; [cbn [forallb]; unfold mwf at 1; cbn [fst snd]; rewrite Hbk, Hwf1, Hwf; reflexivity|].
    split; [rewrite zlen_cons; lia|].
    split; [unfold budget in *; lia|]. split; [exact Hbrest|].
    eapply reaches_trans; [exact Hfirst|].
    replace (sadd s (flatten_members ((k, true, t1) :: ms) ++ [EObjEnd]))
      with (sadd (sadd (sadd s [EKeyRef k]) (flatten t1)) (flatten_members ms ++ [EObjEnd])).
    2:{ rewrite !sadd_app, flatten_members_cons. cbn [key_event app]. rewrite <- app_assoc. reflexivity. }
    apply reaches_step_then; [|exact Hreach].
    apply ucontb_pos, nonempty_pos. intros ->.
    eapply (obj_n_nonempty (ubj_payload f t) g (n - 1)); [|exact H]. lia.
Qed.

(* ---------- the object payload ---------- *)
Lemma pl_obj_typed' f t c r2 :
  ubj_payload (S f) mObjS (mType :: t :: c :: r2) =
  if negb (is_value_marker t) then RMalformed else
  if negb (c =? mCount) then RMalformed else
  match ubj_len r2 with
  | LTrunc => RTruncated
  | LBad => RMalformed
  | LVal n r3 => obj_n (ubj_payload f t) (f + Z.to_nat (Z.min n 100001))%nat n r3 []
  end.
Proof. reflexivity. Qed.

Lemma wf_obj_intro n ms : n < 0 \/ n = zlen ms -> forallb mwf ms = true -> wf_tree (TObj n BAny ms) = true.
Proof.
  intros Hn Hw. rewrite wf_obj. unfold mwf in Hw. rewrite Hw.
  assert (forallb (fun m : bytes * bool * tree => tree_matches BAny (snd m)) ms = true) as ->
    by (apply forallb_forall; reflexivity).
  unfold len_ok. destruct Hn; lia.
Qed.

Lemma cv_obj n ms : cv (value_of (TObj n BAny ms)) = CObj (map mval ms).
Proof. cbn [value_of cv]. rewrite map_map. reflexivity. Qed.

Lemma object_goal f b v rest p s : payload_spec f ->
  ubj_payload (S f) mObjS b = RValue v rest -> all_bytes b = true -> uctx p -> s_fail s = None ->
  pgoal mObjS (mku tObject sStart) b v rest p s.
Proof.
  intros Hspec H Hb Hp Hs. pose proof Hp as (Hbuf & Hmk & Hcur & Hv).
  destruct b as [|h r]; [discriminate|].
  pose proof Hb as Hb'. rewrite all_bytes_cons in Hb'. apply andb_true_iff in Hb' as [_ Hbr].
  set (q0 := u_push p (mku tObject sStart)).
  assert (Hq0 : forall s0 b0, uexec_step q0 s0 b0 = ufix
    match b0 with
    | [] => UCrash 17
    | x :: r =>
        if x =? mCount then UR (u_push p (mku tObjectCount sStart)) s0 r false unilE
        else if x =? mType then UR (u_push p (mku tObjectTyped sStart)) s0 r false unilE
        else let '(s1, e) := uvis s0 (EObjStart (-1) BAny) in UR (odyn p sStart) s1 b0 false e
    end).
  { intros s0 b0. rewrite uexec_step_eq, ex_object by reflexivity. reflexivity. }
  unfold pgoal. fold q0. rewrite Hq0. change (zpay mObjS) with 2%nat.
  destruct (h =? mType) eqn:Ety.
  { (* typed *)
    assert (h = mType) by lia. subst h. change (mType =? mCount) with false. cbv iota.
    destruct r as [|t [|c r2]]; try discriminate H.
    { exfalso. revert H. change (ubj_payload (S f) mObjS [mType; t]) with
        (if negb (is_value_marker t) then RMalformed else RTruncated).
      destruct (negb (is_value_marker t)); discriminate. }
    rewrite pl_obj_typed' in H.
    destruct (is_value_marker t) eqn:Hm; [|discriminate]. cbn [negb] in H.
    destruct (c =? mCount) eqn:Ec; [|discriminate]. cbn [negb] in H.
    assert (c = mCount) by lia. subst c.
    destruct (ubj_len r2) as [n r3| |] eqn:Hl; try discriminate.
    destruct (marker_state_value t Hm) as (st & Hst).
    assert (Hbr2 : all_bytes r2 = true).
    { rewrite !all_bytes_cons in Hbr. apply andb_true_iff in Hbr as [_ Hbr].
      apply andb_true_iff in Hbr as [_ Hbr]. exact Hbr. }
    destruct (ubj_len_facts _ _ _ Hl Hbr2) as (Hbr3 & Hn0 & Hlen & Hz).
    pose proof (typed_header tObjectTyped p s t r2 n r3 st (or_intror eq_refl) Hp Hm Hst Hl) as Hhdr.
    set (bt := marker_btype t) in *.
    assert (Hztc : ztc r3 <= ztc (mType :: t :: mCount :: r2)).
    { pose proof (ztc_cons_ge mType (t :: mCount :: r2)).
      pose proof (ztc_cons_ge t (mCount :: r2)). pose proof (ztc_cons_ge mCount r2). lia. }
    change (ul_push (hdr p tObjectTyped sWithLen st bt) n) with (tobj p n sWithLen st bt) in Hhdr.
    destruct (n =? 0) eqn:En.
    - assert (n = 0) by lia. subst n. rewrite obj_n_zero in H. inversion H; subst v rest; clear H.
      exists (TObj 0 BAny []), (3 + (1 + 0))%nat, bt.
      split; [reflexivity|]. split; [reflexivity|]. split; [reflexivity|].
      split; [unfold budget; rewrite !zlen_cons; lia|]. split; [exact Hbr3|].
      rewrite ufix_ok. split; [apply vwrap_nd|].
      eapply reaches_trans; [exact Hhdr|].
      apply reaches_step_then; [apply ucontb_can; reflexivity|].
      apply reaches_eq. rewrite uexec_tobj by reflexivity.
      rewrite oc_withlen_zero by (try reflexivity; exact Hs).
      cbn [ocwrap andb]. rewrite unil_nil. unfold tobj. rewrite typed_close by exact Hp. reflexivity.
    - destruct (obj_typed_loop f t st Hspec Hm Hst _ n r3 [] v rest H ltac:(lia) Hbr3 p
                  (sadd s [EObjStart n BAny]) bt Hp ltac:(rewrite sadd_fail; exact Hs))
        as (ms & m & vt & Hv' & Hwf & Hlen' & Hbud & Hbrest & Hreach).
      exists (TObj n BAny ms), (3 + (1 + m))%nat, vt.
      split; [apply wf_obj_intro; [right; lia|exact Hwf]|]. split; [reflexivity|].
      split; [rewrite cv_obj, Hv'; reflexivity|].
      split; [unfold budget in *; rewrite !zlen_cons; lia|]. split; [exact Hbrest|].
      rewrite ufix_ok. split; [apply vwrap_nd|].
      eapply reaches_trans; [exact Hhdr|].
      rewrite flatten_obj.
      replace (sadd s (EObjStart n BAny :: flatten_members ms ++ [EObjEnd]))
        with (sadd (sadd s [EObjStart n BAny]) (flatten_members ms ++ [EObjEnd]))
        by (rewrite sadd_app; reflexivity).
      apply reaches_step_then.
      { apply ucontb_pos, nonempty_pos. intros ->.
        eapply (obj_n_nonempty (ubj_payload f t) _ n); [|exact H]. lia. }
      rewrite uexec_tobj by reflexivity.
      rewrite oc_withlen by (try reflexivity; try exact Hs; exact En).
      rewrite <- (uexec_tobj p n sFieldName st bt) by reflexivity. exact Hreach. }
  destruct (h =? mCount) eqn:Ecn.
  { (* counted *)
    assert (h = mCount) by lia. subst h. rewrite pl_obj_counted in H.
    destruct (ubj_len r) as [n r1| |] eqn:Hl; try discriminate.
    destruct (ubj_len_facts _ _ _ Hl Hbr) as (Hbr1 & Hn0 & Hlen & Hz).
    assert (Hlenstep : uexec_step (u_push p (mku tObjectCount sStart)) s r =
              UR (ocnt p n sWithLen) s r1 false unilE).
    { rewrite uexec_step_eq, ex_objcount_start by reflexivity.
      rewrite (ustep_len_ok _ r _ n r1) by assumption. reflexivity. }
    assert (Hr : 0 < zlen r).
    { destruct (ubj_len_rest _ _ _ Hl) as (pre & -> & Hpre). rewrite zlen_app. pose proof (zlen_nonneg r1). lia. }
    rewrite ufix_ok.
    destruct (n =? 0) eqn:En.
    - assert (n = 0) by lia. subst n. rewrite obj_n_zero in H. inversion H; subst v rest; clear H.
      exists (TObj 0 BAny []), (1 + (1 + 0))%nat, (up_vtype p).
      split; [reflexivity|]. split; [reflexivity|]. split; [reflexivity|].
      split; [unfold budget; rewrite !zlen_cons; pose proof (ztc_cons_ge mCount r); lia|]. split; [exact Hbr1|].
      split; [apply vwrap_nd|].
      apply reaches_step_then; [apply ucontb_pos; exact Hr|]. rewrite Hlenstep.
      apply reaches_step_then; [apply ucontb_can; reflexivity|].
      apply reaches_eq. rewrite uexec_ocnt by reflexivity.
      rewrite oc_withlen_zero by (try reflexivity; exact Hs).
      cbn [ocwrap andb]. rewrite unil_nil. unfold upop_len_state, ocnt.
      rewrite lpop_lpush, upop_state_push by exact Hcur. rewrite vtype_id. reflexivity.
    - destruct (obj_cnt_loop f Hspec f n r1 [] v rest H ltac:(lia) Hbr1 p
                  (sadd s [EObjStart n BAny]) Hp ltac:(rewrite sadd_fail; exact Hs))
        as (ms & m & vt & Hv' & Hwf & Hlen' & Hbud & Hbrest & Hreach).
      exists (TObj n BAny ms), (1 + (1 + m))%nat, vt.
      split; [apply wf_obj_intro; [right; lia|exact Hwf]|]. split; [reflexivity|].
      split; [rewrite cv_obj, Hv'; reflexivity|].
      split; [unfold budget in *; rewrite !zlen_cons; pose proof (ztc_cons_ge mCount r); lia|].
      split; [exact Hbrest|]. split; [apply vwrap_nd|].
      apply reaches_step_then; [apply ucontb_pos; exact Hr|]. rewrite Hlenstep.
      rewrite flatten_obj.
      replace (sadd s (EObjStart n BAny :: flatten_members ms ++ [EObjEnd]))
        with (sadd (sadd s [EObjStart n BAny]) (flatten_members ms ++ [EObjEnd]))
        by (rewrite sadd_app; reflexivity).
      apply reaches_step_then.
      { apply ucontb_pos, nonempty_pos. intros ->.
        eapply (obj_n_nonempty (uvalue f f) f n); [|exact H]. lia. }
      rewrite uexec_ocnt by reflexivity.
      rewrite oc_withlen by (try reflexivity; try exact Hs; exact En).
      rewrite <- (uexec_ocnt p n sFieldName) by reflexivity. exact Hreach. }
  (* plain *)
  rewrite pl_obj_plain in H by assumption.
  destruct (obj_plain_loop f Hspec f (h :: r) [] v rest H Hb p (sadd s [EObjStart (-1) BAny]) Hp
              ltac:(rewrite sadd_fail; exact Hs))
    as (ms & n & vt & Hv' & Hwf & Hbud & Hbrest & Hreach).
  exists (TObj (-1) BAny ms), (1 + n)%nat, vt.
  split; [apply wf_obj_intro; [left; lia|exact Hwf]|]. split; [reflexivity|].
  split; [rewrite cv_obj, Hv'; reflexivity|].
  split; [unfold budget in *; lia|]. split; [exact Hbrest|].
  rewrite uvis_ok by exact Hs. rewrite ufix_ok. split; [apply vwrap_nd|].
  rewrite flatten_obj.
  replace (sadd s (EObjStart (-1) BAny :: flatten_members ms ++ [EObjEnd]))
    with (sadd (sadd s [EObjStart (-1) BAny]) (flatten_members ms ++ [EObjEnd]))
    by (rewrite sadd_app; reflexivity).
  apply reaches_step_then; [apply ucontb_nonempty|exact Hreach].
Qed.

(* ====================================================================== *)
(* Part 10: every value, in any context                                     *)
(* ====================================================================== *)

Theorem payload_ok : forall f, payload_spec f.
Proof.
  induction f as [|f IH]; intros m st b v rest H Hm Hst Hb p s Hp Hs; [discriminate|].
  pose proof (value_marker_cases m Hm) as Hc.
  destruct Hc as [->|Hc].
  { inversion Hst; subst st. rewrite pl_Z in H. inversion H; subst v rest.
    apply (zero_goal mZ sNil (TVal SNil false));
      [reflexivity|left; repeat split; reflexivity|reflexivity|assumption..]. }
  destruct Hc as [->|Hc].
  { inversion Hst; subst st. rewrite pl_T in H. inversion H; subst v rest.
    apply (zero_goal mT sTrue (TVal (SBool true) false));
      [reflexivity|right; left; repeat split; reflexivity|reflexivity|assumption..]. }
  destruct Hc as [->|Hc].
  { inversion Hst; subst st. rewrite pl_F in H. inversion H; subst v rest.
    apply (zero_goal mF sFalse (TVal (SBool false) false));
      [reflexivity|right; right; repeat split; reflexivity|reflexivity|assumption..]. }
  destruct Hc as [->|Hc]. { inversion Hst; subst st. eapply fixed_goal; [apply row_i|eassumption..]. }
  destruct Hc as [->|Hc]. { inversion Hst; subst st. eapply fixed_goal; [apply row_U|eassumption..]. }
  destruct Hc as [->|Hc]. { inversion Hst; subst st. eapply fixed_goal; [apply row_I|eassumption..]. }
  destruct Hc as [->|Hc]. { inversion Hst; subst st. eapply fixed_goal; [apply row_l|eassumption..]. }
  destruct Hc as [->|Hc]. { inversion Hst; subst st. eapply fixed_goal; [apply row_L|eassumption..]. }
  destruct Hc as [->|Hc]. { inversion Hst; subst st. eapply fixed_goal; [apply row_d|eassumption..]. }
  destruct Hc as [->|Hc]. { inversion Hst; subst st. eapply fixed_goal; [apply row_D|eassumption..]. }
  destruct Hc as [->|Hc].
  { inversion Hst; subst st. eapply (string_goal mH tHighPrec); [right; split; reflexivity|eassumption..]. }
  destruct Hc as [->|Hc]. { inversion Hst; subst st. eapply fixed_goal; [apply row_C|eassumption..]. }
  destruct Hc as [->|Hc].
  { inversion Hst; subst st. eapply (string_goal mS tString); [left; split; reflexivity|eassumption..]. }
  destruct Hc as [->| ->].
  { inversion Hst; subst st. eapply object_goal; eassumption. }
  { inversion Hst; subst st. eapply array_goal; eassumption. }
Qed.
Print Assumptions payload_ok.

(* ====================================================================== *)
(* Part 11: whole-buffer Parse, accepted inputs (C06, C09)                  *)
(* ====================================================================== *)

Lemma uctx_top : uctx uparser0.
Proof.
  split; [reflexivity|]. split; [reflexivity|]. split; [discriminate|].
  intros _. split; reflexivity.
Qed.

Lemma ubj_value_S f m r : ubj_value (S f) (m :: r) =
  if m =? mN then ubj_value f r
  else if is_value_marker m then ubj_payload (S (length (m :: r))) m r else RMalformed.
Proof. reflexivity. Qed.

Lemma top_value : forall g b v rest, ubj_value g b = RValue v rest -> all_bytes b = true ->
  forall s, s_fail s = None ->
  exists t n vt, wf_tree t = true /\ cv (value_of t) = v /\
    Z.of_nat n + 3 * zlen rest + ztc rest <= 3 * zlen b + ztc b /\ all_bytes rest = true /\
    reaches (uexec_step uparser0 s b)
            (UR (uset_vtype uparser0 vt) (sadd s (flatten t)) rest true unilE) n.
Proof.
  induction g as [|g IH]; intros b v rest H Hb s Hs; [discriminate|].
  destruct b as [|m r]; [discriminate|]. rewrite ubj_value_S in H.
  pose proof Hb as Hb'. rewrite all_bytes_cons in Hb'. apply andb_true_iff in Hb' as [_ Hbr].
  assert (Hex : uexec_step uparser0 s (m :: r) = ufix (ustep_value uparser0 s (m :: r))).
  { rewrite uexec_step_eq. apply ex_next. reflexivity. }
  destruct (m =? mN) eqn:EN.
  - assert (m = mN) by lia. subst m.
    destruct (IH r v rest H Hbr s Hs) as (t & n & vt & Hwf & Hcv & Hbud & Hbrest & Hreach).
    exists t, (1 + n)%nat, vt. split; [exact Hwf|]. split; [exact Hcv|].
    split; [rewrite zlen_cons; pose proof (ztc_cons_ge mN r); lia|]. split; [exact Hbrest|].
    rewrite Hex, ustep_value_noop, ufix_ok.
    apply reaches_step_then; [|exact Hreach].
    apply ucontb_pos, nonempty_pos. intros ->. destruct g; discriminate.
  - destruct (is_value_marker m) eqn:Hm; [|discriminate].
    destruct (value_of_payload _ m r v rest uparser0 s (payload_ok _) H Hm Hbr uctx_top Hs)
      as (t & n & vt & Hwf & _ & Hcv & Hbud & Hbrest & Hreach).
    exists t, n, vt. split; [exact Hwf|]. split; [exact Hcv|].
    split; [unfold budget in Hbud; lia|]. split; [exact Hbrest|].
    change (vwrap uparser0 (ustep_value uparser0 s (m :: r))) with (ustep_value uparser0 s (m :: r)) in Hreach.
    change (after_val (uset_vtype uparser0 vt) (sadd s (flatten t)) rest)
      with (UR (uset_vtype uparser0 vt) (sadd s (flatten t)) rest true unilE) in Hreach.
    rewrite Hex, (ufix_reaches _ _ _ _ _ _ Hreach). exact Hreach.
Qed.

Lemma ufeed_S f p s b : ufeed (S f) p s b =
  if zlen b >? 0 then
    match ufeed_until (ufeed_fuel p b) p s b with
    | Ok (UR p1 s1 rest _ err) => if unil err then ufeed f p1 s1 rest else Ok (p1, s1, err)
    | Ok (UCrash w) => Panic w
    | Err e => Err e | Panic w => Panic w | OutOfFuel => OutOfFuel
    end
  else Ok (p, s, unilE).
Proof. reflexivity. Qed.

Theorem C06_accept : forall b v, all_bytes b = true -> (zlen b <=? 9223372036854775807) = true ->
  no_huge_zero_typed b = true ->
  ubj_decode b = RValue v [] ->
  exists evs t p, urun_parse None b = Ok (evs, unilE, p) /\ stream_tree evs = Some t /\
                  wf_tree t = true /\ cv (value_of t) = v.
Proof.
  intros b v Hb _ Hz H. unfold ubj_decode in H. unfold no_huge_zero_typed in Hz.
  destruct (top_value _ b v [] H Hb (sink0 None) eq_refl) as (t & n & vt & Hwf & Hcv & Hbud & _ & Hreach).
  change (zlen (@nil Z)) with 0 in Hbud. rewrite ztc_nil in Hbud.
  assert (Hne : b <> []) by (intros ->; discriminate H).
  exists (flatten t), (norm t), (uset_vtype uparser0 vt).
  split.
  - unfold urun_parse, up_parse.
    replace (2 * length b + 2)%nat with (S (S (2 * length b))) by lia.
    rewrite ufeed_S. destruct (zlen b >? 0) eqn:Ez; [|pose proof (nonempty_pos b Hne); lia].
    set (F := ufeed_fuel uparser0 b).
    assert (HF : (n + 1 <= F)%nat).
    { unfold F, ufeed_fuel. change (length (up_stack uparser0)) with 0%nat.
      assert (HK : Z.of_nat 8000 = 8000) by (vm_compute; reflexivity).
      unfold zlen in *. lia. }
    replace F with (S (n + (F - S n)))%nat by lia.
    rewrite ufeed_until_S, Hreach. cbn [ufu_cont orb]. rewrite unil_nil.
    rewrite ufeed_S. change (zlen (@nil Z) >? 0) with false. cbv iota. rewrite unil_nil.
    change (ufin (uset_vtype uparser0 vt) (sadd (sink0 None) (flatten t)))
      with (uset_vtype uparser0 vt, sadd (sink0 None) (flatten t), unilE).
    cbv beta iota. rewrite sadd_log. reflexivity.
  - split; [apply stream_tree_flatten|]. split; [rewrite wf_norm; exact Hwf|].
    rewrite value_of_norm. exact Hcv.
Qed.
Print Assumptions C06_accept.

Corollary C09_ubj_parser : forall b v, all_bytes b = true -> (zlen b <=? 9223372036854775807) = true ->
  no_huge_zero_typed b = true ->
  ubj_decode b = RValue v [] ->
  exists evs p, urun_parse None b = Ok (evs, unilE, p) /\ contract_ok evs = true.
Proof.
  intros b v Hb Hsz Hz H. destruct (C06_accept b v Hb Hsz Hz H) as (evs & t & p & Hrun & Hst & Hwf & _).
  exists evs, p. split; [exact Hrun|]. unfold contract_ok. rewrite Hst. exact Hwf.
Qed.
Print Assumptions C09_ubj_parser.

(* ====================================================================== *)
(* Part 12: the scope of an announced element type (C06_scope)              *)
(* ====================================================================== *)

(* the parser states p and p' agree on everything the type/count machinery uses:
   state stack, valueState stack (the element type of the enclosing optimized
   containers) and length stack *)
Definition same_stacks (p p' : uparser) : Prop :=
  up_cur p' = up_cur p /\ up_stack p' = up_stack p /\
  up_vcur p' = up_vcur p /\ up_vstack p' = up_vstack p /\
  up_lcur p' = up_lcur p /\ up_lstack p' = up_lstack p /\
  up_buf p' = up_buf p /\ up_marker p' = up_marker p /\ up_err p' = up_err p.

Lemma same_stacks_vtype p vt : same_stacks p (uset_vtype p vt).
Proof. repeat split. Qed.

(* One value (marker m, payload r) read by stepValue in ANY parser context p
   (top level, inside plain / counted / typed containers at any depth): the
   parser emits the events of a well-formed tree with the reference value and
   comes back to exactly the context it started from: in particular the
   element type state (up_vcur / up_vstack) of the enclosing typed containers
   is what it was before the value - a typed container nested in the value
   has restored it when it closed. *)
Theorem C06_scope : forall f m r v rest p s,
  ubj_payload f m r = RValue v rest -> is_value_marker m = true -> all_bytes r = true ->
  uctx p -> s_fail s = None ->
  exists t n p', wf_tree t = true /\ cv (value_of t) = v /\ all_bytes rest = true /\
    same_stacks p p' /\
    reaches (vwrap p (ustep_value p s (m :: r)))
            (UR p' (sadd s (flatten t)) rest (zlen (up_stack p) =? 0) unilE) n.
Proof.
  intros f m r v rest p s H Hm Hb Hp Hs.
  destruct (value_of_payload f m r v rest p s (payload_ok f) H Hm Hb Hp Hs)
    as (t & n & vt & Hwf & _ & Hcv & _ & Hbrest & Hreach).
  exists t, n, (uset_vtype p vt). split; [exact Hwf|]. split; [exact Hcv|]. split; [exact Hbrest|].
  split; [apply same_stacks_vtype|]. exact Hreach.
Qed.
Print Assumptions C06_scope.

(* Inside an open typed array ([$t#n, n > 0 elements to go, enclosing context p,
   element start state st = marker_state t): the next element is read as a
   payload of type t - whatever it contains, including nested optimized
   containers of other types -, its tree matches the announced BaseType, and the
   parser is back in the same typed array with the count decremented and the
   same element state. *)
Theorem C06_scope_typed_elem : forall f t st n b v rest p bt s,
  ubj_payload f t b = RValue v rest -> is_value_marker t = true -> marker_state t = Some st ->
  0 < n -> all_bytes b = true -> uctx p -> s_fail s = None ->
  exists tr k bt', wf_tree tr = true /\ tree_matches (marker_btype t) tr = true /\ cv (value_of tr) = v /\
    all_bytes rest = true /\
    up_vcur (tarr p (n - 1) st bt') = st /\ up_vstack (tarr p (n - 1) st bt') = up_vstack (tarr p n st bt) /\
    up_lcur (tarr p (n - 1) st bt') = n - 1 /\
    reaches (uexec_step (tarr p n st bt) s b)
            (UR (tarr p (n - 1) st bt') (sadd s (flatten tr)) rest false unilE) k.
Proof.
  intros f t st n b v rest p bt s H Hm Hst Hn Hb Hp Hs.
  assert (Hstt : u_t st <> tFail /\ u_t st <> tArrayTyped).
  { destruct (marker_state_type _ _ Hst) as [E|[E|[E|[E|E]]]]; rewrite E; split; discriminate. }
  destruct Hstt as [Hst1 Hst2]. pose proof Hp as (Hbuf & Hmk & Hcur & Hv).
  assert (En : (n =? 0) = false) by lia.
  set (C := tarr p (n - 1) st bt).
  assert (HC : uctx C) by (apply tarr_uctx; assumption).
  destruct (payload_ok f t st b v rest H Hm Hst Hb C s HC Hs)
    as (t1 & n1 & vt1 & Hwf1 & Hmat1 & Hcv1 & _ & Hbr1 & Hnd1 & Hreach1).
  rewrite vwrap_ne in Hnd1 by (apply tarr_stack; exact Hcur).
  unfold C in Hreach1. rewrite tarr_vtype, after_val_ne in Hreach1 by (apply tarr_stack; exact Hcur).
  exists t1, n1, vt1. split; [exact Hwf1|]. split; [exact Hmat1|]. split; [exact Hcv1|].
  split; [exact Hbr1|]. split; [reflexivity|]. split; [reflexivity|]. split; [reflexivity|].
  rewrite uexec_tarr, atyped_elem by exact En. rewrite uexec_fuel by exact Hst2.
  fold C. rewrite Hnd1. unfold C. rewrite (ufix_reaches _ _ _ _ _ _ Hreach1). exact Hreach1.
Qed.
Print Assumptions C06_scope_typed_elem.

(* ---------- the guard is needed: a typed array of 10000 nils in 7 bytes ---------- *)
Definition is_accepted (r : ref_result) : bool := match r with RValue _ [] => true | _ => false end.
Definition is_out_of_fuel {A} (r : res A) : bool := match r with OutOfFuel => true | _ => false end.

Example huge_zero_typed_counterexample :
  let b := [91; 36; 90; 35; 73; 39; 16] in     (* [$Z#I 10000 *)
  no_huge_zero_typed b = false /\
  is_accepted (ubj_decode b) = true /\
  is_out_of_fuel (urun_parse None b) = true.
Proof. cbv zeta. split; [vm_compute; reflexivity|]. split; vm_compute; reflexivity. Qed.

Example small_zero_typed_ok :
  let b := [91; 36; 84; 35; 105; 3] in           (* [$T#i 3 *)
  no_huge_zero_typed b = true /\
  ubj_decode b = RValue (CArr [CBool true; CBool true; CBool true]) [] /\
  exists p, urun_parse None b =
    Ok ([EArrStart 3 BBool; EVal (SBool true); EVal (SBool true); EVal (SBool true); EArrEnd], unilE, p).
Proof. vm_compute. split; [reflexivity|]. split; [reflexivity|]. eexists; reflexivity. Qed.
