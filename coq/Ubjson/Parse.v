(* L1: the UBJSON parser, ubjson/parse.go + stack.go + decode.go, function by
   function (after the fixes recorded in known-findings.txt). *)
From SF Require Import Base.Prelude Core.Events Ubjson.Spec.
Open Scope Z_scope.

(* error classes *)
Definition ueUnknownMarker := 1.
Definition ueIncomplete := 2.
Definition ueNegativeLen := 3.
Definition ueInvalidState := 4.
Definition ueMissingArrEnd := 5.
Definition ueMissingObjEnd := 6.
Definition ueMissingCount := 7.
Definition ueEOF := 8.
Definition unilE := -1.
Definition ueVisitor := 99.

(* stateType *)
Definition tFail := 0. Definition tNext := 1. Definition tFixed := 2. Definition tHighPrec := 3.
Definition tString := 4. Definition tArray := 5. Definition tArrayDyn := 6. Definition tArrayCount := 7.
Definition tArrayTyped := 8. Definition tObject := 9. Definition tObjectDyn := 10.
Definition tObjectCount := 11. Definition tObjectTyped := 12.
(* stateStep *)
Definition sStart := 0. Definition sNil := 1. Definition sNoop := 2. Definition sTrue := 3.
Definition sFalse := 4. Definition sInt8 := 5. Definition sUInt8 := 6. Definition sInt16 := 7.
Definition sInt32 := 8. Definition sInt64 := 9. Definition sFloat32 := 10. Definition sFloat64 := 11.
Definition sChar := 12. Definition sWithLen := 13. Definition sWithType0 := 14.
Definition sWithType1 := 15. Definition sCont := 16. Definition sFieldName := 17.
Definition sFieldNameLen := 18.

Record ustate := { u_t : Z; u_s : Z }.
Definition mku (t s : Z) : ustate := {| u_t := t; u_s := s |}.
Definition with_step (st : ustate) (s : Z) : ustate := mku (u_t st) s.

Record uparser := {
  up_cur : ustate; up_stack : list ustate;
  up_vcur : ustate; up_vstack : list ustate;      (* valueState *)
  up_lcur : Z; up_lstack : list Z;
  up_buf : bytes;
  up_marker : Z;                                   (* 0 = noMarker *)
  up_vtype : btype;
  up_err : Z                                       (* 0 = nil *)
}.

Definition uparser0 : uparser :=
  {| up_cur := mku tNext sStart; up_stack := []; up_vcur := mku tFail sStart; up_vstack := [];
     up_lcur := 0; up_lstack := []; up_buf := []; up_marker := 0; up_vtype := BAny; up_err := 0 |}.

Definition uset_cur (p : uparser) (c : ustate) : uparser :=
  {| up_cur := c; up_stack := up_stack p; up_vcur := up_vcur p; up_vstack := up_vstack p; up_lcur := up_lcur p;
     up_lstack := up_lstack p; up_buf := up_buf p; up_marker := up_marker p; up_vtype := up_vtype p; up_err := up_err p |}.
Definition uset_buf (p : uparser) (b : bytes) : uparser :=
  {| up_cur := up_cur p; up_stack := up_stack p; up_vcur := up_vcur p; up_vstack := up_vstack p; up_lcur := up_lcur p;
     up_lstack := up_lstack p; up_buf := b; up_marker := up_marker p; up_vtype := up_vtype p; up_err := up_err p |}.
Definition uset_lcur (p : uparser) (l : Z) : uparser :=
  {| up_cur := up_cur p; up_stack := up_stack p; up_vcur := up_vcur p; up_vstack := up_vstack p; up_lcur := l;
     up_lstack := up_lstack p; up_buf := up_buf p; up_marker := up_marker p; up_vtype := up_vtype p; up_err := up_err p |}.
Definition uset_marker (p : uparser) (m : Z) : uparser :=
  {| up_cur := up_cur p; up_stack := up_stack p; up_vcur := up_vcur p; up_vstack := up_vstack p; up_lcur := up_lcur p;
     up_lstack := up_lstack p; up_buf := up_buf p; up_marker := m; up_vtype := up_vtype p; up_err := up_err p |}.
Definition uset_err (p : uparser) (e : Z) : uparser :=
  {| up_cur := up_cur p; up_stack := up_stack p; up_vcur := up_vcur p; up_vstack := up_vstack p; up_lcur := up_lcur p;
     up_lstack := up_lstack p; up_buf := up_buf p; up_marker := up_marker p; up_vtype := up_vtype p; up_err := e |}.
Definition uset_step (p : uparser) (s : Z) : uparser := uset_cur p (with_step (up_cur p) s).
Definition uset_type (p : uparser) (t : Z) : uparser := uset_cur p (mku t (u_s (up_cur p))).

Definition u_push (p : uparser) (next : ustate) : uparser :=
  {| up_cur := next;
     up_stack := if u_t (up_cur p) =? tFail then up_stack p else up_cur p :: up_stack p;
     up_vcur := up_vcur p; up_vstack := up_vstack p; up_lcur := up_lcur p;
     up_lstack := up_lstack p; up_buf := up_buf p; up_marker := up_marker p; up_vtype := up_vtype p; up_err := up_err p |}.
Definition u_pop (p : uparser) : uparser :=
  match up_stack p with
  | [] => uset_cur p (mku tFail sStart)
  | c :: r =>
      {| up_cur := c; up_stack := r; up_vcur := up_vcur p; up_vstack := up_vstack p; up_lcur := up_lcur p;
         up_lstack := up_lstack p; up_buf := up_buf p; up_marker := up_marker p; up_vtype := up_vtype p; up_err := up_err p |}
  end.
Definition v_push (p : uparser) (next : ustate) (vt : btype) : uparser :=
  {| up_cur := up_cur p; up_stack := up_stack p;
     up_vcur := next;
     up_vstack := if u_t (up_vcur p) =? tFail then up_vstack p else up_vcur p :: up_vstack p;
     up_lcur := up_lcur p; up_lstack := up_lstack p; up_buf := up_buf p; up_marker := up_marker p;
     up_vtype := vt; up_err := up_err p |}.
Definition v_pop (p : uparser) : uparser :=
  match up_vstack p with
  | [] => {| up_cur := up_cur p; up_stack := up_stack p; up_vcur := mku tFail sStart; up_vstack := [];
             up_lcur := up_lcur p; up_lstack := up_lstack p; up_buf := up_buf p; up_marker := up_marker p;
             up_vtype := up_vtype p; up_err := up_err p |}
  | c :: r => {| up_cur := up_cur p; up_stack := up_stack p; up_vcur := c; up_vstack := r;
                 up_lcur := up_lcur p; up_lstack := up_lstack p; up_buf := up_buf p; up_marker := up_marker p;
                 up_vtype := up_vtype p; up_err := up_err p |}
  end.
Definition ul_push (p : uparser) (l : Z) : uparser :=
  {| up_cur := up_cur p; up_stack := up_stack p; up_vcur := up_vcur p; up_vstack := up_vstack p; up_lcur := l;
     up_lstack := up_lcur p :: up_lstack p; up_buf := up_buf p; up_marker := up_marker p; up_vtype := up_vtype p; up_err := up_err p |}.
Definition ul_pop (p : uparser) : uparser :=
  match up_lstack p with
  | [] => uset_lcur p (-1)
  | l :: r =>
      {| up_cur := up_cur p; up_stack := up_stack p; up_vcur := up_vcur p; up_vstack := up_vstack p; up_lcur := l;
         up_lstack := r; up_buf := up_buf p; up_marker := up_marker p; up_vtype := up_vtype p; up_err := up_err p |}
  end.

Inductive ures :=
| UR (p : uparser) (s : sink) (rest : bytes) (done : bool) (err : Z)
| UCrash (why : Z).

Definition uvis (s : sink) (e : event) : sink * Z :=
  let '(s', ok) := emit s e in (s', if ok then unilE else ueVisitor).
Definition unil (e : Z) : bool := e =? unilE.

Definition uzfirstn (n : Z) (b : bytes) : bytes := firstn (Z.to_nat n) b.
Definition uzskipn (n : Z) (b : bytes) : bytes := skipn (Z.to_nat n) b.

(* p.collect: identical code to cborl's *)
Inductive ucres := UC (p : uparser) (rest : bytes) (tmp : option bytes) | UCC.
Definition ucollect (p : uparser) (b : bytes) (count : Z) : ucres :=
  let fast (p : uparser) (b : bytes) :=
    if count <? 0 then UCC
    else if zlen b >=? count then UC p (uzskipn count b) (Some (uzfirstn count b))
    else UC (uset_buf p (up_buf p ++ b)) [] None in
  if zlen (up_buf p) >? 0 then
    let delta := count - zlen (up_buf p) in
    let '(p1, b1, incomplete) :=
      if delta >? 0 then
        if delta >? zlen b then (uset_buf p (up_buf p ++ b), [], true)
        else (uset_buf p (up_buf p ++ uzfirstn delta b), uzskipn delta b, false)
      else (p, b, false) in
    if incomplete then UC p1 [] None
    else if zlen (up_buf p1) >=? count then
      if count <? 0 then UCC else
      let tmp := uzfirstn count (up_buf p1) in
      if zlen (up_buf p1) =? count then UC (uset_buf p1 []) b1 (Some tmp)
      else UC (uset_buf p1 (uzskipn count (up_buf p1))) b1 (Some tmp)
    else fast p1 b1
  else fast p b.

(* popState: done = the state stack is empty after the pop *)
Definition upop_state (p : uparser) : uparser * bool :=
  let p1 := u_pop p in (p1, zlen (up_stack p1) =? 0).
Definition upop_len_state (p : uparser) : uparser * bool := upop_state (ul_pop p).

(* markerToStartState *)
Definition marker_state (m : Z) : option ustate :=
  if m =? mZ then Some (mku tFixed sNil)
  else if m =? mN then Some (mku tFixed sNoop)
  else if m =? mT then Some (mku tFixed sTrue)
  else if m =? mF then Some (mku tFixed sFalse)
  else if m =? mi then Some (mku tFixed sInt8)
  else if m =? mU then Some (mku tFixed sUInt8)
  else if m =? mI then Some (mku tFixed sInt16)
  else if m =? ml then Some (mku tFixed sInt32)
  else if m =? mL then Some (mku tFixed sInt64)
  else if m =? md then Some (mku tFixed sFloat32)
  else if m =? mD then Some (mku tFixed sFloat64)
  else if m =? mH then Some (mku tHighPrec sStart)
  else if m =? mC then Some (mku tFixed sChar)
  else if m =? mS then Some (mku tString sStart)
  else if m =? mObjS then Some (mku tObject sStart)
  else if m =? mArrS then Some (mku tArray sStart)
  else None.

Definition marker_btype (m : Z) : btype :=
  if (m =? mF) || (m =? mT) then BBool
  else if m =? mC then BByte
  else if m =? mi then BInt8
  else if m =? mU then BUint8
  else if m =? mI then BInt16
  else if m =? ml then BInt32
  else if m =? mL then BInt64
  else if m =? md then BFloat32
  else if m =? mD then BFloat64
  else if (m =? mH) || (m =? mS) then BString
  else BAny.

(* stepValue *)
Definition ustep_value (p : uparser) (s : sink) (b : bytes) : ures :=
  match b with
  | [] => UCrash 1
  | m :: r =>
      match marker_state m with
      | None => UR p s [] false ueUnknownMarker
      | Some st =>
          if u_s st =? sNil then let '(s1, e) := uvis s (EVal SNil) in UR p s1 r true e
          else if u_s st =? sNoop then UR p s r false unilE
          else if u_s st =? sTrue then let '(s1, e) := uvis s (EVal (SBool true)) in UR p s1 r true e
          else if u_s st =? sFalse then let '(s1, e) := uvis s (EVal (SBool false)) in UR p s1 r true e
          else UR (u_push p st) s r false unilE
      end
  end.

(* stepLen(b, cont): (parser, rest, err); Go returns a nil rest in several places *)
Inductive ulres := UL (p : uparser) (rest : bytes) (err : Z) | ULC (why : Z).
Definition ustep_len (p : uparser) (b : bytes) (cont : ustate) : ulres :=
  let go (p : uparser) (b : bytes) : ulres :=
    let m := up_marker p in
    let finish (p : uparser) (rest : bytes) (L : Z) : ulres :=
      if L <? 0 then UL p [] ueNegativeLen
      else UL (ul_push (uset_cur (uset_marker p 0) cont) L) rest unilE in
    let viacollect (k : Z) : ulres :=
      match ucollect p b k with
      | UCC => ULC 2
      | UC p1 rest None => UL p1 rest unilE
      | UC p1 rest (Some tmp) => finish p1 rest (wraps (8 * k) (be_dec tmp))
      end in
    if m =? mi then match b with [] => ULC 3 | x :: r => finish p r (wraps 8 x) end
    else if m =? mU then match b with [] => ULC 4 | x :: r => finish p r x end
    else if m =? mI then viacollect 2
    else if m =? ml then viacollect 4
    else if m =? mL then viacollect 8
    else UL p [] ueUnknownMarker in
  if up_marker p =? 0 then
    match b with
    | [] => ULC 5
    | m :: r =>
        if negb ((m =? mi) || (m =? mU) || (m =? mI) || (m =? ml) || (m =? mL))
        then UL (uset_marker p m) [] ueUnknownMarker
        else if zlen r =? 0 then UL (uset_marker p m) [] unilE else go (uset_marker p m) r
    end
  else go p b.

(* stepFixedValue *)
Definition ustep_fixed (p : uparser) (s : sink) (b : bytes) : ures :=
  let st := u_s (up_cur p) in
  let finish (p : uparser) (s : sink) (rest : bytes) (done : bool) (err : Z) : ures :=
    if done && unil err then let '(p1, d) := upop_state p in UR p1 s rest d unilE
    else UR p s rest done err in
  let viacollect (k : Z) (mk : Z -> event) : ures :=
    match ucollect p b k with
    | UCC => UCrash 6
    | UC p1 rest None => finish p1 s rest false unilE
    | UC p1 rest (Some tmp) => let '(s1, e) := uvis s (mk (be_dec tmp)) in finish p1 s1 rest true e
    end in
  if st =? sNil then let '(s1, e) := uvis s (EVal SNil) in finish p s1 b true e
  else if st =? sNoop then finish p s b false unilE
  else if st =? sTrue then let '(s1, e) := uvis s (EVal (SBool true)) in finish p s1 b true e
  else if st =? sFalse then let '(s1, e) := uvis s (EVal (SBool false)) in finish p s1 b true e
  else if st =? sInt8 then
    match b with [] => UCrash 7 | x :: r => let '(s1, e) := uvis s (EVal (SNum KInt8 (wraps 8 x))) in finish p s1 r true e end
  else if st =? sUInt8 then
    match b with [] => UCrash 8 | x :: r => let '(s1, e) := uvis s (EVal (SNum KUint8 x)) in finish p s1 r true e end
  else if st =? sChar then viacollect 1 (fun v => EVal (SNum KByte v))
  else if st =? sInt16 then viacollect 2 (fun v => EVal (SNum KInt16 (wraps 16 v)))
  else if st =? sInt32 then viacollect 4 (fun v => EVal (SNum KInt32 (wraps 32 v)))
  else if st =? sInt64 then viacollect 8 (fun v => EVal (SNum KInt64 (wraps 64 v)))
  else if st =? sFloat32 then viacollect 4 (fun v => EVal (SNum KFloat32 v))
  else if st =? sFloat64 then viacollect 8 (fun v => EVal (SNum KFloat64 v))
  else UR p s b false unilE.

(* stepString (also for high precision numbers) *)
Definition ustep_string (p : uparser) (s : sink) (b : bytes) : ures :=
  let with_len (p : uparser) (s : sink) (b : bytes) : ures :=
    let L := up_lcur p in
    let fin (p : uparser) (s : sink) (rest : bytes) (done : bool) (err : Z) : ures :=
      (* "if done && err == nil { done, err = p.popLenState() }" *)
      if done && unil err then let '(p1, d) := upop_len_state p in UR p1 s rest d unilE
      else UR p s rest done err in
    if L =? 0 then let '(s1, e) := uvis s (EVal (SStr [])) in fin p s1 b true e
    else
      match ucollect p b L with
      | UCC => UCrash 9
      | UC p1 rest None => fin p1 s rest false unilE
      | UC p1 rest (Some tmp) => let '(s1, e) := uvis s (EStrRef tmp) in fin p1 s1 rest true e
      end in
  if u_s (up_cur p) =? sStart then
    match ustep_len p b (with_step (up_cur p) sWithLen) with
    | ULC w => UCrash w
    | UL p1 rest err =>
        if unil err && (u_s (up_cur p1) =? sWithLen) then with_len p1 s rest
        else UR p1 s rest false err
    end
  else if u_s (up_cur p) =? sWithLen then with_len p s b
  else UR p s b false unilE.

(* stepType *)
Definition ustep_type (p : uparser) (b : bytes) (cont : ustate) : ulres :=
  match b with
  | [] => ULC 10
  | m :: r =>
      let p1 := uset_cur p cont in
      match marker_state m with
      | None => UL p1 [] ueUnknownMarker
      | Some st =>
          if m =? mN then UL p1 [] ueUnknownMarker
          else UL (v_push p1 st (marker_btype m)) r unilE
      end
  end.

(* stepTypeLenHeader(b, stWithLen) *)
Definition ustep_header (p : uparser) (b : bytes) : ulres :=
  let st := up_cur p in
  if u_s st =? sStart then ustep_type p b (with_step st sWithType0)
  else if u_s st =? sWithType0 then
    match b with
    | [] => ULC 11
    | c :: r => if negb (c =? mCount) then UL p b ueMissingCount else UL (uset_cur p (with_step st sWithType1)) r unilE
    end
  else if u_s st =? sWithType1 then ustep_len p b (with_step st sWithLen)
  else UL p b unilE.

Definition of_ul (r : ulres) (s : sink) : ures :=
  match r with ULC w => UCrash w | UL p rest err => UR p s rest false err end.

(* discard stepValue's done flag: "b, _, err := p.stepValue(b); return b, false, err" *)
Definition value_nodone (r : ures) : ures :=
  match r with UR p s rest _ err => UR p s rest false err | c => c end.

Definition is_zero_sized (st : ustate) : bool :=
  (u_t st =? tFixed) && ((u_s st =? sNil) || (u_s st =? sTrue) || (u_s st =? sFalse)).

(* stepObjectCountedContent: (end, parser, sink, rest, err) *)
Inductive ocres := OC (fin : bool) (p : uparser) (s : sink) (rest : bytes) (err : Z) | OCC (why : Z).
Definition ustep_obj_content (p : uparser) (s : sink) (b : bytes) (typed : bool) : ocres :=
  let step := u_s (up_cur p) in
  let close (fin : bool) (p : uparser) (s : sink) (rest : bytes) (err : Z) : ocres :=
    if fin then let '(s1, e) := uvis s EObjEnd in OC true p s1 rest e else OC false p s rest err in
  let field_name (p : uparser) (s : sink) (b : bytes) : ocres :=
    if up_lcur p =? 0 then close true p s b unilE
    else match ustep_len p b (with_step (up_cur p) sFieldNameLen) with
         | ULC w => OCC w
         | UL p1 rest err => close false p1 s rest err
         end in
  if step =? sWithLen then
    let L := up_lcur p in
    let '(s1, e) := uvis s (EObjStart L BAny) in
    if negb (unil e) then OC false p s1 b e
    else if L =? 0 then close true p s1 b unilE
    else field_name (uset_step p sFieldName) s1 b
  else if step =? sFieldName then field_name p s b
  else if step =? sFieldNameLen then
    match (if up_lcur p =? 0 then UC p b (Some []) else ucollect p b (up_lcur p)) with
    | UCC => OCC 12
    | UC p1 rest None => close false p1 s rest unilE
    | UC p1 rest (Some tmp) =>
        let p2 := ul_pop p1 in
        let '(s1, e) := uvis s (EKeyRef tmp) in
        close false (uset_step p2 sCont) s1 rest e
    end
  else if step =? sCont then
    match b with
    | [] =>
        if typed then
          let p1 := uset_step (uset_lcur p (up_lcur p - 1)) sFieldName in
          close false (u_push p1 (up_vcur p1)) s b unilE
        else OCC 13      (* b[0] on empty input *)
    | x :: r =>
        if negb typed && (x =? mN) then close false p s r unilE
        else
          let p1 := uset_step (uset_lcur p (up_lcur p - 1)) sFieldName in
          if typed then close false (u_push p1 (up_vcur p1)) s b unilE
          else match value_nodone (ustep_value p1 s b) with
               | UCrash w => OCC w
               | UR p2 s2 rest _ err => close false p2 s2 rest err
               end
    end
  else close false p s b unilE.

(* execStep; the typed array case calls execStep recursively once (fuel 2 suffices:
   the pushed element state is never a typed array state) *)
Fixpoint uexec (fuel : nat) (p : uparser) (s : sink) (b : bytes) : ures :=
  match fuel with
  | O => UCrash 99
  | S f =>
  let t := u_t (up_cur p) in
  let step := u_s (up_cur p) in
  let r :=
    if t =? tFail then UR p s b false (if up_err p =? 0 then unilE else up_err p)
    else if t =? tNext then ustep_value p s b
    else if t =? tFixed then ustep_fixed p s b
    else if (t =? tHighPrec) || (t =? tString) then ustep_string p s b
    else if t =? tArray then
      match b with
      | [] => UCrash 14
      | x :: r =>
          if x =? mCount then UR (uset_type p tArrayCount) s r false unilE
          else if x =? mType then UR (uset_type p tArrayTyped) s r false unilE
          else let '(s1, e) := uvis s (EArrStart (-1) BAny) in UR (uset_type p tArrayDyn) s1 b false e
      end
    else if t =? tArrayDyn then
      match b with
      | [] => UCrash 15
      | x :: r =>
          if x =? mArrE then
            let '(s1, e) := uvis s EArrEnd in
            if unil e then let '(p1, d) := upop_state p in UR p1 s1 r d unilE else UR p s1 r true e
          else
            let p1 := if step =? sStart then uset_step p sCont else p in
            value_nodone (ustep_value p1 s b)
      end
    else if t =? tArrayCount then
      if step =? sStart then of_ul (ustep_len p b (with_step (up_cur p) sWithLen)) s
      else
        let l := up_lcur p in
        let '(p1, s1, e0) :=
          if step =? sWithLen then let '(s1, e) := uvis s (EArrStart l BAny) in (uset_step p sCont, s1, e)
          else (p, s, unilE) in
        if negb (unil e0) then UR p1 s1 b false e0
        else if l =? 0 then
          let '(s2, e) := uvis s1 EArrEnd in
          if unil e then let '(p2, d) := upop_len_state p1 in UR p2 s2 b d unilE else UR p1 s2 b true e
        else
          match b with
          | [] => UCrash 16
          | x :: r =>
              if x =? mN then UR p1 s1 r false unilE
              else value_nodone (ustep_value (uset_lcur p1 (up_lcur p1 - 1)) s1 b)
          end
    else if t =? tArrayTyped then
      if (step =? sStart) || (step =? sWithType0) || (step =? sWithType1) then of_ul (ustep_header p b) s
      else
        let l := up_lcur p in
        let '(p1, s1, e0) :=
          if step =? sWithLen then let '(s1, e) := uvis s (EArrStart l (up_vtype p)) in (uset_step p sCont, s1, e)
          else (p, s, unilE) in
        if negb (unil e0) then UR p1 s1 b false e0
        else if l =? 0 then
          let '(s2, e) := uvis s1 EArrEnd in
          if unil e then let '(p2, d) := upop_len_state (v_pop p1) in UR p2 s2 b d unilE else UR p1 s2 b true e
        else
          let p2 := uset_lcur p1 (up_lcur p1 - 1) in
          value_nodone (uexec f (u_push p2 (up_vcur p2)) s1 b)
    else if t =? tObject then
      match b with
      | [] => UCrash 17
      | x :: r =>
          if x =? mCount then UR (uset_type p tObjectCount) s r false unilE
          else if x =? mType then UR (uset_type p tObjectTyped) s r false unilE
          else let '(s1, e) := uvis s (EObjStart (-1) BAny) in UR (uset_type p tObjectDyn) s1 b false e
      end
    else if (t =? tObjectDyn) && (step =? sFieldNameLen) && (up_lcur p =? 0) then
      let p2 := ul_pop p in
      let '(s1, e) := uvis s (EKeyRef []) in
      UR (uset_step p2 sCont) s1 b false e
    else if t =? tObjectDyn then
      match b with
      | [] => UCrash 18
      | x :: r =>
          if (step =? sStart) && (up_marker p =? 0) && (x =? mObjE) then
            let '(s1, e) := uvis s EObjEnd in
            if unil e then let '(p1, d) := upop_state p in UR p1 s1 r d unilE else UR p s1 r true e
          else if step =? sStart then of_ul (ustep_len p b (with_step (up_cur p) sFieldNameLen)) s
          else if step =? sFieldNameLen then
            match ucollect p b (up_lcur p) with
            | UCC => UCrash 19
            | UC p1 rest None => UR p1 s rest false unilE
            | UC p1 rest (Some tmp) =>
                let p2 := ul_pop p1 in
                let '(s1, e) := uvis s (EKeyRef tmp) in
                UR (uset_step p2 sCont) s1 rest false e
            end
          else if step =? sCont then
            if x =? mN then UR p s r false unilE
            else value_nodone (ustep_value (uset_step p sStart) s b)
          else UR p s b false unilE
      end
    else if t =? tObjectCount then
      if step =? sStart then of_ul (ustep_len p b (with_step (up_cur p) sWithLen)) s
      else
        match ustep_obj_content p s b false with
        | OCC w => UCrash w
        | OC fin p1 s1 rest err =>
            if fin && unil err then let '(p2, d) := upop_len_state p1 in UR p2 s1 rest d unilE
            else UR p1 s1 rest fin err
        end
    else if t =? tObjectTyped then
      if (step =? sStart) || (step =? sWithType0) || (step =? sWithType1) then of_ul (ustep_header p b) s
      else
        match ustep_obj_content p s b true with
        | OCC w => UCrash w
        | OC fin p1 s1 rest err =>
            if fin && unil err then let '(p2, d) := upop_len_state (v_pop p1) in UR p2 s1 rest d unilE
            else UR p1 s1 rest fin err
        end
    else UR p s b false ueInvalidState in
  (* "if err != nil { p.err = err }" *)
  match r with
  | UR p1 s1 rest d err => if unil err then r else UR (uset_err p1 err) s1 rest d err
  | c => c
  end
  end.

Definition uexec_step := uexec 3.

Definition can_step_without_input (p : uparser) : bool :=
  let st := up_cur p in
  let t := u_t st in
  let s := u_s st in
  if t =? tFixed then is_zero_sized st
  else if t =? tArrayCount then ((s =? sWithLen) || (s =? sCont)) && (up_lcur p =? 0)
  else if t =? tArrayTyped then ((s =? sWithLen) || (s =? sCont)) && ((up_lcur p =? 0) || is_zero_sized (up_vcur p))
  else if t =? tObjectDyn then (s =? sFieldNameLen) && (up_lcur p =? 0)
  else if t =? tObjectCount then ((s =? sWithLen) || (s =? sFieldName) || (s =? sFieldNameLen)) && (up_lcur p =? 0)
  else if t =? tObjectTyped then (s =? sCont) || (((s =? sWithLen) || (s =? sFieldName) || (s =? sFieldNameLen)) && (up_lcur p =? 0))
  else false.

Fixpoint ufeed_until (fuel : nat) (p : uparser) (s : sink) (b : bytes) : res ures :=
  match fuel with
  | O => OutOfFuel
  | S f =>
      match uexec_step p s b with
      | UCrash w => Panic w
      | UR p1 s1 rest done err =>
          if done || negb (unil err) then Ok (UR p1 s1 rest done err)
          else if (zlen rest =? 0) && negb (can_step_without_input p1) then Ok (UR p1 s1 rest done err)
          else ufeed_until f p1 s1 rest
      end
  end.

(* each iteration consumes a byte, moves a header sub-state forward, or (typed
   containers of zero-sized elements) decrements a count: the count is unbounded,
   so fuel includes the counts announced by the input. *)
Definition ufeed_fuel (p : uparser) (b : bytes) : nat :=
  8 * length b + 16 + 8000 + 4 * length (up_stack p).

Fixpoint ufeed (fuel : nat) (p : uparser) (s : sink) (b : bytes) : res (uparser * sink * Z) :=
  match fuel with
  | O => OutOfFuel
  | S f =>
      if zlen b >? 0 then
        match ufeed_until (ufeed_fuel p b) p s b with
        | Ok (UR p1 s1 rest _ err) => if unil err then ufeed f p1 s1 rest else Ok (p1, s1, err)
        | Ok (UCrash w) => Panic w
        | Err e => Err e | Panic w => Panic w | OutOfFuel => OutOfFuel
        end
      else Ok (p, s, unilE)
  end.

(* finalize *)
Fixpoint ufinalize (fuel : nat) (p : uparser) (s : sink) : uparser * sink * Z :=
  match fuel with
  | O => (p, s, ueIncomplete)
  | S f =>
      if zlen (up_stack p) >? 0 then
        let t := u_t (up_cur p) in
        if (t =? tArrayCount) || (t =? tArrayTyped) then
          if negb (up_lcur p =? 0) || negb (u_s (up_cur p) =? sCont) then (p, s, ueMissingArrEnd)
          else let '(s1, e) := uvis s EArrEnd in
               if unil e then ufinalize f (fst (upop_len_state p)) s1 else (p, s1, e)
        else if (t =? tObjectCount) || (t =? tObjectTyped) then
          if negb (up_lcur p =? 0) || negb (u_s (up_cur p) =? sFieldName) then (p, s, ueMissingObjEnd)
          else let '(s1, e) := uvis s EObjEnd in
               if unil e then ufinalize f (fst (upop_len_state p)) s1 else (p, s1, e)
        else (p, s, ueIncomplete)
      else
        if negb (u_s (up_cur p) =? sStart) || negb (u_t (up_cur p) =? tNext) then (p, s, ueIncomplete)
        else (p, s, unilE)
  end.

Definition ufin (p : uparser) (s : sink) := ufinalize (S (length (up_stack p))) p s.

(* Parser.Write: latches stFail on error *)
Definition up_write (p : uparser) (s : sink) (b : bytes) : res (uparser * sink * Z) :=
  match ufeed (2 * length b + 2) p s b with
  | Ok (p1, s1, err) =>
      if unil err then Ok (uset_err p1 0, s1, err)
      else Ok (uset_cur (uset_err p1 err) (mku tFail sStart), s1, err)
  | r => r
  end.

Definition up_parse (p : uparser) (s : sink) (b : bytes) : res (uparser * sink * Z) :=
  match ufeed (2 * length b + 2) p s b with
  | Ok (p1, s1, err) => if unil err then Ok (ufin p1 s1) else Ok (p1, s1, err)
  | r => r
  end.

Fixpoint up_writes (p : uparser) (s : sink) (chunks : list bytes) : res (uparser * sink * Z) :=
  match chunks with
  | [] => Ok (ufin p s)
  | c :: r =>
      match up_write p s c with
      | Ok (p1, s1, err) => if unil err then up_writes p1 s1 r else Ok (p1, s1, err)
      | x => x
      end
  end.

Definition urun_chunks (vfail : option nat) (chunks : list bytes) : res (list event * Z * uparser) :=
  match up_writes uparser0 (sink0 vfail) chunks with
  | Ok (p, s, err) => Ok (s_log s, err, p)
  | Err e => Err e | Panic w => Panic w | OutOfFuel => OutOfFuel
  end.

Definition urun_parse (vfail : option nat) (b : bytes) : res (list event * Z * uparser) :=
  match up_parse uparser0 (sink0 vfail) b with
  | Ok (p, s, err) => Ok (s_log s, err, p)
  | Err e => Err e | Panic w => Panic w | OutOfFuel => OutOfFuel
  end.

(* ---------- Decoder ---------- *)
Record udecoder := { ud_p : uparser; ud_buf : bytes; ud_script : list (bytes * Z); ud_bytesdec : bool }.

Fixpoint udec_next (fuel : nat) (d : udecoder) (s : sink) : res (udecoder * sink * Z) :=
  match fuel with
  | O => OutOfFuel
  | S f =>
      let fill : udecoder * sink + (udecoder * sink * Z) :=
        if zlen (ud_buf d) =? 0 then
          if ud_bytesdec d then
            let '(p1, s1, e) := ufin (ud_p d) s in
            inr ({| ud_p := p1; ud_buf := []; ud_script := ud_script d; ud_bytesdec := true |}, s1, if unil e then ueEOF else e)
          else
            match ud_script d with
            | [] =>
                let '(p1, s1, e) := ufin (ud_p d) s in
                inr ({| ud_p := p1; ud_buf := []; ud_script := []; ud_bytesdec := false |}, s1, if unil e then ueEOF else e)
            | (data, err) :: rest =>
                let d1 := {| ud_p := ud_p d; ud_buf := data; ud_script := rest; ud_bytesdec := false |} in
                if (zlen data =? 0) && negb (err =? 0) then
                  if err =? ueEOF then
                    let '(p1, s1, e) := ufin (ud_p d) s in
                    inr ({| ud_p := p1; ud_buf := []; ud_script := rest; ud_bytesdec := false |}, s1, if unil e then ueEOF else e)
                  else inr (d1, s, err)
                else inl (d1, s)
            end
        else inl (d, s) in
      match fill with
      | inr r => Ok r
      | inl (d1, s0) =>
          (* a Read that returned (0, nil): read again, nothing is fed *)
          if (zlen (ud_buf d1) =? 0) then udec_next f d1 s0 else
          match ufeed_until (ufeed_fuel (ud_p d1) (ud_buf d1)) (ud_p d1) s0 (ud_buf d1) with
          | Ok (UR p1 s1 rest done err) =>
              let d2 := {| ud_p := p1; ud_buf := rest; ud_script := ud_script d1; ud_bytesdec := ud_bytesdec d1 |} in
              if negb (unil err) then Ok ({| ud_p := p1; ud_buf := ud_buf d1; ud_script := ud_script d1; ud_bytesdec := ud_bytesdec d1 |}, s1, err)
              else if done then Ok (d2, s1, unilE)
              else udec_next f d2 s1
          | Ok (UCrash w) => Panic w
          | Err e => Err e | Panic w => Panic w | OutOfFuel => OutOfFuel
          end
      end
  end.
